//! `pool` suite: histories against dhcp::pool::Pool (C01 C09 C10 C13 C18 C20).
use crate::util::*;
use crate::{VCLOCK, VCLOCK_STEP};
use erbium::dhcp::pool;
use std::sync::atomic::Ordering;

pub fn rows(p: &mut pool::Pool) -> String {
    match p.get_leases() {
        Ok(mut l) => {
            l.sort();
            if l.is_empty() {
                "-".into()
            } else {
                l.iter()
                    .map(|r| format!("{},{},{},{},{}", u32::from(r.ip), hex(&r.client_id), r.start, r.expire, hex(&r.options)))
                    .collect::<Vec<_>>()
                    .join("/")
            }
        }
        Err(e) => format!("rows-error:{:?}", e).replace(' ', "_"),
    }
}

pub fn errkind(e: &pool::Error) -> String {
    match e {
        pool::Error::DbError(_) => "DbError".into(),
        pool::Error::CorruptDatabase(_) => "CorruptDatabase".into(),
        pool::Error::NoAssignableAddress => "NoAssignableAddress".into(),
        pool::Error::RequestedAddressInUse => "RequestedAddressInUse".into(),
    }
}

pub struct TmpDb {
    pub path: std::path::PathBuf,
}
impl TmpDb {
    pub fn new() -> TmpDb {
        static N: std::sync::atomic::AtomicU64 = std::sync::atomic::AtomicU64::new(0);
        let base = std::env::var("VERIF_TMP").unwrap_or_else(|_| "/dev/shm".into());
        let path = std::path::PathBuf::from(format!(
            "{}/erbium-verif-{}-{}.sqlite",
            base,
            std::process::id(),
            N.fetch_add(1, Ordering::SeqCst)
        ));
        let _ = std::fs::remove_file(&path);
        TmpDb { path }
    }
}
impl Drop for TmpDb {
    fn drop(&mut self) {
        let _ = std::fs::remove_file(&self.path);
        let _ = std::fs::remove_file(format!("{}-journal", self.path.display()));
    }
}

pub fn history(toks: &[&str]) -> String {
    let t0: i64 = num(toks, "t0");
    let disk = kv_opt(toks, "db").unwrap_or("mem") == "disk";
    VCLOCK.store(t0, Ordering::SeqCst);
    VCLOCK_STEP.store(0, Ordering::SeqCst);
    let tmp = TmpDb::new();
    let open = |tmp: &TmpDb| -> pool::Pool {
        if disk {
            pool::Pool::verif_open(&tmp.path).expect("harness: open")
        } else {
            pool::Pool::new_in_memory().expect("harness: open")
        }
    };
    let mut p = open(&tmp);
    let mut out = vec![];
    for op in kv(toks, "ops").split(';') {
        let f: Vec<&str> = op.split(':').collect();
        let res = match f[0] {
            "a" => {
                let client = unhex(f[1]);
                let req = if f[2] == "-" { None } else { Some(ip4(f[2].parse().expect("req"))) };
                let addrs: pool::PoolAddresses = if f[3] == "-" {
                    Default::default()
                } else {
                    f[3].split(',').map(|a| ip4(a.parse().expect("addr"))).collect()
                };
                let lo = std::time::Duration::from_secs(f[4].parse().expect("lo"));
                let hi = std::time::Duration::from_secs(f[5].parse().expect("hi"));
                let opts = unhex(f[6]);
                match p.allocate_address(&client, req, &addrs, lo, hi, &opts) {
                    Ok(l) => format!("ok:{}:{:?}:{}", u32::from(l.ip), l.lease_type, l.expire.as_secs()),
                    Err(e) => format!("err:{}", errkind(&e)),
                }
            }
            "t" => {
                let n: i64 = f[1].parse().expect("tick");
                VCLOCK.fetch_add(n, Ordering::SeqCst);
                "-".into()
            }
            "k" => {
                VCLOCK_STEP.store(f[1].parse().expect("step"), Ordering::SeqCst);
                "-".into()
            }
            "r" => {
                if disk {
                    drop(p);
                    p = open(&tmp);
                }
                "-".into()
            }
            "m" => match p.get_pool_metrics() {
                Ok((a, e)) => format!("m:{}:{}", a, e),
                Err(_) => "merr".into(),
            },
            _ => panic!("harness: bad op"),
        };
        // reading the table must not disturb the virtual clock
        let step = VCLOCK_STEP.swap(0, Ordering::SeqCst);
        let r = rows(&mut p);
        VCLOCK_STEP.store(step, Ordering::SeqCst);
        out.push(format!("{}@{}", res, r));
    }
    VCLOCK_STEP.store(0, Ordering::SeqCst);
    VCLOCK.store(-1, Ordering::SeqCst);
    out.join(";")
}
