pub fn hex(b: &[u8]) -> String {
    if b.is_empty() {
        return "-".into();
    }
    b.iter().map(|x| format!("{:02x}", x)).collect()
}

pub fn unhex(s: &str) -> Vec<u8> {
    if s == "-" {
        return vec![];
    }
    let s = s.as_bytes();
    assert!(s.len() % 2 == 0, "odd hex");
    (0..s.len() / 2)
        .map(|i| u8::from_str_radix(std::str::from_utf8(&s[2 * i..2 * i + 2]).unwrap(), 16).expect("hex"))
        .collect()
}

pub fn kv<'a>(toks: &[&'a str], k: &str) -> &'a str {
    for t in toks {
        if let Some((a, b)) = t.split_once('=') {
            if a == k {
                return b;
            }
        }
    }
    panic!("harness: missing key {}", k);
}

pub fn kv_opt<'a>(toks: &[&'a str], k: &str) -> Option<&'a str> {
    for t in toks {
        if let Some((a, b)) = t.split_once('=') {
            if a == k {
                return Some(b);
            }
        }
    }
    None
}

pub fn num<T: std::str::FromStr>(toks: &[&str], k: &str) -> T
where
    T::Err: std::fmt::Debug,
{
    kv(toks, k).parse::<T>().expect("harness: number")
}

pub fn ip4(n: u32) -> std::net::Ipv4Addr {
    std::net::Ipv4Addr::from(n)
}
