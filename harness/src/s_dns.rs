//! DNS function-level suites through the `dns::verif` hooks: token bucket, rate limiter and
//! cookies (C16), cache (C06), wire format (C14/C04/C03/C05).
use crate::util::*;
use crate::VCLOCK;
use erbium::dns::dnspkt;
use erbium::dns::verif;
use erbium_net::addr::WithPort as _;
use std::sync::atomic::{AtomicU32, Ordering};

pub fn rt() -> tokio::runtime::Runtime {
    tokio::runtime::Builder::new_current_thread().enable_all().start_paused(true).build().expect("harness: runtime")
}

static BUCKET_NOW: AtomicU32 = AtomicU32::new(0);
pub struct VClock;
impl verif::Clock for VClock {
    fn now() -> u32 {
        BUCKET_NOW.load(Ordering::SeqCst)
    }
}

/// `bucket ops=c:<cost>@<t>;d:<cost>@<t>;…` on a fresh GenericTokenBucket under a virtual Clock
pub fn bucket(toks: &[&str]) -> String {
    let mut b = verif::GenericTokenBucket::new();
    let mut out = vec![];
    for op in kv(toks, "ops").split(';') {
        let (k, rest) = op.split_once(':').expect("op");
        let (c, t) = rest.split_once('@').expect("op@");
        let c: u32 = c.parse().expect("cost");
        BUCKET_NOW.store(t.parse().expect("t"), Ordering::SeqCst);
        match k {
            "c" => out.push(if b.check::<VClock>(c) { "1" } else { "0" }.to_string()),
            "d" => {
                b.deplete::<VClock>(c);
                out.push("-".into())
            }
            _ => panic!("harness: bucket op"),
        }
    }
    out.join(";")
}

fn ipaddr(s: &str) -> std::net::IpAddr {
    let (fam, x) = s.split_once('_').expect("ip");
    match fam {
        "4" => std::net::IpAddr::V4(std::net::Ipv4Addr::from(x.parse::<u32>().expect("v4"))),
        "6" => std::net::IpAddr::V6(std::net::Ipv6Addr::from(x.parse::<u128>().expect("v6"))),
        _ => panic!("harness: ip family"),
    }
}

pub fn base_query(qid: u16, name: &str, qtype: u16) -> dnspkt::DNSPkt {
    dnspkt::DNSPkt {
        qid,
        rd: true,
        tc: false,
        aa: false,
        qr: false,
        opcode: dnspkt::OPCODE_QUERY,
        cd: false,
        ad: false,
        ra: false,
        rcode: dnspkt::NOERROR,
        bufsize: 4096,
        edns_ver: Some(0),
        edns_do: false,
        question: dnspkt::Question { qdomain: name.parse().expect("name"), qclass: dnspkt::CLASS_IN, qtype: dnspkt::Type(qtype) },
        answer: vec![],
        nameserver: vec![],
        additional: vec![],
        edns: None,
    }
}

fn message(cip: &str, sip: &str, in_size: usize, cookie: Option<Vec<u8>>) -> erbium::dns::DnsMessage {
    let mut q = base_query(7, "example.com", 1);
    if let Some(c) = cookie {
        let mut e = dnspkt::EdnsData::new();
        e.set_opt(dnspkt::EdnsOption { code: dnspkt::EDNS_COOKIE, data: c });
        q.edns = Some(e);
    }
    erbium::dns::DnsMessage {
        in_query: q,
        in_size,
        local_ip: ipaddr(sip),
        remote_addr: ipaddr(cip).with_port(40000),
        protocol: erbium::dns::Protocol::Udp,
    }
}

/// `ratelimit ops=…`: should_ratelimit / cookie issue / key rotation on a fresh rate limiter
pub fn ratelimit(toks: &[&str]) -> String {
    let rt = rt();
    let limiter = verif::RateLimiter::new();
    let mut issued: Vec<(Vec<u8>, Vec<u8>)> = vec![]; // (client, server) per issue op, by op index
    let mut out = vec![];
    for op in kv(toks, "ops").split(';') {
        let f: Vec<&str> = op.split(':').collect();
        match f[0] {
            "i" => {
                let client = unhex(f[3]);
                let m = message(f[1], f[2], 50, None);
                let server = rt.block_on(verif::current_server_cookie(&m, &client));
                issued.push((client, server.to_vec()));
                out.push(hex(&server));
            }
            "r" => {
                rt.block_on(verif::rotate_cookie_keys());
                issued.push((vec![], vec![]));
                out.push("-".into());
            }
            "q" => {
                VCLOCK.store(f[1].parse().expect("t"), Ordering::SeqCst);
                let in_size: usize = f[4].parse().expect("insize");
                let reply_len: usize = f[5].parse().expect("replylen");
                let rcode: u16 = f[6].parse().expect("rcode");
                let cookie = match f[7] {
                    "-" => None,
                    c if c.starts_with('g') => {
                        let (cl, sv) = &issued[c[1..].parse::<usize>().expect("idx")];
                        let mut d = cl.clone();
                        d.extend(sv);
                        Some(d)
                    }
                    c if c.starts_with('t') => {
                        // a good cookie with its server part truncated to the given length
                        let (idx, n) = c[1..].split_once('/').expect("t");
                        let (cl, sv) = &issued[idx.parse::<usize>().expect("idx")];
                        let mut d = cl.clone();
                        d.extend(&sv[..n.parse::<usize>().expect("n")]);
                        Some(d)
                    }
                    c => Some(unhex(&c[1..])),
                };
                let m = message(f[2], f[3], in_size, cookie);
                let mut reply = base_query(7, "example.com", 1);
                reply.qr = true;
                reply.rcode = dnspkt::RCode(rcode);
                let bytes = vec![0u8; reply_len];
                let limited = rt.block_on(verif::should_ratelimit(&m, &reply, &bytes, &limiter));
                issued.push((vec![], vec![]));
                out.push(if limited { "drop" } else { "send" }.into());
            }
            _ => panic!("harness: ratelimit op"),
        }
    }
    VCLOCK.store(-1, Ordering::SeqCst);
    out.join(";")
}

fn labels(s: &str) -> dnspkt::Domain {
    // labels as hex separated by '.', '-' = root
    if s == "-" {
        return dnspkt::Domain::from(vec![]);
    }
    dnspkt::Domain::from(s.split('.').map(|l| dnspkt::Label::from(unhex(l))).collect::<Vec<_>>())
}

fn rr(name: &dnspkt::Domain, ttl: u32, i: usize) -> dnspkt::RR {
    dnspkt::RR {
        domain: name.clone(),
        class: dnspkt::CLASS_IN,
        rrtype: dnspkt::RR_A,
        ttl,
        rdata: dnspkt::RData::Other(vec![10, 0, (i >> 8) as u8, i as u8]),
    }
}

fn ttls(s: &str) -> Vec<u32> {
    if s == "-" { vec![] } else { s.split(',').map(|x| x.parse().expect("ttl")).collect() }
}

fn show_ttls(v: &[dnspkt::RR]) -> String {
    if v.is_empty() { "-".into() } else { v.iter().map(|r| r.ttl.to_string()).collect::<Vec<_>>().join(",") }
}

/// `cache ops=s:<name>:<qtype>:<do>:<cd>:<a ttls>/<n ttls>/<d ttls>;l:<name>:<qtype>:<do>:<cd>;e;t:<ns>`
/// through the cache's own insert / lookup / expire functions under tokio's paused clock
pub fn cache(toks: &[&str]) -> String {
    let rt = rt();
    rt.block_on(async {
        let mut c = verif::cache::Cache::new().await;
        let mut out = vec![];
        for op in kv(toks, "ops").split(';') {
            let f: Vec<&str> = op.split(':').collect();
            match f[0] {
                "s" => {
                    let name = labels(f[1]);
                    let secs: Vec<&str> = f[5].split('/').collect();
                    let mut reply = base_query(1, "x", 1);
                    reply.qr = true;
                    reply.question.qdomain = name.clone();
                    reply.answer = ttls(secs[0]).iter().enumerate().map(|(i, t)| rr(&name, *t, i)).collect();
                    reply.nameserver = ttls(secs[1]).iter().enumerate().map(|(i, t)| rr(&name, *t, 100 + i)).collect();
                    reply.additional = ttls(secs[2]).iter().enumerate().map(|(i, t)| rr(&name, *t, 200 + i)).collect();
                    let d = c.resolve(&name, dnspkt::Type(f[2].parse().expect("qtype")), f[3] == "1", f[4] == "1", &Ok(reply));
                    out.push(format!("{}", d.as_secs()));
                }
                "l" => {
                    let name = labels(f[1]);
                    match c.lookup(&name, dnspkt::Type(f[2].parse().expect("qtype")), f[3] == "1", f[4] == "1") {
                        None => out.push("miss".into()),
                        Some(Ok(r)) => out.push(format!(
                            "hit:{}/{}/{}:{}",
                            show_ttls(&r.answer),
                            show_ttls(&r.nameserver),
                            show_ttls(&r.additional),
                            // identity of the records served: the name they were stored under
                            hex(&r.question.qdomain.to_string().into_bytes())
                        )),
                        Some(Err(_)) => out.push("hiterr".into()),
                    }
                }
                "e" => {
                    c.expire();
                    out.push(format!("len{}", c.len()));
                }
                "t" => {
                    tokio::time::advance(std::time::Duration::from_nanos(f[1].parse().expect("ns"))).await;
                    out.push("-".into());
                }
                _ => panic!("harness: cache op"),
            }
        }
        out.join(";")
    })
}

fn show_domain(d: &dnspkt::Domain) -> String {
    // Display joins labels with '.', bytes outside 32..=127 as \ddd: suffixes come from ASCII config text
    let s = d.to_string();
    if s.is_empty() { "-".into() } else { s.split('.').map(|l| hex(l.as_bytes())).collect::<Vec<_>>().join(".") }
}

/// `route cfg=<hex yaml> q=<labels> rd=<0|1>`: the real router -> cache -> outquery chain with
/// fake upstreams on 127.0.0.N:53 in a private network namespace
pub fn route(toks: &[&str]) -> String {
    crate::rig::ensure_netns();
    let conf = match crate::s_dhcp::load(kv(toks, "cfg")) {
        Ok(c) => c,
        Err(_) => return "cfgerr".into(),
    };
    let mut dump = vec![];
    let mut ups: Vec<std::sync::Arc<crate::rig::Upstream>> = vec![];
    {
        let c = conf.try_read().expect("harness: config lock");
        for r in &c.dns_routes {
            let d = format!("{:?}", r.dest);
            let kind = if d.starts_with("Forward") {
                // Forward([127.0.0.2:53])
                let inner = d.trim_start_matches("Forward([").trim_end_matches("])");
                let ips: Vec<String> = inner
                    .split(", ")
                    .filter(|x| !x.is_empty())
                    .map(|x| {
                        let sa: std::net::SocketAddr = x.parse().expect("harness: server addr");
                        match sa.ip() {
                            std::net::IpAddr::V4(a) => {
                                ups.push(crate::rig::upstream(a));
                                u32::from(a).to_string()
                            }
                            std::net::IpAddr::V6(_) => "0".into(),
                        }
                    })
                    .collect();
                format!("F{}", if ips.is_empty() { "-".to_string() } else { ips.join(",") })
            } else {
                "N".to_string()
            };
            let sfx: Vec<String> = r.suffixes.iter().map(show_domain).collect();
            dump.push(format!("{}!{}", kind, if sfx.is_empty() { "none".to_string() } else { sfx.join(",") }));
        }
    }
    let mut q = base_query(0x1234, "x", 1);
    q.question.qdomain = labels(kv(toks, "q"));
    q.rd = kv(toks, "rd") == "1";
    // `bits=<cd><ad><do> bits2=<cd><ad><do>`: the same question asked twice in a row through the whole chain, the second
    // time with these header bits; `u2` = queries that reached the upstreams because of the second one (C06: the key)
    let bits = |q: &mut dnspkt::DNSPkt, b: &str| {
        let v: Vec<bool> = b.chars().map(|c| c == '1').collect();
        q.cd = v[0];
        q.ad = v[1];
        q.edns_do = v[2];
    };
    let second = kv_opt(toks, "bits2").map(|b2| {
        // a name no other case has asked for (the cache may outlive a case): one more label in front
        static N: std::sync::atomic::AtomicUsize = std::sync::atomic::AtomicUsize::new(0);
        let uniq = format!("u{}", N.fetch_add(1, std::sync::atomic::Ordering::SeqCst));
        let full = format!("{}{}", uniq, { let s = q.question.qdomain.to_string(); if s.is_empty() { String::new() } else { format!(".{}", s) } });
        q.question.qdomain = full.parse().expect("harness: name");
        bits(&mut q, kv(toks, "bits"));
        let mut q2 = q.clone();
        q2.qid = 0x4321;
        bits(&mut q2, b2);
        q2
    });
    let msg = erbium::dns::DnsMessage {
        in_query: q,
        in_size: 40,
        local_ip: std::net::IpAddr::V4(std::net::Ipv4Addr::LOCALHOST),
        remote_addr: std::net::Ipv4Addr::LOCALHOST.with_port(40000),
        protocol: erbium::dns::Protocol::Udp,
    };
    let rt = crate::rig::rt_real();
    let total = |ups: &Vec<std::sync::Arc<crate::rig::Upstream>>| ups.iter().map(|u| u.count.load(std::sync::atomic::Ordering::SeqCst)).sum::<usize>();
    let (res, extra) = rt.block_on(async {
        // one handler chain (and so one cache) for both queries
        let h = verif::RouteHandler::new(conf.clone()).await;
        let res = match tokio::time::timeout(std::time::Duration::from_secs(20), h.handle_query(&msg)).await {
            Err(_) => "timeout".to_string(),
            Ok(Ok(reply)) => match reply.answer.first().map(|rr| &rr.rdata) {
                Some(dnspkt::RData::Other(v)) if v.len() == 4 => {
                    format!("fwd:{}", u32::from(std::net::Ipv4Addr::new(v[0], v[1], v[2], v[3])))
                }
                _ => "fwd:?".into(),
            },
            Ok(Err(erbium::dns::Error::NotAuthoritative)) => "refused".into(),
            Ok(Err(erbium::dns::Error::Blocked)) => "nxdomain".into(),
            Ok(Err(erbium::dns::Error::NoRouteConfigured)) => "servfail".into(),
            Ok(Err(e)) => format!("outerr:{}", e).replace(' ', "_"),
        };
        let extra = match second {
            Some(q2) => {
                let before = total(&ups);
                let msg2 = erbium::dns::DnsMessage {
                    in_query: q2,
                    in_size: 40,
                    local_ip: std::net::IpAddr::V4(std::net::Ipv4Addr::LOCALHOST),
                    remote_addr: std::net::Ipv4Addr::LOCALHOST.with_port(40001),
                    protocol: erbium::dns::Protocol::Udp,
                };
                let res2 = match tokio::time::timeout(std::time::Duration::from_secs(20), h.handle_query(&msg2)).await {
                    Err(_) => "timeout",
                    Ok(Ok(_)) => "fwd",
                    Ok(Err(_)) => "err",
                };
                format!(" u2={} res2={}", total(&ups) - before, res2)
            }
            None => String::new(),
        };
        (res, extra)
    });
    format!("routes={} res={}{}", if dump.is_empty() { "-".to_string() } else { dump.join("+") }, res, extra)
}
