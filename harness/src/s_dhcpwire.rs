//! C12 (and the DHCP part of C05): dhcppkt::parse / Dhcp::serialise / Fragment::new_udp4 / get_broadcast_flag
use crate::util::*;
use erbium::dhcp::dhcppkt;
use erbium::dhcp::dhcppkt::Serialise as _;

pub fn code(o: &dhcppkt::DhcpOption) -> u8 {
    let mut v = vec![];
    o.serialise(&mut v);
    v[0]
}

pub fn dump(m: &dhcppkt::Dhcp) -> String {
    let mut opts: Vec<(u8, &Vec<u8>)> = m.options.other.iter().map(|(k, v)| (code(k), v)).collect();
    opts.sort();
    let o = if opts.is_empty() {
        "-".to_string()
    } else {
        opts.iter().map(|(k, v)| format!("{}:{}", k, hex(v))).collect::<Vec<_>>().join(",")
    };
    // op/htype are opaque newtypes: read them back from the wire image
    let w = m.serialise();
    format!(
        "op={} htype={} hlen={} hops={} xid={} secs={} flags={} ciaddr={} yiaddr={} siaddr={} giaddr={} chaddr={} sname={} file={} opts={}",
        w[0], w[1], m.hlen, m.hops, m.xid, m.secs, m.flags,
        u32::from(m.ciaddr), u32::from(m.yiaddr), u32::from(m.siaddr), u32::from(m.giaddr),
        hex(&m.chaddr), hex(&m.sname), hex(&m.file), o
    )
}

pub fn show_parse(r: &Result<dhcppkt::Dhcp, dhcppkt::ParseError>) -> String {
    match r {
        Ok(m) => format!("ok {}", dump(m)),
        Err(e) => format!("err:{:?}", e),
    }
}

/// build a Dhcp value from tokens. op/htype have private fields: obtained by parsing a header.
pub fn build(toks: &[&str]) -> dhcppkt::Dhcp {
    let mut hdr = vec![0u8; 240];
    hdr[0] = num::<u8>(toks, "op");
    hdr[1] = num::<u8>(toks, "htype");
    hdr[236..240].copy_from_slice(&[0x63, 0x82, 0x53, 0x63]);
    hdr.push(255);
    let base = dhcppkt::parse(&hdr).expect("harness: base header");
    let mut options = dhcppkt::DhcpOptions::default();
    let o = kv(toks, "opts");
    if o != "-" {
        for e in o.split(',') {
            let (c, v) = e.split_once(':').expect("opt");
            options.other.insert(dhcppkt::DhcpOption::new(c.parse::<u8>().expect("code")), unhex(v));
        }
    }
    dhcppkt::Dhcp {
        op: base.op,
        htype: base.htype,
        hlen: num(toks, "hlen"),
        hops: num(toks, "hops"),
        xid: num(toks, "xid"),
        secs: num(toks, "secs"),
        flags: num(toks, "flags"),
        ciaddr: ip4(num(toks, "ciaddr")),
        yiaddr: ip4(num(toks, "yiaddr")),
        siaddr: ip4(num(toks, "siaddr")),
        giaddr: ip4(num(toks, "giaddr")),
        chaddr: unhex(kv(toks, "chaddr")),
        sname: unhex(kv(toks, "sname")),
        file: unhex(kv(toks, "file")),
        options,
    }
}

pub fn roundtrip(toks: &[&str]) -> String {
    let m = build(toks);
    let order: Vec<String> = m.options.other.keys().map(|k| code(k).to_string()).collect();
    let wire = m.serialise();
    let parsed = dhcppkt::parse(&wire);
    format!(
        "order={} wire={} parsed={}",
        if order.is_empty() { "-".to_string() } else { order.join(",") },
        hex(&wire),
        show_parse(&parsed)
    )
}

/// decode; when the decoder accepts, also encode the result and decode again (C12_decode_encode_decode)
pub fn parse(toks: &[&str]) -> String {
    let b = unhex(toks[0]);
    let p = dhcppkt::parse(&b);
    let first = show_parse(&p);
    match &p {
        Ok(m) => {
            let again = std::panic::catch_unwind(std::panic::AssertUnwindSafe(|| show_parse(&dhcppkt::parse(&m.serialise()))))
                .unwrap_or_else(|_| "panic".to_string());
            format!("{} || {}", first, again)
        }
        Err(_) => first,
    }
}

pub fn bflag(toks: &[&str]) -> String {
    let f: u16 = toks[0].parse().expect("flags");
    let mut t = vec!["op=1", "htype=1", "hlen=0", "hops=0", "xid=0", "secs=0", "ciaddr=0", "yiaddr=0",
        "siaddr=0", "giaddr=0", "chaddr=-", "sname=-", "file=-", "opts=-"];
    let fl = format!("flags={}", f);
    t.push(&fl);
    let m = build(&t);
    format!("{}", m.get_broadcast_flag())
}

pub fn frame(toks: &[&str]) -> String {
    use erbium_net::packet;
    let a4 = |k: &str| -> std::net::Ipv4Addr {
        let b = unhex(kv(toks, k));
        std::net::Ipv4Addr::new(b[0], b[1], b[2], b[3])
    };
    let mac = |k: &str| -> [u8; 6] {
        let b = unhex(kv(toks, k));
        [b[0], b[1], b[2], b[3], b[4], b[5]]
    };
    let src = std::net::SocketAddrV4::new(a4("src"), num(toks, "sport"));
    let dst = std::net::SocketAddrV4::new(a4("dst"), num(toks, "dport"));
    let payload = unhex(kv(toks, "payload"));
    let f = packet::Fragment::new_udp4(src.into(), &mac("smac"), dst.into(), &mac("dmac"), packet::Tail::Payload(&payload))
        .flatten();
    hex(&f)
}
