//! C19: the configuration loader on arbitrary documents, the scalar parsers on arbitrary YAML values, and accepted
//! configurations put to use by the request handlers.
use crate::util::*;
use erbium::config;
use erbium::dhcp;
use erbium::dhcp::dhcppkt;
use yaml_rust::yaml::Yaml;

fn discover(mac: &[u8], extra: &[u8]) -> dhcppkt::Dhcp {
    let mut b = vec![0u8; 240];
    b[0] = 1;
    b[1] = 1;
    b[2] = mac.len() as u8;
    b[28..28 + mac.len()].copy_from_slice(mac);
    b[236..240].copy_from_slice(&[0x63, 0x82, 0x53, 0x63]);
    b.extend_from_slice(&[53, 1, 1, 55, 12, 1, 3, 6, 15, 26, 28, 42, 51, 58, 59, 119, 121]);
    b.extend_from_slice(extra);
    b.push(255);
    dhcppkt::parse(&b).expect("harness: discover")
}

/// serve a few requests with an accepted configuration
fn serve(conf: &config::Config) -> String {
    use erbium::config::PrefixOps as _;
    let mut notes = vec![];
    // DHCP: a client on every configured IPv4 prefix (and one elsewhere)
    let mut serverips = vec![ip4(0xc0000263)];
    let mut heavy = false;
    for p in &conf.addresses {
        if let config::Prefix::V4(p4) = p {
            if p4.prefixlen < 16 {
                heavy = true; // a default pool of 65536+ addresses is rebuilt per request: not exercised here
            }
            let n = u32::from(p4.network());
            serverips.push(ip4(n.wrapping_add(1)));
        }
    }
    if !heavy {
        let mut pool = dhcp::pool::Pool::new_in_memory().expect("harness: pool");
        for (i, sip) in serverips.iter().enumerate() {
            for mac in [&[0u8, 0, 0x5e, 0, 0x53, i as u8][..], &[2u8, 0, 0, 0, 0, 9][..]] {
                let req = dhcp::DHCPRequest { pkt: discover(mac, &[12, 2, b'h', b'1']), serverip: *sip, ifindex: 1, if_mtu: Some(1500), if_router: Some(*sip) };
                let ids: std::collections::HashSet<std::net::Ipv4Addr> = [*sip].into_iter().collect();
                match dhcp::handle_pkt(&mut pool, &req, ids, conf) {
                    Ok(r) => {
                        let _ = r.serialise();
                        notes.push("d");
                    }
                    Err(_) => notes.push("e"),
                }
            }
        }
    } else {
        notes.push("skip-heavy");
    }
    // RA: every configured interface
    for i in 0..conf.ra.interfaces.len() {
        let adv = erbium::radv::RaAdvService::verif_build_announcement(conf, i, Some([2, 0, 0, 0, 0, 1]), Some(1500), "fe80::1".parse().unwrap(), std::time::Duration::from_secs(1800));
        let _ = erbium::radv::icmppkt::serialise(&erbium::radv::icmppkt::Icmp6::RtrAdvert(adv));
        notes.push("r");
    }
    // ACLs: a v4, a mapped, a v6 and a unix client against every permission
    use erbium_net::addr::{ToNetAddr as _, WithPort as _};
    let clients: Vec<erbium_net::addr::NetAddr> = vec![
        "192.0.2.7".parse::<std::net::Ipv4Addr>().unwrap().with_port(1),
        "::ffff:192.0.2.7".parse::<std::net::Ipv6Addr>().unwrap().with_port(1),
        "2001:db8::7".parse::<std::net::Ipv6Addr>().unwrap().with_port(1),
        erbium_net::addr::UnixAddr::new("/tmp/x").unwrap().to_net_addr(),
    ];
    for c in clients {
        for perm in [erbium::acl::PermissionType::DnsRecursion, erbium::acl::PermissionType::Http, erbium::acl::PermissionType::HttpLeases, erbium::acl::PermissionType::HttpMetrics] {
            let _ = erbium::acl::require_permission(&conf.acls, &erbium::acl::Attributes { addr: c }, perm);
        }
    }
    notes.join("")
}

/// `cfgload y=<hex yaml>`
pub fn cfgload(toks: &[&str]) -> String {
    let bytes = unhex(kv(toks, "y"));
    let text = match String::from_utf8(bytes) {
        Ok(t) => t,
        Err(_) => return "notutf8".into(), // the loader reads the file as a string; invalid UTF-8 is refused by std before
    };
    match config::verif_load_config_from_string(&text) {
        Err(e) => {
            let _ = format!("{}", e);
            "err".into()
        }
        Ok(c) => {
            let c = c.try_read().expect("harness: config lock");
            format!("ok:{}", serve(&c))
        }
    }
}

fn yaml_of(enc: &str) -> Yaml {
    if enc == "n" {
        return Yaml::Null;
    }
    if enc == "bad" {
        return Yaml::BadValue;
    }
    if enc == "h" {
        return Yaml::Hash(Default::default());
    }
    let (t, v) = enc.split_once(':').expect("harness: yaml enc");
    match t {
        "i" => Yaml::Integer(v.parse().expect("harness: int")),
        "s" => Yaml::String(String::from_utf8(unhex(v)).expect("harness: utf8")),
        "r" => Yaml::Real(String::from_utf8(unhex(v)).expect("harness: utf8")),
        "b" => Yaml::Boolean(v == "1"),
        "a" => Yaml::Array(if v == "e" { vec![] } else { v.split(';').map(|x| yaml_of(&x.replace('=', ":"))).collect() }),
        _ => panic!("harness: yaml tag {}", t),
    }
}

fn show<T>(r: Result<Option<T>, config::Error>, f: impl Fn(&T) -> String) -> String {
    match r {
        Ok(None) => "none".into(),
        Ok(Some(v)) => format!("ok:{}", f(&v)),
        Err(e) => {
            let _ = format!("{}", e);
            "err".into()
        }
    }
}

/// `cfgfield k=<kind> v=<yaml value>`: the public scalar parsers of config.rs on any YAML value
pub fn cfgfield(toks: &[&str]) -> String {
    let y = yaml_of(kv(toks, "v"));
    match kv(toks, "k") {
        "duration" => show(config::parse_duration("x", &y), |d| d.as_secs().to_string()),
        "prefix" => show(config::parse_string_prefix("x", &y), |p| match p {
            config::Prefix::V4(p) => format!("4/{}/{}", u32::from(p.addr), p.prefixlen),
            config::Prefix::V6(p) => format!("6/{}/{}", u128::from(p.addr), p.prefixlen),
        }),
        "prefix4" => show(config::parse_string_prefix4("x", &y), |p| format!("4/{}/{}", u32::from(p.addr), p.prefixlen)),
        "prefix6" => show(config::parse_string_prefix6("x", &y), |p| format!("6/{}/{}", u128::from(p.addr), p.prefixlen)),
        "hwaddr" => show(config::parse_string_hwaddr("x", &y), |h| hex(h)),
        "u8" => show(config::parse_num::<u8>("x", &y), |n| n.to_string()),
        "u16" => show(config::parse_num::<u16>("x", &y), |n| n.to_string()),
        "u32" => show(config::parse_num::<u32>("x", &y), |n| n.to_string()),
        "bool" => show(config::parse_boolean("x", &y), |b| (*b as u8).to_string()),
        "string" => show(config::parse_string("x", &y), |s| hex(s.as_bytes())),
        "search" => show(config::parse_search_domain("x", &y), |s| hex(s.as_bytes())),
        "strarray" => show(config::parse_array("x", &y, config::parse_string), |v| v.iter().map(|s| hex(s.as_bytes())).collect::<Vec<_>>().join(",")),
        "sockaddr" => show(config::parse_string_sockaddr("x", &y), |_| "addr".to_string()),
        "typename" => format!("ok:{}", hex(config::type_to_name(&y).as_bytes())),
        k => panic!("harness: kind {}", k),
    }
}
