//! `dhcp` suite: dhcp::handle_pkt with a configuration loaded by the real YAML loader and a real
//! lease store (C02 C10 C11 C13).
use crate::s_dhcpwire::{code, dump};
use crate::s_pool;
use crate::util::*;
use crate::{VCLOCK, VCLOCK_STEP};
use erbium::dhcp;
use erbium::dhcp::dhcppkt;
use std::sync::atomic::Ordering;

fn optmap(m: &std::collections::HashMap<dhcppkt::DhcpOption, Option<dhcppkt::DhcpOptionTypeValue>>) -> String {
    let mut v: Vec<(u8, String)> = m
        .iter()
        .map(|(k, v)| (code(k), match v { Some(x) => hex(&x.as_bytes()), None => "n".into() }))
        .collect();
    v.sort();
    if v.is_empty() {
        "-".into()
    } else {
        v.iter().map(|(k, s)| format!("{}={}", k, s)).collect::<Vec<_>>().join(",")
    }
}

fn dump_policy(p: &dhcp::config::Policy, depth: usize, out: &mut Vec<String>) {
    let addrs = match &p.apply_address {
        None => "n".to_string(),
        Some(s) => {
            let mut v: Vec<u32> = s.iter().map(|a| u32::from(*a)).collect();
            v.sort();
            if v.is_empty() { "-".into() } else { v.iter().map(|a| a.to_string()).collect::<Vec<_>>().join(",") }
        }
    };
    out.push(format!(
        "{}!{}!{}!{}!{}!{}!{}",
        depth,
        if p.match_all { 1 } else { 0 },
        match &p.match_chaddr { Some(c) => hex(c), None => "n".into() },
        match &p.match_subnet { Some(s) => format!("{}/{}", u32::from(s.addr), s.prefixlen), None => "n".into() },
        optmap(&p.match_other),
        addrs,
        optmap(&p.apply_other)
    ));
    for c in &p.policies {
        dump_policy(c, depth + 1, out);
    }
}

pub fn dump_config(conf: &erbium::config::Config) -> String {
    let dns: Vec<String> = conf
        .dns_servers
        .iter()
        .filter_map(|ip| match ip {
            ip if *ip == erbium::config::INTERFACE4 => Some("self".to_string()),
            std::net::IpAddr::V4(a) => Some(u32::from(*a).to_string()),
            _ => None,
        })
        .collect();
    let search = dhcppkt::DhcpOptionTypeValue::DomainList(conf.dns_search.clone()).as_bytes();
    let addrs: Vec<String> = conf
        .addresses
        .iter()
        .filter_map(|p| match p {
            erbium::config::Prefix::V4(p4) => Some(format!("{}/{}", u32::from(p4.addr), p4.prefixlen)),
            _ => None,
        })
        .collect();
    let mut pol = vec![];
    for p in &conf.dhcp.policies {
        dump_policy(p, 0, &mut pol);
    }
    let j = |v: &Vec<String>, sep: &str| if v.is_empty() { "-".to_string() } else { v.join(sep) };
    format!(
        "dns={}~search={}~portal={}~addrs={}~pol={}",
        j(&dns, ","),
        hex(&search),
        match &conf.captive_portal { Some(s) => format!("s{}", hex(s.as_bytes())), None => "n".into() },
        j(&addrs, ","),
        j(&pol, "+")
    )
}

pub fn errkind(e: &dhcp::DhcpError) -> String {
    use dhcp::DhcpError::*;
    match e {
        UnknownMessageType(_) => "UnknownMessageType".into(),
        NoLeasesConfigured => "NoLeasesConfigured".into(),
        ParseError(_) => "ParseError".into(),
        PoolError(p) => format!("PoolError.{}", s_pool::errkind(p)),
        InternalError(_) => "InternalError".into(),
        OtherServer(_) => "OtherServer".into(),
        NoPolicyConfigured => "NoPolicyConfigured".into(),
    }
}

pub fn load(cfg_hex: &str) -> Result<erbium::config::SharedConfig, String> {
    let text = String::from_utf8(unhex(cfg_hex)).expect("harness: cfg utf8");
    erbium::config::verif_load_config_from_string(&text).map_err(|e| format!("{}", e))
}

pub fn history(toks: &[&str]) -> String {
    let t0: i64 = num(toks, "t0");
    let conf = match load(kv(toks, "cfg")) {
        Ok(c) => c,
        Err(_) => return "cfgerr".into(),
    };
    let conf = conf.try_read().expect("harness: config lock");
    VCLOCK.store(t0, Ordering::SeqCst);
    VCLOCK_STEP.store(0, Ordering::SeqCst);
    let mut p = dhcp::pool::Pool::new_in_memory().expect("harness: pool");
    let mut out = vec![];
    for op in kv(toks, "ops").split(';') {
        let f: Vec<&str> = op.split(':').collect();
        let res = match f[0] {
            "p" => {
                let serverip = ip4(f[1].parse().expect("serverip"));
                let ids: std::collections::HashSet<std::net::Ipv4Addr> =
                    if f[2] == "-" { Default::default() } else { f[2].split(',').map(|a| ip4(a.parse().expect("id"))).collect() };
                let mtu = if f[3] == "-" { None } else { Some(f[3].parse::<u32>().expect("mtu")) };
                let router = if f[4] == "-" { None } else { Some(ip4(f[4].parse().expect("router"))) };
                match dhcppkt::parse(&unhex(f[5])) {
                    Err(_) => "unparsable".into(),
                    Ok(pkt) => {
                        let req = dhcp::DHCPRequest { pkt, serverip, ifindex: 1, if_mtu: mtu, if_router: router };
                        match dhcp::handle_pkt(&mut p, &req, ids, &conf) {
                            Ok(r) => format!("ok~{}", dump(&r).replace(' ', "~")),
                            Err(e) => format!("err~{}", errkind(&e)),
                        }
                    }
                }
            }
            "t" => {
                VCLOCK.fetch_add(f[1].parse::<i64>().expect("tick"), Ordering::SeqCst);
                "-".into()
            }
            _ => panic!("harness: bad op"),
        };
        out.push(format!("{}@{}", res, s_pool::rows(&mut p)));
    }
    VCLOCK.store(-1, Ordering::SeqCst);
    format!("cfg={} obs={}", dump_config(&conf), out.join(";"))
}

fn addrset(s: &Option<dhcp::pool::PoolAddresses>) -> String {
    match s {
        None => "n".into(),
        Some(set) => {
            let mut v: Vec<u32> = set.iter().map(|a| u32::from(*a)).collect();
            v.sort();
            if v.is_empty() { "-".into() } else { v.iter().map(|a| a.to_string()).collect::<Vec<_>>().join(",") }
        }
    }
}

fn preorder(p: &dhcp::config::Policy, out: &mut Vec<String>) {
    out.push(addrset(&p.apply_address));
    for c in &p.policies {
        preorder(c, out);
    }
}

/// `dhcpcfg cfg=<hex yaml> sip=<n> …`: the address sets the loader and build_default_config produce (C02)
pub fn cfgsets(toks: &[&str]) -> String {
    let conf = match load(kv(toks, "cfg")) {
        Ok(c) => c,
        Err(_) => return "cfgerr".into(),
    };
    let conf = conf.try_read().expect("harness: config lock");
    let mut pol = vec![];
    for p in &conf.dhcp.policies {
        preorder(p, &mut pol);
    }
    let mut hdr = vec![0u8; 240];
    hdr[0] = 1;
    hdr[1] = 1;
    hdr[236..240].copy_from_slice(&[0x63, 0x82, 0x53, 0x63]);
    hdr.push(255);
    let req = dhcp::DHCPRequest { pkt: dhcppkt::parse(&hdr).expect("harness: base"), serverip: ip4(num(toks, "sip")), ifindex: 1, if_mtu: None, if_router: None };
    let def = dhcp::build_default_config(&conf, &req);
    let defs: Vec<String> = def.policies.iter().map(|p| addrset(&p.apply_address)).collect();
    let j = |v: &Vec<String>| if v.is_empty() { "e".to_string() } else { v.join("+") };
    format!("pol={} def={}", j(&pol), j(&defs))
}
