//! DNS wire suites (C14 C04 C05 C03): the crate's decoder (hook) and `DNSPkt::serialise_with_size`.
use crate::util::*;
use erbium::dns::dnspkt::*;
use erbium::dns::verif;

pub fn show_name(d: &Domain) -> String {
    // Domain's label vector is private: recover the labels from the wire form of the name alone
    let p = DNSPkt {
        qid: 0, rd: false, tc: false, aa: false, qr: false, opcode: OPCODE_QUERY, cd: false, ad: false, ra: false,
        rcode: NOERROR, bufsize: 512, edns_ver: None, edns_do: false,
        question: Question { qdomain: d.clone(), qclass: CLASS_IN, qtype: RR_A },
        answer: vec![], nameserver: vec![], additional: vec![], edns: None,
    };
    let w = p.serialise();
    let mut labels = vec![];
    let mut i = 12;
    while w[i] != 0 {
        let l = w[i] as usize;
        labels.push(hex(&w[i + 1..i + 1 + l]));
        i += 1 + l;
    }
    if labels.is_empty() { "-".into() } else { labels.join(".") }
}

pub fn parse_name(s: &str) -> Domain {
    if s == "-" {
        return Domain::from(vec![]);
    }
    Domain::from(s.split('.').map(|l| Label::from(unhex(l))).collect::<Vec<_>>())
}

fn show_opts(e: &EdnsData) -> String {
    // EdnsData's vector is private too: its wire form is what push_opt writes
    let p = DNSPkt {
        qid: 0, rd: false, tc: false, aa: false, qr: false, opcode: OPCODE_QUERY, cd: false, ad: false, ra: false,
        rcode: NOERROR, bufsize: 512, edns_ver: Some(0), edns_do: false,
        question: Question { qdomain: Domain::from(vec![]), qclass: CLASS_IN, qtype: RR_A },
        answer: vec![], nameserver: vec![], additional: vec![], edns: Some(e.clone()),
    };
    let w = p.serialise();
    // header 12 + root name 1 + qtype/qclass 4 + OPT: name 1, type 2, class 2, ttl 4, rdlen 2
    let mut i = 12 + 1 + 4 + 1 + 2 + 2 + 4 + 2;
    let mut out = vec![];
    while i + 4 <= w.len() {
        let c = (w[i] as usize) << 8 | w[i + 1] as usize;
        let l = (w[i + 2] as usize) << 8 | w[i + 3] as usize;
        out.push(format!("{}={}", c, hex(&w[i + 4..i + 4 + l])));
        i += 4 + l;
    }
    if out.is_empty() { "e".into() } else { out.join(";") }
}

fn parse_opts(s: &str) -> EdnsData {
    let mut e = EdnsData::new();
    if s != "e" {
        for o in s.split(';') {
            let (c, d) = o.split_once('=').expect("opt");
            e.set_opt(EdnsOption { code: EdnsCode(c.parse().expect("code")), data: unhex(d) });
        }
    }
    e
}

fn show_rdata(r: &RData) -> String {
    match r {
        RData::CName(d) => format!("C:{}", show_name(d)),
        RData::Mx(p) => format!("M:{}:{}", p.pref, show_name(&p.domain)),
        RData::Ns(d) => format!("N:{}", show_name(d)),
        RData::Ptr(d) => format!("P:{}", show_name(d)),
        RData::Soa(s) => format!("S:{}:{}:{}:{}:{}:{}:{}", show_name(&s.mname), show_name(&s.rname), s.serial, s.refresh, s.retry, s.expire, s.minimum),
        RData::Opt(o) => format!("O:{}", show_opts(o)),
        RData::AfsDb(a) => format!("A:{}:{}", a.subtype, show_name(&a.hostname)),
        RData::Rp(r) => format!("R:{}:{}", show_name(&r.mbox), show_name(&r.txt)),
        RData::Rt(p) => format!("T:{}:{}", p.pref, show_name(&p.domain)),
        RData::NaPtr(n) => format!("Y:{}:{}:{}:{}:{}:{}", n.order, n.preference, hex(&n.flags), hex(&n.services), hex(&n.regexp), show_name(&n.replacement)),
        RData::Other(x) => format!("X:{}", hex(x)),
    }
}

fn parse_rdata(s: &str) -> RData {
    let f: Vec<&str> = s.split(':').collect();
    let n = |x: &str| x.parse::<u32>().expect("num");
    match f[0] {
        "C" => RData::CName(parse_name(f[1])),
        "M" => RData::Mx(PrefDomainData { pref: n(f[1]) as u16, domain: parse_name(f[2]) }),
        "N" => RData::Ns(parse_name(f[1])),
        "P" => RData::Ptr(parse_name(f[1])),
        "S" => RData::Soa(SoaData { mname: parse_name(f[1]), rname: parse_name(f[2]), serial: n(f[3]), refresh: n(f[4]), retry: n(f[5]), expire: n(f[6]), minimum: n(f[7]) }),
        "O" => RData::Opt(parse_opts(f[1])),
        "A" => RData::AfsDb(AFSDBData { subtype: n(f[1]) as u16, hostname: parse_name(f[2]) }),
        "R" => RData::Rp(RPData { mbox: parse_name(f[1]), txt: parse_name(f[2]) }),
        "T" => RData::Rt(PrefDomainData { pref: n(f[1]) as u16, domain: parse_name(f[2]) }),
        "Y" => RData::NaPtr(NAPTRData { order: n(f[1]) as u16, preference: n(f[2]) as u16, flags: unhex(f[3]), services: unhex(f[4]), regexp: unhex(f[5]), replacement: parse_name(f[6]) }),
        "X" => RData::Other(unhex(f[1])),
        _ => panic!("harness: rdata"),
    }
}

fn show_rrs(v: &[RR]) -> String {
    if v.is_empty() {
        return "-".into();
    }
    v.iter()
        .map(|r| format!("{}/{}/{}/{}/{}", show_name(&r.domain), r.class.0, r.rrtype.0, r.ttl, show_rdata(&r.rdata)))
        .collect::<Vec<_>>()
        .join("|")
}

fn parse_rrs(s: &str) -> Vec<RR> {
    if s == "-" {
        return vec![];
    }
    s.split('|')
        .map(|r| {
            let f: Vec<&str> = r.splitn(5, '/').collect();
            RR { domain: parse_name(f[0]), class: Class(f[1].parse().expect("class")), rrtype: Type(f[2].parse().expect("type")), ttl: f[3].parse().expect("ttl"), rdata: parse_rdata(f[4]) }
        })
        .collect()
}

pub fn dump(p: &DNSPkt) -> String {
    let b = |x: bool| if x { '1' } else { '0' };
    format!(
        "qid={} fl={}{}{}{}{}{}{}{} op={} rc={} bs={} ev={} q={}/{}/{} an={} ns={} ad={} ed={}",
        p.qid, b(p.rd), b(p.tc), b(p.aa), b(p.qr), b(p.cd), b(p.ad), b(p.ra), b(p.edns_do),
        p.opcode.0, p.rcode.0, p.bufsize,
        match p.edns_ver { Some(v) => v.to_string(), None => "n".into() },
        show_name(&p.question.qdomain), p.question.qclass.0, p.question.qtype.0,
        show_rrs(&p.answer), show_rrs(&p.nameserver), show_rrs(&p.additional),
        match &p.edns { Some(e) => show_opts(e), None => "n".into() }
    )
}

pub fn undump(toks: &[&str]) -> DNSPkt {
    let fl: Vec<char> = kv(toks, "fl").chars().collect();
    let q: Vec<&str> = kv(toks, "q").split('/').collect();
    DNSPkt {
        qid: num(toks, "qid"),
        rd: fl[0] == '1', tc: fl[1] == '1', aa: fl[2] == '1', qr: fl[3] == '1', cd: fl[4] == '1', ad: fl[5] == '1', ra: fl[6] == '1',
        edns_do: fl[7] == '1',
        opcode: Opcode(num(toks, "op")),
        rcode: RCode(num(toks, "rc")),
        bufsize: num(toks, "bs"),
        edns_ver: match kv(toks, "ev") { "n" => None, v => Some(v.parse().expect("ev")) },
        question: Question { qdomain: parse_name(q[0]), qclass: Class(q[1].parse().expect("qclass")), qtype: Type(q[2].parse().expect("qtype")) },
        answer: parse_rrs(kv(toks, "an")),
        nameserver: parse_rrs(kv(toks, "ns")),
        additional: parse_rrs(kv(toks, "ad")),
        edns: match kv(toks, "ed") { "n" => None, o => Some(parse_opts(o)) },
    }
}

pub fn dec(toks: &[&str]) -> String {
    match verif::parse(&unhex(toks[0])) {
        Ok(p) => format!("ok {}", dump(&p)),
        Err(_) => "err".into(),
    }
}

/// `dnsrt <hex>`: decode; what decodes is written again (TCP limit) => `ok <wirehex>` | `err`
pub fn rt(toks: &[&str]) -> String {
    match verif::parse(&unhex(toks[0])) {
        Ok(p) => format!("ok {}", hex(&p.serialise_with_size(65535))),
        Err(_) => "err".into(),
    }
}

pub fn enc(toks: &[&str]) -> String {
    let p = undump(toks);
    let size: usize = num(toks, "size");
    let w = p.serialise_with_size(size);
    // and what the crate's own decoder reads from it (C14: decode(encode(m)) with the implementation on both sides)
    let back = match verif::parse(&w) {
        Ok(q) => format!("ok {}", dump(&q)),
        Err(_) => "err".into(),
    };
    format!("{} back {}", hex(&w), back)
}

/// `inreply lip=<ip> q=[<dump tokens with q. prefix>] …`: `create_in_reply(msg, outr)`.
/// Tokens prefixed `Q.` describe the client query, tokens prefixed `R.` the upstream reply.
pub fn inreply(toks: &[&str]) -> String {
    use erbium_net::addr::WithPort as _;
    let qt: Vec<&str> = toks.iter().filter(|t| t.starts_with("Q.")).map(|t| &t[2..]).collect();
    let rt_: Vec<&str> = toks.iter().filter(|t| t.starts_with("R.")).map(|t| &t[2..]).collect();
    let q = undump(&qt);
    let r = undump(&rt_);
    let lip: std::net::IpAddr = kv(toks, "lip").parse().expect("lip");
    let msg = erbium::dns::DnsMessage {
        in_query: q,
        in_size: 60,
        local_ip: lip,
        remote_addr: std::net::Ipv4Addr::new(192, 0, 2, 9).with_port(40000),
        protocol: erbium::dns::Protocol::Udp,
    };
    let rt = crate::s_dns::rt();
    let reply = rt.block_on(verif::create_in_reply(&msg, &r));
    let outq = verif::create_outquery(4242, &msg.in_query);
    format!("reply=[ {} ] outq=[ {} ]", dump(&reply), dump(&outq))
}
