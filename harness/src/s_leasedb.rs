//! `leasedb` suite (C18): Pool::verif_open on database files prepared with raw SQL, with a
//! simulated crash right before the schema_version bump.
use crate::s_pool::{rows, TmpDb};
use crate::util::*;
use erbium::dhcp::pool;

const V0_SCHEMA: &str = "CREATE TABLE leases (address TEXT NOT NULL, chaddr BLOB, clientid BLOB, start INTEGER NOT NULL, expiry INTEGER NOT NULL, PRIMARY KEY (address))";
const V1_SCHEMA: &str = "CREATE TABLE leases (address TEXT NOT NULL, chaddr BLOB, clientid BLOB, start INTEGER NOT NULL, expiry INTEGER NOT NULL, options BLOB, PRIMARY KEY (address))";
const VER_TABLE: &str = "CREATE TABLE IF NOT EXISTS schema_version (key TEXT NOT NULL, version INTEGER NOT NULL, PRIMARY KEY (key))";

pub fn run(toks: &[&str]) -> String {
    let tmp = TmpDb::new();
    let start = kv(toks, "start");
    {
        let c = rusqlite::Connection::open(&tmp.path).expect("harness: raw open");
        let ex = |sql: &str| { c.execute(sql, []).expect("harness: raw sql"); };
        match start {
            "fresh" => {}
            "unver" => ex(V0_SCHEMA),
            "v0" => { ex(VER_TABLE); ex("INSERT INTO schema_version VALUES ('pool', 0)"); ex(V0_SCHEMA); }
            "v1" => { ex(VER_TABLE); ex("INSERT INTO schema_version VALUES ('pool', 1)"); ex(V1_SCHEMA); }
            s if s.starts_with("newer") => {
                ex(VER_TABLE);
                c.execute("INSERT INTO schema_version VALUES ('pool', ?1)", [s[5..].parse::<i64>().expect("ver")]).expect("harness: ver");
                ex(V1_SCHEMA);
            }
            _ => panic!("harness: start"),
        }
        let r = kv(toks, "rows");
        if r != "-" && start != "fresh" {
            for row in r.split('/') {
                let f: Vec<&str> = row.split(',').collect();
                c.execute(
                    "INSERT INTO leases (address, clientid, start, expiry) VALUES (?1, ?2, ?3, ?4)",
                    rusqlite::params![ip4(f[0].parse().expect("addr")).to_string(), unhex(f[1]), f[2].parse::<i64>().expect("start"), f[3].parse::<i64>().expect("expiry")],
                )
                .expect("harness: insert row");
            }
        }
        if kv(toks, "crash") == "bump" {
            // the process dies right before the version bump: make that statement fail
            ex(VER_TABLE);
            ex("CREATE TRIGGER verif_crash BEFORE INSERT ON schema_version BEGIN SELECT RAISE(ABORT, 'simulated crash'); END");
        }
    }
    let before = std::fs::read(&tmp.path).unwrap_or_default();
    let first = match pool::Pool::verif_open(&tmp.path) {
        Ok(_) => "ok".to_string(),
        Err(_) => "err".to_string(),
    };
    if kv(toks, "crash") == "bump" {
        let c = rusqlite::Connection::open(&tmp.path).expect("harness: raw open");
        c.execute("DROP TRIGGER verif_crash", []).expect("harness: drop trigger");
    }
    let mid = std::fs::read(&tmp.path).unwrap_or_default();
    let (second, r) = match pool::Pool::verif_open(&tmp.path) {
        Ok(mut p) => ("ok".to_string(), rows(&mut p)),
        Err(pool::Error::DbError(m)) if m.contains("newer") => ("refused".to_string(), "?".to_string()),
        Err(_) => ("err".to_string(), "?".to_string()),
    };
    let after = std::fs::read(&tmp.path).unwrap_or_default();
    let ver = {
        let c = rusqlite::Connection::open(&tmp.path).expect("harness: raw open");
        c.query_row("SELECT version FROM schema_version WHERE key='pool'", [], |r| r.get::<_, i64>(0)).map(|v| v.to_string()).unwrap_or_else(|_| "n".into())
    };
    format!("first={} second={} rows={} ver={} unchanged={}", first, second, r, ver, if before == mid && mid == after { 1 } else { 0 })
}
