//! `crashkill` suite (C18): a child process opens an on-disk lease database through the real open path and allocates
//! leases in a stream; it is killed with SIGKILL at an arbitrary instant (also while the database is being set up). The
//! parent then reopens the database and reports which leases the child had acknowledged are missing.
use crate::s_pool::{rows, TmpDb};
use crate::util::*;
use erbium::dhcp::pool;
use std::io::{BufRead, Write};

/// child mode (`<exe> crash-child <dbpath> <n> <seed>`): one line `ack <ip> <clientid>` per lease, written and flushed
/// after `allocate_address` has returned it — the moment from which a reply to the client could have been produced
pub fn child(path: &str, n: usize, seed: u64) -> ! {
    let mut p = match pool::Pool::verif_open(std::path::Path::new(path)) {
        Ok(p) => p,
        Err(_) => std::process::exit(3),
    };
    let addrs: pool::PoolAddresses = (0..48u32).map(|i| ip4(0xc000_0200 + 10 + i)).collect();
    let mut x = seed | 1;
    let out = std::io::stdout();
    for i in 0..n {
        x = x.wrapping_mul(6364136223846793005).wrapping_add(1442695040888963407);
        let client = vec![1u8, ((x >> 33) % 40) as u8, (i % 3) as u8];
        if let Ok(l) = p.allocate_address(
            &client,
            None,
            &addrs,
            std::time::Duration::from_secs(300),
            std::time::Duration::from_secs(86400),
            &[53, 1, 5],
        ) {
            let mut o = out.lock();
            let _ = writeln!(o, "ack {} {}", u32::from(l.ip), hex(&client));
            let _ = o.flush();
        }
    }
    println!("done");
    std::process::exit(0)
}

/// `crashkill ms=<kill after this many ms, counted from spawn> n=<allocations attempted> seed=<n>`
pub fn run(toks: &[&str]) -> String {
    let ms: u64 = num(toks, "ms");
    let n: usize = num(toks, "n");
    let seed: u64 = num(toks, "seed");
    let tmp = TmpDb::new();
    let exe = std::env::current_exe().expect("harness: own path");
    let mut ch = std::process::Command::new(exe)
        .args(["crash-child", tmp.path.to_str().expect("harness: path"), &n.to_string(), &seed.to_string()])
        .stdout(std::process::Stdio::piped())
        .stderr(std::process::Stdio::null())
        .spawn()
        .expect("harness: spawn child");
    let so = ch.stdout.take().expect("harness: child stdout");
    let reader = std::thread::spawn(move || {
        let mut lines = vec![];
        for l in std::io::BufReader::new(so).lines().map_while(Result::ok) {
            lines.push(l);
        }
        lines
    });
    std::thread::sleep(std::time::Duration::from_micros(ms * 1000));
    let _ = ch.kill(); // SIGKILL
    let _ = ch.wait();
    let lines = reader.join().expect("harness: reader");
    let finished = lines.iter().any(|l| l == "done");
    // the last binding acknowledged for each address is what must be on record
    let mut last: std::collections::BTreeMap<String, String> = Default::default();
    for l in &lines {
        let f: Vec<&str> = l.split(' ').collect();
        if f.len() == 3 && f[0] == "ack" {
            last.insert(f[1].to_string(), f[2].to_string());
        }
    }
    let (open, table) = match pool::Pool::verif_open(&tmp.path) {
        Ok(mut p) => ("ok", rows(&mut p)),
        Err(e) => ("err", format!("{:?}", e).replace(' ', "_")),
    };
    let mut missing = vec![];
    if open == "ok" {
        let have: std::collections::BTreeMap<String, String> = table
            .split('/')
            .filter(|r| *r != "-" && !r.is_empty())
            .map(|r| {
                let f: Vec<&str> = r.split(',').collect();
                (f[0].to_string(), f.get(1).unwrap_or(&"").to_string())
            })
            .collect();
        for (ip, cl) in &last {
            if have.get(ip) != Some(cl) {
                missing.push(format!("{}~{}", ip, cl));
            }
        }
    }
    format!(
        "open={} acks={} finished={} missing={} rows={}",
        open,
        last.len(),
        finished as u8,
        if missing.is_empty() { "-".to_string() } else { missing.join(",") },
        if table.len() > 200 { format!("{}…", &table[..200]) } else { table }
    )
}
