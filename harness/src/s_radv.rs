//! `ra` suite (C17): configuration through the real loader, advertisement through the private
//! builder (hook), wire form through icmppkt::serialise. Also `icmp6` decoding for C05.
use crate::util::*;
use erbium::config::ConfigValue;
use erbium::radv::icmppkt;

fn tri<T: Clone>(v: &ConfigValue<T>, f: impl Fn(&T) -> String) -> String {
    match v {
        ConfigValue::NotSpecified => "ns".into(),
        ConfigValue::DontSet => "ds".into(),
        ConfigValue::Value(x) => format!("v:{}", f(x)),
    }
}

fn list(v: Vec<String>) -> String {
    if v.is_empty() { "e".into() } else { v.join(",") }
}

pub fn run(toks: &[&str]) -> String {
    let conf = match crate::s_dhcp::load(kv(toks, "cfg")) {
        Ok(c) => c,
        Err(_) => return "cfgerr".into(),
    };
    let conf = conf.try_read().expect("harness: config lock");
    let ifn: usize = num(toks, "ifn");
    if ifn >= conf.ra.interfaces.len() {
        return "cfgerr".into();
    }
    let i = &conf.ra.interfaces[ifn];
    let ll: Option<[u8; 6]> = match kv(toks, "ll") {
        "n" => None,
        h => {
            let b = unhex(h);
            Some([b[0], b[1], b[2], b[3], b[4], b[5]])
        }
    };
    // what build_announcement computes from the interface before calling the pure builder
    let ifmtu: Option<u32> = match kv(toks, "ifmtu") { "n" => None, v => Some(v.parse().expect("ifmtu")) };
    let mtu = match i.mtu {
        ConfigValue::NotSpecified => ifmtu,
        ConfigValue::Value(v) => Some(v),
        ConfigValue::DontSet => None,
    };
    let self6 = std::net::Ipv6Addr::from(num::<u128>(toks, "self6"));
    let dl = std::time::Duration::from_secs(num(toks, "dl"));
    let top = format!(
        "{}~{}~{}",
        list(conf.dns_servers.iter().filter_map(|ip| match ip { std::net::IpAddr::V6(a) => Some(u128::from(*a).to_string()), _ => None }).collect()),
        list(conf.dns_search.iter().map(|d| hex(d.as_bytes())).collect()),
        match &conf.captive_portal { Some(u) => format!("s{}", hex(u.as_bytes())), None => "n".into() }
    );
    let secs = |d: &std::time::Duration| d.as_secs().to_string();
    let intf = format!(
        "{}~{}~{}~{}~{}~{}~{}~{}~{}~{}~{}~{}~{}",
        i.hoplimit,
        i.managed as u8,
        i.other as u8,
        tri(&i.lifetime, secs),
        i.reachable.as_secs(),
        i.retrans.as_secs(),
        if i.prefixes.is_empty() { "e".to_string() } else {
            i.prefixes.iter().map(|p| format!("{},{},{},{},{},{}", u128::from(p.addr), p.prefixlen, p.onlink as u8, p.autonomous as u8, p.valid.as_secs(), p.preferred.as_secs())).collect::<Vec<_>>().join(";")
        },
        tri(&i.rdnss_lifetime, secs),
        tri(&i.rdnss, |v| list(v.iter().map(|a| u128::from(*a).to_string()).collect())),
        tri(&i.dnssl_lifetime, secs),
        tri(&i.dnssl, |v| list(v.iter().map(|d| hex(d.as_bytes())).collect())),
        tri(&i.captive_portal, |u| hex(u.as_bytes())),
        match &i.pref64 { Some(p) => format!("{},{},{}", p.lifetime.as_secs(), u128::from(p.prefix), p.prefixlen), None => "n".into() }
    );
    let adv = erbium::radv::RaAdvService::verif_build_announcement(&conf, ifn, ll, mtu, self6, dl);
    let wire = icmppkt::serialise(&icmppkt::Icmp6::RtrAdvert(adv));
    format!("top={} intf={} mtu={} wire={}", top, intf, match mtu { Some(m) => m.to_string(), None => "n".into() }, hex(&wire))
}

pub fn icmp6(toks: &[&str]) -> String {
    match icmppkt::parse(&unhex(toks[0])) {
        Ok(icmppkt::Icmp6::Unknown) => "ok:unknown".into(),
        Ok(icmppkt::Icmp6::RtrSolicit(_)) => "ok:rs".into(),
        Ok(icmppkt::Icmp6::RtrAdvert(a)) => {
            // re-serialising what was parsed must not panic either (the service logs/uses it)
            let _ = format!("{:?}", a);
            "ok:ra".into()
        }
        Err(_) => "err".into(),
    }
}
