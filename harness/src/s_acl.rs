//! `acl` suite (C08): acl::require_permission on directly constructed rule lists;
//! `leasejson` suite (C20): http::leases_json.
use crate::util::*;
use erbium::acl;
use erbium::config::{Prefix, Prefix4, Prefix6};
use erbium_net::addr::{ToNetAddr as _, WithPort as _};

fn prefix(s: &str) -> Prefix {
    let (a, l) = s.split_once('/').expect("prefix");
    let (fam, x) = a.split_once('_').expect("fam");
    let len: u8 = l.parse().expect("len");
    match fam {
        // built field by field: the written address may have host bits set
        "4" => Prefix::V4(Prefix4 { addr: std::net::Ipv4Addr::from(x.parse::<u32>().expect("v4")), prefixlen: len }),
        "6" => Prefix::V6(Prefix6 { addr: std::net::Ipv6Addr::from(x.parse::<u128>().expect("v6")), prefixlen: len }),
        _ => panic!("harness: family"),
    }
}

fn rule(s: &str) -> acl::Acl {
    let f: Vec<&str> = s.split('!').collect();
    let subnet = match f[0] {
        "n" => None,
        "-" => Some(vec![]),
        l => Some(l.split(',').map(prefix).collect()),
    };
    let unix = match f[1] { "n" => None, "t" => Some(true), "f" => Some(false), _ => panic!("harness: unix") };
    let b: Vec<char> = f[2].chars().collect();
    acl::Acl {
        subnet,
        unix,
        permission: acl::Permission {
            allow_dns_recursion: b[0] == '1',
            allow_http: b[1] == '1',
            allow_http_metrics: b[2] == '1',
            allow_http_leases: b[3] == '1',
        },
    }
}

pub fn check(toks: &[&str]) -> String {
    let rs = kv(toks, "rules");
    let rules: Vec<acl::Acl> = if rs == "-" { vec![] } else { rs.split('+').map(rule).collect() };
    let c = kv(toks, "client");
    let addr = if c == "unix" {
        erbium_net::addr::UnixAddr::new("/tmp/erbium-verif-client").expect("unix").to_net_addr()
    } else {
        let (fam, x) = c.split_once('_').expect("client");
        match fam {
            "4" => std::net::Ipv4Addr::from(x.parse::<u32>().expect("v4")).with_port(1234),
            "6" => std::net::Ipv6Addr::from(x.parse::<u128>().expect("v6")).with_port(1234),
            _ => panic!("harness: client"),
        }
    };
    let perm = match kv(toks, "perm") {
        "dns" => acl::PermissionType::DnsRecursion,
        "http" => acl::PermissionType::Http,
        "leases" => acl::PermissionType::HttpLeases,
        "metrics" => acl::PermissionType::HttpMetrics,
        _ => panic!("harness: perm"),
    };
    match acl::require_permission(&rules, &acl::Attributes { addr }, perm) {
        Ok(()) => "ok".into(),
        Err(acl::AclError::NotAuthenticated) => "NotAuthenticated".into(),
        Err(acl::AclError::NotAuthorised(_)) => "NotAuthorised".into(),
    }
}

pub fn leasejson(toks: &[&str]) -> String {
    use erbium::dhcp::pool::LeaseInfo;
    let rs = kv(toks, "rows");
    let mut leases: Vec<LeaseInfo> = if rs == "-" {
        vec![]
    } else {
        rs.split('/')
            .map(|r| {
                let f: Vec<&str> = r.split(',').collect();
                LeaseInfo {
                    ip: ip4(f[0].parse().expect("ip")),
                    client_id: unhex(f[1]),
                    start: f[2].parse().expect("start"),
                    expire: f[3].parse().expect("expire"),
                    options: unhex(f[4]),
                }
            })
            .collect()
    };
    leases.sort(); // as serve_leases does before rendering
    let rows: Vec<String> = leases
        .iter()
        .map(|r| format!("{},{},{},{},{}", u32::from(r.ip), hex(&r.client_id), r.start, r.expire, hex(&r.options)))
        .collect();
    let hosts: Vec<String> = leases
        .iter()
        .map(|r| {
            match erbium::dhcp::dhcppkt::parse_options(erbium::pktparser::Buffer::new(&r.options)).ok().and_then(|o| o.get_raw_option(&erbium::dhcp::dhcppkt::OPTION_HOSTNAME).map(|x| x.to_vec())) {
                None => "n".to_string(),
                Some(b) => {
                    let s = String::from_utf8_lossy(&b).to_string();
                    if s.is_empty() { "e".into() } else { s.chars().map(|c| (c as u32).to_string()).collect::<Vec<_>>().join(".") }
                }
            }
        })
        .collect();
    let json = erbium::http::leases_json(&leases);
    let j = |v: &Vec<String>| if v.is_empty() { "-".to_string() } else { v.join("/") };
    format!("rows={} hosts={} json={}", j(&rows), j(&hosts), hex(json.as_bytes()))
}
