//! Correspondence harness: runs the *real* erbium code on protocol lines.
//! stdin: one input per line (`<suite> <tokens...>`); stdout: `<input> => <observation>`.
//! Every case runs under `catch_unwind`; a panic is an observation (`panic:<function>`), never a crash.
use std::io::{BufRead, Write};
use std::sync::atomic::{AtomicI64, Ordering};

mod util;
mod s_dhcpwire;
mod s_pool;
mod s_dhcp;
mod s_acl;
mod s_dns;
mod rig;
mod s_dnswire;
mod s_leasedb;
mod s_radv;
mod s_c05;
mod s_cfg;
mod e2e;
mod s_crash;

/// Virtual wall clock: when >= 0, every CLOCK_REALTIME read in this process (Rust std and C
/// libraries alike) returns this many seconds. The symbol overrides libc's at static link time.
pub static VCLOCK: AtomicI64 = AtomicI64::new(-1);
/// added to VCLOCK after every read when non-zero (models two clock reads that differ)
pub static VCLOCK_STEP: AtomicI64 = AtomicI64::new(0);

#[unsafe(no_mangle)]
pub unsafe extern "C" fn clock_gettime(clk: libc::clockid_t, ts: *mut libc::timespec) -> libc::c_int {
    let v = VCLOCK.load(Ordering::SeqCst);
    if clk == libc::CLOCK_REALTIME && v >= 0 {
        unsafe {
            (*ts).tv_sec = v;
            (*ts).tv_nsec = 0;
        }
        let s = VCLOCK_STEP.load(Ordering::SeqCst);
        if s != 0 {
            VCLOCK.store(v + s, Ordering::SeqCst);
        }
        return 0;
    }
    unsafe { libc::syscall(libc::SYS_clock_gettime, clk, ts) as libc::c_int }
}

thread_local! {
    static LAST_PANIC: std::cell::RefCell<String> = std::cell::RefCell::new(String::new());
}

fn run_case(line: &str) -> String {
    let toks: Vec<&str> = line.split_whitespace().collect();
    if toks.is_empty() {
        return "bad-input".into();
    }
    let suite = toks[0];
    let args = &toks[1..];
    let r = std::panic::catch_unwind(std::panic::AssertUnwindSafe(|| match suite {
        "dhcprt" => s_dhcpwire::roundtrip(args),
        "dhcpparse" => s_dhcpwire::parse(args),
        "frame" => s_dhcpwire::frame(args),
        "bflag" => s_dhcpwire::bflag(args),
        "pool" => s_pool::history(args),
        "dhcp" => s_dhcp::history(args),
        "dhcpcfg" => s_dhcp::cfgsets(args),
        "acl" => s_acl::check(args),
        "leasejson" => s_acl::leasejson(args),
        "bucket" => s_dns::bucket(args),
        "ratelimit" => s_dns::ratelimit(args),
        "cache" => s_dns::cache(args),
        "route" => s_dns::route(args),
        "dnsdec" => s_dnswire::dec(args),
        "dnsenc" => s_dnswire::enc(args),
        "dnsrt" => s_dnswire::rt(args),
        "inreply" => s_dnswire::inreply(args),
        "leasedb" => s_leasedb::run(args),
        "crashkill" => s_crash::run(args),
        "ra" => s_radv::run(args),
        "icmp6" => s_c05::icmp6(args),
        "lldp" => s_c05::lldp(args),
        "cfgload" => s_cfg::cfgload(args),
        "e2e" => e2e::run(args),
        "cfgfield" => s_cfg::cfgfield(args),
        "dhcpacc" => s_c05::dhcpacc(args),
        "toarr" => s_c05::toarr(args),
        "dnssafe" => s_c05::dnssafe(args),
        "dhcpsafe" => s_c05::dhcpsafe(args),
        "ednsacc" => s_c05::ednsacc(args),
        _ => format!("bad-suite:{}", suite),
    }));
    match r {
        Ok(s) => s,
        Err(_) => {
            let p = LAST_PANIC.with(|p| p.borrow().clone());
            // a panic inside the harness's own glue (bad input line) is not an observation of erbium
            if p.starts_with("src/") { format!("harness-error:{}", p) } else { format!("panic:{}", p) }
        }
    }
}

/// every log line of erbium is formatted (and dropped): arguments of log macros are only evaluated when the level is
/// enabled, and the services run with logging on
struct FormatOnly;
impl log::Log for FormatOnly {
    fn enabled(&self, _: &log::Metadata) -> bool {
        true
    }
    fn log(&self, r: &log::Record) {
        let _ = format!("{}", r.args());
    }
    fn flush(&self) {}
}
static LOGGER: FormatOnly = FormatOnly;

pub fn last_panic() -> String {
    LAST_PANIC.with(|p| p.borrow().clone())
}

fn main() {
    // child mode of the `crashkill` suite: allocate leases until killed
    let argv: Vec<String> = std::env::args().collect();
    if argv.len() == 5 && argv[1] == "crash-child" {
        s_crash::child(&argv[2], argv[3].parse().expect("harness: n"), argv[4].parse().expect("harness: seed"));
    }
    log::set_logger(&LOGGER).expect("harness: logger");
    log::set_max_level(log::LevelFilter::Trace);
    std::panic::set_hook(Box::new(|info| {
        // site = file (never a line number) so that keys of known findings stay stable
        let loc = info
            .location()
            .map(|l| {
                let f = l.file();
                f.rsplit("crates/").next().unwrap_or(f).to_string()
            })
            .unwrap_or_else(|| "?".into());
        let msg = if let Some(s) = info.payload().downcast_ref::<&str>() {
            s.to_string()
        } else if let Some(s) = info.payload().downcast_ref::<String>() {
            s.clone()
        } else {
            "?".into()
        };
        let msg: String = msg.chars().map(|c| if c.is_whitespace() { '_' } else { c }).take(80).collect();
        LAST_PANIC.with(|p| *p.borrow_mut() = format!("{}:{}", loc, msg));
    }));
    let stdin = std::io::stdin();
    let stdout = std::io::stdout();
    let mut out = std::io::BufWriter::new(stdout.lock());
    for line in stdin.lock().lines() {
        let line = line.expect("stdin");
        let line = line.trim_end();
        if line.is_empty() {
            continue;
        }
        let obs = run_case(line);
        writeln!(out, "{} => {}", line, obs).unwrap();
    }
    out.flush().unwrap();
}
