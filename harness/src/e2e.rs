//! End-to-end rig (C07, C04): the real `DnsService` (listeners, ACL, rate limiter, router, cache, out-query with its
//! retransmissions and its shared upstream TCP connection) on loopback in a private network namespace, a scripted upstream,
//! and many concurrent clients.  The first label of each query name is the upstream's script for that query:
//!   ok | d<ms> (delay) | x<k> (drop the first k UDP transmissions; k>=9 = silent) | dup | wid (wrong id on UDP) |
//!   tc (truncated on UDP) | big (60 answers), combinable with '-': `d120-dup`.
use crate::rig::ensure_netns;
use crate::util::*;
use std::collections::HashMap;
use std::io::{Read, Write};
use std::net::{SocketAddr, TcpListener, TcpStream, UdpSocket};
use std::sync::{Arc, Mutex, OnceLock};
use std::time::{Duration, Instant};

const UPSTREAM: &str = "127.0.0.77:53";

fn fnv(b: &[u8]) -> [u8; 4] {
    let mut h: u32 = 0x811c9dc5;
    for x in b {
        h ^= x.to_ascii_lowercase() as u32;
        h = h.wrapping_mul(0x01000193);
    }
    h.to_be_bytes()
}

struct Script {
    delay: u64,
    drop: usize,
    dup: bool,
    wid: bool,
    tc: bool,
    big: bool,
}

fn qname_end(q: &[u8]) -> Option<usize> {
    let mut i = 12;
    while i < q.len() && q[i] != 0 {
        if q[i] & 0xc0 != 0 {
            return None;
        }
        i += 1 + q[i] as usize;
    }
    if i + 5 <= q.len() { Some(i + 5) } else { None }
}

fn script_of(q: &[u8]) -> Script {
    let mut s = Script { delay: 0, drop: 0, dup: false, wid: false, tc: false, big: false };
    let l = q[12] as usize;
    let first = String::from_utf8_lossy(&q[13..13 + l.min(q.len() - 13)]).to_ascii_lowercase();
    for part in first.split('-') {
        if let Some(n) = part.strip_prefix('d').and_then(|x| x.parse().ok()) {
            s.delay = n;
        } else if let Some(n) = part.strip_prefix('x').and_then(|x| x.parse().ok()) {
            s.drop = n;
        } else if part == "dup" {
            s.dup = true;
        } else if part == "wid" {
            s.wid = true;
        } else if part == "tc" {
            s.tc = true;
        } else if part == "big" {
            s.big = true;
        }
    }
    s
}

fn answer(q: &[u8], qend: usize, s: &Script, udp: bool) -> Vec<u8> {
    let mut r = Vec::new();
    let mut id = [q[0], q[1]];
    if udp && s.wid {
        id[1] ^= 0x55;
    }
    r.extend_from_slice(&id);
    let tc = udp && s.tc;
    let n: u16 = if tc { 0 } else if s.big { 60 } else { 1 };
    r.extend_from_slice(&[0x81 | if tc { 2 } else { 0 }, 0x80, 0, 1]);
    r.extend_from_slice(&n.to_be_bytes());
    r.extend_from_slice(&[0, 0, 0, 0]);
    r.extend_from_slice(&q[12..qend]);
    let rd = fnv(&q[12..qend - 4]);
    for _ in 0..n {
        r.extend_from_slice(&[0xc0, 0x0c, 0, 1, 0, 1, 0, 0, 0, 60, 0, 4]);
        r.extend_from_slice(&rd);
    }
    r
}

fn upstream_udp(sock: UdpSocket, seen: Arc<Mutex<HashMap<Vec<u8>, usize>>>) {
    let mut buf = [0u8; 4096];
    loop {
        let (n, from) = match sock.recv_from(&mut buf) {
            Ok(x) => x,
            Err(_) => continue,
        };
        let q = buf[..n].to_vec();
        let qend = match qname_end(&q) {
            Some(e) => e,
            None => continue,
        };
        let s = script_of(&q);
        let nth = {
            let mut m = seen.lock().unwrap();
            let c = m.entry(q[12..qend].to_ascii_lowercase()).or_insert(0);
            *c += 1;
            *c
        };
        if nth <= s.drop {
            continue;
        }
        let sock = sock.try_clone().expect("harness: clone upstream socket");
        std::thread::spawn(move || {
            std::thread::sleep(Duration::from_millis(s.delay));
            let a = answer(&q, qend, &s, true);
            let _ = sock.send_to(&a, from);
            if s.dup {
                let _ = sock.send_to(&a, from);
            }
        });
    }
}

fn upstream_tcp(l: TcpListener) {
    for conn in l.incoming() {
        let mut rd = match conn {
            Ok(c) => c,
            Err(_) => continue,
        };
        let wr = Arc::new(Mutex::new(rd.try_clone().expect("harness: clone tcp")));
        std::thread::spawn(move || {
            loop {
                let mut lb = [0u8; 2];
                if rd.read_exact(&mut lb).is_err() {
                    return;
                }
                let mut q = vec![0u8; u16::from_be_bytes(lb) as usize];
                if rd.read_exact(&mut q).is_err() {
                    return;
                }
                let qend = match qname_end(&q) {
                    Some(e) => e,
                    None => continue,
                };
                let s = script_of(&q);
                let wr = wr.clone();
                std::thread::spawn(move || {
                    std::thread::sleep(Duration::from_millis(s.delay));
                    let a = answer(&q, qend, &s, false);
                    let mut m = Vec::with_capacity(a.len() + 2);
                    m.extend_from_slice(&(a.len() as u16).to_be_bytes());
                    m.extend_from_slice(&a);
                    let mut w = wr.lock().unwrap();
                    let _ = w.write_all(&m);
                    if s.dup {
                        let _ = w.write_all(&m);
                    }
                });
            }
        });
    }
}

fn start() {
    static ONCE: OnceLock<()> = OnceLock::new();
    ONCE.get_or_init(|| {
        ensure_netns();
        let seen = Arc::new(Mutex::new(HashMap::new()));
        let u = UdpSocket::bind(UPSTREAM).expect("harness: upstream udp");
        std::thread::spawn(move || upstream_udp(u, seen));
        let t = TcpListener::bind(UPSTREAM).expect("harness: upstream tcp");
        std::thread::spawn(move || upstream_tcp(t));
        let cfg = "dns-listeners: ['127.0.0.1:5300', '[::1]:5300', '[::]:5301']\n\
                   dns-routes:\n  - { type: forward, domain-suffixes: [''], dns-servers: ['127.0.0.77'] }\n\
                   acls:\n  - { match-subnets: ['127.0.0.0/8', '::1/128'], apply-access: [dns-recursion] }\n";
        let (tx, rx) = std::sync::mpsc::channel();
        std::thread::spawn(move || {
            let tx2 = tx.clone();
            let r = std::panic::catch_unwind(std::panic::AssertUnwindSafe(move || {
            let rt = tokio::runtime::Builder::new_multi_thread().worker_threads(4).enable_all().build().expect("harness: runtime");
            rt.block_on(async move {
                let conf = erbium::config::verif_load_config_from_string(cfg).expect("harness: e2e config");
                let netinfo = erbium_net::netinfo::SharedNetInfo::new().await;
                match erbium::dns::DnsService::new(conf, &netinfo).await {
                    Ok(svc) => {
                        tx.send(Ok(())).unwrap();
                        let r = svc.run().await;
                        eprintln!("harness: DnsService ended: {:?}", r.map_err(|e| e.to_string()));
                    }
                    Err(e) => tx.send(Err(e.to_string())).unwrap(),
                }
            });
            }));
            if r.is_err() {
                let _ = tx2.send(Err(format!("service thread panicked: {}", crate::last_panic())));
            }
        });
        rx.recv_timeout(Duration::from_secs(30)).expect("harness: service start").expect("harness: DnsService::new");
    });
}

fn query(id: u16, name: &[&str], edns: Option<u16>) -> Vec<u8> {
    let mut q = vec![];
    q.extend_from_slice(&id.to_be_bytes());
    q.extend_from_slice(&[1, 0, 0, 1, 0, 0, 0, 0, 0, if edns.is_some() { 1 } else { 0 }]);
    for l in name {
        q.push(l.len() as u8);
        q.extend_from_slice(l.as_bytes());
    }
    q.extend_from_slice(&[0, 0, 1, 0, 1]);
    if let Some(sz) = edns {
        q.extend_from_slice(&[0, 0, 41]);
        q.extend_from_slice(&sz.to_be_bytes());
        q.extend_from_slice(&[0, 0, 0, 0, 0, 0]);
    }
    q
}

struct Obs {
    count: usize,
    rcode: u8,
    own: &'static str,
    src_ok: bool,
    len: usize,
    tc: bool,
    ms: u128,
    idq_ok: bool,
}

fn inspect(o: &mut Obs, r: &[u8], q: &[u8]) {
    o.len = r.len();
    if r.len() < 12 {
        o.own = "short";
        return;
    }
    o.rcode = r[3] & 15;
    o.tc = r[2] & 2 != 0;
    let qend = qname_end(q).unwrap();
    o.idq_ok = r[0..2] == q[0..2] && r.len() >= qend && r[12..qend].eq_ignore_ascii_case(&q[12..qend]);
    let an = u16::from_be_bytes([r[6], r[7]]);
    if an == 0 {
        o.own = "none";
    } else if r.len() >= qend + 16 {
        let want = fnv(&q[12..qend - 4]);
        // the first answer: name pointer (2) or full name; find rdata by scanning from the end of the question
        let mut i = qend;
        if r[i] & 0xc0 == 0xc0 { i += 2 } else { while r[i] != 0 { i += 1 + r[i] as usize; } i += 1 }
        i += 10;
        o.own = if r.len() >= i + 4 && r[i..i + 4] == want { "own" } else { "other" };
    } else {
        o.own = "short";
    }
}

/// `e2e wait=<ms> q=<fam>:<proto>:<edns|->:<script>,…` — fam: 4 (127.0.0.1:5300) 6 ([::1]:5300) d4 (127.0.0.1:5301, dual-stack
/// listener) d6 ([::1]:5301); proto u|t|j (j: a UDP query sent right behind two unparseable datagrams).  All queries are sent at once, each from its own socket.
pub fn run(toks: &[&str]) -> String {
    start();
    let first = batch(toks, kv(toks, "q"));
    // `gap=<ms> then=<specs>`: a second batch after a quiet period (idle timers of the upstream connection)
    match (kv_opt(toks, "gap"), kv_opt(toks, "then")) {
        (Some(g), Some(t)) => {
            std::thread::sleep(Duration::from_millis(g.parse().expect("harness: gap")));
            format!("{},{}", first, batch(toks, t))
        }
        _ => first,
    }
}

fn batch(toks: &[&str], specs: &str) -> String {
    static CTR: std::sync::atomic::AtomicUsize = std::sync::atomic::AtomicUsize::new(0);
    let wait = Duration::from_millis(num(toks, "wait"));
    let specs: Vec<&str> = specs.split(',').collect();
    let mut handles = vec![];
    for (i, sp) in specs.iter().enumerate() {
        let f: Vec<String> = sp.split(':').map(|x| x.to_string()).collect();
        let uniq = format!("n{}", CTR.fetch_add(1, std::sync::atomic::Ordering::SeqCst));
        handles.push(std::thread::spawn(move || {
            let dst: SocketAddr = match f[0].as_str() {
                "4" => "127.0.0.1:5300",
                "6" => "[::1]:5300",
                "d4" => "127.0.0.1:5301",
                "d6" => "[::1]:5301",
                x => panic!("harness: family {}", x),
            }
            .parse()
            .unwrap();
            let edns = if f[2] == "-" { None } else { Some(f[2].parse().expect("harness: edns")) };
            let q = query(0x1000 + i as u16, &[&f[3], &uniq, "test"], edns);
            let mut o = Obs { count: 0, rcode: 255, own: "none", src_ok: true, len: 0, tc: false, ms: 0, idq_ok: true };
            let t0 = Instant::now();
            if f[1] == "u" || f[1] == "j" {
                let s = UdpSocket::bind(if dst.is_ipv4() { "127.0.0.1:0" } else { "[::1]:0" }).expect("harness: client socket");
                if f[1] == "j" {
                    // datagrams no reply is owed to, queued in front of the query: a short one, and a header that
                    // announces a question which is not there
                    s.send_to(&[0xff, 0x00, 0x01], dst).expect("harness: send");
                    s.send_to(&[0x12, 0x34, 0x01, 0x00, 0x00, 0x01, 0, 0, 0, 0, 0, 0], dst).expect("harness: send");
                }
                s.send_to(&q, dst).expect("harness: send");
                let mut buf = [0u8; 65536];
                let mut deadline = t0 + wait;
                loop {
                    let left = deadline.saturating_duration_since(Instant::now());
                    if left.is_zero() {
                        break;
                    }
                    s.set_read_timeout(Some(left)).unwrap();
                    match s.recv_from(&mut buf) {
                        Ok((n, from)) => {
                            if o.count == 0 {
                                o.ms = t0.elapsed().as_millis();
                                inspect(&mut o, &buf[..n], &q);
                                // anything else that is going to come (a duplicate) comes soon
                                deadline = Instant::now() + Duration::from_millis(700);
                            }
                            o.count += 1;
                            if from != dst {
                                o.src_ok = false;
                            }
                        }
                        Err(_) => break,
                    }
                }
            } else {
                let mut s = TcpStream::connect(dst).expect("harness: connect");
                let mut m = (q.len() as u16).to_be_bytes().to_vec();
                m.extend_from_slice(&q);
                s.write_all(&m).expect("harness: tcp send");
                let mut deadline = t0 + wait;
                loop {
                    let left = deadline.saturating_duration_since(Instant::now());
                    if left.is_zero() {
                        break;
                    }
                    s.set_read_timeout(Some(left)).unwrap();
                    let mut lb = [0u8; 2];
                    if s.read_exact(&mut lb).is_err() {
                        break;
                    }
                    let mut r = vec![0u8; u16::from_be_bytes(lb) as usize];
                    if s.read_exact(&mut r).is_err() {
                        break;
                    }
                    if o.count == 0 {
                        o.ms = t0.elapsed().as_millis();
                        inspect(&mut o, &r, &q);
                        deadline = Instant::now() + Duration::from_millis(700);
                    }
                    o.count += 1;
                }
            }
            format!("{}:{}:{}:{}:{}:{}:{}:{}", o.count, o.rcode, o.own, o.src_ok as u8, o.len, o.tc as u8, o.ms, o.idq_ok as u8)
        }));
    }
    let out: Vec<String> = handles.into_iter().map(|h| h.join().unwrap_or_else(|_| "client-thread-died".into())).collect();
    out.join(",")
}
