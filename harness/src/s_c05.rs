//! Decoders and option accessors fed with hostile bytes (C05): ICMPv6, LLDP frames, DHCP option decoding as
//! `log_options` does it, and the hardware-address slicing of the DHCP reply path.
use crate::util::*;
use erbium::dhcp::dhcppkt;
use erbium::lldp::lldppkt::*;
use erbium::radv::icmppkt;

/// `icmp6 <hex>`
pub fn icmp6(toks: &[&str]) -> String {
    match icmppkt::parse(&unhex(toks[0])) {
        Ok(m) => {
            // the service formats what it parsed when tracing
            let _ = format!("{:?}", m);
            match m {
                icmppkt::Icmp6::Unknown => "ok:unknown".into(),
                icmppkt::Icmp6::RtrSolicit(_) => "ok:rs".into(),
                icmppkt::Icmp6::RtrAdvert(a) => format!(
                    "ok:ra:{},{},{},{},{},{}",
                    a.hop_limit,
                    a.flag_managed as u8,
                    a.flag_other as u8,
                    a.lifetime.as_secs(),
                    a.reachable.as_millis(),
                    a.retrans.as_millis()
                ),
            }
        }
        Err(e) => format!("err:{:?}", e).split('(').next().unwrap().to_string(),
    }
}

fn payload_of<T: erbium::pktparser::Serialise>(t: &T) -> String {
    match t.to_wire() {
        Ok(w) => hex(&w),
        Err(_) => "towire-err".into(),
    }
}

fn tlv_dump(t: &LldpTlv) -> String {
    match t {
        LldpTlv::EndOfLLDPPDU() => "E".into(),
        LldpTlv::ChassisID(c) => format!("C{}:{}", hex(&erbium::pktparser::Serialise::to_wire(&c.r#type).unwrap_or_default()), hex(&c.identifier)),
        LldpTlv::PortID(c) => format!("P{}:{}", hex(&erbium::pktparser::Serialise::to_wire(&c.r#type).unwrap_or_default()), hex(&c.identifier)),
        LldpTlv::TTL(x) => format!("T{}", payload_of(x)),
        LldpTlv::PortDescription(d) => format!("D{}", hex(d.description.as_bytes())),
        LldpTlv::SystemName(x) => format!("N{}", payload_of(x)),
        LldpTlv::SystemDescription(x) => format!("S{}", payload_of(x)),
        LldpTlv::SystemCapabilities(c) => format!("K{},{}", c.sys_cap, c.enabled_cap),
        LldpTlv::ManagementAddress(m) => format!("M{}:{}:{}:{}:{}", m.address_family, hex(&m.address), m.numbering_subtype, m.if_number, hex(&m.oid)),
        LldpTlv::OrganizationSpecific(o) => format!("O{}:{}:{}", hex(&o.oui), o.subtype, hex(&o.value)),
        LldpTlv::UnknownTLV(u) => format!("U{}", payload_of(u)),
    }
}

/// `lldp <hex frame>`: the receive path of lldp/mod.rs (header skip + decoder) and the formatting it logs
pub fn lldp(toks: &[&str]) -> String {
    match erbium::lldp::verif_decode_frame(&unhex(toks[0])) {
        Ok(p) => {
            for t in &p.tlvs {
                let _ = format!("{:?}", t);
            }
            format!("ok:{}", p.tlvs.iter().map(tlv_dump).collect::<Vec<_>>().join("|"))
        }
        Err(erbium::pktparser::ParseError::UnexpectedEndOfInput) => "err:eoi".into(),
        Err(erbium::pktparser::ParseError::InvalidArgument(_)) => "err:inval".into(),
    }
}

/// `dhcpacc ty=<type name> v=<hex>`: DhcpOptionType::decode + Display, as log_options evaluates it
pub fn dhcpacc(toks: &[&str]) -> String {
    use dhcppkt::DhcpOptionType as T;
    let ty = match kv(toks, "ty") {
        "string" => T::String,
        "ip" => T::Ip,
        "iplist" => T::IpList,
        "i32" => T::I32,
        "u8" => T::U8,
        "u16" => T::U16,
        "u32" => T::U32,
        "bool" => T::Bool,
        "sec16" => T::Seconds16,
        "sec32" => T::Seconds32,
        "hwaddr" => T::HwAddr,
        "routes" => T::Routes,
        "domains" => T::DomainList,
        "unknown" => T::Unknown,
        x => panic!("harness: type {}", x),
    };
    match ty.decode(&unhex(kv(toks, "v"))) {
        None => "none".into(),
        Some(v) => {
            let _ = format!("{}", v);
            match v {
                dhcppkt::DhcpOptionTypeValue::String(_) | dhcppkt::DhcpOptionTypeValue::DomainList(_) => "some".into(),
                v => format!("some:{}", hex(&v.as_bytes())),
            }
        }
    }
}

/// `toarr <hex|->`: dhcp::to_array, the chaddr slicing before a reply is framed
pub fn toarr(toks: &[&str]) -> String {
    match erbium::dhcp::verif_to_array(&unhex(toks[0])) {
        Some(a) => format!("some:{}", hex(&a)),
        None => "none".into(),
    }
}

/// `dnssafe <hex>`: the DNS decoder on arbitrary bytes, outcome class only (the full decode is the `dnsdec` suite)
pub fn dnssafe(toks: &[&str]) -> String {
    match erbium::dns::verif::parse(&unhex(toks[0])) {
        Ok(p) => {
            let _ = format!("{:?}", p);
            format!("ok:{},{},{}", p.answer.len(), p.nameserver.len(), p.additional.len())
        }
        Err(_) => "err".into(),
    }
}

/// `dhcpsafe <hex>`: the DHCP decoder on arbitrary bytes + what the handler formats from it (format_client/log lines)
pub fn dhcpsafe(toks: &[&str]) -> String {
    match dhcppkt::parse(&unhex(toks[0])) {
        Ok(p) => {
            let _ = format!("{:?}", p);
            format!("ok:{},{}", p.hlen, hex(&p.chaddr))
        }
        Err(e) => format!("err:{:?}", e),
    }
}

/// `ednsacc code=<10|15> v=<hex>`: the EDNS option accessors the DNS handlers call on every query
pub fn ednsacc(toks: &[&str]) -> String {
    use erbium::dns::dnspkt;
    let mut e = dnspkt::EdnsData::new();
    let code: u16 = num(toks, "code");
    e.set_opt(dnspkt::EdnsOption { code: dnspkt::EdnsCode(code), data: unhex(kv(toks, "v")) });
    let c = match e.get_cookie() {
        None => "none".to_string(),
        Some((c, s)) => format!("{}/{}", hex(c), s.map(hex).unwrap_or("n".into())),
    };
    let x = match e.get_extended_dns_error() {
        None => "none".to_string(),
        Some((code, _text)) => format!("{:?}", code).trim_start_matches("EdeCode(").trim_end_matches(")").to_string(),
    };
    format!("cookie={} ede={}", c, x)
}
