//! Loopback rig: a private network namespace with scripted fake upstream DNS servers on
//! 127.0.0.N:53, so that the real forwarding code (router -> cache -> outquery) can run without
//! touching any real network.
use std::collections::HashMap;
use std::net::{Ipv4Addr, UdpSocket};
use std::sync::atomic::{AtomicBool, AtomicUsize, Ordering};
use std::sync::{Arc, Mutex, OnceLock};

pub fn ensure_netns() {
    static ONCE: OnceLock<()> = OnceLock::new();
    ONCE.get_or_init(|| unsafe {
        if libc::unshare(libc::CLONE_NEWNET) != 0 {
            panic!("harness: unshare(CLONE_NEWNET) failed: {}", std::io::Error::last_os_error());
        }
        // bring `lo` up: SIOCGIFFLAGS / SIOCSIFFLAGS
        let fd = libc::socket(libc::AF_INET, libc::SOCK_DGRAM, 0);
        let mut ifr: libc::ifreq = std::mem::zeroed();
        ifr.ifr_name[0] = b'l' as libc::c_char;
        ifr.ifr_name[1] = b'o' as libc::c_char;
        if libc::ioctl(fd, libc::SIOCGIFFLAGS, &mut ifr) != 0 {
            panic!("harness: SIOCGIFFLAGS failed");
        }
        ifr.ifr_ifru.ifru_flags |= (libc::IFF_UP | libc::IFF_RUNNING) as libc::c_short;
        if libc::ioctl(fd, libc::SIOCSIFFLAGS, &ifr) != 0 {
            panic!("harness: SIOCSIFFLAGS failed");
        }
        libc::close(fd);
    });
}

pub struct Upstream {
    pub count: Arc<AtomicUsize>,
    pub silent: Arc<AtomicBool>,
}

fn serve(sock: UdpSocket, ip: Ipv4Addr, count: Arc<AtomicUsize>, silent: Arc<AtomicBool>) {
    let mut buf = [0u8; 4096];
    loop {
        let (n, from) = match sock.recv_from(&mut buf) {
            Ok(x) => x,
            Err(_) => continue,
        };
        count.fetch_add(1, Ordering::SeqCst);
        if silent.load(Ordering::SeqCst) || n < 12 {
            continue;
        }
        // end of the question section: name, qtype, qclass
        let mut i = 12;
        while i < n && buf[i] != 0 {
            i += 1 + buf[i] as usize;
        }
        let qend = i + 5;
        if qend > n {
            continue;
        }
        let mut r = Vec::with_capacity(qend + 16);
        r.extend_from_slice(&buf[0..2]);
        r.extend_from_slice(&[0x81, 0x80, 0, 1, 0, 1, 0, 0, 0, 0]);
        r.extend_from_slice(&buf[12..qend]);
        // one A record owned by the question name: rdata = this upstream's address
        r.extend_from_slice(&[0xc0, 0x0c, 0, 1, 0, 1, 0, 0, 0, 60, 0, 4]);
        r.extend_from_slice(&ip.octets());
        let _ = sock.send_to(&r, from);
    }
}

pub fn upstream(ip: Ipv4Addr) -> Arc<Upstream> {
    static ALL: OnceLock<Mutex<HashMap<Ipv4Addr, Arc<Upstream>>>> = OnceLock::new();
    ensure_netns();
    let mut m = ALL.get_or_init(Default::default).lock().unwrap();
    if let Some(u) = m.get(&ip) {
        return u.clone();
    }
    let sock = UdpSocket::bind((ip, 53)).expect("harness: bind fake upstream");
    let u = Arc::new(Upstream { count: Arc::new(AtomicUsize::new(0)), silent: Arc::new(AtomicBool::new(false)) });
    let (c, s) = (u.count.clone(), u.silent.clone());
    std::thread::spawn(move || serve(sock, ip, c, s));
    m.insert(ip, u.clone());
    u
}

pub fn rt_real() -> tokio::runtime::Runtime {
    tokio::runtime::Builder::new_current_thread().enable_all().build().expect("harness: runtime")
}
