#!/bin/sh
# Run once after a fresh restore, offline: builds the Lean library (all theorem modules), the
# driver and the Rust harness from files on disk only.
set -e
cd "$(dirname "$0")"
export CARGO_NET_OFFLINE=true
python3 tools/extract.py || true
(cd lean && lake build ErbiumModel driver)
(cd harness && cargo build --offline)
echo setup-ok
