"""`crashkill` suite (C18): SIGKILL at an arbitrary instant of a stream of allocations (and of the database set-up)."""
from .common import Suite


class CrashKill(Suite):
    name = "crashkill"
    case_seconds = 1.0

    def gen(self, rng, n, tier):
        out = []
        for _ in range(n):
            # from "before the database file exists" to "well into the stream"
            ms = rng.choice([0, 0, 1, 2, 3, 4, 5, 6, 8, 10, 12, 15, 20, 30, 50, 80]) if rng.random() < 0.8 else rng.randrange(0, 120)
            out.append("crashkill ms=%d n=%d seed=%d" % (ms, rng.choice([50, 400, 3000]), rng.randrange(1, 2 ** 31)))
        return out

    def nontrivial(self, inp, obs):
        return "acks=0 " not in obs

    def shrink_candidates(self, inp):
        return []
