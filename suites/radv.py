from .common import Suite, hexs, rbytes


def ip6(n):
    return ":".join("%x" % (n >> (112 - 16 * i) & 0xffff) for i in range(8))


class RaSuite(Suite):
    name = "ra"

    def dur(self, rng, field_max):
        return rng.choice([0, 1, 7, 8, 9, 600, 1800, 3600, 9000, 65527, 65528, 65529, 65535, 65536, 86400, 2592000,
                           field_max - 1, field_max, field_max + 1, 2 ** 32 - 1, 2 ** 32, 2 ** 32 + 5, rng.randrange(2 ** 33)])

    def gen_one(self, rng):
        top = []
        if rng.random() < 0.5:
            l = [rng.choice(['"$self6"', "2001:db8::53", "192.0.2.53", '"$self4"', "2001:db8:1::%x" % rng.randrange(1, 65535)]) for _ in range(rng.randrange(0, 4))]
            top.append("dns-servers: [%s]" % ", ".join(l))
        if rng.random() < 0.4:
            top.append("dns-search: [%s]" % ", ".join(rng.choice(["example.com", "lan", "a.b.c.d.e.f.g.h", "x" * 63 + ".org", "x" * 64 + ".org"]) for _ in range(rng.randrange(0, 3))))
        if rng.random() < 0.3:
            top.append('captive-portal: "http://portal.example/%s"' % ("p" * rng.choice([0, 1, 5, 6, 7, 200])))
        intf = []
        t3 = lambda: rng.random()
        if t3() < 0.5:
            intf.append("hop-limit: %d" % rng.choice([0, 1, 64, 255]))
        if t3() < 0.4:
            intf.append("managed: %s" % rng.choice(["true", "false"]))
        if t3() < 0.4:
            intf.append("other: %s" % rng.choice(["true", "false"]))
        if t3() < 0.6:
            intf.append("lifetime: %s" % rng.choice(["null", "%ds" % self.dur(rng, 65535)]))
        if t3() < 0.4:
            intf.append("reachable: %ds" % rng.choice([0, 1, 30, 3600, 4294967, 4294968, 2 ** 32]))
        if t3() < 0.4:
            intf.append("retransmit: %ds" % rng.choice([0, 1, 4294967, 4294968, 5000000]))
        if t3() < 0.5:
            intf.append("mtu: %s" % rng.choice(["null", "1280", "1500", "9000", "65536", "4294967295"]))
        if t3() < 0.7:
            ps = []
            for _ in range(rng.choice([0, 1, 1, 2, 4, 16])):
                ln = rng.choice([64, 64, 48, 56, 0, 1, 127, 128, rng.randrange(129)])
                base = (0x20010db8 << 96) | (rng.randrange(2 ** 32) << 64)
                if rng.random() < 0.35:
                    base |= rng.randrange(2 ** 64)           # host bits set
                else:
                    base &= ~(2 ** (128 - ln) - 1)
                d = ["prefix: %s/%d" % (ip6(base), ln)]
                if rng.random() < 0.4:
                    d.append("on-link: %s" % rng.choice(["true", "false"]))
                if rng.random() < 0.4:
                    d.append("autonomous: %s" % rng.choice(["true", "false"]))
                if rng.random() < 0.5:
                    d.append("valid: %ds" % self.dur(rng, 2 ** 32 - 1))
                if rng.random() < 0.5:
                    d.append("preferred: %ds" % self.dur(rng, 2 ** 32 - 1))
                ps.append("{ " + ", ".join(d) + " }")
            intf.append("prefixes: [%s]" % ", ".join(ps))
        if t3() < 0.5:
            d = []
            if rng.random() < 0.7:
                # 127 addresses fill one RDNSS option (length octet 255); more need further options
                d.append("addresses: %s" % rng.choice(["null", "[]", "[2001:db8::53]", '["$self6", 2001:db8::54]', "[%s]" % ", ".join("2001:db8::%x" % (i + 1) for i in range(rng.choice([3, 8]))),
                                                      "[%s]" % ", ".join("2001:db8::%x" % (i + 1) for i in range(rng.choice([126, 127, 128, 130, 254, 255, 300])))]))
            if rng.random() < 0.6:
                d.append("lifetime: %s" % rng.choice(["null", "%ds" % self.dur(rng, 2 ** 32 - 1)]))
            intf.append("dns-servers: { %s }" % ", ".join(d))
        if t3() < 0.5:
            d = []
            if rng.random() < 0.7:
                # a DNSSL option holds at most 2032 octets of names: lists around and beyond that must not wrap its length
                many = "[%s]" % ", ".join("d%03d.%s.example" % (i, "z" * 50) for i in range(rng.choice([30, 31, 32, 33, 34, 40, 70])))
                d.append("domains: %s" % rng.choice(["null", "[]", "[example.org]", "[a.example, b.example, lan]", "[%s]" % ("y" * rng.choice([1, 62, 63]) + ".test"), many]))
            if rng.random() < 0.6:
                d.append("lifetime: %s" % rng.choice(["null", "%ds" % self.dur(rng, 2 ** 32 - 1)]))
            intf.append("dns-search: { %s }" % ", ".join(d))
        if t3() < 0.4:
            # the option holds at most 2038 octets of URL, and the URL ends at the first NUL
            intf.append("captive-portal: %s" % rng.choice(["null", '"http://example.com/"', '"u"', '"%s"' % ("http://e.example/" + "q" * rng.choice([0, 1, 5, 6, 7, 100, 223])),
                                                           '"%s"' % ("http://e.example/" + "q" * rng.choice([2012, 2013, 2020, 2021, 2022, 2030, 2100, 4100])),
                                                           '"http://e.example/a\\0b"']))
        if t3() < 0.5:
            ln = rng.choice([96, 96, 64, 56, 48, 40, 32, 32, 64, 96, 33, 0, 24, 128, 100])
            p = (0x0064ff9b << 96) | (rng.randrange(2 ** 32) << 64 if rng.random() < 0.3 else 0)
            if rng.random() < 0.3:
                p |= rng.randrange(2 ** 32)
            d = ["prefix: %s/%d" % (ip6(p), ln)]
            if rng.random() < 0.7:
                d.append("lifetime: %ds" % self.dur(rng, 65528))
            intf.append("pref64: { %s }" % ", ".join(d))
        y = "\n".join(top + ["router-advertisements:", "  eth0:" + (" null" if not intf else "")] + ["    " + l for l in intf]) + "\n"
        ll = rng.choice(["n", hexs(rbytes(rng, 6))])
        ifmtu = rng.choice(["n", "1500", "9000"])
        self6 = (0xfe80 << 112) | rng.randrange(1, 2 ** 64)
        dl = rng.choice([0, 1800])
        return "ra cfg=%s ifn=0 ll=%s ifmtu=%s self6=%d dl=%d" % (y.encode().hex(), ll, ifmtu, self6, dl)

    def gen(self, rng, n, tier):
        return [self.gen_one(rng) for _ in range(n)]

    def nontrivial(self, inp, obs):
        return "wire=" in obs and len(obs.split("wire=")[1]) > 40
