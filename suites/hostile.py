"""Hostile-input suites of C05: byte strings for the ICMPv6, LLDP, DHCP and DNS decoders and the option accessors."""
from .common import Suite, hexs, rbytes
from . import dnswire, dhcpwire

BOUND = [0, 1, 2, 3, 5, 6, 7, 8, 14, 15, 16, 17, 30, 31, 32, 33, 63, 64, 65, 127, 128, 129, 191, 192, 254, 255]


def mutate(rng, b, tier):
    """structure-aware mutations of a valid encoding: truncation at any point, any octet (so every length/count/type field)
    set to a boundary value, insertions, deletions, appended junk"""
    b = bytearray(b)
    k = rng.random()
    if k < 0.2 or not b:
        return bytes(b)
    if k < 0.4:
        return bytes(b[:rng.randrange(len(b) + 1)])
    if k < 0.75:
        for _ in range(rng.randrange(1, 4)):
            pos = rng.randrange(len(b))
            b[pos] = rng.choice(BOUND + [len(b) % 256, (len(b) - pos) % 256, (len(b) - pos - 1) % 256, rng.randrange(256)])
        return bytes(b)
    if k < 0.85:
        pos = rng.randrange(len(b) + 1)
        return bytes(b[:pos] + rbytes(rng, rng.randrange(1, 9)) + b[pos:])
    if k < 0.95:
        pos = rng.randrange(len(b))
        return bytes(b[:pos] + b[pos + rng.randrange(1, 9):])
    return bytes(b) + rbytes(rng, rng.randrange(1, 40))


def shrink_hex(verb, inp, idx=1):
    toks = inp.split()
    h = toks[idx]
    if h == "-":
        return []
    b = bytes.fromhex(h)
    out = []
    n = len(b)
    step = max(1, n // 2)
    while step >= 1:
        for i in range(0, n, step):
            c = b[:i] + b[i + step:]
            out.append(" ".join(toks[:idx] + [hexs(c)] + toks[idx + 1:]))
        step //= 2
    for i in range(n):
        if b[i] != 0:
            out.append(" ".join(toks[:idx] + [hexs(b[:i] + b"\x00" + b[i + 1:])] + toks[idx + 1:]))
    return out[:400]


class Icmp6(Suite):
    name = "icmp6"

    def opt(self, rng):
        t = rng.choice([1, 3, 5, 25, 31, 37, 38, 2, 24, 108, rng.randrange(256)])
        if t == 1:
            body = rbytes(rng, 6)
        elif t == 3:
            body = bytes([rng.choice([0, 64, 128, 255]), rng.choice([0, 0x80, 0x40, 0xc0, 0xff])]) + rbytes(rng, 8) + bytes(4) + rbytes(rng, 16)
        elif t == 5:
            body = bytes(2) + rbytes(rng, 4)
        elif t == 25:
            body = bytes(2) + rbytes(rng, 4) + rbytes(rng, 16 * rng.choice([0, 1, 2, 3]))
        elif t == 37:
            s = rng.choice([b"http://example.com/", b"", b"\xff\xfe", b"a" * 30, b"h\x00\x00"])
            body = s + bytes((-(len(s) + 2)) % 8)
        elif t == 38:
            body = ((rng.randrange(8192) << 3) | rng.randrange(8)).to_bytes(2, "big") + rbytes(rng, 12)
        else:
            body = rbytes(rng, rng.choice([6, 14, 22]))
        ln = (len(body) + 2 + 7) // 8
        if rng.random() < 0.15:
            ln = rng.choice([0, 1, 2, 3, 4, 5, 255])
        return bytes([t, ln]) + body

    def gen_one(self, rng, tier):
        r = rng.random()
        if r < 0.1:
            return rbytes(rng, rng.choice([0, 1, 3, 4, 7, 8, 9, 12, 16, 17, rng.randrange(80)]))
        ty = rng.choice([133, 134, 134, 134, 1, 135, 136, 137, rng.randrange(256)])
        code = rng.choice([0, 0, 0, 1])
        b = bytes([ty, code]) + rbytes(rng, 2)
        if ty == 133:
            b += bytes(4)
        elif ty == 134:
            b += bytes([rng.randrange(256), rng.choice([0, 0x80, 0x40, 0xc0])]) + rbytes(rng, 2) + rbytes(rng, 4) + rbytes(rng, 4)
        else:
            b += rbytes(rng, rng.choice([0, 4, 20]))
        for _ in range(rng.choice([0, 1, 2, 3, 6])):
            b += self.opt(rng)
        return mutate(rng, b, tier)

    def gen(self, rng, n, tier):
        return ["icmp6 " + hexs(self.gen_one(rng, tier)) for _ in range(n)]

    def nontrivial(self, inp, obs):
        return len(inp) > 30

    def shrink_candidates(self, inp):
        return shrink_hex("icmp6", inp)


class Lldp(Suite):
    name = "lldp"

    def tlv(self, t, payload, rng):
        ln = len(payload) if rng.random() > 0.1 else rng.choice([0, 1, 2, 4, 255, len(payload) + 1, max(0, len(payload) - 1)])
        return bytes([(t << 1) & 0xfe | (1 if rng.random() < 0.03 else 0), ln % 256]) + payload

    def gen_one(self, rng, tier):
        r = rng.random()
        if r < 0.1:
            return rbytes(rng, rng.choice([0, 1, 5, 13, 14, 15, 16, 17, rng.randrange(60)]))
        hdr = bytes.fromhex("0180c200000e") + rbytes(rng, 6) + bytes.fromhex("88cc")
        body = b""
        body += self.tlv(1, bytes([rng.choice([1, 2, 3, 4, 5, 6, 7, 0, 8, 255])]) + rbytes(rng, rng.choice([0, 1, 6, 20])), rng)
        body += self.tlv(2, bytes([rng.choice([1, 2, 3, 4, 5, 6, 7, 0, 8])]) + rbytes(rng, rng.choice([0, 1, 6, 20])), rng)
        body += self.tlv(3, rbytes(rng, rng.choice([2, 2, 2, 0, 1, 3])), rng)
        for _ in range(rng.choice([0, 1, 2, 4, 8])):
            t = rng.choice([4, 5, 6, 7, 8, 8, 8, 127, 9, 100, 126, 0, 1, 2, 3])
            if t in (4, 5, 6):
                p = rng.choice([b"eth0", b"switch-1.example", b"", b"\xff\xfe\x80", "café".encode(), b"x" * 255])
            elif t == 7:
                p = rbytes(rng, rng.choice([4, 4, 4, 0, 3, 5]))
            elif t == 8:
                alen = rng.choice([5, 5, 17, 2, 1, 0, 33, 34, 255, rng.randrange(256)])
                addr = rbytes(rng, max(0, alen - 1) if rng.random() < 0.8 else rng.randrange(0, 40))
                oid = rbytes(rng, rng.choice([0, 0, 3, 10]))
                p = bytes([alen, rng.choice([1, 2, 6])]) + addr + bytes([rng.choice([1, 2, 3])]) + rbytes(rng, 4) + bytes([len(oid) if rng.random() < 0.85 else rng.randrange(256)]) + oid
                if rng.random() < 0.2:
                    p = p[:rng.randrange(len(p) + 1)]
            elif t == 127:
                p = rbytes(rng, rng.choice([4, 9, 3, 2, 0, 30]))
            else:
                p = rbytes(rng, rng.choice([0, 1, 10]))
            body += self.tlv(t, p, rng)
        if rng.random() < 0.9:
            body += bytes([0, 0])
        if rng.random() < 0.1:
            hdr = hdr[:rng.randrange(15)]
        return mutate(rng, hdr + body, tier)

    def gen(self, rng, n, tier):
        return ["lldp " + hexs(self.gen_one(rng, tier)) for _ in range(n)]

    def nontrivial(self, inp, obs):
        return obs.startswith("ok:") and "|" in obs

    def shrink_candidates(self, inp):
        return shrink_hex("lldp", inp)


TYPES = ["string", "ip", "iplist", "i32", "u8", "u16", "u32", "bool", "sec16", "sec32", "hwaddr", "routes", "domains", "unknown"]


class DhcpAcc(Suite):
    name = "dhcpacc"

    def gen_one(self, rng):
        ty = rng.choice(TYPES + ["routes", "routes", "domains", "i32", "u32", "u16"])
        if ty == "routes":
            v = b""
            for _ in range(rng.choice([0, 1, 1, 2, 5])):
                ln = rng.choice([0, 1, 8, 16, 24, 25, 31, 32, 33, 63, 64, 65, 127, 128, 255, rng.randrange(256)])
                ip = rng.choice([0, 0xc0000200, 0x0a000000, rng.randrange(2 ** 32)])
                if rng.random() < 0.6 and ln <= 32:
                    ip &= ~(2 ** (32 - ln) - 1) & 0xffffffff
                v += bytes([ln]) + ip.to_bytes(4, "big") + rbytes(rng, 4)
            if rng.random() < 0.3:
                v = v[:rng.randrange(len(v) + 1)]
        elif ty == "domains":
            v = b""
            for _ in range(rng.choice([0, 1, 2, 3])):
                for _ in range(rng.choice([0, 1, 2, 4])):
                    l = rng.choice([b"example", b"com", b"a", b"\xff\xc0", b"x" * 63])
                    v += bytes([len(l)]) + l
                v += b"\x00"
            v = mutate(rng, v, "quick")
        else:
            v = rbytes(rng, rng.choice([0, 1, 2, 3, 4, 5, 6, 8, 9, 16, 255, rng.randrange(40)]))
            if rng.random() < 0.3:
                v = bytes([rng.choice([0, 0x7f, 0x80, 0xff])] * len(v))
        return "dhcpacc ty=%s v=%s" % (ty, hexs(v))

    def gen(self, rng, n, tier):
        return [self.gen_one(rng) for _ in range(n)]

    def nontrivial(self, inp, obs):
        return obs.startswith("some")

    def shrink_candidates(self, inp):
        toks = inp.split()
        v = toks[2][2:]
        return [c.replace(" ", " v=", 1).replace("x v=", "", 1) for c in []] or \
            [" ".join(toks[:2] + ["v=" + c.split()[1]]) for c in shrink_hex("x", "x " + v)]


class ToArr(Suite):
    name = "toarr"

    def gen(self, rng, n, tier):
        return ["toarr " + hexs(rbytes(rng, rng.choice([0, 1, 2, 3, 4, 5, 6, 7, 8, 16, 17, 255]))) for _ in range(n)]

    def nontrivial(self, inp, obs):
        return obs.startswith("some")


class EdnsAcc(Suite):
    name = "ednsacc"

    def gen(self, rng, n, tier):
        return ["ednsacc code=%d v=%s" % (rng.choice([10, 10, 15, 15, 3]), hexs(rbytes(rng, rng.choice([0, 1, 2, 3, 7, 8, 9, 15, 16, 17, 24, 39, 40, 41, 64, rng.randrange(80)]))))
                for _ in range(n)]

    def nontrivial(self, inp, obs):
        return "none ede=none" not in obs


class DnsSafe(Suite):
    name = "dnssafe"

    def gen(self, rng, n, tier):
        return ["dnssafe " + l.split(" ", 1)[1] for l in dnswire.DnsDec().gen(rng, n, tier)]

    def nontrivial(self, inp, obs):
        return len(inp) > 40

    def shrink_candidates(self, inp):
        return shrink_hex("dnssafe", inp)


class DhcpSafe(Suite):
    name = "dhcpsafe"

    def gen(self, rng, n, tier):
        return ["dhcpsafe " + l.split(" ", 1)[1] for l in dhcpwire.DhcpParse().gen(rng, n, tier)]

    def nontrivial(self, inp, obs):
        return len(inp) > 40

    def shrink_candidates(self, inp):
        return shrink_hex("dhcpsafe", inp)
