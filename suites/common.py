"""Shared generator helpers. Every random choice comes from the one `random.Random` passed in."""


def hexs(b):
    return b.hex() if len(b) else "-"


def rbytes(rng, n):
    return bytes(rng.randrange(256) for _ in range(n))


def pick_len(rng, choices, hi):
    """mostly boundary lengths from `choices`, otherwise uniform up to hi"""
    if rng.random() < 0.6:
        return rng.choice(choices)
    return rng.randrange(hi + 1)


class Suite:
    """A correspondence suite: generates input lines for one model verb."""
    name = "?"
    # separator used by the generic shrinker; None = atomic input
    ops_sep = None

    def gen(self, rng, n, tier):
        raise NotImplementedError

    def nontrivial(self, inp, obs):
        """non-triviality rule for the evidence counts"""
        return True

    def shrink_candidates(self, inp):
        """smaller variants of a failing input (generic ddmin over ops when ops_sep is set)"""
        return []
