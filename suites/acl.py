from .common import Suite, hexs, rbytes


def rnd_prefix(rng, interesting):
    if rng.random() < 0.5:
        ln = rng.choice([0, 1, 8, 16, 23, 24, 25, 30, 31, 32, rng.randrange(33)])
        base = rng.choice(interesting["v4"] + [rng.randrange(2 ** 32)])
        if rng.random() < 0.6:
            base &= ~(2 ** (32 - ln) - 1) & 0xffffffff
        return "4_%d/%d" % (base, ln)
    ln = rng.choice([0, 1, 48, 64, 96, 104, 120, 127, 128, rng.randrange(129)])
    base = rng.choice(interesting["v6"] + [rng.randrange(2 ** 128)])
    if rng.random() < 0.3:   # ::ffff:a.b.c.d/(96+n) prefixes
        ln = 96 + rng.choice([0, 8, 24, 25, 32, rng.randrange(33)])
        base = (0xffff << 32) | rng.choice(interesting["v4"])
        if rng.random() < 0.25:
            # the same written with a length that cuts into (or before) the ::ffff: part: the mapped form only
            # survives the mask from /96 on, shorter ones must behave as plain IPv6 prefixes
            ln = rng.choice([0, 1, 48, 64, 79, 80, 81, 87, 88, 89, 94, 95, rng.randrange(96)])
            return "6_%d/%d" % (base, ln)
    if rng.random() < 0.6:
        base &= ~(2 ** (128 - ln) - 1) & (2 ** 128 - 1)
    return "6_%d/%d" % (base, ln)


class AclSuite(Suite):
    name = "acl"

    def gen(self, rng, n, tier):
        out = []
        for _ in range(n):
            interesting = {"v4": [0xc0000201, 0xc0000200, 0x7f000001, 0x0a000001, 0xc00002ff],
                           "v6": [1, 0x20010db8 << 96, (0x20010db8 << 96) | 1, 0xfe80 << 112]}
            rules = []
            for _ in range(rng.choice([0, 1, 1, 2, 3, 4, 6])):
                k = rng.random()
                if k < 0.15:
                    sub = "n"
                elif k < 0.2:
                    sub = "-"
                else:
                    sub = ",".join(rnd_prefix(rng, interesting) for _ in range(rng.randrange(1, 4)))
                ux = rng.choice(["n", "n", "n", "t", "f"])
                pm = "".join(rng.choice("01") for _ in range(4))
                rules.append("%s!%s!%s" % (sub, ux, pm))
            # clients near the prefixes written in the rules
            cands = []
            for r in rules:
                for p in r.split("!")[0].split(","):
                    if "/" in p:
                        fam, rest = p.split("_")
                        a, l = rest.split("/")
                        a, l = int(a), int(l)
                        w = 32 if fam == "4" else 128
                        size = 2 ** (w - l)
                        net = a - a % size
                        for x in (net, net + size - 1, (net - 1) % 2 ** w, (net + size) % 2 ** w, a, net + rng.randrange(size)):
                            cands.append("%s_%d" % (fam, x))
                            if fam == "4":
                                cands.append("6_%d" % ((0xffff << 32) | x))          # seen as v4-mapped
                            elif (x >> 32) == 0xffff:
                                cands.append("4_%d" % (x & 0xffffffff))
            cands += ["unix", "4_%d" % rng.randrange(2 ** 32), "6_%d" % rng.randrange(2 ** 128), "4_2130706433", "6_1"]
            out.append("acl rules=%s client=%s perm=%s" % ("+".join(rules) or "-", rng.choice(cands), rng.choice(["dns", "http", "leases", "metrics"])))
        return out

    def nontrivial(self, inp, obs):
        return "rules=-" not in inp

    def shrink_candidates(self, inp):
        toks = inp.split()
        rules = toks[1][6:].split("+")
        out = []
        for i in range(len(rules)):
            rest = rules[:i] + rules[i + 1:]
            out.append(" ".join([toks[0], "rules=" + ("+".join(rest) or "-")] + toks[2:]))
        return out


class LeaseJson(Suite):
    name = "leasejson"

    def gen(self, rng, n, tier):
        out = []
        for _ in range(n):
            rows = []
            used = set()
            for _ in range(rng.choice([0, 1, 1, 2, 3, 5, 8])):
                ipn = rng.choice([0, 0xffffffff, 0xc0000201 + rng.randrange(20), rng.randrange(2 ** 32)])
                if ipn in used:
                    continue
                used.add(ipn)
                cid = rbytes(rng, rng.choice([0, 1, 6, 7, 20, rng.randrange(256)]))
                st = rng.choice([0, 1, 1700000000, 2 ** 32 - 1, rng.randrange(2 ** 32)])
                ex = rng.choice([0, 9, 10, 1700000300, 2 ** 32 - 1, rng.randrange(2 ** 32)])
                k = rng.random()
                if k < 0.2:
                    blob = b""
                elif k < 0.3:
                    blob = rbytes(rng, rng.randrange(12))          # possibly unparsable
                else:
                    hn = rng.choice([b"host1", b"", b"a\"b", b"back\\slash", b"tab\there", b"nl\n", b"\x00", b"\x01\x1f", b"\x7f",
                                     "café".encode(), b"\xff\xfe", " x".encode(), b"</script>", rbytes(rng, rng.randrange(40)),
                                     bytes(rng.randrange(0x20) for _ in range(rng.randrange(1, 5)))])
                    opts = [(53, b"\x01")] if rng.random() < 0.5 else []
                    if rng.random() < 0.85:
                        opts.append((12, hn[:255]))
                    if rng.random() < 0.3:
                        opts.append((61, cid[:255]))
                    rng.shuffle(opts)
                    blob = b"".join(bytes([c, len(v)]) + v for c, v in opts) + b"\xff"
                rows.append("%d,%s,%d,%d,%s" % (ipn, hexs(cid), st, ex, hexs(blob)))
            out.append("leasejson rows=%s" % ("/".join(rows) or "-"))
        return out

    def nontrivial(self, inp, obs):
        return "rows=-" not in inp

    def shrink_candidates(self, inp):
        rows = inp.split("rows=")[1].split("/")
        out = []
        for i in range(len(rows)):
            rest = rows[:i] + rows[i + 1:]
            out.append("leasejson rows=" + ("/".join(rest) or "-"))
        return out
