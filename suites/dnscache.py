from .common import Suite, hexs, rbytes
from .pool import ddmin_ops

NS = 1000000000


class CacheSuite(Suite):
    name = "cache"

    def gen(self, rng, n, tier):
        out = []
        for _ in range(n):
            names = ["%s.%s" % (b"www".hex(), b"example".hex()), "%s.%s" % (b"WWW".hex(), b"example".hex()),
                     b"example".hex(), "-", "%s.%s" % (b"a".hex(), b"b".hex())]
            keys = []
            for _ in range(rng.choice([1, 2, 3])):
                keys.append([rng.choice(names), rng.choice([1, 28, 15]), rng.choice("01"), rng.choice("01")])
            ops = []
            last_min = None
            for _ in range(rng.choice([2, 3, 5, 8, 15])):
                r = rng.random()
                if r < 0.3:
                    k = rng.choice(keys)

                    def tt():
                        return [rng.choice([0, 1, 2, 5, 59, 60, 61, 300, 86400, 2 ** 32 - 1, rng.randrange(2 ** 32)]) for _ in range(rng.choice([0, 0, 1, 1, 2, 3]))]
                    a, nn, d = tt(), tt(), tt()
                    if rng.random() < 0.15:
                        a, nn, d = [], [], []          # a reply with no records
                    allt = a + nn + d
                    last_min = min(allt) if allt else None
                    ops.append("s:%s:%d:%s:%s:%s/%s/%s" % (k[0], k[1], k[2], k[3], ",".join(map(str, a)) or "-", ",".join(map(str, nn)) or "-", ",".join(map(str, d)) or "-"))
                elif r < 0.65:
                    k = list(rng.choice(keys))
                    if rng.random() < 0.25:     # near-miss key
                        i = rng.randrange(4)
                        if i == 0:
                            k[0] = rng.choice(names)
                        elif i == 1:
                            k[1] = rng.choice([1, 28, 15, 255])
                        else:
                            k[i] = "1" if k[i] == "0" else "0"
                    ops.append("l:%s:%d:%s:%s" % (k[0], k[1], k[2], k[3]))
                elif r < 0.75:
                    ops.append("e")
                else:
                    cands = [0, 1, NS - 1, NS, NS + 1, 5 * NS, 59 * NS + 999999999, 60 * NS, 60 * NS + 1, 1799 * NS, 1800 * NS, 86400 * NS]
                    if last_min is not None and last_min < 2 ** 31:
                        cands += [max(0, last_min * NS - 1), last_min * NS, last_min * NS + 1, max(0, last_min - 1) * NS]
                    ops.append("t:%d" % rng.choice(cands))
            out.append("cache ops=" + ";".join(ops))
        return out

    def nontrivial(self, inp, obs):
        return "hit:" in obs

    def shrink_candidates(self, inp):
        return ddmin_ops("cache ops=", inp.split("ops=")[1].split(";"))
