"""End-to-end rig (C07, transport clauses of C04): concurrent clients against the real DnsService on loopback."""
from .common import Suite

FAMS = ["4", "6", "d4", "d6"]


class E2E(Suite):
    name = "e2e"
    ops_sep = None

    def script(self, rng, allow_silent):
        r = rng.random()
        if r < 0.3:
            return "ok"
        if r < 0.45:
            return "d%d" % rng.choice([5, 20, 60, 150, 400])
        if r < 0.5:
            # slower than the retransmission timeout: answered while retransmissions are already out
            return "d%d" % rng.choice([900, 1500, 2500])
        if r < 0.6:
            return rng.choice(["dup", "d30-dup"])
        if r < 0.7:
            return rng.choice(["wid", "tc", "d40-wid", "d40-tc"])
        if r < 0.8:
            return rng.choice(["big", "d20-big"])
        if r < 0.93:
            return "x%d" % rng.choice([1, 1, 2, 3])
        return "x9" if allow_silent else "x1"

    def gen_one(self, rng, n, silent):
        qs = []
        nsilent = 0
        for _ in range(n):
            fam = rng.choice(FAMS)
            proto = rng.choice(["u", "u", "u", "t"])
            sc = self.script(rng, silent and nsilent < 2)
            if sc == "x9":
                nsilent += 1
            edns = rng.choice(["-", "-", "512", "700", "1232", "4096"]) if proto == "u" else "-"
            qs.append("%s:%s:%s:%s" % (fam, proto, edns, sc))
        # silent upstream: the reply (SERVFAIL) comes after all transmissions timed out
        wait = 62000 if nsilent else 22000
        return "e2e wait=%d q=%s" % (wait, ",".join(qs))

    def gen(self, rng, n, tier):
        out = []
        # n is the number of *queries* asked for; they are packed into a few concurrent batches
        sizes = [24, 48] if tier == "quick" else [64, 128, 256, 256]
        i = 0
        total = 0
        if tier != "quick":
            # a quiet period longer than the upstream connection's idle timeout, then TCP queries again: the re-opened
            # connection must serve them (its watchdogs start afresh)
            out.append("e2e wait=22000 gap=126000 q=6:t:-:ok,4:t:-:d20 then=6:t:-:ok,4:t:-:ok,d4:t:-:d20,6:u:-:tc")
        # a single query queued right behind datagrams that get no reply, with nothing else going on: it must be answered
        # (no later traffic comes to wake the listener up); one per listener
        for fam in FAMS:
            out.append("e2e wait=9000 q=%s:j:%s:ok" % (fam, rng.choice(["-", "1232"])))
        while total < n:
            sz = sizes[i % len(sizes)]
            out.append(self.gen_one(rng, sz, silent=(i == 0 or tier != "quick")))
            total += sz
            i += 1
        return out

    def nontrivial(self, inp, obs):
        return True

    case_seconds = 200         # a batch may wait a minute for a reply that never comes
    shrink_batch = 6          # every candidate is a real exchange of seconds: few at a time

    def shrink_candidates(self, inp):
        toks = inp.split()
        qs = toks[2][2:].split(",")
        out = []
        k = len(qs) // 2
        while k >= 1 and len(out) < 6:
            for i in range(0, len(qs), k):
                rest = qs[:i] + qs[i + k:]
                if rest:
                    # a batch without a silent upstream needs no long wait (a missing reply is then seen after 9 s)
                    wait = 62000 if any(q.endswith("x9") for q in rest) else 9000
                    out.append("e2e wait=%d q=%s" % (wait, ",".join(rest)))
            k //= 2
        return out[:6]
