from .common import Suite


def ip(n):
    return "%d.%d.%d.%d" % (n >> 24 & 255, n >> 16 & 255, n >> 8 & 255, n & 255)


class DhcpCfg(Suite):
    """C02: configurations whose policy forest is generated together with a structural description of it."""
    name = "dhcpcfg"

    def gen_policy(self, rng, depth, base, yaml, desc, indent):
        items = []
        pad = "  " * indent
        first = True

        def emit(l):
            nonlocal first
            yaml.append(pad + ("- " if first else "  ") + l)
            first = False

        emit("match-hardware-address: 00:00:5e:00:53:%02x" % rng.randrange(256))
        if rng.random() < 0.85:
            k = rng.random()
            if k < 0.45 or rng.random() < 0.2:
                a = base + rng.randrange(64)
                emit("apply-address: %s" % ip(a))
                items.append("A%d" % a)
            if k >= 0.45 and k < 0.75 or rng.random() < 0.15:
                s = base + rng.randrange(64)
                e = s + rng.choice([0, 0, 1, 2, 5, 17, 40]) if rng.random() < 0.93 else s - rng.randrange(1, 4)
                emit("apply-range: { start: %s, end: %s }" % (ip(s), ip(e)))
                items.append("R%d-%d" % (s, e))
            if k >= 0.75 or rng.random() < 0.15:
                ln = rng.choice([32, 31, 30, 30, 29, 29, 28, 27, 26, 24])
                net = (base + rng.randrange(64)) & ~(2 ** (32 - ln) - 1)
                emit("apply-subnet: %s/%d" % (ip(net), ln))
                items.append("S%d/%d" % (net, ln))
        desc.append("%d!%s" % (depth, ",".join(items) if items else "n"))
        if depth < 3 and rng.random() < (0.5 if depth == 0 else 0.35):
            emit("policies:")
            for _ in range(rng.randrange(1, 4)):
                self.gen_policy(rng, depth + 1, base, yaml, desc, indent + 2)

    def gen_one(self, rng):
        base = 0xc0000200 + rng.randrange(3) * 256
        top, prefixes = [], []
        for _ in range(rng.choice([0, 1, 1, 1, 2])):
            ln = rng.choice([24, 25, 26, 27, 28, 29, 30, 30, 31, 32])
            net = (base + rng.randrange(256)) & ~(2 ** (32 - ln) - 1)
            a = net + rng.randrange(2 ** (32 - ln)) if rng.random() < 0.3 else net
            prefixes.append((a, ln))
        addrs = ["%s/%d" % (ip(a), l) for a, l in prefixes]
        if rng.random() < 0.2:
            addrs.insert(rng.randrange(len(addrs) + 1), "2001:db8::/64")
        if addrs:
            top.append("addresses: [%s]" % ", ".join(addrs))
        desc = []
        if rng.random() < 0.9:
            top.append("dhcp-policies:")
            for _ in range(rng.randrange(1, 4)):
                self.gen_policy(rng, 0, base, top, desc, 1)
        if not top:
            top.append("dns-search: [lan]")
        y = "\n".join(top) + "\n"
        if prefixes and rng.random() < 0.8:
            a, l = rng.choice(prefixes)
            net = a & ~(2 ** (32 - l) - 1)
            sip = net + rng.randrange(2 ** (32 - l))
        else:
            sip = 0xc0000263
        return "dhcpcfg cfg=%s sip=%d addrs=%s pol=%s" % (
            y.encode().hex(), sip, ",".join("%d/%d" % p for p in prefixes) or "e", "+".join(desc) or "e")

    def gen(self, rng, n, tier):
        return [self.gen_one(rng) for _ in range(n)]

    def nontrivial(self, inp, obs):
        return "pol=" in obs and any(c.isdigit() for c in obs)
