from .common import Suite, hexs, rbytes


class LeaseDb(Suite):
    name = "leasedb"

    def gen(self, rng, n, tier):
        out = []
        for _ in range(n):
            start = rng.choice(["fresh", "unver", "unver", "v0", "v0", "v1", "v1", "newer2", "newer%d" % rng.randrange(2, 1000)])
            rows = []
            used = set()
            for _ in range(rng.choice([0, 1, 2, 5, 12])):
                a = 0xc0000201 + rng.randrange(50)
                if a in used:
                    continue
                used.add(a)
                rows.append("%d,%s,%d,%d" % (a, hexs(rbytes(rng, rng.choice([1, 6, 7, 20]))), rng.choice([0, 1, 1700000000, rng.randrange(2 ** 32)]),
                                            rng.choice([0, 10, 1700000300, 2 ** 32 - 1, rng.randrange(2 ** 32)])))
            if start == "fresh":
                rows = []
            crash = "none" if start.startswith("newer") else rng.choice(["none", "bump"])
            out.append("leasedb start=%s rows=%s crash=%s" % (start, "/".join(rows) or "-", crash))
        return out

    def nontrivial(self, inp, obs):
        return "rows=-" not in inp
