"""C19: configuration documents and scalar values for the loader."""
import re
from .common import Suite, hexs, rbytes
from . import dhcp, radv

REPO = "/repo"

INTS = [0, 1, -1, 2, 3, 4, 59, 60, 255, 256, 1500, 65535, 65536, 2 ** 31 - 1, 2 ** 31, 2 ** 32 - 1, 2 ** 32, 2 ** 63 - 1, -2 ** 63, -5, 86400]
DURS = ["5s", "1w2d3h4m5s", "s", "m", "ms", "", " ", "1_000s", "1h 30m", "99999999999999999999s", "18446744073709551615", "18446744073709551616",
        "18446744073709551615s", "18446744073709551615s1s", "30500568904943w", "30500568904944w", "213503982334601d", "213503982334602d",
        "x", "5x", "５s", " 5s", " 5s", "5S", "1d1", "1 2 3", "0s", "1s1s1s", "9" * 19, "9" * 20, "9" * 40 + "w", "1m_", "__", "1\t2s", "h1", "1hh"]
ADDRS = [("192.0.2.0", "4:3221225984"), ("10.1.2.3", "4:167838211"), ("0.0.0.0", "4:0"), ("255.255.255.255", "4:4294967295"), ("$self4", "4:0"),
         ("$self6", "6:0"), ("2001:db8::", "6:42540766411282592856903984951653826560"), ("::ffff:192.0.2.0", "6:281473902969344"), ("::", "6:0"),
         ("192.0.2", "x"), ("", "x"), ("abc", "x"), ("192.0.2.256", "x"), ("1.2.3.4.5", "x"), ("2001:db8:::", "x"), ("$self", "x")]
LENS = ["0", "1", "7", "8", "16", "24", "31", "32", "33", "64", "95", "96", "127", "128", "129", "255", "256", "-1", "+24", "024", " 24", "24 ", "", "x", "2 4", "1e1", "999999999999"]
HW = ["00:01:02:03:04:05", "0:1", "", ":", "zz", "0g", "AA:bb", "001:02", "é1", "00:", ":00", "0", "00", "g0", "0G", "/0", ":0", "@@", "`a", "FF:ff:0f", "00:01:02:03:04:05:06:07:08"]
STRS = ["", "a", "example.com", "a..b", "x" * 63 + ".org", "x" * 64 + ".org", ".", "é", "a b", "$self4", "true", "12"]


def ystr(s):
    return "s:" + hexs(s.encode())


def yval(rng, depth=0):
    k = rng.randrange(9)
    if k == 0:
        return "n"
    if k == 1:
        return "i:%d" % rng.choice(INTS)
    if k == 2:
        return ystr(rng.choice(STRS + DURS[:6]))
    if k == 3:
        return "b:%d" % rng.randrange(2)
    if k == 4:
        return "r:" + hexs(rng.choice(["1.5", "-0.0", "1e9", ".inf"]).encode())
    if k == 5:
        return "h"
    if k == 6:
        return "bad"
    if depth > 0:
        return "a=e"
    n = rng.choice([0, 0, 1, 2, 3])
    if n == 0:
        return "a:e"
    return "a:" + ";".join(yval(rng, 1).replace(":", "=") for _ in range(n))


class CfgField(Suite):
    name = "cfgfield"

    def gen_one(self, rng):
        k = rng.choice(["duration", "duration", "duration", "prefix", "prefix4", "prefix6", "hwaddr", "hwaddr", "u8", "u16", "u32", "bool",
                        "string", "search", "strarray", "typename", "sockaddr", "sockaddr"])
        extra = ""
        r = rng.random()
        if r < 0.3:
            v = yval(rng)
        elif k == "duration":
            if rng.random() < 0.6:
                s = rng.choice(DURS)
            else:
                s = "".join(rng.choice(["1", "9", "0", "12", "s", "m", "h", "d", "w", " ", "_", "x", "18446744073709551615", "9" * rng.randrange(1, 22)])
                            for _ in range(rng.randrange(0, 7)))
            v = ystr(s) if rng.random() < 0.9 else "i:%d" % rng.choice(INTS)
        elif k.startswith("prefix"):
            a, tag = rng.choice(ADDRS)
            ln = rng.choice(LENS)
            q = rng.random()
            s = "%s/%s" % (a, ln) if q < 0.85 else (a if q < 0.9 else ("%s/%s/1" % (a, ln) if q < 0.95 else "/" + ln))
            if q >= 0.95:
                tag = "x"
            elif q >= 0.9 and q < 0.95:
                pass
            v = ystr(s)
            extra = " ip=" + tag
        elif k == "hwaddr":
            s = rng.choice(HW) if rng.random() < 0.6 else ":".join(rng.choice(["00", "ff", "0", "a", "Ag", "7f", "", "123"]) for _ in range(rng.randrange(1, 8)))
            v = ystr(s)
        elif k in ("u8", "u16", "u32"):
            v = "i:%d" % rng.choice(INTS)
        elif k == "bool":
            v = "b:%d" % rng.randrange(2)
        elif k == "sockaddr":
            v = ystr(rng.choice(["[::]:53", "192.0.2.1:8080", "/run/erbium.sock", "@abstract", "", "é", "éth0:53", "☃", " [::]:53", "@", "/", "x", "0:0", "[::1]", "1.2.3.4", "@" + "a" * 200,
                                 "/" + "p" * 200, "a/\x00b", "::1:53"]))
        elif k in ("string", "search"):
            v = ystr(rng.choice(STRS))
        elif k == "strarray":
            n = rng.choice([0, 1, 2, 3])
            v = "a:e" if n == 0 else "a:" + ";".join(rng.choice([ystr(rng.choice(STRS)).replace(":", "="), "n", "i=1", "a=e"]) for _ in range(n))
        else:
            v = yval(rng)
        return "cfgfield k=%s v=%s%s" % (k, v, extra)

    def gen(self, rng, n, tier):
        return [self.gen_one(rng) for _ in range(n)]

    def nontrivial(self, inp, obs):
        return obs.startswith("ok:")


WRONG = ["['']", "['é:53']", "[' x']", "[]", "{}", "null", "~", "-1", "0", "99999999999999999999", "1.5", "true", '"x"', "[[]]", "[null]", "[1, x]", "0.0.0.0/0", "10.0.0.0/7",
         "10.0.0.0/33", "::/129", "::/0", "s", "5x", "99999999999999999999s", '""', "192.0.2.0/24", "2001:db8::/64", "10.0.0.0", "10.0.0.0/x",
         "[{}]", "[{prefix: 10.0.0.0}]", "[{prefix: 10.0.0.0/x, next-hop: 10.0.0.1}]", "{start: 10.0.0.5}", "{start: 10.0.0.9, end: 10.0.0.1}",
         "255", "256", "65536", "4294967296", "-9223372036854775808", "1w", "0s", "{a: b}", "!!binary x", "&a b", "*a"]


def man_examples():
    out = []
    try:
        text = open(REPO + "/man/erbium.conf.5", encoding="utf-8").read()
    except OSError:
        return out
    ex, on = "", False
    for line in text.split("\n"):
        if line == ".EX":
            ex, on = "", True
        elif line == ".EE":
            out.append(ex.replace("\\fIthe-contents-of-the-top-level-addresses-field\\fP", "192.0.2.0/24"))
            on = False
        elif on:
            ex += line + "\n"
    return out


def example_file():
    try:
        c = open(REPO + "/erbium.conf.example", encoding="utf-8").read()
    except OSError:
        return None
    c = c.replace("\n#  ", "\n  ").replace("\n# ", "\n").replace("the-contents-of-the-top-level-addresses-field", "192.0.2.0/24")
    return c


class CfgLoad(Suite):
    name = "cfgload"

    def base_docs(self, rng):
        docs = []
        cfg, _ = dhcp.gen_config(rng)
        docs.append(cfg)
        line = radv.RaSuite().gen_one(rng)
        docs.append(bytes.fromhex(line.split("cfg=")[1].split()[0]).decode())
        docs.append("addresses: [192.0.2.0/24]\ndhcp-policies:\n  - match-subnet: 192.0.2.0/24\n    apply-routes:\n      - prefix: 10.0.0.0/8\n        next-hop: 192.0.2.1\n"
                    "      - { prefix: 198.51.100.0/24, next-hop: 192.0.2.2 }\n    apply-range: { start: 192.0.2.10, end: 192.0.2.20 }\n"
                    "    apply-lease-time: 1h\n    apply-domain-search: [example.com, lan]\n    policies:\n      - match-hardware-address: 00:00:5e:00:53:01\n"
                    "        apply-address: 192.0.2.99\n        apply-subnet: 192.0.2.128/28\n")
        docs.append("dns-routes:\n  - { type: forward, domain-suffixes: [example.com, ''], dns-servers: [192.0.2.53] }\n  - { type: forge-nxdomain, domain-suffixes: [ads.example] }\n"
                    "acls:\n  - { match-subnets: [192.0.2.0/24, '::ffff:192.0.2.0/120'], apply-access: [dns-recursion, http-ro] }\n  - { match-unix: true, apply-access: [http] }\n"
                    "listeners: ['[::]:8080', /run/erbium.sock]\ndns-listeners: ['[::1]:5353']\ndefault-listen-style: bind-addresses-interfaces\naddresses: [192.0.2.0/24, 2001:db8::/64]\n")
        return docs

    def mutate_doc(self, rng, doc):
        lines = doc.split("\n")
        k = rng.random()
        idxs = [i for i, l in enumerate(lines) if re.search(r":\s*\S", l)]
        if k < 0.55 and idxs:
            for _ in range(rng.choice([1, 1, 2])):
                i = rng.choice(idxs)
                head = lines[i][:lines[i].index(":") + 1]
                lines[i] = head + " " + rng.choice(WRONG)
        elif k < 0.65 and lines:
            del lines[rng.randrange(len(lines))]
        elif k < 0.72 and idxs:
            i = rng.choice(idxs)
            lines.insert(i, lines[i])
        elif k < 0.8 and idxs:
            i = rng.choice(idxs)
            lines[i] = re.sub(r"^(\s*-?\s*)[A-Za-z0-9-]+:", lambda m: m.group(1) + rng.choice(["bogus-key", "apply-bogus", "match-bogus", "1", "~", "[a]"]) + ":", lines[i], count=1)
        elif k < 0.9:
            b = bytearray("\n".join(lines).encode())
            for _ in range(rng.randrange(1, 4)):
                if not b:
                    break
                p = rng.randrange(len(b))
                q = rng.random()
                if q < 0.5:
                    b[p] = rng.choice([0x20, 0x3a, 0x2d, 0x5b, 0x5d, 0x7b, 0x7d, 0x23, 0x0a, 0x22, 0x27, 0x30, 0x2f, rng.randrange(32, 127)])
                elif q < 0.75:
                    del b[p]
                else:
                    b[p:p] = bytes([rng.choice([0x20, 0x3a, 0x0a, 0x2d, 0x2f, 0x39])])
            return bytes(b)
        return "\n".join(lines).encode()

    def gen(self, rng, n, tier):
        out = []
        for i, ex in enumerate(man_examples()):
            out.append("cfgload y=%s expect=ok src=man-example-%d" % (hexs(ex.encode()), i + 1))
        ef = example_file()
        if ef is not None:
            out.append("cfgload y=%s expect=ok src=erbium.conf.example" % hexs(ef.encode()))
        shipped = [e for e in man_examples()] + ([ef] if ef else [])
        while len(out) < n:
            r = rng.random()
            if r < 0.25 and shipped:
                doc = self.mutate_doc(rng, rng.choice(shipped))
            else:
                doc = rng.choice(self.base_docs(rng))
                if rng.random() < 0.85:
                    doc = self.mutate_doc(rng, doc)
                else:
                    doc = doc.encode()
            out.append("cfgload y=%s" % hexs(doc))
        return out

    def nontrivial(self, inp, obs):
        return obs.startswith("ok:") or obs == "err"

    def shrink_candidates(self, inp):
        toks = inp.split()
        doc = bytes.fromhex(toks[1][2:]) if toks[1] != "y=-" else b""
        lines = doc.split(b"\n")
        out = []
        for i in range(len(lines)):
            c = b"\n".join(lines[:i] + lines[i + 1:])
            out.append(" ".join(["cfgload", "y=" + hexs(c)] + [t for t in toks[2:] if not t.startswith("expect=")]))
        return out[:200]
