"""DNS wire suites: structured messages for the encoder (`dnsenc`), wire bytes for the decoder (`dnsdec`)."""
from .common import Suite, hexs, rbytes, pick_len

TYPES_NAME = {2: "N", 5: "C", 12: "P"}
OTHER_TYPES = [1, 28, 16, 33, 99, 255, 65535]


def name_str(n):
    return ".".join(l.hex() for l in n) if n else "-"


class NameGen:
    """names sharing suffixes at every depth"""

    def __init__(self, rng):
        self.rng = rng
        self.pool = [[]]
        self.labels = [b"com", b"example", b"www", b"a", b"b", b"mail", b"ns1", b"EXAMPLE", b"x" * 63, b"\x00", b"\xff.", b"org"]

    chain = None

    def name(self, maxlabels=6):
        rng = self.rng
        if self.chain:
            return self.chain.pop(0)
        k = rng.random()
        if k < 0.5 and len(self.pool) > 1:
            base = rng.choice(self.pool)
            n = [rng.choice(self.labels) for _ in range(rng.randrange(0, 3))] + base
        elif k < 0.6:
            n = list(rng.choice(self.pool))
        else:
            n = [rng.choice(self.labels) if rng.random() < 0.8 else rbytes(rng, rng.randrange(1, 64)) for _ in range(rng.randrange(0, maxlabels))]
        n = n[-maxlabels:] if maxlabels else n
        # RFC 1035: at most 255 octets on the wire; the decoder refuses longer names, so most names stay within
        if rng.random() < 0.9:
            while sum(len(l) + 1 for l in n) + 1 > 255:
                n = n[1:]
        self.pool.append(n)
        if len(self.pool) > 40:
            self.pool.pop(rng.randrange(len(self.pool)))
        return n


def gen_rdata(rng, ng, big=False):
    k = rng.random()
    u16 = lambda: rng.choice([0, 1, 65535, rng.randrange(65536)])
    u32 = lambda: rng.choice([0, 1, 2 ** 32 - 1, rng.randrange(2 ** 32)])
    if k < 0.3:
        t = rng.choice(OTHER_TYPES)
        l = pick_len(rng, [0, 4, 16, 255, 256], 600) if not big else rng.choice([300, 1000, 4000, 9000])
        return t, "X:" + hexs(rbytes(rng, l))
    if k < 0.5:
        t = rng.choice([2, 5, 12])
        return t, "%s:%s" % (TYPES_NAME[t], name_str(ng.name()))
    if k < 0.6:
        return 15, "M:%d:%s" % (u16(), name_str(ng.name()))
    if k < 0.65:
        return 21, "T:%d:%s" % (u16(), name_str(ng.name()))
    if k < 0.75:
        return 6, "S:%s:%s:%d:%d:%d:%d:%d" % (name_str(ng.name()), name_str(ng.name()), u32(), u32(), u32(), u32(), u32())
    if k < 0.82:
        return 18, "A:%d:%s" % (u16(), name_str(ng.name()))
    if k < 0.89:
        return 17, "R:%s:%s" % (name_str(ng.name()), name_str(ng.name()))
    s = lambda: hexs(rbytes(rng, rng.choice([0, 1, 5, 255])))
    return 35, "Y:%d:%d:%s:%s:%s:%s" % (u16(), u16(), s(), s(), s(), name_str(ng.name()))


def gen_opts(rng):
    if rng.random() < 0.4:
        return "e"
    out = []
    for _ in range(rng.randrange(1, 4)):
        c = rng.choice([3, 8, 10, 15, 65001])
        l = rng.choice([0, 1, 2, 7, 8, 16, 40])
        out.append("%d=%s" % (c, hexs(rbytes(rng, l))))
    return ";".join(out)


def deep_chain_msg(rng, depth):
    """`depth` owner names, each extending the one before by one label (opaque record data, so nothing else is written
    in between): the encoder's pointer chain for the last name is depth-1 jumps long"""
    labels = [bytes([rng.choice(b"abcdefghijklmnopqrstuvwxyz0123456789")]) for _ in range(depth)]
    rrs = ["%s/1/%d/60/X:%s" % (name_str(labels[depth - k:]), rng.choice([1, 16, 99]), hexs(rbytes(rng, rng.choice([0, 4, 16]))))
           for k in range(1, depth + 1)]
    cut = rng.randrange(len(rrs) + 1) if rng.random() < 0.3 else len(rrs)
    return "qid=%d fl=0001001%s op=0 rc=0 bs=512 ev=n q=%s/1/1 an=%s ns=%s ad=- ed=n" % (
        rng.randrange(65536), "0", name_str(labels[-1:]), "|".join(rrs[:cut]) or "-", "|".join(rrs[cut:]) or "-")


def gen_msg(rng, nrec=None, big=False, wellformed=True, counts=None, chain=None, big_first=None):
    ng = NameGen(rng)
    if chain or rng.random() < 0.1:
        # names extended one label at a time: compression pointer chains as deep as the names are long
        # 127 one-octet labels are the longest name there is (255 octets); beyond that the decoder must refuse
        depth = chain or rng.choice([9, 10, 11, 12, 13, 20, 60, 126, 127, 128, 135])
        n = []
        for i in range(depth):
            n = [bytes([97 + i % 26])] + n
            ng.pool.append(list(n))
        ng.chain = [list(n[i:]) for i in range(len(n) - 1, -1, -1)]
        if depth >= 60 and nrec is None and counts is None:
            nrec = depth + 2                                   # enough records to write the whole chain
    q = ng.name()
    secs = []
    if nrec is None:
        nrec = rng.choice([0, 1, 2, 3, 5, 8, 12])
    if counts is None:
        counts = [0, 0, 0]
        for _ in range(nrec):
            counts[rng.choice([0, 0, 1, 2])] += 1
    for c in counts:
        rrs = []
        for _ in range(c):
            t, rd = gen_rdata(rng, ng, big and rng.random() < 0.3)
            rrs.append("%s/%d/%d/%d/%s" % (name_str(ng.name()), rng.choice([1, 1, 3, 255, rng.randrange(65536)]), t,
                                           rng.choice([0, 1, 60, 300, 2 ** 32 - 1, rng.randrange(2 ** 32)]), rd))
        secs.append("|".join(rrs) or "-")
    if big_first:
        # one opaque record of `big_first` octets in front: every name after it is first written beyond that offset, so
        # the pointers between them carry offsets of 13 and 14 significant bits (and, past 16 KiB, none at all)
        rr0 = "%s/1/16/60/X:%s" % (name_str(q), hexs(rbytes(rng, big_first)))
        secs[0] = rr0 if secs[0] == "-" else rr0 + "|" + secs[0]
    edns = rng.random() < 0.6
    rc = rng.choice([0, 2, 3, 5, 15]) if not edns else rng.choice([0, 3, 5, 16, 23, 255, 256, 3841, 4095])
    fl = "".join(rng.choice("01") for _ in range(7)) + (rng.choice("01") if edns else "0")
    if wellformed:
        fl = fl[0] + "0" + fl[2:]            # TC clear
    m = "qid=%d fl=%s op=%d rc=%d bs=%d ev=%s q=%s/%d/%d an=%s ns=%s ad=%s ed=%s" % (
        rng.randrange(65536), fl, rng.choice([0, 0, 1, 2, 4, 5, 15]), rc,
        (rng.choice([512, 1232, 4096, 65535, rng.randrange(512, 65536)]) if edns else 512),
        "0" if edns else "n", name_str(q), rng.choice([1, 3, 255]), rng.choice([1, 28, 15, 255, 6]),
        secs[0], secs[1], secs[2], gen_opts(rng) if edns else "n")
    if not wellformed:
        k = rng.randrange(4)
        if k == 0:
            m = m.replace("rc=%d" % rc, "rc=%d" % rng.choice([4096, 65535]))
        elif k == 1 and not edns:
            m = m.replace("ev=n", "ev=%d" % rng.randrange(256))
        elif k == 2:
            m = m.replace(" bs=", " bs=%d xbs=" % rng.randrange(512))
        else:
            m = m.replace("fl=" + fl, "fl=" + fl[0] + "1" + fl[2:])
    return m


class DnsEnc(Suite):
    name = "dnsenc"

    def gen(self, rng, n, tier):
        out = []
        for i in range(n):
            r = rng.random()
            if r < (0.06 if tier == "thorough" else 0.012):
                # large messages crossing 16 KiB: many records, or big rdata
                if tier == "thorough":
                    nrec = rng.choice([120, 200, 400, 900])
                    m = gen_msg(rng, nrec=nrec, big=rng.random() < 0.5)
                else:
                    m = gen_msg(rng, nrec=rng.choice([40, 80]), big=True)
                size = rng.choice([65535, 65536, 16384, 16500, 40000])
            elif r < 0.2:
                # truncation family: every section populated with distinct counts, limit anywhere between 512 and the
                # full size so that the cut lands inside the answer, authority or additional section
                counts = [rng.randrange(1, 9), rng.randrange(1, 12), rng.randrange(1, 30)]
                m = gen_msg(rng, counts=counts)
                est = 40 + 45 * sum(counts)
                size = rng.randrange(512, max(514, est))
                out.append("dnsenc size=%d %s" % (size, m))
                continue
            elif r < 0.215:
                # the longest names there are (127 labels, 255 octets), each extending the one before: the deepest
                # pointer chain the encoder can build; 128 and more labels are outside what the decoder accepts
                m = deep_chain_msg(rng, rng.choice([100, 126, 127, 127, 128, 135]))
                size = rng.choice([65535, 4096])
            else:
                m = gen_msg(rng, wellformed=rng.random() < 0.9)
                size = rng.choice([512, 512, 513, 600, 1232, 4096, 65535, 65536, rng.randrange(512, 3000)])
            out.append("dnsenc size=%d %s" % (size, m))
        return out

    def nontrivial(self, inp, obs):
        return "an=-" not in inp or "ns=-" not in inp

    def shrink_candidates(self, inp):
        # drop records from the sections, one at a time from the end
        toks = inp.split(" ")
        out = []
        for i, t in enumerate(toks):
            for sec in ("an=", "ns=", "ad="):
                if t.startswith(sec) and t != sec + "-":
                    rrs = t[3:].split("|")
                    for j in range(len(rrs)):
                        rest = rrs[:j] + rrs[j + 1:]
                        out.append(" ".join(toks[:i] + [sec + ("|".join(rest) or "-")] + toks[i + 1:]))
        return out[:200]


# --- an independent little DNS encoder (python) to create decoder inputs ---------------------------

def enc_name(n, table, off, compress):
    out = b""
    for i in range(len(n)):
        key = tuple(n[i:])
        if compress and key in table and table[key] < 0x4000:
            return out + bytes([0xc0 | table[key] >> 8, table[key] & 255])
        if off + len(out) < 0x4000:
            table.setdefault(key, off + len(out))
        out += bytes([len(n[i])]) + n[i]
    return out + b"\x00"


def parse_name_str(s):
    return [] if s == "-" else [bytes.fromhex(l) for l in s.split(".")]


def enc_msg(m, rng, compress=True):
    kv = dict(t.split("=", 1) for t in m.split(" "))
    fl = kv["fl"]
    f1 = int(fl[0]) | int(fl[1]) << 1 | int(fl[2]) << 2 | int(fl[3]) << 7 | (int(kv["op"]) & 15) << 3
    rc = int(kv["rc"])
    f2 = int(fl[4]) << 5 | int(fl[5]) << 6 | int(fl[6]) << 7 | (rc & 15)
    secs = [[] if kv[k] == "-" else kv[k].split("|") for k in ("an", "ns", "ad")]
    table = {}
    qd, qc, qt = kv["q"].split("/")
    b = int(kv["qid"]).to_bytes(2, "big") + bytes([f1, f2]) + b"\x00\x01"
    nad = len(secs[2]) + (1 if kv["ed"] != "n" else 0)
    b += len(secs[0]).to_bytes(2, "big") + len(secs[1]).to_bytes(2, "big") + nad.to_bytes(2, "big")
    b += enc_name(parse_name_str(qd), table, len(b), compress) + int(qt).to_bytes(2, "big") + int(qc).to_bytes(2, "big")
    for sec in secs:
        for rr in sec:
            d, c, t, ttl, rd = rr.split("/", 4)
            b += enc_name(parse_name_str(d), table, len(b), compress)
            b += int(t).to_bytes(2, "big") + int(c).to_bytes(2, "big") + int(ttl).to_bytes(4, "big")
            f = rd.split(":")
            base = len(b) + 2
            cmp = compress and rng.random() < 0.8
            if f[0] in "CNP":
                r = enc_name(parse_name_str(f[1]), table, base, cmp)
            elif f[0] in "MTA":
                r = int(f[1]).to_bytes(2, "big") + enc_name(parse_name_str(f[2]), table, base + 2, cmp)
            elif f[0] == "R":
                r = enc_name(parse_name_str(f[1]), table, base, cmp)
                r += enc_name(parse_name_str(f[2]), table, base + len(r), cmp)
            elif f[0] == "S":
                r = enc_name(parse_name_str(f[1]), table, base, cmp)
                r += enc_name(parse_name_str(f[2]), table, base + len(r), cmp)
                r += b"".join(int(x).to_bytes(4, "big") for x in f[3:8])
            elif f[0] == "Y":
                r = int(f[1]).to_bytes(2, "big") + int(f[2]).to_bytes(2, "big")
                for x in f[3:6]:
                    s = b"" if x == "-" else bytes.fromhex(x)
                    r += bytes([len(s)]) + s
                r += enc_name(parse_name_str(f[6]), table, base + len(r), cmp)
            else:
                r = b"" if f[1] == "-" else bytes.fromhex(f[1])
            b += len(r).to_bytes(2, "big") + r
    if kv["ed"] != "n":
        o = b""
        if kv["ed"] != "e":
            for e in kv["ed"].split(";"):
                c, d = e.split("=")
                d = b"" if d == "-" else bytes.fromhex(d)
                o += int(c).to_bytes(2, "big") + len(d).to_bytes(2, "big") + d
        ttl = (rc >> 4) << 24 | (int(kv["ev"]) if kv["ev"] != "n" else 0) << 16 | int(fl[7]) << 15
        b += b"\x00" + (41).to_bytes(2, "big") + int(kv["bs"]).to_bytes(2, "big") + ttl.to_bytes(4, "big") + len(o).to_bytes(2, "big") + o
    return b


class DnsDec(Suite):
    name = "dnsdec"

    def gen(self, rng, n, tier):
        out = []
        for i in range(n):
            r = rng.random()
            if r < 0.1:
                b = rbytes(rng, pick_len(rng, [0, 1, 11, 12, 13, 16, 17], 200))
            else:
                deep = rng.random() < 0.03
                # names around the 255-octet / 127-label limit, each extending the one before, written in full
                if deep:
                    m = deep_chain_msg(rng, rng.choice([120, 126, 127, 128, 129, 140]))
                elif rng.random() < 0.04:
                    m = gen_msg(rng, nrec=rng.choice([4, 8, 12]), wellformed=True, big_first=rng.choice([4000, 8100, 8200, 9000, 12000, 16200, 16400, 20000]))
                else:
                    m = gen_msg(rng, wellformed=True)
                try:
                    b = bytearray(enc_msg(m, rng, compress=(rng.random() < 0.8 and not deep)))
                except Exception:
                    continue
                k = rng.random()
                if deep or k < 0.35:
                    pass
                elif k < 0.5:
                    b = b[:rng.randrange(len(b) + 1)]                      # every truncation point
                elif k < 0.75:
                    for _ in range(rng.randrange(1, 4)):                   # boundary values into length/count/pointer fields
                        pos = rng.randrange(len(b))
                        b[pos] = rng.choice([0, 1, 63, 64, 191, 192, 193, 255, 0x3f, 0x40, len(b) % 256, (len(b) - 1) % 256, pos % 256, rng.randrange(256)])
                elif k < 0.85:
                    # pointer games: self pointer, forward pointer, pointer chains
                    pos = 12
                    kind = rng.randrange(4)
                    if kind == 0:
                        b[pos:pos + 2] = bytes([0xc0, pos])
                    elif kind == 1:
                        b[pos:pos + 2] = bytes([0xc0, min(255, len(b) - 1)])
                    elif kind == 2:
                        chain = b""
                        base = len(b)
                        depth = rng.choice([9, 10, 11, 12, 30])
                        for d in range(depth):
                            nxt = base + 2 * (d + 1)
                            chain += bytes([0xc0 | (nxt >> 8) & 0x3f, nxt & 255])
                        chain += b"\x01a\x00"
                        b[pos:pos + 2] = bytes([0xc0 | (base >> 8) & 0x3f, base & 255])
                        b = b + chain
                    else:
                        b[2] |= 2                                            # TC with counts larger than content
                        b[7] = rng.choice([1, 5, 255])
                elif k < 0.9:
                    b[4:6] = bytes([0, rng.choice([0, 2, 255])])           # qdcount
                else:
                    b += rbytes(rng, rng.randrange(1, 20))
                b = bytes(b)
            # half of the byte strings also go through decode -> encode -> decode (C14's first quantifier)
            out.append(("dnsrt " if rng.random() < 0.5 or (r >= 0.1 and deep) else "dnsdec ") + hexs(b))
        return out

    def nontrivial(self, inp, obs):
        return len(inp) > 60

    def shrink_candidates(self, inp):
        verb, h = inp.split()[:2]
        if h == "-":
            return []
        b = bytes.fromhex(h)
        cands = []
        n = len(b)
        step = max(1, n // 2)
        while step >= 1:
            for i in range(0, n, step):
                cands.append(verb + " " + hexs(b[:i] + b[i + step:]))
            step //= 2
        return cands


class InReply(Suite):
    """create_in_reply(query, upstream reply)"""
    name = "inreply"

    def gen(self, rng, n, tier):
        out = []
        for _ in range(n):
            q = gen_msg(rng, nrec=0)
            # queries: QR clear, a few EDNS options incl. NSID and cookies
            if rng.random() < 0.5:
                opts = []
                if rng.random() < 0.5:
                    opts.append("3=-")
                if rng.random() < 0.6:
                    opts.append("10=" + hexs(rbytes(rng, rng.choice([8, 8, 16, 40]))))
                if rng.random() < 0.2:
                    opts.append("65001=" + hexs(rbytes(rng, 3)))
                q = " ".join(t if not (t.startswith("ed=") or t.startswith("ev=") or t.startswith("bs=") or t.startswith("rc=")) else
                             {"ed": "ed=" + (";".join(opts) or "e"), "ev": "ev=0", "bs": "bs=1232", "rc": "rc=0"}[t[:2]] for t in q.split(" "))
            r = gen_msg(rng, nrec=rng.choice([0, 1, 2, 4, 8, 12]))
            lip = rng.choice(["192.0.2.1", "2001:db8::1", "127.0.0.1"])
            out.append("inreply lip=%s %s %s" % (lip, " ".join("Q." + t for t in q.split(" ")), " ".join("R." + t for t in r.split(" "))))
        return out

    def nontrivial(self, inp, obs):
        return "R.ns=-" not in inp or "R.an=-" not in inp
