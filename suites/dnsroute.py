from .common import Suite
import itertools

LABELS = ["example", "com", "org", "invalid", "a", "b", "corp", "lan", "Example", "COM", "x"]


def lab(name):
    return ".".join(l.encode().hex() for l in name.split(".")) if name else "-"


class RouteSuite(Suite):
    name = "route"

    def gen_table(self, rng):
        routes = []
        n = rng.choice([1, 2, 2, 3, 4, 6])
        base = [rng.choice(LABELS) for _ in range(3)]
        for i in range(n):
            sfx = []
            for _ in range(rng.choice([0, 1, 1, 2, 3, 4])):
                k = rng.random()
                if k < 0.15:
                    s = ""
                elif k < 0.6:       # nested suffixes of one another
                    depth = rng.randrange(1, 4)
                    s = ".".join(base[3 - depth:])
                    if rng.random() < 0.3:
                        s = rng.choice(LABELS) + "." + s
                else:
                    s = ".".join(rng.choice(LABELS) for _ in range(rng.randrange(1, 4)))
                if rng.random() < 0.2:
                    s = "".join(c.upper() if rng.random() < 0.5 else c.lower() for c in s)
                sfx.append(s)
            kind = rng.random()
            if kind < 0.3:
                # a forge route may list servers (they are not used): it stays a forge route
                routes.append((sfx, "forge-nxdomain", ("127.0.0.%d" % (2 + i)) if rng.random() < 0.35 else None))
            elif kind < 0.93:
                routes.append((sfx, rng.choice(["forward", None]), "127.0.0.%d" % (2 + i)))
            else:
                routes.append((sfx, rng.choice(["forward", None]), None))         # forward route (explicit or by default) without a server
        return routes, base

    def yaml(self, routes):
        out = ["dns-routes:"]
        for sfx, typ, srv in routes:
            out.append("  - domain-suffixes: [%s]" % ", ".join("'%s'" % s for s in sfx))
            if typ:
                out.append("    type: %s" % typ)
            if srv:
                out.append("    dns-servers: [%s]" % srv)
        return "\n".join(out) + "\n"

    def gen(self, rng, n, tier):
        out = []
        while len(out) < n:
            routes, base = self.gen_table(rng)
            tables = [routes]
            # the same table permuted (routes and suffixes inside routes)
            for _ in range(rng.choice([0, 1, 2])):
                p = [(rng.sample(s, len(s)), t, v) for s, t, v in rng.sample(routes, len(routes))]
                tables.append(p)
            names = []
            for _ in range(rng.choice([1, 2, 3])):
                k = rng.random()
                if k < 0.6 and routes:
                    s = rng.choice([x for r in routes for x in r[0]] or [""])
                    q = s
                    for _ in range(rng.randrange(0, 3)):
                        q = rng.choice(LABELS) + ("." + q if q else "")
                else:
                    q = ".".join(rng.choice(LABELS) for _ in range(rng.randrange(0, 5)))
                names.append(q)
                names.append("".join(c.upper() if rng.random() < 0.5 else c.lower() for c in q))   # recased
            for t in tables:
                cfg = self.yaml(t).encode().hex()
                kinds = "".join("N" if typ == "forge-nxdomain" else "F" for _, typ, _ in t)
                for q in names:
                    rd = rng.choice("1110")
                    line = "route cfg=%s kinds=%s q=%s rd=%s" % (cfg, kinds, lab(q), rd)
                    if rd == "1" and rng.random() < 0.25:
                        # the same question twice in a row with these CD/AD/DO bits: the second may come from the cache
                        # only under the same (name, type, DO, CD)
                        b = "".join(rng.choice("01") for _ in range(3))
                        b2 = b if rng.random() < 0.3 else "".join(rng.choice("01") for _ in range(3))
                        line += " bits=%s bits2=%s" % (b, b2)
                    out.append(line)
        return out[:n]

    def nontrivial(self, inp, obs):
        return "res=fwd" in obs or "res=nxdomain" in obs
