from .common import Suite, hexs, rbytes
from .pool import ddmin_ops


class BucketSuite(Suite):
    name = "bucket"

    def gen(self, rng, n, tier):
        out = []
        for _ in range(n):
            t = rng.choice([1000, 100000, 1700000000])
            ops = []
            for _ in range(rng.choice([1, 3, 6, 12, 30])):
                t += rng.choice([0, 0, 0, 1, 1, 2, 5, 10, 49, 50, 51, 100, 499, 500, 501, 1000])
                c = rng.choice([0, 1, 2, 3, 10, 99, 100, 101, 150, 199, 200, 201, 400, 999, 1000, 1001, 2000, rng.randrange(3000)])
                k = "c" if rng.random() < 0.55 else "d"
                ops.append("%s:%d@%d" % (k, c, t))
            out.append("bucket ops=" + ";".join(ops))
        return out

    def nontrivial(self, inp, obs):
        return "d:" in inp and "c:" in inp

    def shrink_candidates(self, inp):
        return ddmin_ops("bucket ops=", inp.split("ops=")[1].split(";"))


class RateLimitSuite(Suite):
    name = "ratelimit"

    def gen(self, rng, n, tier):
        out = []
        for _ in range(n):
            t = rng.choice([100000, 1700000000])
            cip = rng.choice(["4_3221225985", "4_167772161", "6_%d" % ((0x20010db8 << 96) | 5)])
            other = "4_3221225999" if cip != "4_3221225999" else "4_3221226000"
            sip = rng.choice(["4_3221225986", "6_%d" % ((0x20010db8 << 96) | 1)])
            sip2 = "4_3221226111"
            ops = []
            issues = []   # (op index, cip, sip)
            for _ in range(rng.choice([1, 2, 4, 8, 16, 40])):
                r = rng.random()
                if r < 0.12:
                    ic, isip = (cip, sip) if rng.random() < 0.75 else rng.choice([(other, sip), (cip, sip2)])
                    issues.append((len(ops), ic, isip))
                    ops.append("i:%s:%s:%s" % (ic, isip, hexs(rbytes(rng, 8))))
                elif r < 0.17:
                    ops.append("r")
                else:
                    t += rng.choice([0, 0, 0, 0, 1, 1, 2, 10, 49, 50, 51, 99, 100, 101, 499, 500, 501, 600, 1200])
                    insize = rng.choice([17, 29, 40, 60, 120, 512])
                    rlen = rng.choice([40, 80, 100, 101, 120, 150, 200, 300, 430, 500])
                    rcode = 5 if rng.random() < 0.85 else rng.choice([0, 2, 3])
                    k = rng.random()
                    if k < 0.45 or not issues:
                        cookie = "-" if rng.random() < 0.7 else rng.choice(["c" + hexs(rbytes(rng, 8)), "x" + hexs(rbytes(rng, 40)), "x" + hexs(rbytes(rng, 16))])
                        if rng.random() < 0.01:
                            cookie = "x" + hexs(rbytes(rng, rng.randrange(1, 8)))        # shorter than a client cookie
                    elif k < 0.9:
                        cookie = "g%d" % rng.choice(issues)[0]
                    else:
                        cookie = "t%d/%d" % (rng.choice(issues)[0], rng.choice([0, 8, 16, 31]))
                    ops.append("q:%d:%s:%s:%d:%d:%d:%s" % (t, cip, sip, insize, rlen, rcode, cookie))
            out.append("ratelimit ops=" + ";".join(ops))
        return out

    def nontrivial(self, inp, obs):
        return inp.count("q:") >= 2

    def shrink_candidates(self, inp):
        ops = inp.split("ops=")[1].split(";")
        # indices of issue ops are referenced by later ops: only drop from the end or drop q ops
        # that come after the last issue op
        last_i = max([i for i, o in enumerate(ops) if o.startswith("i:") or o == "r"] + [-1])
        out = []
        for i in range(len(ops) - 1, last_i, -1):
            rest = ops[:i] + ops[i + 1:]
            if rest:
                out.append("ratelimit ops=" + ";".join(rest))
        return out
