"""Which suites, theorems and extracted data decide which property."""
from . import dhcpwire, pool, dhcp, acl, dnsrate, dnscache, dnsroute, dnswire, leasedb, radv, dhcpcfg, hostile, config, e2e, crash

SUITES = {}
for cls in [dhcpwire.DhcpRoundTrip, dhcpwire.DhcpParse, dhcpwire.Frame, dhcpwire.BroadcastFlag, pool.PoolHistory, dhcp.DhcpHistory, acl.AclSuite, acl.LeaseJson, dnsrate.BucketSuite, dnsrate.RateLimitSuite, dnscache.CacheSuite, dnsroute.RouteSuite, dnswire.DnsEnc, dnswire.DnsDec, dnswire.InReply, leasedb.LeaseDb, radv.RaSuite, dhcpcfg.DhcpCfg, hostile.Icmp6, hostile.Lldp, hostile.DhcpAcc, hostile.ToArr, hostile.EdnsAcc, hostile.DnsSafe, hostile.DhcpSafe, config.CfgField, config.CfgLoad, e2e.E2E, crash.CrashKill]:
    SUITES[cls.name] = cls()

TRUSTED_BASE = [
    "Lean 4.33.0 kernel; axioms limited to propext, Classical.choice, Quot.sound (audited per theorem with Lean.collectAxioms)",
    "hand-written executable model tied to /repo by the correspondence harness (generator quality bounds what it sees)",
    "tools/extract.py regexes pick the expressions the code executes (shape assertions, fail closed)",
    "Lean compiler/runtime for the driver only (the theorems do not depend on it)",
]

POOL_RULE = ("histories of 2..40 ops over allocate_address(client, requested|none, pool, min, max) x clock advance x "
             "restart (on-disk DB) x metrics x second-clock-read skew, 1..5 clients (near-identical ids), universes of 1..8 "
             "addresses plus addresses outside, pools that change between ops, clock steps landing on expiries; "
             "non-trivial = at least two allocations; distinct = distinct history line")
POOL_ASSUME = ["packets are handled one at a time (the tokio mutex around the pool is outside the model)",
               "the wall clock does not go backwards; times stay below 2^32 s (year 2106)"]
POOL_TRUST = ["SQLite modelled as a finite map address -> row with INSERT OR REPLACE / ORDER BY .. LIMIT 1 semantics; ties and the consistent-hash order are nondeterministic in the model",
              "the harness overrides clock_gettime(CLOCK_REALTIME) in-process to own the clock"]

DHCP_RULE = ("YAML configurations generated from the grammar of erbium.conf(5) (top-level addresses /24../32 with and without "
             "host bits, dns-servers with $self4, search list, captive portal, nested dhcp-policies to depth 3 with match-subnet/"
             "match-hardware-address/match-<option>(value|null), apply-<option>(value|null), apply-subnet/range/address) loaded by "
             "the real loader, then histories of 1..25 DHCP packets (every message type incl. none/unknown, client-id or chaddr, "
             "option 50/ciaddr, server-id own/foreign/malformed, parameter lists) and clock advances through dhcp::handle_pkt; "
             "non-trivial = at least one reply; distinct = distinct line")
DHCP_TRUST = ["yaml_rust and the loader turn the text into config::Policy values; the model starts from the loaded policy tree dumped by the harness (option values via as_bytes)"]

DNS_RULE = ("structured DNS messages (0..12 records, thorough up to 900; names sharing suffixes at every depth incl. chains extended one "
            "label at a time, 63-octet and binary labels; all RData variants with embedded names; rdata 0..65535; EDNS options; "
            "rcodes incl. extended; sizes crossing 16 KiB) through DNSPkt::serialise_with_size at limits 512..65536, read back by the "
            "crate's decoder, by the model's and by an independent walker; wire inputs from an independent python encoder with and "
            "without compression plus every truncation point, boundary values in length/count/pointer fields, pointer loops/chains; "
            "create_in_reply on generated query x upstream-reply pairs; non-trivial = carries records / is longer than a header")

# property -> suites (name, cases quick, cases thorough), extracted items, notes
PROPS = {
    "C12": dict(
        suites=[("dhcprt", 1500, 40000), ("dhcpparse", 2500, 60000), ("frame", 1500, 40000), ("bflag", 0, 0)],
        extracted=["dhcp.broadcastMask", "dhcp.dstChoice", "dhcp.magicParse", "dhcp.magicSerialise"],
        rule="structured DHCP messages (header boundary values, hlen 0..16, option value lengths 0..1500 incl. >255, "
             "10% malformed stream), byte-level mutations of valid packets for the decoder (every packet the real decoder "
             "accepts is also re-encoded by the implementation and decoded again), UDP payloads 0..1472 "
             "(thorough: up to 65507), all 65536 flag values; a case is non-trivial when it carries options / a "
             "payload; distinct = distinct input line",
        assumptions=["HashMap iteration order is arbitrary: the model serialises in the order the harness reports",
                     "the reply destination choice lives in an async fn needing sockets: tied by extraction of its shape, not executed"],
        trusted=["std::collections::HashMap as a finite map with unspecified iteration order"],
    ),
    "C01": dict(
        suites=[("pool", 2500, 200000), ("dhcp", 1200, 30000)],
        extracted=["pool.requestedInUseCmp", "pool.newInUseCmp", "pool.ownCurrentCmp", "pool.step1Order", "pool.step2Order", "pool.structFields", "dhcp.handlePktExclusive"],
        rule=POOL_RULE,
        assumptions=POOL_ASSUME, trusted=POOL_TRUST,
    ),
    "C09": dict(
        suites=[("pool", 2500, 60000), ("dhcp", 1200, 30000)],
        extracted=["pool.requestedInUseCmp", "pool.newInUseCmp", "pool.ownCurrentCmp", "pool.step1Order", "pool.step2Order"],
        rule=POOL_RULE,
        assumptions=POOL_ASSUME, trusted=POOL_TRUST,
    ),
    "C10": dict(
        suites=[("pool", 2500, 60000), ("dhcp", 1200, 30000)],
        extracted=["dhcp.DEFAULT_MIN_LEASE", "dhcp.DEFAULT_MAX_LEASE", "dhcp.offerHasLeaseTime"],
        rule=POOL_RULE + " || " + DHCP_RULE, assumptions=POOL_ASSUME, trusted=POOL_TRUST + DHCP_TRUST,
    ),
    "C13": dict(
        suites=[("dhcp", 1500, 100000), ("pool", 1000, 60000)],
        extracted=["dhcp.dispatchArms", "dhcp.offerHasLeaseTime"],
        rule=DHCP_RULE + " || " + POOL_RULE, assumptions=POOL_ASSUME, trusted=POOL_TRUST + DHCP_TRUST,
    ),
    "C20": dict(
        suites=[("pool", 2000, 80000), ("leasejson", 2500, 200000), ("leasedb", 300, 3000)],
        extracted=["pool.metricsSql", "pool.metricsReturnOrder"],
        rule=POOL_RULE + " || lease tables of 0..8 rows with client ids of 0..255 arbitrary octets and option blobs whose host-name "
             "option is drawn from quotes, backslashes, every control character, DEL, invalid UTF-8, U+2028 and random octets, "
             "rendered by http::leases_json and read back by a strict RFC 8259 parser; non-trivial = at least one row",
        assumptions=POOL_ASSUME + ["String::from_utf8_lossy (Rust std) decodes the host-name octets; the harness reports the decoded scalar values"],
        trusted=POOL_TRUST,
    ),
    "C08": dict(
        suites=[("acl", 4000, 600000)],
        extracted=["acl.httpArms", "acl.dnsAclFirst"],
        rule="rule lists of 0..6 rules (subnet lists over IPv4/IPv6 prefixes of every length with and without host bits, "
             "::ffff:a.b.c.d/(96+n) prefixes, unix flag, all 16 permission subsets) x clients at and around every prefix boundary "
             "(IPv4, IPv6, v4-mapped, unix) x 4 operations through acl::require_permission; non-trivial = at least one rule",
        assumptions=["the HTTP router and the DNS entry point are tied by extraction of their match arms / statement order (they need live sockets to execute)"],
        trusted=[],
    ),
    "C16": dict(
        suites=[("bucket", 3000, 400000), ("ratelimit", 2500, 300000)],
        extracted=["dns.MAX_TOKENS", "dns.TOKENS_PER_SECOND", "dns.costFloor", "dns.ratelimitOnlyRefused", "dns.goodCookieExempt", "dns.cookieKeyRotationsAtStart"],
        rule="token bucket: sequences of 1..30 check/deplete calls under a virtual Clock with costs and gaps around every boundary "
             "(0, capacity, capacity+1, refill period +-1); rate limiter: sequences of 1..40 should_ratelimit calls from one source "
             "(reply sizes 40..500, query sizes 17..512, REFUSED and other rcodes, idle gaps around the refill period) mixed with "
             "cookie issue / key rotation ops and queries carrying no / client-only / good / good-for-another-address / truncated / "
             "forged cookies; non-trivial = at least two queries (bucket: both op kinds)",
        assumptions=["one query at a time (the limiter's read-lock check followed by write-lock deplete is not atomic; the property quantifies over arrival sequences, not schedules)",
                     "HMAC-SHA256 is an uninterpreted function; non-transferability is proved under an explicit collision-resistance hypothesis",
                     "other sources hashing to the same two of 256 buckets can use up a source's allowance (one source per case)"],
        trusted=["hmac/sha2 crates; DefaultHasher as an arbitrary function"],
    ),
    "C06": dict(
        suites=[("cache", 4000, 500000), ("route", 600, 20000)],
        extracted=["dns.cacheKeyFromQuery"],
        rule="histories of 2..15 ops over store(key, reply with TTLs 0..2^32-1 spread over the three sections, also empty replies) x "
             "lookup(key or near-miss key differing in case / type / DO / CD) x expire x clock advance (around 1 s, the smallest "
             "TTL +-1 ns, the 1800 s poll) through the cache's own insert/lookup/expire functions under tokio's paused clock; "
             "non-trivial = at least one cache hit",
        assumptions=["two concurrent misses may both go upstream (allowed by the property)", "tokio Instant is monotone",
                     "only class IN queries reach the cache functions (tested in handle_query before the key is built)"],
        trusted=["HashMap<CacheKey,_> as a finite map"],
    ),
    "C15": dict(
        suites=[("route", 2500, 300000)],
        extracted=[],
        rule="route tables of 1..6 routes x 0..4 suffixes (nested and sibling suffixes, the empty suffix, mixed case, forge-nxdomain / "
             "forward with a distinct 127.0.0.N upstream per route / forward without a server), each table also in random "
             "permutations of routes and of suffixes, x query names under/near the suffixes and their random re-casings, with and "
             "without RD; loaded by the real YAML loader and run through the real router -> cache -> outquery chain against fake "
             "upstreams in a private network namespace; non-trivial = forwarded or forged",
        assumptions=["maximal matching suffixes claimed by routes with different actions are left open by the statement (any of them is accepted)"],
        trusted=["the kernel's loopback UDP in a private network namespace; the fake upstream identifies itself in the answer"],
    ),
    "C03": dict(
        suites=[("inreply", 2500, 60000), ("dnsdec", 1500, 30000), ("dnsenc", 1500, 30000), ("cache", 2000, 40000)],
        extracted=["dns.createInReplyFields"],
        rule=DNS_RULE,
        assumptions=["socket I/O of outquery.rs is outside this property's model (C07)"], trusted=[],
    ),
    "C14": dict(
        suites=[("dnsenc", 2500, 60000), ("dnsdec", 2500, 60000)],
        extracted=["dns.pointerLimit", "dns.pointerDepthLimit", "dns.offsetStore", "dns.nameOctetLimit"],
        rule=DNS_RULE, assumptions=["round trip: messages up to 65535 octets (the property's range); totality of the encoder: no bound", "names of at most 255 octets with labels of 1..63 octets: exactly what the decoder accepts since fix bc2953f"],
        trusted=["Vec/LinkedList as lists; the suffix tree is modelled node for node"],
    ),
    "C04": dict(
        suites=[("dnsenc", 2500, 60000), ("dnsdec", 1000, 20000), ("e2e", 24, 600)],
        extracted=["dns.spliceRanges", "dns.transportLimits", "dns.prepareFloor"],
        rule=DNS_RULE, assumptions=["which limit each transport passes is tied by extraction of the call sites in run_udp / run_tcp (they need sockets to run)"],
        trusted=[],
    ),
    "C18": dict(
        suites=[("leasedb", 600, 6000), ("pool", 1500, 40000), ("crashkill", 40, 1500)],
        extracted=["pool.setupDbTransactional", "pool.structFields"],
        rule="database files prepared with raw SQL in every start state (new, unversioned original schema, version 0, version 1, newer "
             "versions) with 0..12 arbitrary lease rows, opened by the real Pool with and without a simulated crash right before the "
             "schema_version bump (that statement is made to fail, then the file is reopened), newer versions compared byte for byte "
             "before/after; plus the pool histories with close/reopen ops on on-disk databases || " + POOL_RULE,
        assumptions=POOL_ASSUME + ["each SQLite statement / transaction is atomic and durable (SQLite's guarantee)",
                                   "a crash is simulated by making the next statement fail; SIGKILL of a live process is not exercised in this suite"],
        trusted=POOL_TRUST,
    ),
    "C02": dict(
        suites=[("dhcpcfg", 2500, 60000), ("dhcp", 1200, 30000)],
        extracted=["dhcp.defaultRangeUpperMinus", "dhcp.applySubnetUpperMinus", "dhcp.applyRangeInclusive"],
        rule="configurations generated together with a structural description: 0..2 `addresses` prefixes /24../32 (with and without "
             "host bits), optional IPv6 prefix, policy forests up to depth 4 with 1..3 siblings per level whose policies carry any "
             "combination of apply-address, apply-range (incl. single-address and reversed) and apply-subnet /24../32 drawn from one "
             "/24 so that parents and descendants overlap; server address inside/outside the prefix, on the network and broadcast "
             "address; loaded by the real loader, every policy's address set (pre-order) and every default pool of "
             "build_default_config enumerated address by address and compared with the model and with the documented sets; "
             "non-trivial = at least one non-empty set || " + DHCP_RULE,
        assumptions=["prefix lengths shorter than /20 are covered by the theorems only (enumerating them is 2^12.. addresses per case)"],
        trusted=DHCP_TRUST,
    ),
    "C05": dict(
        suites=[("icmp6", 2500, 60000), ("lldp", 2500, 60000), ("dhcpacc", 2000, 40000), ("toarr", 100, 1000), ("ednsacc", 400, 5000),
                ("dnssafe", 2500, 60000), ("dhcpsafe", 2000, 40000), ("dhcp", 800, 20000), ("ratelimit", 500, 10000), ("dnsdec", 1000, 20000)],
        extracted=["pkt.bufGetU8Guard", "pkt.bufPeekU8Guard", "pkt.bufGetBytesGuard", "pkt.bufGetBufferGuard", "pkt.bufSetOffsetGuard",
                   "pkt.dnsPeekU8Guard", "pkt.dnsGetBytesGuard", "pkt.ednsOptShort", "pkt.icmpMinLen", "pkt.icmpZeroLenRejected",
                   "pkt.icmpOptDataLen", "pkt.icmpPref64Len", "pkt.icmpMtuLen", "pkt.icmpPrefixLen", "pkt.lldpMgmtLenChecked",
                   "pkt.lldpFrameChecked", "pkt.lldpFrameDecodeUsed", "pkt.dhcpToArrayChecked", "pkt.dhcpHlenChecked", "pkt.subnetPrefixLenMax",
                   "pkt.cookieMinLen", "pkt.edeMinLen", "dns.pointerDepthLimit",
                   "census.pktparser", "census.dnsparse", "census.icmppkt", "census.lldppkt", "census.lldpmod"],
        rule="byte strings for every network-facing decoder: valid ICMPv6 RS/RA with every ND option, valid LLDP frames with every TLV "
             "type, valid DHCP packets and DNS messages (all record types, compression), each then mutated structure-aware (truncation "
             "at any point, any octet - so every length, count, type and pointer field - set to each boundary value, insertions, "
             "deletions, appended junk), plus pure random strings of length 0..600, pointer loops/chains/self-pointers, frames shorter "
             "than the Ethernet header; every typed DHCP option decoder on values of length 0..255 incl. classless routes with every "
             "prefix-length octet 0..255; hardware addresses of length 0..255; EDNS cookie/extended-error payloads of length 0..80; "
             "run in-process under catch_unwind in a debug build (overflow checks on) with every log line formatted; the outcome "
             "(decoded value / error kind / panic) is compared with the panic-aware model; DHCP histories interleave hostile and "
             "valid packets against one lease store; non-trivial = reaches past the fixed header",
        assumptions=["usize is 64 bits and inputs are shorter than 2^32 octets (cursor arithmetic `offset + n` is modelled unbounded)",
                     "allocation failure, stack exhaustion and the async runtime are outside the model; the live services over sockets are not exercised in this suite"],
        trusted=["Vec/slice/iterator methods that cannot panic (to_vec, iter, split_first, get, chunks_exact, from_utf8_lossy) are taken as total",
                 "the census of raw operations in tools/census.json is the tie between the model's panic sites and the decoder sources"],
    ),
    "C19": dict(
        suites=[("cfgload", 1500, 60000), ("cfgfield", 3000, 240000), ("dhcpcfg", 500, 20000), ("ra", 500, 40000), ("acl", 1000, 100000), ("route", 400, 20000)],
        extracted=["cfg.typeNameChecked", "cfg.durationChecked", "cfg.hexdigitArms", "cfg.sectionsChecked", "cfg.prefixLenChecked",
                   "dhcp.defaultPoolMinLen", "dhcp.applySubnetMinLen", "pkt.subnetPrefixLenMax",
                   "census.config", "census.dhcpconfig", "census.radvconfig", "census.dnsconfig", "census.acl"],
        rule="(a) every example of man/erbium.conf.5 and the shipped erbium.conf.example, extracted from /repo on every run, must load; "
             "(b) documents generated from the configuration grammar (DHCP policy forests, router-advertisement interfaces, DNS routes, "
             "ACLs, listeners) with one or two scalars replaced by each value of the wrong type, empty collection, boundary number, "
             "prefix length 0..256, malformed route/range, plus deleted lines (missing keys), duplicated keys, unknown keys, and byte-level "
             "mutations of the shipped examples; each accepted document is then used to serve DHCP requests on every configured "
             "prefix, to build and serialise a router advertisement for every configured interface and to decide every permission for "
             "v4, mapped, v6 and unix clients; (c) every public scalar parser of config.rs on every kind of YAML value (null, "
             "integers at every type boundary, strings, booleans, reals, arrays incl. empty/nested/with nulls, hashes, bad values), "
             "durations from a vocabulary of boundary texts and random token strings, prefixes over address texts x length texts x "
             "separators, hardware addresses; compared value for value with the model; non-trivial = accepted or cleanly refused",
        assumptions=["yaml_rust::YamlLoader is outside the model: the model starts from the YAML tree (documents with pathological nesting depth are not generated)",
                     "address texts are drawn from a vocabulary whose std::net parse result is supplied with the input",
                     "pools of 65536+ addresses (prefixes shorter than /16) are accepted but not served in the suite (time/memory), their arithmetic is covered by C19_accepted_prefix_safe_to_serve"],
        trusted=["std::net address parsing, u8::from_str, String::split are total"],
    ),
    "C11": dict(
        suites=[("dhcp", 3000, 60000), ("dhcpcfg", 500, 5000)],
        extracted=["dhcp.dispatchArms"],
        rule=DHCP_RULE,
        assumptions=["where several matched subnets (an `addresses` prefix and a nested match-subnet) differ the manual does not say whose netmask/broadcast is the default; the specification fixes the choice the code makes (innermost within a chain, the `addresses` prefix before configured policies)",
                     "a key listed twice in one policy cannot occur (YAML hash): the specification takes the later listing"],
        trusted=DHCP_TRUST,
    ),
    "C07": dict(
        suites=[("e2e", 72, 1400)],
        extracted=["net.inAddrFromNeBytes", "net.replySourceFromSendFrom", "dns.muxFreshId", "dns.muxRestoresCallerId", "dns.muxSendIgnoresGoneWaiter", "dns.muxConnectResetsTimers", "dns.muxIdleSeconds", "dns.timeoutUpdatesClamped",
                   "dns.retryLimit", "dns.MIN_DNS_TIMEOUT", "dns.MAX_DNS_TIMEOUT"],
        rule="the real DnsService (UDP and TCP listeners on 127.0.0.1, [::1] and a dual-stack [::] socket; ACL, rate limiter, router, cache, "
             "out-query) in-process on loopback in a private network namespace, against a scripted upstream (UDP and TCP on 127.0.0.77:53): "
             "batches of 24..256 queries sent at once, each from its own socket, over every listener family and both transports, whose "
             "upstream replies are immediate, delayed 5..400 ms (so reordered among the batch), duplicated, carry a wrong id or the TC "
             "bit on UDP (retry over the shared TCP connection), are 60-record answers (size limits), or have their first 1..3 UDP "
             "transmissions dropped, or all of them (silent upstream); per query the number of replies, their source address, id, question, "
             "answer (a hash of the question), rcode, size, TC bit and latency are observed; non-trivial = every batch",
        assumptions=["tokio's scheduler, the kernel's UDP/TCP and the loopback device are exercised, not modelled: schedules are sampled by the rig, while the multiplexer, "
                     "the retransmission schedule and the source-address image are proved for all schedules",
                     "at most 65535 queries in flight on one upstream TCP connection"],
        trusted=["the scripted upstream and the clients of the rig (harness/src/e2e.rs)"],
    ),
    "C17": dict(
        suites=[("ra", 2500, 300000)],
        extracted=["ra.rdnssChunk", "ra.dnsslLengthChecked", "ra.captiveLengthChecked"],
        rule="router-advertisements YAML generated from the grammar (every interface field present/absent/null; lifetimes and timers at "
             "and across every field boundary 0..2^33 s; 0..16 prefixes of every length with and without host bits; 0..8 and 126..300 DNS servers "
             "incl. $self6; search domains with labels up to 64 octets; NAT64 prefixes of valid and invalid lengths with lifetimes "
             "around 65528 s; URLs 0..240 and 2029..4117 octets and one with a NUL; 30..70 long search domains; top-level defaults) loaded by the real loader, built by the private builder (hook), "
             "serialised by icmppkt::serialise; the wire is compared with the model and decoded by a decoder written from RFC 4861/"
             "8106/8781/8910 against the documented values (options compared as a multiset); non-trivial = carries at least one option",
        assumptions=["the interface MTU / default-route decision made from netinfo in build_announcement is supplied by the harness"],
        trusted=["ICMPv6 checksum is filled in by the kernel (raw socket), not by erbium"],
    ),
}
