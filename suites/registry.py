"""Which suites, theorems and extracted data decide which property."""
from . import dhcpwire

SUITES = {}
for cls in [dhcpwire.DhcpRoundTrip, dhcpwire.DhcpParse, dhcpwire.Frame, dhcpwire.BroadcastFlag]:
    SUITES[cls.name] = cls()

TRUSTED_BASE = [
    "Lean 4.33.0 kernel; axioms limited to propext, Classical.choice, Quot.sound (audited per theorem with Lean.collectAxioms)",
    "hand-written executable model tied to /repo by the correspondence harness (generator quality bounds what it sees)",
    "tools/extract.py regexes pick the expressions the code executes (shape assertions, fail closed)",
    "Lean compiler/runtime for the driver only (the theorems do not depend on it)",
]

# property -> suites (name, cases quick, cases thorough), extracted items, notes
PROPS = {
    "C12": dict(
        suites=[("dhcprt", 1500, 40000), ("dhcpparse", 2500, 60000), ("frame", 1500, 40000), ("bflag", 0, 0)],
        extracted=["dhcp.broadcastMask", "dhcp.dstChoice", "dhcp.magicParse", "dhcp.magicSerialise"],
        rule="structured DHCP messages (header boundary values, hlen 0..16, option value lengths 0..1500 incl. >255, "
             "10% malformed stream), byte-level mutations of valid packets for the decoder, UDP payloads 0..1472 "
             "(thorough: up to 65507), all 65536 flag values; a case is non-trivial when it carries options / a "
             "payload; distinct = distinct input line",
        assumptions=["HashMap iteration order is arbitrary: the model serialises in the order the harness reports",
                     "the reply destination choice lives in an async fn needing sockets: tied by extraction of its shape, not executed"],
        trusted=["std::collections::HashMap as a finite map with unspecified iteration order"],
    ),
}
