from .common import Suite, hexs, rbytes, pick_len

FIELDS = ["op", "htype", "hlen", "hops", "xid", "secs", "flags", "ciaddr", "yiaddr", "siaddr", "giaddr"]


def msg_line(verb, m):
    opts = ",".join("%d:%s" % (c, hexs(v)) for c, v in m["opts"]) or "-"
    return "%s %s chaddr=%s sname=%s file=%s opts=%s" % (
        verb, " ".join("%s=%d" % (k, m[k]) for k in FIELDS), hexs(m["chaddr"]), hexs(m["sname"]), hexs(m["file"]), opts)


def gen_msg(rng, wellformed=True, big=False):
    m = {}
    m["op"] = rng.choice([1, 2, rng.randrange(256)])
    m["htype"] = rng.choice([1, 6, rng.randrange(256)])
    m["hops"] = rng.choice([0, 1, 255, rng.randrange(256)])
    m["xid"] = rng.choice([0, 0xffffffff, rng.randrange(2 ** 32)])
    m["secs"] = rng.choice([0, 65535, rng.randrange(65536)])
    m["flags"] = rng.choice([0, 0x8000, 0x80, 0xffff, rng.randrange(65536)])
    for k in ("ciaddr", "yiaddr", "siaddr", "giaddr"):
        m[k] = rng.choice([0, 0xffffffff, 0xc0000201, rng.randrange(2 ** 32)])
    hl = rng.choice([6, 0, 16, 1, rng.randrange(17)])
    m["chaddr"] = rbytes(rng, hl)
    m["hlen"] = hl
    nz = lambda n: bytes(rng.randrange(1, 256) for _ in range(n))
    m["sname"] = nz(rng.choice([0, 0, 1, 63, 64, rng.randrange(65)]))
    m["file"] = nz(rng.choice([0, 0, 1, 127, 128, rng.randrange(129)]))
    nopt = rng.choice([0, 1, 2, 3, 5, 8, rng.randrange(20)])
    codes = rng.sample(range(1, 255), nopt)
    lens = [0, 1, 2, 4, 254, 255, 256, 257, 509, 510, 511, 512, 765, 766, 1500]
    opts = []
    for c in codes:
        if big:
            l = pick_len(rng, lens, 1500)
        else:
            l = pick_len(rng, [0, 1, 4, 6, 254, 255], 255)
        opts.append((c, rbytes(rng, l)))
    m["opts"] = opts
    if not wellformed:
        # the separate malformed stream: break exactly one well-formedness clause
        which = rng.randrange(5)
        if which == 0:
            m["hlen"] = rng.randrange(256)
        elif which == 1:
            m["chaddr"] = rbytes(rng, rng.randrange(17, 40))
        elif which == 2:
            m["sname"] = rbytes(rng, rng.randrange(1, 100))
        elif which == 3:
            m["file"] = rbytes(rng, rng.randrange(1, 200))
        else:
            m["opts"] = opts + [(rng.choice([0, 255]), rbytes(rng, rng.randrange(4)))]
    return m


def wire(m):
    """an independent little encoder used only to create *inputs* for the decoder suite"""
    b = bytes([m["op"], m["htype"], m["hlen"] % 256, m["hops"]])
    b += m["xid"].to_bytes(4, "big") + m["secs"].to_bytes(2, "big") + m["flags"].to_bytes(2, "big")
    for k in ("ciaddr", "yiaddr", "siaddr", "giaddr"):
        b += m[k].to_bytes(4, "big")
    b += (m["chaddr"] + bytes(16))[:16] + (m["sname"] + bytes(64))[:64] + (m["file"] + bytes(128))[:128]
    b += bytes([0x63, 0x82, 0x53, 0x63])
    for c, v in m["opts"]:
        v = v[:255]
        b += bytes([c, len(v)]) + v
    return b + b"\xff"


class DhcpRoundTrip(Suite):
    name = "dhcprt"

    def gen(self, rng, n, tier):
        out = []
        for i in range(n):
            r = rng.random()
            m = gen_msg(rng, wellformed=r < 0.9, big=rng.random() < 0.5)
            out.append(msg_line("dhcprt", m))
        return out

    def nontrivial(self, inp, obs):
        return "opts=-" not in inp


class DhcpParse(Suite):
    name = "dhcpparse"

    def gen(self, rng, n, tier):
        out = []
        for i in range(n):
            r = rng.random()
            if r < 0.15:
                b = rbytes(rng, pick_len(rng, [0, 1, 27, 28, 43, 44, 107, 108, 235, 236, 239, 240, 241], 600))
            else:
                m = gen_msg(rng, wellformed=rng.random() < 0.8, big=False)
                b = bytearray(wire(m))
                k = rng.random()
                if k < 0.25:      # every truncation point is a candidate
                    b = b[:rng.randrange(len(b) + 1)]
                elif k < 0.5:     # length/code fields set to boundary values
                    for _ in range(rng.randrange(1, 4)):
                        pos = rng.randrange(len(b))
                        b[pos] = rng.choice([0, 1, 255, 254, 63, 64, len(b) % 256, (len(b) - pos) % 256, rng.randrange(256)])
                elif k < 0.6:     # repeated options / pads
                    extra = bytearray()
                    for c, v in m["opts"][:3]:
                        extra += bytes([0, c, min(len(v), 255)]) + v[:255]
                    b = b[:-1] + extra + b"\xff" + rbytes(rng, rng.randrange(4))
                elif k < 0.65:
                    b[236 + rng.randrange(4)] ^= 1 << rng.randrange(8)
                elif k < 0.7:
                    b[2] = rng.choice([17, 255, 16, 0])
            out.append("dhcpparse " + hexs(bytes(b)))
        return out

    def nontrivial(self, inp, obs):
        return len(inp) > 40

    def shrink_candidates(self, inp):
        h = inp.split()[1]
        if h == "-":
            return []
        b = bytes.fromhex(h)
        cands = []
        n = len(b)
        step = max(1, n // 2)
        while step >= 1:
            for i in range(0, n, step):
                cands.append("dhcpparse " + hexs(b[:i] + b[i + step:]))
            step //= 2
        return cands


class Frame(Suite):
    name = "frame"

    def gen(self, rng, n, tier):
        out = []
        for i in range(n):
            plen = pick_len(rng, [0, 1, 2, 3, 240, 300, 301, 576, 1471, 1472], 1472)
            if tier == "thorough" and rng.random() < 0.02:
                plen = rng.choice([1473, 4000, 65506, 65507])
            # payloads engineered to stress carries: all-0xff, all-0, random
            k = rng.random()
            if k < 0.15:
                p = b"\xff" * plen
            elif k < 0.25:
                p = bytes(plen)
            else:
                p = rbytes(rng, plen)
            a = lambda: rng.choice([b"\xff\xff\xff\xff", bytes(4), bytes([192, 0, 2, rng.randrange(256)]), rbytes(rng, 4)])
            out.append("frame src=%s sport=%d smac=%s dst=%s dport=%d dmac=%s payload=%s" % (
                hexs(a()), rng.choice([67, 0, 65535, rng.randrange(65536)]), hexs(rbytes(rng, 6)),
                hexs(a()), rng.choice([68, 0, 65535, rng.randrange(65536)]), hexs(rbytes(rng, 6)), hexs(p)))
        return out


class BroadcastFlag(Suite):
    name = "bflag"

    def gen(self, rng, n, tier):
        # the domain is finite: enumerate all 65536 flag values in both tiers
        return ["bflag %d" % f for f in range(65536)]

    def nontrivial(self, inp, obs):
        return True
