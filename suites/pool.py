from .common import Suite, hexs, rbytes

BASE = 3232235876  # 192.168.1.100
# The address column is TEXT: bases whose small ranges cross a change in the number of digits of an octet
# (.8-.15, .98-.105) or an octet boundary (0.254-1.5), so that any textual comparison of addresses shows
# (seeded change C01-6: a BETWEEN over address strings).
BASES = [BASE, BASE, 3232235874, 167772168, 3232235774]  # .1.100, .1.98, 10.0.0.8, 192.168.0.254


def ddmin_ops(prefix, ops, sep=";"):
    cands = []
    n = len(ops)
    step = max(1, n // 2)
    while step >= 1:
        for i in range(0, n, step):
            rest = ops[:i] + ops[i + step:]
            if rest:
                cands.append(prefix + sep.join(rest))
        if step == 1:
            break
        step //= 2
    return cands


class PoolHistory(Suite):
    """histories of allocate_address / clock advance / restart / metrics"""
    name = "pool"

    def gen_one(self, rng, tier):
        ncl = rng.choice([1, 2, 2, 3, 3, 4, 5])
        clients = [bytes([1, i]) if rng.random() < 0.5 else rbytes(rng, rng.choice([1, 6, 7])) for i in range(ncl)]
        if ncl >= 2 and rng.random() < 0.2:
            clients[1] = clients[0] + b"\x00"      # near-identical identifiers
        nu = rng.choice([1, 2, 3, 4, 6, 8])
        base = rng.choice(BASES)
        uni = [base + i for i in range(nu)]
        outside = [base + 100 + i for i in range(3)]
        pools = [uni]
        for _ in range(rng.randrange(3)):
            k = rng.randrange(1, nu + 1)
            pools.append(sorted(rng.sample(uni + outside, min(k, len(uni + outside)))))
        disk = rng.random() < 0.25
        bounds = rng.choice([(300, 86400)] * 6 + [(60, 120), (0, 0), (1, 1), (100, 50), (3600, 7200), (0, 86400)])
        nops = rng.choice([2, 3, 5, 8, 12, 20] + ([40] if tier == "thorough" else []))
        ops = []
        last_addr = {}
        for i in range(nops):
            r = rng.random()
            if r < 0.62:
                c = rng.randrange(ncl)
                pool = rng.choice(pools)
                if rng.random() < 0.1:
                    pool = sorted(rng.sample(uni + outside, rng.randrange(0, len(uni) + 1)))
                q = rng.random()
                if q < 0.35:
                    req = "-"
                elif q < 0.6:
                    req = str(rng.choice(uni))
                elif q < 0.8:
                    req = str(rng.choice(pool)) if pool else "-"
                elif q < 0.9:
                    req = str(rng.choice(outside))
                else:
                    req = str(rng.choice(uni + outside))
                lo, hi = bounds if rng.random() < 0.85 else rng.choice([(300, 86400), (60, 120), (10, 20)])
                opts = rbytes(rng, rng.choice([0, 0, 1, 3]))
                ops.append("a:%s:%s:%s:%d:%d:%s" % (hexs(clients[c]), req, ",".join(map(str, pool)) or "-", lo, hi, hexs(opts)))
            elif r < 0.85:
                lo = bounds[0]
                ops.append("t:%d" % rng.choice([0, 1, 1, 2, 59, 60, 61, 100, 150, 299, 300, 301, 600, 899, 900, 901,
                                                max(lo, 1) - 1, lo, lo + 1, 3 * lo, 86399, 86400, 86401, rng.randrange(100000)]))
            elif r < 0.9:
                ops.append("m")
            elif r < 0.95 and disk:
                ops.append("r")
            elif r < 0.97:
                ops.append("k:%d" % rng.choice([0, 1, 1, 2, 5]))
            else:
                ops.append("m")
        return "pool t0=%d db=%s ops=%s" % (rng.choice([1000000000, 1700000000, 86400, 301]), "disk" if disk else "mem", ";".join(ops))

    def gen(self, rng, n, tier):
        return [self.gen_one(rng, tier) for _ in range(n)]

    def nontrivial(self, inp, obs):
        return inp.count("a:") >= 2

    def shrink_candidates(self, inp):
        head, _, ops = inp.rpartition("ops=")
        return ddmin_ops(head + "ops=", ops.split(";"))
