"""`dhcp` suite: YAML configurations from the grammar of erbium.conf(5) + histories of DHCP packets."""
from .common import Suite, hexs, rbytes
from .pool import ddmin_ops
from . import dhcpwire


def ip(n):
    return "%d.%d.%d.%d" % (n >> 24 & 255, n >> 16 & 255, n >> 8 & 255, n & 255)


# (yaml name, code, kind)
OPTS = [("host-name", 12, "str"), ("domain-name", 15, "str"), ("ntp-servers", 42, "iplist"), ("default-ttl", 23, "u8"),
        ("mtu", 26, "u16"), ("broadcast", 28, "ip"), ("class-id", 60, "str"), ("arp-timeout", 35, "dur"),
        ("routers", 3, "iplist"), ("dns-servers", 6, "iplist"), ("netmask", 1, "ip"), ("time-offset", 2, "i32"),
        ("captive-portal", 114, "str"), ("wpad-url", 252, "str"), ("user-class", 77, "str"),
        ("lease-time", 51, "dur"), ("lease-time", 51, "dur"), ("routes", 121, "routes"), ("log-servers", 7, "iplist")]


def gen_value(rng, kind, allow_null=True):
    if allow_null and rng.random() < 0.15:
        return "null", None
    if kind == "str":
        s = rng.choice(["a", "host1", "example.org", "x" * rng.randrange(1, 20), "MSFT 5.0"])
        return '"%s"' % s, s.encode()
    if kind == "iplist":
        l = [rng.choice([0xc0000201, 0x08080808, 0, 0, rng.randrange(1, 2 ** 32)]) for _ in range(rng.randrange(0, 3))]
        return "[%s]" % ", ".join(ip(x) if x else rng.choice(['"$self4"', "0.0.0.0"]) for x in l), b"".join(x.to_bytes(4, "big") for x in l)
    if kind == "ip":
        x = rng.choice([0xc00002ff, 0, rng.randrange(1, 2 ** 32)])
        return (ip(x) if x else '"$self4"'), x.to_bytes(4, "big")
    if kind == "routes":
        l = []
        for _ in range(rng.randrange(0, 3)):
            ln = rng.choice([0, 8, 24, 32])
            net = rng.randrange(2 ** 32) & ~(2 ** (32 - ln) - 1) & 0xffffffff
            nh = rng.choice([0, 0xc0000201, rng.randrange(1, 2 ** 32)])
            l.append("{ prefix: %s/%d, next-hop: %s }" % (ip(net), ln, ip(nh) if nh else '"$self4"'))
        return "[%s]" % ", ".join(l), None
    if kind == "u8":
        x = rng.randrange(256)
        return str(x), bytes([x])
    if kind == "u16":
        x = rng.choice([1500, 576, rng.randrange(65536)])
        return str(x), x.to_bytes(2, "big")
    if kind == "i32":
        x = rng.choice([0, 3600, -3600, rng.randrange(-2 ** 31, 2 ** 31)])
        return str(x), (x % 2 ** 32).to_bytes(4, "big")
    if kind == "dur":
        x = rng.choice([60, 3600, rng.randrange(100000)])
        return "%ds" % x, x.to_bytes(4, "big")
    raise ValueError(kind)


class Ctx:
    def __init__(self, rng):
        self.rng = rng
        self.subnets = []      # (network, len) seen in the config
        self.macs = [bytes([0, 0, 0x5e, 0, 0x53, i]) for i in range(4)]
        self.match_vals = []   # (code, bytes|None) used in match-<option>
        self.addrs = []        # interesting addresses (reservations, range ends)


def gen_policy(ctx, depth, parent_subnet, ind):
    rng = ctx.rng
    lines = []
    pad = " " * ind
    first = [True]

    def emit(s):
        lines.append((pad + ("- " if first[0] else "  ")) + s)
        first[0] = False
    subnet = parent_subnet
    r = rng.random()
    if r < 0.35 or parent_subnet is None:
        ln = rng.choice([24, 26, 28, 29, 30, 30])
        if parent_subnet and rng.random() < 0.6:
            net = parent_subnet[0]
            ln = max(ln, parent_subnet[1])
            if ln > parent_subnet[1]:
                net += rng.randrange(2 ** (ln - parent_subnet[1])) << (32 - ln)
        else:
            net = (0xc0000200 + rng.randrange(4) * 256) & ~(2 ** (32 - ln) - 1)
        subnet = (net, ln)
        ctx.subnets.append(subnet)
        emit("match-subnet: %s/%d" % (ip(net), ln))
    if rng.random() < 0.3:
        m = rng.choice(ctx.macs)
        emit('match-hardware-address: "%s"' % ":".join("%02x" % b for b in m))
    if rng.random() < 0.3:
        name, code, kind = rng.choice([o for o in OPTS if o[2] in ("str", "u8")])
        y, b = gen_value(rng, kind)
        ctx.match_vals.append((code, b))
        emit("match-%s: %s" % (name, y))
    if first[0] and rng.random() < 0.25:
        emit("match-all: true") if False else None
    # applies
    seen = set()
    for _ in range(rng.randrange(0, 4)):
        name, code, kind = rng.choice(OPTS)
        if name in seen:
            continue
        seen.add(name)
        y, b = gen_value(rng, kind)
        emit("apply-%s: %s" % (name, y))
    if subnet and rng.random() < 0.7:
        k = rng.random()
        size = 2 ** (32 - subnet[1])
        if k < 0.35:
            emit("apply-subnet: %s/%d" % (ip(subnet[0]), subnet[1]))
        elif k < 0.7:
            a = subnet[0] + rng.randrange(size)
            b = min(subnet[0] + size - 1, a + rng.randrange(0, 6))
            ctx.addrs += [a, b]
            emit("apply-range: { start: %s, end: %s }" % (ip(a), ip(b)))
        else:
            a = subnet[0] + rng.randrange(size)
            ctx.addrs.append(a)
            emit("apply-address: %s" % ip(a))
    if depth < 3 and rng.random() < 0.45:
        subs = []
        for _ in range(rng.randrange(1, 4)):
            subs += gen_policy(ctx, depth + 1, subnet, ind + 4)
        if subs:
            emit("policies:")
            lines.extend(subs)
    if first[0]:
        emit("apply-default-ttl: %d" % rng.randrange(256))
    return lines


def gen_config(rng):
    ctx = Ctx(rng)
    top = []
    addrs = []
    for _ in range(rng.choice([0, 1, 1, 1, 2])):
        ln = rng.choice([24, 27, 28, 29, 30, 30, 31, 32])
        net = (0xc0000200 + rng.randrange(4) * 256 + rng.randrange(256)) & ~(2 ** (32 - ln) - 1)
        if rng.random() < 0.25:      # written with host bits set
            addrs.append("%s/%d" % (ip(net + rng.randrange(2 ** (32 - ln))), ln))
        else:
            addrs.append("%s/%d" % (ip(net), ln))
        ctx.subnets.append((net, ln))
    if rng.random() < 0.2:
        addrs.append("2001:db8::/64")
    if addrs:
        top.append("addresses: [%s]" % ", ".join(addrs))
    if rng.random() < 0.6:
        l = [rng.choice(["$self4", "8.8.8.8", "192.0.2.53", "2001:db8::53", "$self6"]) for _ in range(rng.randrange(0, 4))]
        top.append("dns-servers: [%s]" % ", ".join('"%s"' % x if x.startswith("$") else x for x in l))
    if rng.random() < 0.4:
        top.append("dns-search: [%s]" % ", ".join(rng.choice(["example.com", "a.b.c", "lan"]) for _ in range(rng.randrange(0, 3))))
    if rng.random() < 0.3:
        top.append('captive-portal: "http://portal.example/%d"' % rng.randrange(100))
    if rng.random() < 0.8:
        pol = []
        for _ in range(rng.randrange(1, 4)):
            pol += gen_policy(ctx, 1, None, 2)
        top.append("dhcp-policies:")
        top.extend(pol)
    if not top:
        top.append("addresses: [192.0.2.0/29]")
        ctx.subnets.append((0xc0000200, 29))
    return "\n".join(top) + "\n", ctx


def gen_packet(rng, ctx, clients):
    c = rng.choice(clients)
    m = {"op": 1, "htype": 1, "hops": 0, "xid": rng.randrange(2 ** 32), "secs": rng.randrange(4),
         "flags": rng.choice([0, 0, 0x8000, 0x8000, 0x8001, 0x7fff, 0x0001, 0xffff, rng.randrange(65536)]),   # reserved bits too: echoed
         "ciaddr": 0, "yiaddr": 0, "siaddr": 0,
         "giaddr": rng.choice([0, 0, 0, 0xc0000263]), "chaddr": c["mac"], "hlen": len(c["mac"]), "sname": b"", "file": b""}
    opts = {}
    t = rng.choice([1, 1, 1, 3, 3, 3, 3, 2, 4, 5, 7, 8, None, rng.randrange(256)])
    if t is not None:
        opts[53] = bytes([t])
    if c["cid"] is not None:
        opts[61] = c["cid"]
    pl = set()
    for _ in range(rng.randrange(0, 10)):
        pl.add(rng.choice([1, 3, 6, 7, 12, 15, 23, 26, 28, 35, 42, 51, 60, 114, 119, 121, 252, 2, 77, rng.randrange(1, 255)]))
    if rng.random() < 0.85:
        opts[55] = bytes(sorted(pl))
    # requested address
    want = None
    pool_addrs = [s[0] + o for s in ctx.subnets for o in (0, 1, 2, 3, 2 ** (32 - s[1]) - 2, 2 ** (32 - s[1]) - 1)] + ctx.addrs
    asked = c.setdefault("asked", [])
    if rng.random() < 0.6 and (asked or pool_addrs):
        # addresses this client named before come back often: a client ends up holding several leases and later names an
        # older one again
        want = rng.choice(asked * 3 + pool_addrs)
        if want not in asked:
            asked.append(want)
    if want is not None:
        if t == 3 and rng.random() < 0.4:
            m["ciaddr"] = want
        else:
            opts[50] = want.to_bytes(4, "big") if rng.random() < 0.95 else want.to_bytes(4, "big")[:3]
    return m, opts, t


class DhcpHistory(Suite):
    name = "dhcp"

    def gen_one(self, rng, tier):
        cfg, ctx = gen_config(rng)
        nc = rng.choice([1, 2, 3, 4])
        clients = []
        for i in range(nc):
            mac = rng.choice(ctx.macs) if rng.random() < 0.7 else rbytes(rng, 6)
            cid = rbytes(rng, rng.choice([1, 7])) if rng.random() < 0.3 else None
            if clients and rng.random() < 0.25:
                # a client identifier of the usual form (hardware type, then an address) that carries *another* client's
                # hardware address: still a different client (RFC 2131: the identifier, not its content, names the client)
                cid = b"\x01" + rng.choice(clients)["mac"]
            clients.append({"mac": mac, "cid": cid, "last": None})
        # server side
        serverips = []
        for (net, ln) in ctx.subnets:
            size = 2 ** (32 - ln)
            serverips += [net + rng.randrange(size), net + 1, net + size - 2 if size > 2 else net]
        serverips.append(0xc0000263)
        ids_all = list(set(serverips[:3] + [0x0a000001]))
        ops = []
        nops = rng.choice([1, 2, 4, 6, 10] + ([25] if tier == "thorough" else []))
        sip = rng.choice(serverips)
        for _ in range(nops):
            r = rng.random()
            if r < 0.85:
                if rng.random() < 0.2:
                    sip = rng.choice(serverips)
                m, opts, t = gen_packet(rng, ctx, clients)
                k = rng.random()
                ids = [sip] if k < 0.6 else (ids_all if k < 0.8 else [])
                if t == 3:
                    q = rng.random()
                    if q < 0.35:
                        opts[54] = sip.to_bytes(4, "big")
                    elif q < 0.5:
                        opts[54] = (0x0a0000fe).to_bytes(4, "big")          # another server
                    elif q < 0.55:
                        opts[54] = b"\x0a\x00\x00"                            # malformed length
                elif rng.random() < 0.1:
                    opts[54] = rng.choice([sip, 0x0a0000fe]).to_bytes(4, "big")
                # options named by match-<option> conditions
                for code, b in ctx.match_vals:
                    if rng.random() < 0.5:
                        opts[code] = b if (b is not None and rng.random() < 0.8) else b"zz"
                if rng.random() < 0.3:
                    opts[12] = rng.choice([b"host1", b"a", b"\xff\x00weird\"\\", b"example.org"])
                m["opts"] = sorted(opts.items())
                pkt = dhcpwire.wire(m)
                mtu = rng.choice(["-", "1500", "9000", "70000"])
                router = rng.choice(["-", str(sip), str(0xc0000201)])
                ops.append("p:%d:%s:%s:%s:%s" % (sip, ",".join(map(str, ids)) or "-", mtu, router, hexs(pkt)))
            else:
                ops.append("t:%d" % rng.choice([0, 1, 150, 299, 300, 301, 900, 86400, 86401]))
        return "dhcp t0=%d cfg=%s ops=%s" % (rng.choice([1000000000, 1700000000]), cfg.encode().hex(), ";".join(ops))

    def gen_multi(self, rng, tier):
        """a client that comes to hold several unexpired leases inside the pool it is finally served from (sibling pools
        keyed on the class identifier, a catch-all sibling whose range covers them), and then names one of them"""
        base = 0xc0000200
        sip = base + 1
        k = rng.choice([2, 2, 3])
        names = ["one", "two", "three"][:k]
        starts = [base + 10 * (i + 1) for i in range(k)]
        cfg = "dhcp-policies:\n"
        for nm, st in zip(names, starts):
            cfg += '  - match-class-id: "%s"\n    apply-range: { start: %s, end: %s }\n' % (nm, ip(st), ip(st + 2))
        cfg += "  - match-subnet: 192.0.2.0/24\n    apply-range: { start: %s, end: %s }\n" % (ip(starts[0]), ip(starts[-1] + 2))
        mac = bytes([0, 0, 0x5e, 0, 0x53, rng.randrange(4)])
        cid = rbytes(rng, 7) if rng.random() < 0.3 else None

        def pkt(t, cls, want, via_ciaddr=False, sid=True):
            m = {"op": 1, "htype": 1, "hops": 0, "xid": rng.randrange(2 ** 32), "secs": 0, "flags": rng.choice([0, 0x8000]),
                 "ciaddr": want if via_ciaddr else 0, "yiaddr": 0, "siaddr": 0, "giaddr": 0, "chaddr": mac, "hlen": 6, "sname": b"", "file": b""}
            opts = {53: bytes([t]), 55: bytes([1, 3, 6, 51])}
            if cid is not None:
                opts[61] = cid
            if cls is not None:
                opts[60] = cls.encode()
            if want is not None and not via_ciaddr:
                opts[50] = want.to_bytes(4, "big")
            if t == 3 and sid and not via_ciaddr:
                opts[54] = sip.to_bytes(4, "big")
            m["opts"] = sorted(opts.items())
            return "p:%d:%d:-:-:%s" % (sip, sip, hexs(dhcpwire.wire(m)))
        ops = []
        held = []
        order = list(range(k))
        rng.shuffle(order)
        for i in order:
            want = starts[i] + rng.randrange(3)
            if rng.random() < 0.5:
                ops.append(pkt(1, names[i], want))
            ops.append(pkt(3, names[i], want, sid=rng.random() < 0.7))
            held.append(want)
            ops.append("t:%d" % rng.choice([0, 1, 10, 150, 280]))
        # now, from the catch-all pool, name one of the leases held (the oldest most often), or none at all
        for _ in range(rng.choice([1, 2, 3])):
            want = rng.choice([held[0], held[0], rng.choice(held), None])
            r = rng.random()
            if r < 0.3 and want is not None:
                ops.append(pkt(1, None, want))
                ops.append(pkt(3, None, want))
            elif r < 0.75:
                ops.append(pkt(3, None, want, sid=rng.random() < 0.5))
            else:
                ops.append(pkt(3, None, want, via_ciaddr=want is not None))
            if rng.random() < 0.4:
                ops.append("t:%d" % rng.choice([1, 100, 301]))
        return "dhcp t0=%d cfg=%s ops=%s" % (1700000000, cfg.encode().hex(), ";".join(ops))

    def gen_renew(self, rng, tier):
        """one client renewing for hours: each renewal comes two thirds (or so) into the lease, so the lease keeps growing
        until it meets the upper bound (24 hours by default) — and must stay there"""
        base = 0xc0000200
        sip = base + 1
        cfg = "addresses: [192.0.2.0/28]\n"
        mac = bytes([0, 0, 0x5e, 0, 0x53, rng.randrange(4)])
        want = base + rng.randrange(2, 14)

        def pkt(t, via_ciaddr):
            m = {"op": 1, "htype": 1, "hops": 0, "xid": rng.randrange(2 ** 32), "secs": 0, "flags": 0,
                 "ciaddr": want if via_ciaddr else 0, "yiaddr": 0, "siaddr": 0, "giaddr": 0, "chaddr": mac, "hlen": 6, "sname": b"", "file": b""}
            opts = {53: bytes([t]), 55: bytes([1, 3, 51])}
            if not via_ciaddr:
                opts[50] = want.to_bytes(4, "big")
                if t == 3:
                    opts[54] = sip.to_bytes(4, "big")
            m["opts"] = sorted(opts.items())
            return "p:%d:%d:-:-:%s" % (sip, sip, hexs(dhcpwire.wire(m)))
        ops = [pkt(1, False), pkt(3, False)]
        lease = 300
        for _ in range(rng.choice([10, 12, 14])):
            step = max(1, lease * rng.choice([50, 60, 66, 66, 75]) // 100)
            ops.append("t:%d" % step)
            ops.append(pkt(3, rng.random() < 0.8))
            lease = min(max(3 * step, 300), 86400)
        return "dhcp t0=%d cfg=%s ops=%s" % (1700000000, cfg.encode().hex(), ";".join(ops))

    def gen(self, rng, n, tier):
        def one():
            r = rng.random()
            return self.gen_multi(rng, tier) if r < 0.08 else (self.gen_renew(rng, tier) if r < 0.11 else self.gen_one(rng, tier))
        return [one() for _ in range(n)]

    def nontrivial(self, inp, obs):
        return "ok~" in obs

    def shrink_candidates(self, inp):
        head, _, ops = inp.rpartition("ops=")
        return ddmin_ops(head + "ops=", ops.split(";"))
