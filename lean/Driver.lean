import ErbiumModel.Util
import ErbiumModel.Judge.C12
import ErbiumModel.Judge.Pool
import ErbiumModel.Judge.Dhcp
import ErbiumModel.Judge.C08
import ErbiumModel.Judge.C16
import ErbiumModel.Judge.C06
import ErbiumModel.Judge.C15
import ErbiumModel.Judge.DnsWire
import ErbiumModel.Judge.C03
import ErbiumModel.Judge.C18
import ErbiumModel.Judge.C17
import ErbiumModel.Judge.C02
import ErbiumModel.Judge.C05
import ErbiumModel.Judge.C19
import ErbiumModel.Judge.C07
/-! Line-protocol driver. stdin: `<suite> <input tokens> => <implementation observation>`;
    stdout: `<correspondence verdict> | <oracle verdict>` per line. -/
open Erbium Util

def judge (suite : String) (inp obs : List String) : Verdict :=
  match suite with
  | "dhcprt" => Judge.C12.judgeRt inp obs
  | "dhcpparse" => Judge.C12.judgeParse inp obs
  | "frame" => Judge.C12.judgeFrame inp obs
  | "bflag" => Judge.C12.judgeBflag inp obs
  | "pool" => Judge.Pool.judge inp obs
  | "dhcp" => Judge.Dhcp.judge inp obs
  | "acl" => Judge.C08.judgeAcl inp obs
  | "leasejson" => Judge.C08.judgeLeaseJson inp obs
  | "bucket" => Judge.C16.judgeBucket inp obs
  | "ratelimit" => Judge.C16.judgeRatelimit inp obs
  | "cache" => Judge.C06.judge inp obs
  | "route" => Judge.C15.judge inp obs
  | "dnsdec" => Judge.DnsWire.judgeDec inp obs
  | "dnsenc" => Judge.DnsWire.judgeEnc inp obs
  | "dnsrt" => Judge.DnsWire.judgeRt inp obs
  | "inreply" => Judge.C03.judge inp obs
  | "leasedb" => Judge.C18.judge inp obs
  | "crashkill" => Judge.C18.judgeCrash inp obs
  | "ra" => Judge.C17.judge inp obs
  | "dhcpcfg" => Judge.C02.judge inp obs
  | "cfgfield" => Judge.C19.judgeField inp obs
  | "cfgload" => Judge.C19.judgeLoad inp obs
  | "e2e" => Judge.C07.judge inp obs
  | "icmp6" | "lldp" | "dhcpacc" | "toarr" | "dnssafe" | "dhcpsafe" | "ednsacc" => Judge.C05.judge suite inp obs
  | _ => badInput ("unknown-suite:" ++ suite)

def judgeLine (line : String) : String :=
  match line.splitOn " => " with
  | [i, o] =>
    match words i with
    | suite :: inp => (judge suite inp (words o)).render
    | [] => (badInput "empty").render
  | _ => (badInput "no-arrow").render

partial def loop (h : IO.FS.Stream) (out : IO.FS.Stream) : IO Unit := do
  let line ← h.getLine
  if line.isEmpty then return ()
  let l := (line.dropEndWhile (fun c => c == '\n' || c == '\r')).toString
  out.putStrLn (judgeLine l)
  loop h out

def main : IO Unit := do
  let out ← IO.getStdout
  loop (← IO.getStdin) out
  out.flush
