import ErbiumModel.Lemmas.Cursor
import ErbiumModel.Model.Icmp6
/-! `icmppkt::parse` never panics and its option loop terminates within the packet length. -/
namespace Erbium.Icmp6
open Erbium.Safe Erbium.Cursor Erbium.Generated.Pkt

theorem trimLen_le (v : List Nat) : trimLen v ≤ v.length := by
  unfold trimLen
  calc (v.reverse.dropWhile (· == 0)).length ≤ v.reverse.length := (List.dropWhile_sublist _).length_le
    _ = v.length := List.length_reverse

/-- every option body of at least 6 octets (what `l * 8 - 2` with `l ≥ 1` guarantees) decodes without a panic -/
theorem parseOption_spec (ty : Nat) (value : List Nat) (h : 6 ≤ value.length) :
    Post (parseOption ty value) (fun _ => True) := by
  unfold parseOption
  split
  · trivial
  split
  · refine Post.bind (post_slice (Nat.zero_le _) (trimLen_le value)) ?_
    intro s _
    split <;> trivial
  split
  · split
    · trivial
    · rename_i hl
      have hl : value.length = 14 := by simpa [icmpPref64Len] using hl
      refine Post.bind (post_slice (by omega) (by omega)) ?_
      rintro w ⟨_, hw⟩
      refine Post.bind (post_exactLen (by omega)) ?_
      intro w' _
      dsimp only
      split
      · trivial
      · refine Post.bind (post_slice (by omega) (Nat.le_refl _)) ?_
        rintro rest ⟨_, hr⟩
        refine Post.bind (post_exactLen (by simp; omega)) ?_
        intro _ _; trivial
  split
  · split
    · trivial
    · rename_i hl
      have hl : value.length = 6 := by simpa [icmpMtuLen] using hl
      refine Post.bind (post_slice (by omega) (by omega)) ?_
      rintro w ⟨_, hw⟩
      refine Post.bind (post_exactLen (by omega)) ?_
      intro _ _; trivial
  split
  · refine Post.bind (post_slice (by omega) (by omega)) ?_
    rintro w ⟨_, hw⟩
    refine Post.bind (post_exactLen (by omega)) ?_
    intro _ _
    refine Post.bind (post_slice (by omega) (Nat.le_refl _)) ?_
    intro _ _; trivial
  split
  · split
    · trivial
    · rename_i hl
      have hl : value.length = 30 := by simpa [icmpPrefixLen] using hl
      refine Post.bind (post_idx (by omega)) ?_; intro _ _
      refine Post.bind (post_idx (by omega)) ?_; intro _ _
      refine Post.bind (post_slice (by omega) (by omega)) ?_
      rintro v ⟨_, hv⟩
      refine Post.bind (post_exactLen (by omega)) ?_; intro _ _
      refine Post.bind (post_slice (by omega) (by omega)) ?_
      rintro p ⟨_, hp⟩
      refine Post.bind (post_exactLen (by omega)) ?_; intro _ _
      refine Post.bind (post_slice (by omega) (by omega)) ?_
      rintro a ⟨_, ha⟩
      refine Post.bind (post_exactLen (by omega)) ?_; intro _ _
      trivial
  · trivial

/-- the option loop: with fuel above the octets left it neither panics nor runs out of fuel -/
theorem parseOptions_spec (fuel : Nat) (b : Buf) (acc : List NdOpt) (hw : b.WF)
    (hf : b.data.length - b.off < fuel) : Post (parseOptions fuel b acc) (fun _ => True) := by
  induction fuel generalizing b acc with
  | zero => omega
  | succ fuel ih =>
    unfold parseOptions
    refine Post.bind (remaining_spec b hw) ?_
    intro r hr
    split
    · trivial
    · refine Post.bind (Post.orErr _ (getU8_spec b)) ?_
      rintro ⟨ty, b1⟩ ha1
      refine Post.bind (Post.orErr _ (getU8_spec b1)) ?_
      rintro ⟨l, b2⟩ ha2
      dsimp only
      split
      · trivial
      · rename_i hz
        have hl : 1 ≤ l := by
          simp [icmpZeroLenRejected] at hz; omega
        refine Post.bind (post_subU (by simp [icmpOptUnit, icmpOptHeader]; omega)) ?_
        intro n hn
        refine Post.bind (Post.orErr _ (getBytes_spec b2 n)) ?_
        rintro ⟨value, b3⟩ ⟨ha3, hvl⟩
        simp only at hvl ha1 ha2 ha3
        have h6 : 6 ≤ value.length := by
          rw [hvl, hn]; simp [icmpOptUnit, icmpOptHeader]; omega
        have hadv := (ha1.trans ha2).trans ha3
        have hle := hadv.le
        obtain ⟨hd, ho, hw3⟩ := hadv
        have hfuel : b3.data.length - b3.off < fuel := by rw [hd, ho]; omega
        refine Post.bind (parseOption_spec ty value h6) ?_
        intro o _
        split
        · exact ih b3 _ hw3 hfuel
        · exact ih b3 _ hw3 hfuel

theorem parse_spec (pkt : List Nat) : Post (parse pkt) (fun _ => True) := by
  unfold parse
  split
  · trivial
  · refine Post.bind (Post.orErr _ (getU8_spec _)) ?_
    rintro ⟨ty, b1⟩ h1
    refine Post.bind (Post.orErr _ (getU8_spec _)) ?_
    rintro ⟨code, b2⟩ h2
    refine Post.bind (Post.orErr _ (getBe16_spec _)) ?_
    rintro ⟨ck, b3⟩ h3
    simp only at h1 h2 h3
    have a3 := (h1.trans h2).trans h3
    dsimp only
    split
    · refine Post.bind (Post.orErr _ (getBe32_spec _)) ?_
      rintro ⟨x, b4⟩ h4
      simp only at h4
      have a4 := a3.trans h4
      have hd : b4.data.length = pkt.length := by rw [a4.1]; rfl
      refine Post.bind (parseOptions_spec _ b4 [] a4.wf (by omega)) ?_
      intro _ _; trivial
    · split
      · refine Post.bind (Post.orErr _ (getU8_spec _)) ?_
        rintro ⟨hl, b4⟩ h4
        refine Post.bind (Post.orErr _ (getU8_spec _)) ?_
        rintro ⟨mo, b5⟩ h5
        refine Post.bind (Post.orErr _ (getBe16_spec _)) ?_
        rintro ⟨lt, b6⟩ h6
        refine Post.bind (Post.orErr _ (getBe32_spec _)) ?_
        rintro ⟨re, b7⟩ h7
        refine Post.bind (Post.orErr _ (getBe32_spec _)) ?_
        rintro ⟨rt, b8⟩ h8
        simp only at h4 h5 h6 h7 h8
        have a8 := ((((a3.trans h4).trans h5).trans h6).trans h7).trans h8
        have hd : b8.data.length = pkt.length := by rw [a8.1]; rfl
        refine Post.bind (parseOptions_spec _ b8 [] a8.wf (by omega)) ?_
        intro _ _; trivial
      · trivial

end Erbium.Icmp6
