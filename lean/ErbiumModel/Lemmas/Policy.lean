import ErbiumModel.Spec.PolicyDoc
/-! Refinement: the recursive, response-mutating evaluation of `dhcp/mod.rs` (model `Dhcp.applyPolicies`)
    computes exactly the table that the manual's chain semantics (`PolicyDoc`) denotes. -/
namespace Erbium.PolicyDoc
open Erbium.Dhcp

theorem otherCond_eq (req : Req) : otherCondHolds req = optionCondHolds req := by
  funext e
  unfold otherCondHolds optionCondHolds
  generalize lookupOpt req.pkt.options e.fst = l
  generalize e.snd = m
  cases m <;> cases l <;> rfl

/-- `check_policy` answers "failed" when a condition fails, "ok" when all of at least one hold, and
    "no match" when there is none -/
theorem checkPolicy_eq (req : Req) (p : Policy) :
    checkPolicy req p = if hasConds p then (if condsHold req p then .ok else .failed) else .noMatch := by
  obtain ⟨matchAll, matchChaddr, matchSubnet, matchOther, a, o, subs⟩ := p
  simp only [checkPolicy, hasConds, condsHold, otherCond_eq]
  by_cases h : matchOther.all (optionCondHolds req) = true
  · cases matchAll <;> cases matchChaddr <;> cases matchSubnet <;> cases matchOther <;>
      simp [h] <;> (try split) <;> simp_all <;> (try split) <;> simp_all
  · have hne : matchOther.isEmpty = false := by
      cases matchOther with
      | nil => simp at h
      | cons _ _ => rfl
    cases matchAll <;> cases matchChaddr <;> cases matchSubnet <;>
      simp [h, hne] <;> (try split) <;> simp_all <;> (try split) <;> simp_all

/-- the verdict `apply_policy` acts on -/
def implOk (req : Req) (p : Policy) : Bool :=
  match checkPolicy req p with
  | .failed => false
  | .ok => true
  | .noMatch => checkPolicies req p.subs

theorem check_eq_applies (req : Req) :
    (∀ ps, checkPolicies req ps = anyApplies req ps) ∧ (∀ p, checkSubs req p = anyApplies req p.subs) := by
  apply checkPolicies.mutual_induct (motive_1 := fun ps => checkPolicies req ps = anyApplies req ps)
    (motive_2 := fun p => checkSubs req p = anyApplies req p.subs)
  · intro a b c d e f s ih
    simp only [checkSubs, Policy.subs]; exact ih
  · simp [checkPolicies, anyApplies]
  · intro p ps ihp ihps
    obtain ⟨a, b, c, d, e, f, s⟩ := p
    rw [checkPolicies, anyApplies, ihps, applies, checkPolicy_eq]
    simp only [Policy.subs] at ihp
    rw [ihp]
    by_cases hc : hasConds (Policy.mk a b c d e f s) = true <;>
      by_cases hh : condsHold req (Policy.mk a b c d e f s) = true <;> simp [hc, hh]

theorem implOk_eq (req : Req) (p : Policy) : implOk req p = applies req p := by
  obtain ⟨a, b, c, d, e, f, s⟩ := p
  unfold implOk
  rw [checkPolicy_eq, applies, (check_eq_applies req).1]
  simp only [Policy.subs]
  by_cases hc : hasConds (Policy.mk a b c d e f s) = true <;>
    by_cases hh : condsHold req (Policy.mk a b c d e f s) = true <;> simp [hc, hh]

theorem find_filter_ne (l : List (Nat × Option Bytes)) (k k' : Nat) (h : k' ≠ k) :
    (l.filter (·.1 != k)).find? (·.1 == k') = l.find? (·.1 == k') := by
  induction l with
  | nil => rfl
  | cons a as ih =>
    by_cases ha : a.1 = k
    · have h1 : (a.1 != k) = false := by simp [ha]
      have h2 : (a.1 == k') = false := by simp [ha]; exact fun e => h e.symm
      simp only [List.filter_cons, h1, List.find?_cons, h2]
      exact ih
    · have h1 : (a.1 != k) = true := by simp [ha]
      simp only [List.filter_cons, h1, if_true, List.find?_cons]
      rw [ih]

theorem ropt_setOpt (r : Resp) (k : Nat) (v : Option Bytes) (k' : Nat) :
    ropt (setOpt r k v) k' = if k' = k then some v else ropt r k' := by
  unfold ropt setOpt
  by_cases h : k' = k
  · subst h; simp
  · have hne : (k == k') = false := by simp; exact fun e => h e.symm
    simp only [List.find?_cons, hne, h, if_false]
    rw [find_filter_ne _ _ _ h]

theorem ropt_setOptDefault (r : Resp) (k : Nat) (v : Bytes) (k' : Nat) :
    ropt (setOptDefault r k v) k' = if k' = k ∧ ropt r k = none then some (some v) else ropt r k' := by
  unfold setOptDefault
  cases h : ropt r k with
  | none => simp [ropt_setOpt, h]
  | some x =>
    simp [h]

theorem ropt_address (r : Resp) (a : Option (List Nat)) (k : Nat) : ropt { r with address := a } k = ropt r k := rfl

/-- what a list of `apply-<option>` entries says about `k`, on top of `init` -/
def mentionFrom (init : Option (Option Bytes)) (l : List (Nat × Option Bytes)) (k : Nat) : Option (Option Bytes) :=
  l.foldl (fun acc e => if e.1 == k then some e.2 else acc) init

@[simp] theorem orr_some {β : Type} (v : β) (b : Option β) : orr (some v) b = some v := rfl
@[simp] theorem orr_none {β : Type} (b : Option β) : orr none b = b := rfl
@[simp] theorem orr_none_right {β : Type} (a : Option β) : orr a none = a := by cases a <;> rfl
theorem orr_assoc {β : Type} (a b c : Option β) : orr (orr a b) c = orr a (orr b c) := by cases a <;> rfl

theorem mentionFrom_eq (init : Option (Option Bytes)) (l : List (Nat × Option Bytes)) (k : Nat) :
    mentionFrom init l k = orr (mentionFrom none l k) init := by
  unfold mentionFrom
  induction l generalizing init with
  | nil => rfl
  | cons e es ih =>
    simp only [List.foldl_cons]
    rw [ih, ih (if (e.1 == k) = true then some e.2 else none)]
    cases List.foldl (fun acc e => if (e.1 == k) = true then some e.2 else acc) none es with
    | some v => rfl
    | none =>
      by_cases he : (e.1 == k) = true
      · simp only [he, if_true, orr_none, orr_some]
      · simp [he]

theorem ropt_foldl (pl : List Nat) (l : List (Nat × Option Bytes)) (r : Resp) (k : Nat) :
    ropt (l.foldl (fun acc x => match x with | (k, v) => if pl.contains k then setOpt acc k v else acc) r) k
      = if pl.contains k then mentionFrom (ropt r k) l k else ropt r k := by
  induction l generalizing r with
  | nil => simp [mentionFrom]
  | cons e es ih =>
    obtain ⟨ek, ev⟩ := e
    simp only [List.foldl_cons]
    rw [ih]
    by_cases hk : pl.contains k = true
    · simp only [hk, if_true, mentionFrom, List.foldl_cons]
      congr 1
      by_cases hek : pl.contains ek = true
      · simp only [hek, if_true, ropt_setOpt]
        by_cases h2 : k = ek
        · subst h2; simp
        · have : (ek == k) = false := by simp; exact fun e => h2 e.symm
          simp [h2, this]
      · simp only [hek]
        have : (ek == k) = false := by
          simp; intro e; subst e; exact hek hk
        simp [this]
    · simp only [hk]
      by_cases hek : pl.contains ek = true
      · simp only [hek, if_true, ropt_setOpt]
        have : k ≠ ek := by intro e; subst e; exact hk hek
        simp [this]
      · have hek' : ¬ ek ∈ pl := by simpa using hek
        simp [hek']


theorem findSome_reverse_cons {α β : Type} (f : α → Option β) (p : α) (c : List α) :
    (p :: c).reverse.findSome? f = orr (c.reverse.findSome? f) (f p) := by
  rw [List.reverse_cons, List.findSome?_append]
  cases c.reverse.findSome? f with
  | some v => rfl
  | none => simp

theorem chainValue_cons (p : Policy) (c : List Policy) (k : Nat) :
    chainValue (p :: c) k = orr (chainValue c k) (mention p k) := by
  unfold chainValue; exact findSome_reverse_cons _ p c

theorem subnetDefault_cons (p : Policy) (c : List Policy) (k : Nat) :
    subnetDefault (p :: c) k = orr (subnetDefault c k) (p.matchSubnet.map (subnetValue · k)) := by
  unfold subnetDefault; exact findSome_reverse_cons _ p c

theorem tableAfter_nil (pl : List Nat) (before : Nat → Option (Option Bytes)) (k : Nat) :
    tableAfter pl before [] k = before k := by
  unfold tableAfter chainValue subnetDefault
  cases h : before k <;> simp [h]

/-- the subnet defaults `apply_policy` adds on the way out -/
def withSubnetDefaults (pl : List Nat) (ms : Option (Nat × Nat)) (r : Resp) : Resp :=
  match ms with
  | some s =>
    let r := if pl.contains 1 then setOptDefault r 1 (ser32 (netmask s.2)) else r
    if pl.contains 28 then setOptDefault r 28 (ser32 (subnetBroadcast s)) else r
  | none => r

theorem ropt_withSubnetDefaults (pl : List Nat) (ms : Option (Nat × Nat)) (r : Resp) (k : Nat) :
    ropt (withSubnetDefaults pl ms r) k =
      orr (ropt r k) (if (k == 1 || k == 28) && pl.contains k then (ms.map (subnetValue · k)).map some else none) := by
  unfold withSubnetDefaults
  cases ms with
  | none => cases h : ropt r k <;> simp [h]
  | some s =>
    simp only
    by_cases k1 : k = 1
    · subst k1
      by_cases h1 : pl.contains 1 = true <;> by_cases h28 : pl.contains 28 = true <;>
        cases h : ropt r 1 <;> simp_all [subnetValue, ropt_setOptDefault]
    · by_cases k28 : k = 28
      · subst k28
        by_cases h1 : pl.contains 1 = true <;> by_cases h28 : pl.contains 28 = true <;>
          cases h : ropt r 28 <;> simp_all [subnetValue, ropt_setOptDefault]
      · by_cases h1 : pl.contains 1 = true <;> by_cases h28 : pl.contains 28 = true <;>
          cases h : ropt r k <;> simp_all [subnetValue, ropt_setOptDefault]


def withAddress (e : Option (List Nat)) (r : Resp) : Resp :=
  match e with
  | some a => { r with address := some a }
  | none => r

def firstOr (x : Option Resp) (y : Resp × Bool) : Resp × Bool :=
  match x with
  | some r' => (r', true)
  | none => y

theorem ropt_withAddress (e : Option (List Nat)) (r : Resp) (k : Nat) : ropt (withAddress e r) k = ropt r k := by
  cases e <;> rfl

/-- `apply_policy`, unfolded once, in terms of the helper names -/
theorem applyPolicy_unfold (req : Req) (a : Bool) (b : Option Bytes) (c : Option (Nat × Nat)) (d : List (Nat × Option Bytes))
    (e : Option (List Nat)) (f : List (Nat × Option Bytes)) (s : List Policy) (r : Resp) :
    applyPolicy req (.mk a b c d e f s) r =
      if !implOk req (.mk a b c d e f s) then none else
      some (withSubnetDefaults (paramList req) c
        (applyPolicies req s
          (f.foldl (fun acc x => match x with | (k, v) => if (paramList req).contains k then setOpt acc k v else acc)
            (withAddress e r))).1) := by
  conv => lhs; unfold applyPolicy
  simp only [implOk, Policy.subs, withSubnetDefaults, withAddress]
  cases e <;> rfl


theorem applyPolicies_nil (req : Req) (r : Resp) : applyPolicies req [] r = (r, false) := by
  conv => lhs; unfold applyPolicies

theorem applyPolicies_cons (req : Req) (p : Policy) (ps : List Policy) (r : Resp) :
    applyPolicies req (p :: ps) r = firstOr (applyPolicy req p r) (applyPolicies req ps r) := by
  conv => lhs; unfold applyPolicies
  generalize applyPolicy req p r = x
  cases x <;> rfl

theorem chainIn_cons (req : Req) (p : Policy) (ps : List Policy) :
    chainIn req (p :: ps) = if applies req p then chainOf req p else chainIn req ps := by
  conv => lhs; unfold chainIn

theorem chainOf_eq (req : Req) (a : Bool) (b : Option Bytes) (c : Option (Nat × Nat)) (d : List (Nat × Option Bytes))
    (e : Option (List Nat)) (f : List (Nat × Option Bytes)) (s : List Policy) :
    chainOf req (.mk a b c d e f s) = .mk a b c d e f s :: chainIn req s := by
  conv => lhs; unfold chainOf

/-- one level: own entries, then the sub-chain, then the subnet defaults = the table of `p :: chain` -/
theorem level_table (pl : List Nat) (p : Policy) (c : List Policy) (before : Nat → Option (Option Bytes))
    (r2 r3 : Nat → Option (Option Bytes)) (k : Nat)
    (h2 : r2 k = if pl.contains k then orr (mention p k) (before k) else before k)
    (h3 : r3 k = tableAfter pl r2 c k) :
    orr (r3 k) (if (k == 1 || k == 28) && pl.contains k then (p.matchSubnet.map (subnetValue · k)).map some else none)
      = tableAfter pl before (p :: c) k := by
  rw [h3]
  unfold tableAfter
  rw [chainValue_cons, subnetDefault_cons, h2]
  by_cases hk : pl.contains k = true
  · simp only [hk, Bool.not_true, Bool.false_eq_true, if_false, if_true, Bool.and_true]
    cases chainValue c k with
    | some v => simp
    | none =>
      simp only [orr_none]
      cases mention p k with
      | some v => simp
      | none =>
        simp only [orr_none]
        cases before k with
        | some v => simp
        | none =>
          simp only [orr_none]
          by_cases hkk : (k == 1 || k == 28) = true
          · simp only [hkk, if_true]
            cases subnetDefault c k with
            | some v => simp
            | none => simp
          · simp [hkk]
  · simp only [hk, Bool.not_false, if_true, Bool.and_false, Bool.false_eq_true, if_false, orr_none_right]

/-- **Refinement.** `apply_policies` applies the first sibling that the manual says applies, and the
    response it returns carries exactly the table the chain denotes. -/
theorem apply_refines (req : Req) :
    (∀ ps r, (applyPolicies req ps r).2 = anyApplies req ps ∧
        ∀ k, ropt (applyPolicies req ps r).1 k = tableAfter (paramList req) (ropt r) (chainIn req ps) k) ∧
    (∀ p r, (applyPolicy req p r).isSome = applies req p ∧
        ∀ r', applyPolicy req p r = some r' → ∀ k, ropt r' k = tableAfter (paramList req) (ropt r) (chainOf req p) k) := by
  apply checkPolicies.mutual_induct
    (motive_1 := fun ps => ∀ r, (applyPolicies req ps r).2 = anyApplies req ps ∧
        ∀ k, ropt (applyPolicies req ps r).1 k = tableAfter (paramList req) (ropt r) (chainIn req ps) k)
    (motive_2 := fun p => ∀ r, (applyPolicy req p r).isSome = applies req p ∧
        ∀ r', applyPolicy req p r = some r' → ∀ k, ropt r' k = tableAfter (paramList req) (ropt r) (chainOf req p) k)
  · -- a policy, given its sub-policies
    intro a b c d e f s ih r
    rw [applyPolicy_unfold, implOk_eq]
    by_cases hap : applies req (.mk a b c d e f s) = true
    · simp only [hap, Bool.not_true, Bool.false_eq_true, if_false, Option.isSome_some, true_and]
      intro r' hr' k
      cases hr'
      rw [chainOf_eq, ropt_withSubnetDefaults]
      refine level_table (paramList req) (.mk a b c d e f s) (chainIn req s) (ropt r) _ _ k ?_ ((ih _).2 k)
      rw [ropt_foldl]
      rw [ropt_withAddress, mentionFrom_eq]
      rfl
    · have hap' : applies req (.mk a b c d e f s) = false := by simpa using hap
      simp [hap']
  · intro r
    rw [applyPolicies_nil]
    exact ⟨by simp [anyApplies], fun k => by rw [show chainIn req [] = [] by conv => lhs; unfold chainIn]; exact (tableAfter_nil _ _ k).symm⟩
  · intro p ps ihp ihps r
    rw [applyPolicies_cons, chainIn_cons]
    have h1 := (ihp r).1
    have h2 := (ihp r).2
    cases hp : applyPolicy req p r with
    | some r' =>
      rw [hp] at h1
      have hap : applies req p = true := by simpa using h1.symm
      simp only [hap, if_true, firstOr]
      refine ⟨by simp [anyApplies, hap], fun k => h2 r' hp k⟩
    | none =>
      rw [hp] at h1
      have hap : applies req p = false := by simpa using h1.symm
      simp only [hap, firstOr]
      refine ⟨by rw [(ihps r).1]; simp [anyApplies, hap], fun k => by simpa using (ihps r).2 k⟩

end Erbium.PolicyDoc
