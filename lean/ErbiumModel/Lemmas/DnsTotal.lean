import ErbiumModel.Lemmas.DnsMessage
/-! Totality of the name encoder: with saturating offsets no assertion of `push_prefix` /
    `push_compressed_domain` can fire on a name of well-formed labels, for any tree the encoder
    itself built, at any offset (also beyond 64 KiB). -/
namespace Erbium.DnsWire

/-- every offset recorded in the tree is non-zero -/
inductive NZ : Tree → Prop
  | mk (label : Label) (data : Nat) (children : List Tree) :
      data ≠ 0 → (∀ c ∈ children, NZ c) → NZ (.node label data children)

theorem NZ.data_ne {t : Tree} (h : NZ t) : t.data ≠ 0 := by cases h; simpa [Tree.data]
theorem NZ.children {t : Tree} (h : NZ t) : ∀ c ∈ t.children, NZ c := by cases h; simpa [Tree.children]
theorem NZ.of_parts (t : Tree) (hd : t.data ≠ 0) (hc : ∀ c ∈ t.children, NZ c) : NZ t := by
  cases t with
  | node l d cs => exact .mk l d cs (by simpa [Tree.data] using hd) (by simpa [Tree.children] using hc)

/-- the children of an optional node carry non-zero offsets (the root's own offset is unused) -/
def NZo : Option Tree → Prop
  | none => True
  | some n => ∀ c ∈ n.children, NZ c

theorem storeOff_pos (hsat : Generated.Dns.offsetSaturates = true) {off : Nat} (h : 1 ≤ off) : storeOff off ≠ 0 := by
  unfold storeOff; rw [if_pos hsat]; omega

@[simp] theorem withChildren_data (t : Tree) (cs : List Tree) : (t.withChildren cs).data = t.data := by cases t; rfl
@[simp] theorem withChildren_children (t : Tree) (cs : List Tree) : (t.withChildren cs).children = cs := by cases t; rfl

theorem pushPrefixR_total (hsat : Generated.Dns.offsetSaturates = true) (rl : List Label) (hrl : WfName rl) (hne : rl ≠ []) :
    ∀ (node : Option Tree) (off : Nat), 1 ≤ off → NZo node →
      ∃ bytes ret node', pushPrefixR rl node off = some (bytes, ret, node') ∧
        (∀ r, ret = some r → NZ r ∧ node' = node) ∧
        (ret = none → ∃ n n', node = some n ∧ node' = some n' ∧ n'.data = n.data) ∧
        NZo node' := by
  induction rl with
  | nil => exact absurd rfl hne
  | cons label rest ih =>
    intro node off hoff hnz
    have hl : WfLabel label := hrl label (by simp)
    have hrest : WfName rest := fun x hx => hrl x (by simp [hx])
    cases rest with
    | nil =>
      simp only [pushPrefixR]
      cases hc : findChild node label with
      | none =>
        simp only [pushLabel_wf hl, Option.map_some]
        refine ⟨_, _, _, rfl, ?_, (by intro h; cases h), hnz⟩
        intro r hr; cases hr
        exact ⟨.mk _ _ _ (storeOff_pos hsat hoff) (by simp), rfl⟩
      | some ic =>
        obtain ⟨i, c⟩ := ic
        obtain ⟨n, rfl, hci, hcl, hcd⟩ := findChild_spec hc
        have hp := pointerBytes_ok hcd
        simp only [hp.1, Option.map_some]
        exact ⟨_, _, _, rfl, (by intro r hr; cases hr), fun _ => ⟨n, n, rfl, rfl, rfl⟩, hnz⟩
    | cons l2 rest' =>
      unfold pushPrefixR
      simp only
      cases hc : findChild node label with
      | none =>
        simp only [Option.map_none]
        obtain ⟨bytes0, ret0, child', hrec, hsome, hnone, _⟩ := ih hrest (by simp) none off hoff trivial
        cases ret0 with
        | none => obtain ⟨n, _, hn, _⟩ := hnone rfl; cases hn
        | some r =>
          obtain ⟨hr, _⟩ := hsome r rfl
          simp only [hrec, pushLabel_wf hl, Option.map_some]
          refine ⟨_, _, _, rfl, ?_, (by intro h; cases h), hnz⟩
          intro r' hr'; cases hr'
          refine ⟨.mk _ _ _ (storeOff_pos hsat (by omega)) ?_, rfl⟩
          intro c hcm; simp at hcm; subst hcm; exact hr
      | some ic =>
        obtain ⟨i, c0⟩ := ic
        obtain ⟨n, rfl, hci, hcl, hcd⟩ := findChild_spec hc
        have hcm : c0 ∈ n.children := List.mem_of_getElem? hci
        have hc0 : NZ c0 := hnz c0 hcm
        simp only [Option.map_some]
        obtain ⟨bytes0, ret0, child', hrec, hsome, hnone, hnz'⟩ := ih hrest (by simp) (some c0) off hoff hc0.children
        simp only [hrec]
        cases ret0 with
        | none =>
          obtain ⟨n0, n0', hn0, hn0', hdat⟩ := hnone rfl
          cases hn0; subst hn0'
          refine ⟨_, _, _, rfl, (by intro r hr; cases hr), fun _ => ⟨n, _, rfl, rfl, by simp⟩, ?_⟩
          intro c hcmem
          simp only at hcmem
          have hcmem' : c ∈ n.children.set i n0' := by simpa using hcmem
          rcases mem_set _ _ _ _ hcmem' with rfl | hold
          · exact NZ.of_parts _ (by rw [hdat]; exact hc0.data_ne) hnz'
          · exact hnz c hold
        | some r =>
          obtain ⟨hr, hchild⟩ := hsome r rfl
          subst hchild
          have hp := pointerBytes_ok hcd
          have hbad : ¬ (c0.data / 256 ≥ 64 ∨ c0.data = 0) := by
            have := hc0.data_ne; omega
          simp only [Option.getD_some, hbad, if_false, hp.1, Option.map_some]
          refine ⟨_, _, _, rfl, (by intro r' hr'; cases hr'), fun _ => ⟨n, _, rfl, rfl, by simp⟩, ?_⟩
          intro c hcmem
          simp only at hcmem
          have hcmem' : c ∈ n.children.set i (c0.withChildren (c0.children ++ [r])) := by simpa using hcmem
          rcases mem_set _ _ _ _ hcmem' with rfl | hold
          · apply NZ.of_parts _ (by simpa using hc0.data_ne)
            intro c hc'
            have hc'' : c ∈ c0.children ++ [r] := by simpa using hc'
            rcases List.mem_append.mp hc'' with hold | hnew
            · exact hc0.children c hold
            · simp at hnew; subst hnew; exact hr
          · exact hnz c hold

/-- **`push_compressed_domain` is total** once offsets saturate -/
theorem pushName_total (hsat : Generated.Dns.offsetSaturates = true) (d : Name) (hd : WfName d) (t : Tree) (off : Nat)
    (hoff : 1 ≤ off) (ht : NZo (some t)) :
    ∃ bytes t', pushName d t off = some (bytes, t') ∧ NZo (some t') := by
  unfold pushName
  by_cases hemp : d.isEmpty = true
  · simp only [hemp, if_true]; exact ⟨_, _, rfl, ht⟩
  · simp only [hemp, Bool.false_eq_true, if_false]
    have hrl : WfName d.reverse := fun l hl => hd l (List.mem_reverse.mp hl)
    have hne : d.reverse ≠ [] := by
      intro h; apply hemp; simpa using h
    obtain ⟨bytes0, ret, node', hp, hsome, hnone, hnz'⟩ := pushPrefixR_total hsat d.reverse hrl hne (some t) off hoff ht
    simp only [hp]
    cases ret with
    | none =>
      obtain ⟨n, n', _, hn', _⟩ := hnone rfl
      subst hn'
      exact ⟨_, _, rfl, by simpa using hnz'⟩
    | some r =>
      obtain ⟨hr, hnode⟩ := hsome r rfl
      subst hnode
      refine ⟨_, _, rfl, ?_⟩
      intro c hc
      have hc' : c ∈ t.children ++ [r] := by simpa using hc
      rcases List.mem_append.mp hc' with hold | hnew
      · exact ht c hold
      · simp at hnew; subst hnew; exact hr

theorem nzo_root : NZo (some root) := by intro c hc; simp [root, Tree.children] at hc

end Erbium.DnsWire

namespace Erbium.DnsWire

/-- exactly what `push_rr` requires of the record data (its assertions and `unwrap`s) -/
def RDataEnc (rrtype : Nat) : RData → Prop
  | .cname d | .ns d | .ptr d => WfName d
  | .mx _ d | .rt _ d | .afsdb _ d => WfName d
  | .rp m x => WfName m ∧ WfName x
  | .soa m r _ _ _ _ _ => rrtype = T_SOA ∧ WfName m ∧ WfName r
  | .naptr _ _ f s r d => f.length < 256 ∧ s.length < 256 ∧ r.length < 256 ∧ WfName d
  | .opt _ => rrtype = T_OPT
  | .other x => rrtype ≠ T_OPT ∧ rrtype ≠ T_SOA ∧ x.length < 65536

def RREnc (rr : RR) : Prop := WfName rr.domain ∧ RDataEnc rr.rrtype rr.rdata

theorem pushStr_ok {s : Bytes} (h : s.length < 256) : pushStr s = some (s.length :: s) := by
  unfold pushStr; rw [if_neg (by omega)]

theorem pushRData_total (hsat : Generated.Dns.offsetSaturates = true) (rr : RR) (hok : RDataEnc rr.rrtype rr.rdata)
    (t : Tree) (off : Nat) (hoff : 1 ≤ off) (ht : NZo (some t)) :
    ∃ rb t', pushRData rr t off = some (rb, t') ∧ NZo (some t') := by
  unfold pushRData
  cases hrd : rr.rdata with
  | cname d => rw [hrd] at hok; exact pushName_total hsat d hok t off hoff ht
  | ns d => rw [hrd] at hok; exact pushName_total hsat d hok t off hoff ht
  | ptr d => rw [hrd] at hok; exact pushName_total hsat d hok t off hoff ht
  | mx p d =>
    rw [hrd] at hok
    obtain ⟨b, t', h, hn⟩ := pushName_total hsat d hok t (off + 2) (by omega) ht
    exact ⟨_, _, by simp only [h, Option.map_some] <;> rfl, hn⟩
  | rt p d =>
    rw [hrd] at hok
    obtain ⟨b, t', h, hn⟩ := pushName_total hsat d hok t (off + 2) (by omega) ht
    exact ⟨_, _, by simp only [h, Option.map_some] <;> rfl, hn⟩
  | afsdb p d =>
    rw [hrd] at hok
    obtain ⟨b, t', h, hn⟩ := pushName_total hsat d hok t (off + 2) (by omega) ht
    exact ⟨_, _, by simp only [h, Option.map_some] <;> rfl, hn⟩
  | rp m x =>
    rw [hrd] at hok
    obtain ⟨b1, t1, h1, hn1⟩ := pushName_total hsat m hok.1 t off hoff ht
    obtain ⟨b2, t2, h2, hn2⟩ := pushName_total hsat x hok.2 t1 (off + b1.length) (by omega) hn1
    exact ⟨_, _, by simp only [h1, h2, bind, Option.bind, pure] <;> rfl, hn2⟩
  | soa m r a b c d e =>
    rw [hrd] at hok
    obtain ⟨hty, hm, hr⟩ := hok
    obtain ⟨b1, t1, h1, hn1⟩ := pushName_total hsat m hm t off hoff ht
    obtain ⟨b2, t2, h2, hn2⟩ := pushName_total hsat r hr t1 (off + b1.length) (by omega) hn1
    exact ⟨_, _, by simp only [hty, ne_eq, not_true_eq_false, if_false, h1, h2, bind, Option.bind, pure] <;> rfl, hn2⟩
  | naptr o p f s r d =>
    rw [hrd] at hok
    obtain ⟨hf, hs, hr, hd⟩ := hok
    obtain ⟨b, t', h, hn⟩ := pushName_total hsat d hd t
      (off + (u16 o ++ u16 p ++ (f.length :: f) ++ (s.length :: s) ++ (r.length :: r)).length) (by omega) ht
    exact ⟨_, _, by simp only [pushStr_ok hf, pushStr_ok hs, pushStr_ok hr, h, bind, Option.bind, pure] <;> rfl, hn⟩
  | opt o =>
    rw [hrd] at hok
    have hty : rr.rrtype = T_OPT := hok
    exact ⟨_, _, by simp only [hty, ne_eq, not_true_eq_false, if_false] <;> rfl, ht⟩
  | other x =>
    rw [hrd] at hok
    obtain ⟨h1, h2, h3⟩ := hok
    exact ⟨_, _, by simp only [h1, h2, or_self, if_false, show ¬ x.length ≥ 65536 by omega] <;> rfl, ht⟩

theorem pushRR_total (hsat : Generated.Dns.offsetSaturates = true) (rr : RR) (hok : RREnc rr)
    (t : Tree) (off : Nat) (hoff : 1 ≤ off) (ht : NZo (some t)) :
    ∃ b t', pushRR rr t off = some (b, t') ∧ NZo (some t') := by
  obtain ⟨nb, t1, h1, hn1⟩ := pushName_total hsat rr.domain hok.1 t off hoff ht
  obtain ⟨rb, t2, h2, hn2⟩ := pushRData_total hsat rr hok.2 t1
    (off + (nb ++ u16 rr.rrtype ++ u16 rr.cls ++ u32 rr.ttl).length + 2) (by omega) hn1
  exact ⟨_, _, by simp only [pushRR, h1, h2, bind, Option.bind, pure] <;> rfl, hn2⟩

theorem pushSection_total (hsat : Generated.Dns.offsetSaturates = true) (size : Nat) (rrs : List RR)
    (hok : ∀ rr ∈ rrs, RREnc rr) :
    ∀ (buf : Bytes) (t : Tree) (n : Nat), 1 ≤ buf.length → NZo (some t) →
      ∃ buf' t' n' tr, pushSection size rrs buf t n = some (buf', t', n', tr) ∧ 1 ≤ buf'.length ∧ NZo (some t') := by
  induction rrs with
  | nil => intro buf t n hb ht; exact ⟨_, _, _, _, rfl, hb, ht⟩
  | cons rr rest ih =>
    intro buf t n hb ht
    obtain ⟨b, t', h, hn⟩ := pushRR_total hsat rr (hok rr (by simp)) t buf.length hb ht
    simp only [pushSection, h]
    split
    · exact ⟨_, _, _, _, rfl, hb, hn⟩
    · exact ih (fun x hx => hok x (by simp [hx])) _ _ _ (by simp; omega) hn

/-- what `serialise_with_size` requires of a message -/
structure PktEnc (p : Pkt) : Prop where
  rcode : p.rcode < 4096
  qname : WfName p.qdomain
  an : ∀ rr ∈ p.answer, RREnc rr
  ns : ∀ rr ∈ p.nameserver, RREnc rr
  ad : ∀ rr ∈ p.additional, RREnc rr

theorem additionalOf_enc (p : Pkt) (h : PktEnc p) : ∀ rr ∈ additionalOf p, RREnc rr := by
  unfold additionalOf
  cases p.edns with
  | none => exact h.ad
  | some e =>
    intro rr hrr
    rcases List.mem_append.mp hrr with h1 | h1
    · exact h.ad rr h1
    · simp at h1; subst h1
      refine And.intro ?_ ?_
      · intro l hl; simp [optRR] at hl
      · show (optRR p e).rrtype = T_OPT
        rfl

/-- **the encoder is total**: no assertion, `unwrap`, `unreachable!` or arithmetic check in
    `serialise_with_size` and everything below it can fire, for messages and limits of any size -/
theorem serialise_total (hsat : Generated.Dns.offsetSaturates = true) (p : Pkt) (hp : PktEnc p) (size : Nat) (hs : 512 ≤ size) :
    ∃ wire, serialiseWithSize p size = some wire := by
  unfold serialiseWithSize
  simp only [show ¬ size < 512 by omega, show ¬ p.rcode ≥ 4096 by have := hp.rcode; omega, if_false]
  have hh := hdr_len p
  obtain ⟨qb, t0, h0, hn0⟩ := pushName_total hsat p.qdomain hp.qname root (hdrOf p).length (by omega) nzo_root
  simp only [h0]
  obtain ⟨buf1, t1, an, tr1, h1, hb1, hn1⟩ := pushSection_total hsat size p.answer hp.an
    (hdrOf p ++ qb ++ u16 p.qtype ++ u16 p.qclass) t0 0 (by simp; omega) hn0
  simp only [h1]
  have h2 : ∃ buf2 t2 nsn tr2, (if tr1 then some (buf1, t1, 0, true) else pushSection size p.nameserver buf1 t1 0)
      = some (buf2, t2, nsn, tr2) ∧ 1 ≤ buf2.length ∧ NZo (some t2) := by
    cases tr1 with
    | true => exact ⟨_, _, _, _, rfl, hb1, hn1⟩
    | false => simpa using pushSection_total hsat size p.nameserver hp.ns buf1 t1 0 hb1 hn1
  obtain ⟨buf2, t2, nsn, tr2, h2, hb2, hn2⟩ := h2
  simp only [h2]
  have h3 : ∃ buf3 t3 adn tr3, (if tr2 then some (buf2, t2, 0, true) else pushSection size (additionalOf p) buf2 t2 0)
      = some (buf3, t3, adn, tr3) := by
    cases tr2 with
    | true => exact ⟨_, _, _, _, rfl⟩
    | false =>
      obtain ⟨a, b, c, d, h, _⟩ := pushSection_total hsat size (additionalOf p) (additionalOf_enc p hp) buf2 t2 0 hb2 hn2
      exact ⟨a, b, c, d, by simpa using h⟩
  obtain ⟨buf3, t3, adn, tr3, h3⟩ := h3
  simp only [h3]
  split <;> exact ⟨_, rfl⟩

end Erbium.DnsWire
