import ErbiumModel.Lemmas.DnsRecord
/-! Message-level round trip: a message that `serialise_with_size` writes completely is decoded by
    `get_dns` to the identical message — header bits, counts, question, the three sections with all
    their compressed names, and the EDNS pseudo-record folded back into the message's EDNS fields. -/
namespace Erbium.DnsWire

/-- the first flag octet decodes to the bits and opcode it was built from -/
theorem flag1_decode (rd tc aa qr : Bool) (op : Fin 16) :
    let f := (b2n rd) ||| (if tc then 2 else 0) ||| (if aa then 4 else 0) ||| (if qr then 128 else 0) ||| ((op.val * 8) % 256)
    (decide (f % 2 = 1) = rd) ∧ (decide (f / 2 % 2 = 1) = tc) ∧ (decide (f / 4 % 2 = 1) = aa) ∧ (decide (f / 128 % 2 = 1) = qr) ∧
    f / 8 % 16 = op.val ∧ f < 256 := by
  revert rd tc aa qr op
  decide

theorem flag2_decode (cd ad ra : Bool) (rc : Fin 16) :
    let f := (if cd then 32 else 0) ||| (if ad then 64 else 0) ||| (if ra then 128 else 0) ||| rc.val
    (decide (f / 32 % 2 = 1) = cd) ∧ (decide (f / 64 % 2 = 1) = ad) ∧ (decide (f / 128 % 2 = 1) = ra) ∧ f % 16 = rc.val ∧ f < 256 := by
  revert cd ad ra rc
  decide

end Erbium.DnsWire

namespace Erbium.DnsWire

/-- a message as the decoder produces them (`parse` only returns messages of this shape) -/
structure WfPkt (p : Pkt) : Prop where
  qid : p.qid < 65536
  opcode : p.opcode < 16
  rcode : p.rcode < 4096
  qtype : p.qtype < 65536
  qclass : p.qclass < 65536
  qname : NameOK p.qdomain
  an : ∀ rr ∈ p.answer, RROK rr
  ns : ∀ rr ∈ p.nameserver, RROK rr
  ad : ∀ rr ∈ p.additional, RROK rr ∧ rr.rrtype ≠ T_OPT
  anN : p.answer.length < 65536
  nsN : p.nameserver.length < 65536
  adN : (additionalOf p).length < 65536
  bufsize : 512 ≤ p.bufsize ∧ p.bufsize < 65536
  /-- EDNS fields are consistent: present together with version 0, or absent with the defaults -/
  edns : (∃ e, p.edns = some e ∧ OptsOK e ∧ p.ednsVer = some 0) ∨
         (p.edns = none ∧ p.ednsVer = none ∧ p.ednsDo = false ∧ p.bufsize = 512 ∧ p.rcode < 16)

end Erbium.DnsWire

namespace Erbium.DnsWire

/-- the message was written completely (no section stopped early) -/
def Complete (p : Pkt) (size : Nat) (wire : Bytes) : Prop :=
  ∃ qb t0 buf1 t1 an buf2 t2 nsn t3 adn,
    pushName p.qdomain root (hdrOf p).length = some (qb, t0) ∧
    pushSection size p.answer (hdrOf p ++ qb ++ u16 p.qtype ++ u16 p.qclass) t0 0 = some (buf1, t1, an, false) ∧
    pushSection size p.nameserver buf1 t1 0 = some (buf2, t2, nsn, false) ∧
    pushSection size (additionalOf p) buf2 t2 0 = some (wire, t3, adn, false)

theorem complete_serialise (p : Pkt) (size : Nat) (wire : Bytes) (hs : 512 ≤ size) (hr : p.rcode < 4096)
    (h : Complete p size wire) : serialiseWithSize p size = some wire := by
  obtain ⟨qb, t0, buf1, t1, an, buf2, t2, nsn, t3, adn, h0, h1, h2, h3⟩ := h
  unfold serialiseWithSize
  simp only [show ¬ size < 512 by omega, show ¬ p.rcode ≥ 4096 by omega, if_false, h0, h1, h2, h3, Bool.false_eq_true]

end Erbium.DnsWire

namespace Erbium.DnsWire

theorem opt_ttl_ver (rc : Nat) (d : Bool) (h : rc < 4096) :
    (rc / 16 * 16777216 + (if d then 32768 else 0)) / 65536 % 256 = 0 := by
  have h1 : rc / 16 < 256 := by omega
  generalize rc / 16 = q at h1
  cases d <;> simp <;> omega

theorem opt_ttl_ercode (rc : Nat) (d : Bool) (h : rc < 4096) :
    (rc % 16 + (rc / 16 * 16777216 + (if d then 32768 else 0)) / 16777216 * 16) % 65536 = rc := by
  have h1 : rc / 16 < 256 := by omega
  have h2 : rc = rc / 16 * 16 + rc % 16 := by omega
  have h3 : rc % 16 < 16 := Nat.mod_lt _ (by decide)
  generalize rc / 16 = q at h1 h2
  generalize rc % 16 = r at h2 h3
  subst h2
  cases d <;> simp <;> omega

theorem opt_ttl_do (rc : Nat) (d : Bool) (h : rc < 4096) :
    decide ((rc / 16 * 16777216 + (if d then 32768 else 0)) / 32768 % 2 = 1) = d := by
  have h1 : rc / 16 < 256 := by omega
  generalize rc / 16 = q at h1
  cases d <;> simp <;> omega


theorem optRR_ttl (p : Pkt) (e : List (Nat × Bytes)) (hv : p.ednsVer = some 0) :
    (optRR p e).ttl = p.rcode / 16 * 16777216 + (if p.ednsDo then 32768 else 0) := by
  have h0 : (optRR p e).ttl = p.rcode / 16 * 16777216 + p.ednsVer.getD 0 * 65536 + (if p.ednsDo then 32768 else 0) := rfl
  rw [h0, hv, Option.getD_some, Nat.zero_mul, Nat.add_zero]

theorem isOpt0_of_ne (rr : RR) (h : rr.rrtype ≠ T_OPT) : isOpt0 rr = false := by
  unfold isOpt0; rw [beq_false_of_ne h, Bool.false_and]
theorem isOpt0_of (rr : RR) (h1 : rr.rrtype = T_OPT) (h2 : rr.ttl / 65536 % 256 = 0) : isOpt0 rr = true := by
  unfold isOpt0; rw [h1, h2]; rfl
theorem find_opt (l : List RR) (o : RR) (hno : ∀ rr ∈ l, rr.rrtype ≠ T_OPT) (h1 : o.rrtype = T_OPT) (h2 : o.ttl / 65536 % 256 = 0) :
    List.find? isOpt0 (l ++ [o]) = some o := by
  have hnone : List.find? isOpt0 l = none := by
    rw [List.find?_eq_none]; intro rr hrr; rw [isOpt0_of_ne rr (hno rr hrr)]; exact Bool.false_ne_true
  rw [List.find?_append, hnone, Option.none_or, List.find?_cons, isOpt0_of o h1 h2]
theorem find_noopt (l : List RR) (hno : ∀ rr ∈ l, rr.rrtype ≠ T_OPT) : List.find? isOpt0 l = none := by
  rw [List.find?_eq_none]; intro rr hrr; rw [isOpt0_of_ne rr (hno rr hrr)]; exact Bool.false_ne_true
theorem optRR_rrtype (p : Pkt) (e : List (Nat × Bytes)) : (optRR p e).rrtype = T_OPT := rfl

theorem hdr_len (p : Pkt) : (hdrOf p).length = 12 := by simp [hdrOf, u16]

/-- **message round trip**: a message written completely decodes to the identical message -/
theorem message_roundtrip (p : Pkt) (hw : WfPkt p) (size : Nat) (wire : Bytes) (hc : Complete p size wire)
    (hsz : wire.length < 65536) : parse wire = .ok p := by
  obtain ⟨qb, t0, buf1, t1, an, buf2, t2, nsn, t3, adn, h0, h1, h2, h3⟩ := hc
  -- the three extensions
  obtain ⟨e1, he1⟩ := pushSection_ext size _ _ _ _ _ _ _ h1
  obtain ⟨e2, he2⟩ := pushSection_ext size _ _ _ _ _ _ _ h2
  obtain ⟨e3, he3⟩ := pushSection_ext size _ _ _ _ _ _ _ h3
  have hl12 := hdr_len p
  rw [hl12] at h0
  -- lengths
  have hb1 : buf1.length ≤ wire.length := by rw [he3, he2]; simp only [List.length_append]; omega
  have hb2 : buf2.length ≤ wire.length := by rw [he3]; simp only [List.length_append]; omega
  -- additional records are all well-formed
  have hadOK : ∀ rr ∈ additionalOf p, RROK rr := by
    intro rr hrr
    unfold additionalOf at hrr
    rcases hw.edns with ⟨e, he, hoe, hv⟩ | ⟨he, _⟩
    · rw [he] at hrr
      rcases List.mem_append.mp hrr with h | h
      · exact (hw.ad rr h).1
      · simp only [List.mem_singleton] at h
        subst h
        have hnm : NameOK ([] : Name) := ⟨(fun l hl => by cases hl), (by simp), (by decide)⟩
        refine ⟨hnm, (by simp [optRR, T_OPT]), (by simp only [optRR]; exact hw.bufsize.2), ?_, ?_⟩
        · simp only [optRR, hv, Option.getD_some]
          have := hw.rcode
          split <;> omega
        · simp only [optRR, RDataOK]; exact ⟨trivial, hoe⟩
    · rw [he] at hrr; exact (hw.ad rr hrr).1
  -- the question name
  have hq0 : At wire 12 qb := by
    rw [he3, he2, he1]
    have := at_mid (hdrOf p) qb (u16 p.qtype ++ u16 p.qclass ++ e1 ++ e2 ++ e3)
    rw [hl12] at this
    simpa [List.append_assoc] using this
  have hqlen : 12 + qb.length < 65536 := by have := hq0.le; omega
  have hqn := name_at hw.qname h0 hq0 (rootOK_root _) hqlen
  -- sections
  have hroot0 : RootOK (hdrOf p ++ qb ++ u16 p.qtype ++ u16 p.qclass) t0 := by
    have := hqn.2
    have e : wire.take (12 + qb.length) = hdrOf p ++ qb := by
      rw [he3, he2, he1, show 12 + qb.length = (hdrOf p ++ qb).length by simp [hl12]]
      simp only [List.append_assoc]
      rw [← List.append_assoc (hdrOf p) qb, List.take_left' rfl]
    rw [e] at this
    have := (this.append (u16 p.qtype)).append (u16 p.qclass)
    simpa [List.append_assoc] using this
  have s1 := section_at size p.tc p.answer hw.an _ _ _ _ _ _ h1 hroot0 (by omega)
  have s2 := section_at size p.tc p.nameserver hw.ns _ _ _ _ _ _ h2 s1.2.2.2 (by omega)
  have s3 := section_at size p.tc (additionalOf p) hadOK _ _ _ _ _ _ h3 s2.2.2.2 hsz
  -- the header fields, where they sit
  have hwire : wire = hdrOf p ++ (qb ++ (u16 p.qtype ++ (u16 p.qclass ++ (e1 ++ (e2 ++ e3))))) := by
    rw [he3, he2, he1]; simp [List.append_assoc]
  have hH : At wire 0 (u16 p.qid ++ ([flag1Of p] ++ ([flag2Of p] ++ (u16 1 ++ (u16 (p.answer.length % 65536) ++
      (u16 (p.nameserver.length % 65536) ++ u16 ((additionalOf p).length % 65536))))))) := by
    refine ⟨[], qb ++ (u16 p.qtype ++ (u16 p.qclass ++ (e1 ++ (e2 ++ e3)))), ?_, rfl⟩
    rw [hwire]; simp [hdrOf, List.append_assoc]
  have a1 := hH.left
  have r1 := hH.right
  have a2 := r1.left
  have r2 := r1.right
  have a3 := r2.left
  have r3 := r2.right
  have a4 := r3.left
  have r4 := r3.right
  have a5 := r4.left
  have r5 := r4.right
  have a6 := r5.left
  have a7 := r5.right
  simp only [u16_len, List.length_singleton] at r1 r2 r3 r4 r5 a2 a3 a4 a5 a6 a7
  have g1 := getU16_at hw.qid a1
  have g2 := getU8_at a2
  have g3 := getU8_at a3
  have g4 := getU16_at (by decide : 1 < 65536) a4
  have han : p.answer.length % 65536 = p.answer.length := Nat.mod_eq_of_lt hw.anN
  have hns : p.nameserver.length % 65536 = p.nameserver.length := Nat.mod_eq_of_lt hw.nsN
  have had : (additionalOf p).length % 65536 = (additionalOf p).length := Nat.mod_eq_of_lt hw.adN
  rw [han] at a5; rw [hns] at a6; rw [had] at a7
  have g5 := getU16_at hw.anN a5
  have g6 := getU16_at hw.nsN a6
  have g7 := getU16_at hw.adN a7
  -- question type and class
  have hQ : At wire (12 + qb.length) (u16 p.qtype ++ (u16 p.qclass ++ (e1 ++ (e2 ++ e3)))) := by
    refine ⟨hdrOf p ++ qb, [], ?_, by simp [hl12]⟩
    rw [hwire]; simp [List.append_assoc]
  have g8 := getU16_at hw.qtype hQ.left
  have g9 := getU16_at hw.qclass (by have := hQ.right.left; rwa [u16_len] at this)
  -- the flags
  have f1 := flag1_decode p.rd p.tc p.aa p.qr ⟨p.opcode, hw.opcode⟩
  have f2 := flag2_decode p.cd p.ad p.ra ⟨p.rcode % 16, Nat.mod_lt _ (by decide)⟩
  simp only at f1 f2
  obtain ⟨f1rd, f1tc, f1aa, f1qr, f1op, _⟩ := f1
  obtain ⟨f2cd, f2ad, f2ra, f2rc, _⟩ := f2
  have hf1 : flag1Of p = (b2n p.rd) ||| (if p.tc then 2 else 0) ||| (if p.aa then 4 else 0) ||| (if p.qr then 128 else 0) ||| ((p.opcode * 8) % 256) := rfl
  have hf2 : flag2Of p = (if p.cd then 32 else 0) ||| (if p.ad then 64 else 0) ||| (if p.ra then 128 else 0) ||| (p.rcode % 16) := rfl
  rw [← hf1] at f1rd f1tc f1aa f1qr f1op
  rw [← hf2] at f2cd f2ad f2ra f2rc
  have f1op : flag1Of p / 8 % 16 = p.opcode := f1op
  have f2rc : flag2Of p % 16 = p.rcode % 16 := f2rc
  -- sections, read from the complete message
  have hbuf0 : (hdrOf p ++ qb ++ u16 p.qtype ++ u16 p.qclass).length = 12 + qb.length + 2 + 2 := by
    simp [hl12, u16_len]; omega
  have q1 := s1.2.2.1 (e2 ++ e3)
  rw [hbuf0, show buf1 ++ (e2 ++ e3) = wire by rw [he3, he2]; simp [List.append_assoc]] at q1
  have q2 := s2.2.2.1 e3
  rw [show buf2 ++ e3 = wire by rw [he3]] at q2
  have q3 := s3.2.2.1 []
  rw [List.append_nil] at q3
  -- run the decoder
  unfold parse
  simp only [bind, Except.bind, g1, g2, g3, g4, g5, g6, g7]
  have h12 : (0 + 2 + 1 + 1 + 2 + 2 + 2 + 2 : Nat) = 12 := rfl
  simp only [h12, hqn.1, g8, g9, ne_eq, not_true_eq_false, if_false, f1tc, q1, q2, q3]
  have hfindNone : List.find? isOpt0 p.additional = none := find_noopt _ (fun rr hrr => (hw.ad rr hrr).2)
  have hfilterId : List.filter (fun rr => rr.rrtype != T_OPT) p.additional = p.additional := by
    rw [List.filter_eq_self]; intro rr hrr
    exact bne_iff_ne.mpr (hw.ad rr hrr).2
  rcases hw.edns with ⟨e, he, hoe, hv⟩ | ⟨he, hv, hdo, hbs, hrc⟩
  · -- EDNS present
    have hadd : additionalOf p = p.additional ++ [optRR p e] := by unfold additionalOf; rw [he]
    have httl := optRR_ttl p e hv
    have hver : (optRR p e).ttl / 65536 % 256 = 0 := by
      rw [httl]; exact opt_ttl_ver _ _ hw.rcode
    have hfind : List.find? isOpt0 (additionalOf p) = some (optRR p e) := by
      rw [hadd]; exact find_opt _ _ (fun rr hrr => (hw.ad rr hrr).2) (optRR_rrtype p e) hver
    have hfilter : List.filter (fun rr => rr.rrtype != T_OPT) (additionalOf p) = p.additional := by
      rw [hadd, List.filter_append, hfilterId]
      have h1 : ((optRR p e).rrtype != T_OPT) = false := by
        show (T_OPT != T_OPT) = false
        exact bne_self_eq_false T_OPT
      rw [List.filter_cons, h1]
      simp only [Bool.false_eq_true, if_false, List.filter_nil, List.append_nil]
    have hrcode : (flag2Of p % 16 + (optRR p e).ttl / 16777216 * 16) % 65536 = p.rcode := by
      rw [f2rc, httl]; exact opt_ttl_ercode _ _ hw.rcode
    have hdo : decide ((optRR p e).ttl / 32768 % 2 = 1) = p.ednsDo := by
      rw [httl]; exact opt_ttl_do _ _ hw.rcode
    have hcls : max (optRR p e).cls 512 = p.bufsize := by
      show max p.bufsize 512 = p.bufsize
      have := hw.bufsize.1; omega
    have hrd : (optRR p e).rdata = .opt e := rfl
    -- from here on the pseudo-record is opaque: only the facts above are used
    clear httl hadd
    generalize optRR p e = O at hfind hrcode hdo hcls hrd hver
    rw [hfind, hfilter]
    simp only [Option.map_some, hver]
    rw [hrcode, hdo, hcls, hrd, f1rd, f1aa, f1qr, f1op, f2cd, f2ad, f2ra]
    simp only [pure, Except.pure]
    congr 1
    clear hfind hrcode hdo hcls hrd hver O s1 s2 s3 q1 q2 q3 g1 g2 g3 g4 g5 g6 g7 g8 g9 hqn hadOK hroot0 hH a1 a2 a3 a4 a5 a6 a7 r1 r2 r3 r4 r5 hQ
      h0 h1 h2 h3 hwire hq0 hfilter f1rd f1tc f1aa f1qr f1op f2cd f2ad f2ra f2rc hf1 hf2 hfindNone hfilterId hw han hns had
    cases p
    simp only at he hv ⊢
    subst he
    subst hv
    rfl
  · -- no EDNS
    have hadd : additionalOf p = p.additional := by unfold additionalOf; rw [he]
    rw [hadd, hfindNone, hfilterId]
    simp only [Option.map_none]
    have hrcode : (flag2Of p % 16 + 0 * 16) % 65536 = p.rcode := by rw [f2rc]; omega
    rw [hrcode, f1rd, f1aa, f1qr, f1op, f2cd, f2ad, f2ra]
    simp only [pure, Except.pure]
    congr 1
    cases p
    simp_all

end Erbium.DnsWire
