import ErbiumModel.Model.Pool
/-! Lemmas about the lease-store model. -/
namespace Erbium.Pool
open Erbium.Generated.Pool (Cmp)

theorem rowOf_put (s : Store) (r : Row) (x : Nat) :
    rowOf (put s r) x = if x = r.addr then some r else rowOf s x := by
  unfold rowOf put
  by_cases h : x = r.addr
  · subst h; simp
  · have h' : (r.addr == x) = false := by simp; omega
    simp only [List.find?_cons, h', if_neg h]
    induction s with
    | nil => simp
    | cons q qs ih =>
      simp only [List.filter_cons]
      by_cases hq : q.addr = r.addr
      · have : (q.addr != r.addr) = false := by simp [hq]
        simp only [this]
        have : (q.addr == x) = false := by simp [hq]; omega
        simp [List.find?_cons, this, ih]
      · have : (q.addr != r.addr) = true := by simp [hq]
        simp only [this, if_true, List.find?_cons]
        split <;> simp_all

/-- one row per address -/
def Uniq (s : Store) : Prop := ∀ r ∈ s, rowOf s r.addr = some r

theorem uniq_nil : Uniq [] := by intro r hr; cases hr

theorem uniq_put {s r} (h : Uniq s) : Uniq (put s r) := by
  intro q hq
  rw [rowOf_put]
  unfold put at hq
  rcases List.mem_cons.mp hq with rfl | hq
  · simp
  · have ⟨hs, hne⟩ := List.mem_filter.mp hq
    have : q.addr ≠ r.addr := by simpa using hne
    simp [this, h q hs]

theorem rowOf_mem {s : Store} {x : Nat} {r : Row} (h : rowOf s x = some r) : r ∈ s ∧ r.addr = x := by
  unfold rowOf at h
  exact ⟨List.mem_of_find?_eq_some h, by simpa using List.find?_some h⟩

theorem mem_bests {req rs r} (h : r ∈ bests req rs) : r ∈ rs := by
  unfold bests at h; exact (List.mem_filter.mp h).1

theorem le2_total (a b : Nat × Nat) : le2 a b = true ∨ le2 b a = true := by
  unfold le2
  by_cases h1 : a.1 < b.1
  · simp [h1]
  · by_cases h2 : b.1 < a.1
    · simp [h2]
    · have : a.1 = b.1 := by omega
      by_cases h3 : a.2 ≤ b.2
      · left; simp [this, h3]
      · right; simp [this]; omega

theorem le2_trans {a b c : Nat × Nat} (h1 : le2 a b = true) (h2 : le2 b c = true) : le2 a c = true := by
  unfold le2 at *
  simp only [Bool.or_eq_true, decide_eq_true_eq, Bool.and_eq_true, beq_iff_eq] at *
  omega

/-- a non-empty candidate list has a best element -/
theorem bests_ne_nil (req : Option Nat) : ∀ (rs : List Row), rs ≠ [] → bests req rs ≠ [] := by
  intro rs hne
  -- find a maximum by induction
  have hmax : ∃ m ∈ rs, ∀ q ∈ rs, le2 (key req q) (key req m) = true := by
    induction rs with
    | nil => exact absurd rfl hne
    | cons a as ih =>
      by_cases has : as = []
      · subst has
        refine ⟨a, by simp, ?_⟩
        intro q hq; simp at hq; subst hq
        rcases le2_total (key req q) (key req q) with h | h <;> exact h
      · obtain ⟨m, hm, hall⟩ := ih has
        rcases le2_total (key req a) (key req m) with h | h
        · refine ⟨m, by simp [hm], ?_⟩
          intro q hq
          rcases List.mem_cons.mp hq with rfl | hq
          · exact h
          · exact hall q hq
        · refine ⟨a, by simp, ?_⟩
          intro q hq
          rcases List.mem_cons.mp hq with rfl | hq
          · rcases le2_total (key req q) (key req q) with h | h <;> exact h
          · exact le2_trans (hall q hq) h
  obtain ⟨m, hm, hall⟩ := hmax
  intro hb
  have : m ∈ bests req rs := by
    unfold bests
    exact List.mem_filter.mpr ⟨hm, by simpa [List.all_eq_true] using hall⟩
  rw [hb] at this; cases this

/-- if the requested address is among the candidates, only it can come first -/
theorem bests_req {req : Nat} {rs : List Row} {r : Row} (hr : r ∈ bests (some req) rs)
    (hq : ∃ q ∈ rs, q.addr = req) : r.addr = req := by
  obtain ⟨q, hq, hqa⟩ := hq
  unfold bests at hr
  have ⟨_, hall⟩ := List.mem_filter.mp hr
  have := (List.all_eq_true.mp hall) q hq
  unfold le2 key at this
  by_cases hra : r.addr = req
  · exact hra
  · simp [hqa, hra] at this

theorem step1_sound {s : Store} {now c req pool x ty d} (huniq : Uniq s)
    (h : Outcome.ok x ty d ∈ step1 s now c req pool) :
    x ∈ pool ∧ ∃ r, rowOf s x = some r ∧ r.client = c ∧
      Generated.Pool.ownCurrentCmp.eval r.expiry now = true ∧ ty = .reusing ∧ d = dur1 now r := by
  unfold step1 at h
  obtain ⟨r, hr, heq⟩ := List.mem_map.mp h
  have := mem_bests hr
  have ⟨h1, h2⟩ := List.mem_filter.mp this
  unfold ownCurrent at h1
  have ⟨hs, hp⟩ := List.mem_filter.mp h1
  simp at hp h2
  cases heq
  exact ⟨h2, r, huniq r hs, hp.1, hp.2, rfl, rfl⟩

theorem step2hit_sound {s : Store} {c req pool x ty d} (huniq : Uniq s)
    (h : Outcome.ok x ty d ∈ step2hit s c req pool) :
    x ∈ pool ∧ ∃ r, rowOf s x = some r ∧ r.client = c ∧ ty = .revived ∧ d = dur2 r := by
  unfold step2hit at h
  obtain ⟨r, hr, heq⟩ := List.mem_map.mp h
  have ⟨hb, hp⟩ := List.mem_filter.mp hr
  have := mem_bests hb
  unfold ownAny at this
  have ⟨hs, hc⟩ := List.mem_filter.mp this
  simp at hc hp
  cases heq
  exact ⟨hp, r, huniq r hs, hc, rfl, rfl⟩

theorem step3_sound {s : Store} {now req pool x ty d}
    (h : Outcome.ok x ty d ∈ step3 s now req pool) :
    x ∈ pool ∧ inUse Generated.Pool.requestedInUseCmp s now x = false ∧ ty = .requested ∧ d = 0 ∧ req = some x := by
  unfold step3 at h
  cases req with
  | none => simp at h
  | some z =>
    simp only at h
    split at h
    · rename_i hc
      simp at h
      obtain ⟨rfl, rfl, rfl⟩ := h
      simp at hc
      exact ⟨hc.1, hc.2, rfl, rfl, rfl⟩
    · simp at h

theorem step4_sound {s : Store} {now pool x ty d}
    (h : Outcome.ok x ty d ∈ step4 s now pool) :
    x ∈ pool ∧ inUse Generated.Pool.newInUseCmp s now x = false ∧ ty = .newAddress ∧ d = 0 := by
  unfold step4 at h
  simp only at h
  split at h
  · simp at h
  · obtain ⟨y, hy, heq⟩ := List.mem_map.mp h
    cases heq
    have ⟨hp, hf⟩ := List.mem_filter.mp hy
    simp at hf
    exact ⟨hp, hf, rfl, rfl⟩

/-- membership in `allowed`, by step -/
theorem allowed_cases {s : Store} {now c req pool} {o : Outcome} (h : o ∈ allowed s now c req pool) :
    o ∈ step1 s now c req pool ∨
    ((step1 s now c req pool).isEmpty = true ∧
      (o ∈ step2hit s c req pool ∨
       (step2fall s c req pool = true ∧
        (o ∈ step3 s now req pool ∨ ((step3 s now req pool).isEmpty = true ∧ o ∈ step4 s now pool))))) := by
  unfold allowed at h
  by_cases h1 : (step1 s now c req pool).isEmpty = true
  · simp only [h1, Bool.not_true, Bool.false_eq_true, if_false] at h
    right; refine ⟨h1, ?_⟩
    by_cases h2 : step2fall s c req pool = true
    · simp only [h2, Bool.not_true, Bool.false_eq_true, if_false] at h
      by_cases h3 : (step3 s now req pool).isEmpty = true
      · simp only [h3, Bool.not_true, Bool.false_eq_true, if_false] at h
        rcases List.mem_append.mp h with h | h
        · exact Or.inl h
        · exact Or.inr ⟨h2, Or.inr ⟨h3, h⟩⟩
      · simp only [h3, Bool.not_false, if_true] at h
        rcases List.mem_append.mp h with h | h
        · exact Or.inl h
        · exact Or.inr ⟨h2, Or.inl h⟩
    · simp only [h2, Bool.not_false, if_true] at h
      exact Or.inl h
  · simp only [h1, Bool.not_false, if_true] at h
    exact Or.inl h

/-- What every `ok` outcome of `select_address` guarantees. -/
theorem allowed_sound (s : Store) (now : Nat) (c : Client) (req pool x ty d)
    (huniq : Uniq s) (h : Outcome.ok x ty d ∈ allowed s now c req pool) :
    x ∈ pool ∧ ((∃ r, rowOf s x = some r ∧ r.client = c) ∨
      (inUse Generated.Pool.requestedInUseCmp s now x = false ∧ ty = .requested) ∨
      (inUse Generated.Pool.newInUseCmp s now x = false ∧ ty = .newAddress)) := by
  rcases allowed_cases h with h | ⟨_, h | ⟨_, h | ⟨_, h⟩⟩⟩
  · obtain ⟨hp, r, hr, hc, _⟩ := step1_sound huniq h
    exact ⟨hp, Or.inl ⟨r, hr, hc⟩⟩
  · obtain ⟨hp, r, hr, hc, _⟩ := step2hit_sound huniq h
    exact ⟨hp, Or.inl ⟨r, hr, hc⟩⟩
  · obtain ⟨hp, hu, ht, _⟩ := step3_sound h
    exact ⟨hp, Or.inr (Or.inl ⟨hu, ht⟩)⟩
  · obtain ⟨hp, hu, ht, _⟩ := step4_sound h
    exact ⟨hp, Or.inr (Or.inr ⟨hu, ht⟩)⟩

end Erbium.Pool
