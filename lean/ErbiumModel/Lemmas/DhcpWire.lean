import ErbiumModel.Model.DhcpWire
/-! Lemmas for the DHCP wire round trip (C12a). -/
namespace Erbium.DhcpWire

theorem optAppend_optAppend (m : Opts) (c : Nat) (a b : List Nat) :
    optAppend (optAppend m c a) c b = optAppend m c (a ++ b) := by
  induction m with
  | nil => simp [optAppend]
  | cons e es ih =>
    obtain ⟨k, v⟩ := e
    by_cases h : k = c
    · simp [optAppend, h]
    · simp [optAppend, h, ih]

theorem optAppend_fresh (m : Opts) (c : Nat) (v : List Nat) (h : c ∉ m.map (·.1)) :
    optAppend m c v = m ++ [(c, v)] := by
  induction m with
  | nil => simp [optAppend]
  | cons e es ih =>
    obtain ⟨k, w⟩ := e
    simp only [List.map_cons, List.mem_cons, not_or] at h
    have hk : ¬ k = c := fun hh => h.1 hh.symm
    simp [optAppend, hk, ih h.2]

theorem parseOptions_cons_opt (c l : Nat) (t : List Nat) (m : Opts) (h0 : c ≠ 0) (h255 : c ≠ 255)
    (hl : l ≤ t.length) :
    parseOptions (c :: l :: t) m = parseOptions (t.drop l) (optAppend m c (t.take l)) := by
  rw [parseOptions.eq_def]; simp [h0, h255, hl]

theorem parseOptions_end (t : List Nat) (m : Opts) : parseOptions (255 :: t) m = .ok m := by
  rw [parseOptions.eq_def]; simp

theorem parseOptions_serChunks (c : Nat) (h0 : c ≠ 0) (h255 : c ≠ 255) :
    ∀ (n : Nat) (v : List Nat), v.length = n → v ≠ [] → ∀ (rest : List Nat) (m : Opts),
      parseOptions (serChunks c v ++ rest) m = parseOptions rest (optAppend m c v) := by
  intro n
  induction n using Nat.strongRecOn with
  | _ n ih =>
    intro v hn hne rest m
    rw [serChunks]
    by_cases hlen : v.length ≤ 255
    · have hemp : v.isEmpty = false := by cases v <;> simp_all
      simp only [hlen, if_true, hemp, Bool.false_eq_true, if_false, List.cons_append]
      rw [parseOptions_cons_opt c v.length (v ++ rest) m h0 h255 (by simp)]
      simp
    · simp only [hlen, if_false, List.cons_append, List.append_assoc]
      have h255' : 255 ≤ (v.take 255 ++ (serChunks c (v.drop 255) ++ rest)).length := by
        simp only [List.length_append, List.length_take]; omega
      rw [parseOptions_cons_opt c 255 _ m h0 h255 h255']
      have htl : (v.take 255).length = 255 := by simp only [List.length_take]; omega
      rw [List.drop_append_of_le_length (by omega), List.take_append_of_le_length (by omega)]
      have hd : List.drop 255 (List.take 255 v) = [] := by
        apply List.drop_eq_nil_of_le; omega
      have ht : List.take 255 (List.take 255 v) = List.take 255 v := by
        rw [List.take_take]; simp
      rw [hd, ht, List.nil_append]
      have hdne : v.drop 255 ≠ [] := by
        intro hh
        have := congrArg List.length hh
        simp only [List.length_drop, List.length_nil] at this; omega
      rw [ih (v.drop 255).length (by simp only [List.length_drop]; omega) (v.drop 255) rfl hdne]
      rw [optAppend_optAppend, List.take_append_drop]

theorem parseOptions_serOption (c : Nat) (v : List Nat) (h0 : c ≠ 0) (h255 : c ≠ 255)
    (rest : List Nat) (m : Opts) :
    parseOptions (serOption c v ++ rest) m = parseOptions rest (optAppend m c v) := by
  unfold serOption
  cases v with
  | nil =>
    simp only [List.isEmpty_nil, if_true, List.cons_append, List.nil_append]
    rw [parseOptions_cons_opt c 0 rest m h0 h255 (by simp)]
    simp
  | cons x xs =>
    simp only [List.isEmpty_cons, Bool.false_eq_true, if_false]
    exact parseOptions_serChunks c h0 h255 _ _ rfl (by simp) rest m

def OptsWf (o : Opts) : Prop :=
  (o.map (·.1)).Nodup ∧ ∀ e ∈ o, e.1 ≠ 0 ∧ e.1 ≠ 255

theorem parseOptions_flatMap (o : Opts) (hcodes : ∀ e ∈ o, e.1 ≠ 0 ∧ e.1 ≠ 255) (tail : List Nat) (m : Opts) :
    parseOptions ((o.flatMap fun (c, v) => serOption c v) ++ tail) m =
      parseOptions tail (o.foldl (fun acc e => optAppend acc e.1 e.2) m) := by
  induction o generalizing m with
  | nil => simp
  | cons e es ih =>
    obtain ⟨c, v⟩ := e
    have hc := hcodes (c, v) (by simp)
    simp only [List.flatMap_cons, List.append_assoc, List.foldl_cons]
    rw [parseOptions_serOption c v hc.1 hc.2]
    exact ih (fun e he => hcodes e (by simp [he])) _

theorem foldl_optAppend_fresh (o m : Opts) (hnd : ((m ++ o).map (·.1)).Nodup) :
    o.foldl (fun acc e => optAppend acc e.1 e.2) m = m ++ o := by
  induction o generalizing m with
  | nil => simp
  | cons e es ih =>
    obtain ⟨c, v⟩ := e
    simp only [List.foldl_cons]
    have hfresh : c ∉ m.map (·.1) := by
      intro hc
      simp only [List.map_append, List.map_cons] at hnd
      have := (List.nodup_append.mp hnd).2.2 c hc c (by simp)
      exact this rfl
    rw [optAppend_fresh m c v hfresh]
    have : ((m ++ [(c, v)] ++ es).map (·.1)).Nodup := by simpa using hnd
    rw [ih _ this]; simp

theorem parseOptions_serOptions (o : Opts) (h : OptsWf o) :
    parseOptions (serOptions o) [] = .ok o := by
  unfold serOptions
  rw [parseOptions_flatMap o h.2, parseOptions_end, foldl_optAppend_fresh o [] (by simpa using h.1)]
  simp

end Erbium.DhcpWire

namespace Erbium.DhcpWire

structure Wf (m : Dhcp) : Prop where
  op : m.op < 256
  htype : m.htype < 256
  hlen : m.hlen = m.chaddr.length
  chaddr : m.chaddr.length ≤ 16
  hops : m.hops < 256
  xid : m.xid < 2 ^ 32
  secs : m.secs < 65536
  flags : m.flags < 65536
  ciaddr : m.ciaddr < 2 ^ 32
  yiaddr : m.yiaddr < 2 ^ 32
  siaddr : m.siaddr < 2 ^ 32
  giaddr : m.giaddr < 2 ^ 32
  sname : m.sname.length ≤ 64 ∧ ∀ b ∈ m.sname, b ≠ 0
  file : m.file.length ≤ 128 ∧ ∀ b ∈ m.file, b ≠ 0
  options : OptsWf m.options

theorem be32_ser32 (x : Nat) (h : x < 2 ^ 32) :
    be32 (x / 16777216 % 256) (x / 65536 % 256) (x / 256 % 256) (x % 256) = x := by
  unfold be32; omega

theorem be16_ser16 (x : Nat) (h : x < 65536) : be16 (x / 256 % 256) (x % 256) = x := by
  unfold be16; omega

theorem serFixed_length (out : List Nat) (l : Nat) : (serFixed out l).length = l := by
  unfold serFixed; simp

theorem takeWhile_append_zero (v : List Nat) (k : Nat) (h : ∀ b ∈ v, b ≠ 0) :
    (v ++ List.replicate k 0).takeWhile (· != 0) = v := by
  induction v with
  | nil => cases k <;> simp [List.replicate]
  | cons x xs ih =>
    have hx : x ≠ 0 := h x (by simp)
    simp only [List.cons_append, List.takeWhile_cons]
    have : (x != 0) = true := by simp [hx]
    simp only [this, if_true]
    rw [ih (fun b hb => h b (by simp [hb]))]

theorem serFixed_eq (v : List Nat) (l : Nat) (h : v.length ≤ l) :
    serFixed v l = v ++ List.replicate (l - v.length) 0 := by
  unfold serFixed
  rw [List.take_append]
  have h1 : List.take l v = v := List.take_of_length_le h
  rw [h1]; simp

theorem nullTerminated_serFixed (v : List Nat) (l : Nat) (hl : v.length ≤ l) (h : ∀ b ∈ v, b ≠ 0) :
    nullTerminated (serFixed v l) = v := by
  rw [serFixed_eq v l hl]; exact takeWhile_append_zero v _ h

theorem take_serFixed (v : List Nat) (l : Nat) (hl : v.length ≤ l) :
    (serFixed v l).take v.length = v := by
  rw [serFixed_eq v l hl]; simp

theorem drop_serFixed_append (v : List Nat) (l : Nat) (rest : List Nat) :
    List.drop l (serFixed v l ++ rest) = rest := by
  rw [List.drop_append_of_le_length (by rw [serFixed_length]; exact Nat.le_refl _)]
  rw [List.drop_eq_nil_of_le (by rw [serFixed_length]; exact Nat.le_refl _)]; rfl

theorem take_serFixed_append (v : List Nat) (l : Nat) (rest : List Nat) :
    List.take l (serFixed v l ++ rest) = serFixed v l := by
  rw [List.take_append_of_le_length (by rw [serFixed_length]; exact Nat.le_refl _)]
  exact List.take_of_length_le (by rw [serFixed_length]; exact Nat.le_refl _)

theorem parse_serialise (m : Dhcp) (h : Wf m) : parse (serialise m) = .ok m := by
  have hop := Nat.mod_eq_of_lt h.op
  have hht := Nat.mod_eq_of_lt h.htype
  have hhl : m.hlen % 256 = m.hlen := Nat.mod_eq_of_lt (by have := h.hlen; have := h.chaddr; omega)
  have hho := Nat.mod_eq_of_lt h.hops
  unfold serialise ser32 ser16
  simp only [List.cons_append, List.nil_append, hop, hht, hhl, hho]
  unfold parse
  dsimp only
  simp only [List.append_assoc]
  simp only [drop_serFixed_append, take_serFixed_append]
  simp only [List.length_append, serFixed_length]
  have e1 : ¬ (16 + (64 + (128 + (magic.length + (serOptions m.options).length))) < 16) := by omega
  have e2 : ¬ (m.hlen > 16) := by have := h.hlen; have := h.chaddr; omega
  have e3 : ¬ (64 + (128 + (magic.length + (serOptions m.options).length)) < 64) := by omega
  have e4 : ¬ (128 + (magic.length + (serOptions m.options).length) < 128) := by omega
  simp only [e1, e2, e3, e4, if_false]
  simp only [magic, List.cons_append, List.nil_append, ne_eq, not_true_eq_false, if_false]
  rw [parseOptions_serOptions m.options h.options]
  simp only
  rw [be32_ser32 _ h.xid, be16_ser16 _ h.secs, be16_ser16 _ h.flags, be32_ser32 _ h.ciaddr,
      be32_ser32 _ h.yiaddr, be32_ser32 _ h.siaddr, be32_ser32 _ h.giaddr,
      nullTerminated_serFixed _ _ h.sname.1 h.sname.2, nullTerminated_serFixed _ _ h.file.1 h.file.2]
  have : List.take m.hlen (serFixed m.chaddr 16) = m.chaddr := by
    rw [h.hlen]; exact take_serFixed _ _ h.chaddr
  rw [this]

end Erbium.DhcpWire
