import ErbiumModel.Lemmas.DnsTree
/-! Record- and section-level round trip: what `push_rr` writes, `get_rr` reads back — for every
    record type, with names compressed against everything written before. -/
namespace Erbium.DnsWire

/-- `mid` sits in `buf` at offset `off` -/
def At (buf : Bytes) (off : Nat) (mid : Bytes) : Prop := ∃ pre post, buf = pre ++ mid ++ post ∧ pre.length = off

theorem At.left {buf off a b} (h : At buf off (a ++ b)) : At buf off a := by
  obtain ⟨pre, post, rfl, hl⟩ := h
  exact ⟨pre, b ++ post, by simp, hl⟩

theorem At.right {buf off a b} (h : At buf off (a ++ b)) : At buf (off + a.length) b := by
  obtain ⟨pre, post, rfl, hl⟩ := h
  exact ⟨pre ++ a, post, by simp, by simp [hl]⟩

theorem At.take {buf off mid} (h : At buf off mid) : buf.take (off + mid.length) = buf.take off ++ mid := by
  obtain ⟨pre, post, rfl, hl⟩ := h
  subst hl
  rw [show pre.length + mid.length = (pre ++ mid).length by simp, List.append_assoc pre mid post,
      ← List.append_assoc, List.take_left' rfl]
  rw [List.append_assoc, List.take_left' rfl]

theorem At.le {buf off mid} (h : At buf off mid) : off + mid.length ≤ buf.length := by
  obtain ⟨pre, post, rfl, hl⟩ := h
  simp; omega

theorem At.getElem {buf off x rest} (h : At buf off (x :: rest)) : buf[off]? = some x := by
  obtain ⟨pre, post, rfl, hl⟩ := h
  subst hl
  simp

theorem getU8_at {buf off x rest} (h : At buf off (x :: rest)) : getU8 buf off = .ok (x, off + 1) := by
  unfold getU8; rw [h.getElem]

theorem getU16_at {buf off x} (hx : x < 65536) (h : At buf off (u16 x)) : getU16 buf off = .ok (x, off + 2) := by
  unfold getU16 u16 at *
  have h1 := getU8_at h
  have h2 : At buf (off + 1) [x % 256] := by
    have := At.right (a := [x / 256 % 256]) (b := [x % 256]) (by simpa using h)
    simpa using this
  rw [h1]
  simp only [bind, Except.bind]
  rw [getU8_at h2]
  simp only
  congr 2
  · omega

theorem getU32_at {buf off x} (hx : x < 4294967296) (h : At buf off (u32 x)) : getU32 buf off = .ok (x, off + 4) := by
  unfold getU32 u32 at *
  have a0 : At buf off [x / 16777216 % 256] := At.left (b := [x / 65536 % 256, x / 256 % 256, x % 256]) (by simpa using h)
  have r1 := At.right (a := [x / 16777216 % 256]) (b := [x / 65536 % 256, x / 256 % 256, x % 256]) (by simpa using h)
  have r2 := At.right (a := [x / 65536 % 256]) (b := [x / 256 % 256, x % 256]) (by simpa using r1)
  have r3 := At.right (a := [x / 256 % 256]) (b := [x % 256]) (by simpa using r2)
  simp only [List.length_singleton] at r1 r2 r3
  rw [getU8_at a0]
  simp only [bind, Except.bind]
  rw [getU8_at r1]
  simp only
  rw [getU8_at r2]
  simp only
  rw [getU8_at r3]
  simp only
  congr 2
  · omega

theorem getBytes_at {buf off x} (h : At buf off x) : getBytes buf off x.length = .ok (x, off + x.length) := by
  unfold getBytes
  have hle := h.le
  simp only [hle, if_true]
  obtain ⟨pre, post, rfl, hl⟩ := h
  subst hl
  congr 2
  rw [List.append_assoc, List.drop_left' rfl, List.take_left' rfl]

theorem getString_at {buf off s} (hs : s.length < 256) (h : At buf off (s.length :: s)) :
    getString buf off = .ok (s, off + 1 + s.length) := by
  unfold getString
  rw [getU8_at h]
  simp only [bind, Except.bind]
  have := At.right (a := [s.length]) (b := s) (by simpa using h)
  simp only [List.length_singleton] at this
  exact getBytes_at this

def NameOK (d : Name) : Prop := WfName d ∧ d.length ≤ limit ∧ wireLen d ≤ Generated.Dns.nameOctetLimit

/-- a name written by `push_compressed_domain` at `off`, read back in place -/
theorem name_at {d : Name} (hd : NameOK d) {t t' : Tree} {buf bytes : Bytes} {off : Nat}
    (h : pushName d t off = some (bytes, t')) (hat : At buf off bytes) (ht : RootOK (buf.take off) t)
    (hsz : off + bytes.length < 65536) :
    getDomain buf off = .ok (d, off + bytes.length) ∧ RootOK (buf.take (off + bytes.length)) t' := by
  obtain ⟨pre, post, rfl, hl⟩ := hat
  subst hl
  have htk : (pre ++ bytes ++ post).take pre.length = pre := by
    rw [List.append_assoc, List.take_left' rfl]
  rw [htk] at ht
  have := pushName_spec d hd.1 hd.2.1 hd.2.2 t t' pre bytes h ht hsz
  refine ⟨this.1 post, ?_⟩
  have htk2 : (pre ++ bytes ++ post).take (pre.length + bytes.length) = pre ++ bytes := by
    rw [show pre.length + bytes.length = (pre ++ bytes).length by simp, List.take_left' rfl]
  rw [htk2]; exact this.2

/-- RootOK only looks at the part already written -/
theorem rootOK_take_mono {buf : Bytes} {t : Tree} {a b : Nat} (hab : a ≤ b) (h : RootOK (buf.take a) t) :
    RootOK (buf.take b) t := by
  have : buf.take b = buf.take a ++ (buf.drop a).take (b - a) := by
    rw [← List.take_add]; congr 1; omega
  rw [this]; exact h.append _

theorem u16_join (x : Nat) (h : x < 65536) : x / 256 % 256 * 256 + x % 256 = x := by omega

def OptsOK (o : List (Nat × Bytes)) : Prop := ∀ e ∈ o, e.1 < 65536 ∧ e.2.length < 65536

theorem parseOpts_pushOpts (o : List (Nat × Bytes)) (ho : OptsOK o) (fuel : Nat) (hf : o.length < fuel) :
    parseOpts fuel (pushOpts o) = .ok o := by
  induction o generalizing fuel with
  | nil => cases fuel <;> simp [parseOpts, pushOpts]
  | cons e es ih =>
    obtain ⟨c, d⟩ := e
    cases fuel with
    | zero => omega
    | succ fuel =>
      have hc := (ho (c, d) (List.mem_cons_self ..)).1
      have hdl := (ho (c, d) (List.mem_cons_self ..)).2
      simp only at hc hdl
      have hcm : c % 65536 = c := Nat.mod_eq_of_lt hc
      have hdm : d.length % 65536 = d.length := Nat.mod_eq_of_lt hdl
      have hpush : pushOpts ((c, d) :: es) = (c / 256 % 256) :: (c % 256) :: (d.length / 256 % 256) ::
          (d.length % 256) :: (d ++ pushOpts es) := by
        simp [pushOpts, u16, hcm, hdm]
      rw [hpush]
      unfold parseOpts
      simp only
      have hlen := u16_join c hc
      have hdlen := u16_join d.length hdl
      rw [hdlen]
      have hnl : ¬ (d ++ pushOpts es).length < d.length := by simp
      simp only [hnl, if_false, List.drop_left, List.take_left]
      rw [ih (fun e he => ho e (List.mem_cons_of_mem _ he)) fuel (by simp at hf; omega)]
      simp only [hlen]


/-- the record data fits the record type (what the decoder produces for that type) and its fields fit their wire width -/
def RDataOK (rrtype : Nat) : RData → Prop
  | .cname d => rrtype = T_CNAME ∧ NameOK d
  | .ns d => rrtype = T_NS ∧ NameOK d
  | .ptr d => rrtype = T_PTR ∧ NameOK d
  | .mx p d => rrtype = T_MX ∧ p < 65536 ∧ NameOK d
  | .rt p d => rrtype = T_RT ∧ p < 65536 ∧ NameOK d
  | .afsdb s d => rrtype = T_AFSDB ∧ s < 65536 ∧ NameOK d
  | .rp m x => rrtype = T_RP ∧ NameOK m ∧ NameOK x
  | .soa m r a b c d e => rrtype = T_SOA ∧ NameOK m ∧ NameOK r ∧ a < 4294967296 ∧ b < 4294967296 ∧ c < 4294967296 ∧
      d < 4294967296 ∧ e < 4294967296
  | .naptr o p f s r d => rrtype = T_NAPTR ∧ o < 65536 ∧ p < 65536 ∧ f.length < 256 ∧ s.length < 256 ∧ r.length < 256 ∧ NameOK d
  | .opt o => rrtype = T_OPT ∧ OptsOK o
  | .other _ => rrtype ≠ T_CNAME ∧ rrtype ≠ T_NS ∧ rrtype ≠ T_PTR ∧ rrtype ≠ T_AFSDB ∧ rrtype ≠ T_RP ∧ rrtype ≠ T_RT ∧
      rrtype ≠ T_MX ∧ rrtype ≠ T_NAPTR ∧ rrtype ≠ T_OPT ∧ rrtype ≠ T_SOA

theorem u16_len (x : Nat) : (u16 x).length = 2 := rfl
theorem u32_len (x : Nat) : (u32 x).length = 4 := rfl

/-- **rdata round trip**: `off` is the absolute offset of the first rdata octet; the two octets before it hold the length -/
theorem rdata_at (rr : RR) (hok : RDataOK rr.rrtype rr.rdata) {t t' : Tree} {buf rb : Bytes} {off : Nat}
    (h : pushRData rr t off = some (rb, t')) (hoff : 2 ≤ off)
    (hat : At buf (off - 2) (u16 (rb.length % 65536) ++ rb))
    (ht : RootOK (buf.take off) t) (hsz : off + rb.length < 65536) :
    getRData buf (off - 2) rr.rrtype = .ok (rr.rdata, off + rb.length) ∧ RootOK (buf.take (off + rb.length)) t' := by
  have hlen : rb.length % 65536 = rb.length := Nat.mod_eq_of_lt (by omega)
  have hL := getU16_at (by omega : rb.length % 65536 < 65536) hat.left
  rw [hlen] at hL
  have hR : At buf off rb := by
    have := hat.right; rw [u16_len] at this
    rw [show off - 2 + 2 = off by omega] at this; exact this
  unfold getRData
  rw [hL]
  simp only [bind, Except.bind, show off - 2 + 2 = off by omega]
  cases hrd : rr.rdata with
  | cname d =>
    rw [hrd] at hok
    obtain ⟨hty, hn⟩ := hok
    unfold pushRData at h; rw [hrd] at h; simp only at h
    have := name_at hn h hR ht hsz
    simp only [hty, T_CNAME, if_true, this.1, pure, Except.pure]
    exact ⟨trivial, this.2⟩
  | ns d =>
    rw [hrd] at hok
    obtain ⟨hty, hn⟩ := hok
    unfold pushRData at h; rw [hrd] at h; simp only at h
    have := name_at hn h hR ht hsz
    simp only [hty, T_CNAME, T_NS, if_true, this.1, pure, Except.pure]
    exact ⟨by simp, this.2⟩
  | ptr d =>
    rw [hrd] at hok
    obtain ⟨hty, hn⟩ := hok
    unfold pushRData at h; rw [hrd] at h; simp only at h
    have := name_at hn h hR ht hsz
    simp only [hty, T_CNAME, T_NS, T_PTR, if_true, this.1, pure, Except.pure]
    exact ⟨by simp, this.2⟩
  | mx pref d =>
    rw [hrd] at hok
    obtain ⟨hty, hp, hn⟩ := hok
    unfold pushRData at h; rw [hrd] at h; simp only [Option.map_eq_some_iff] at h
    obtain ⟨⟨b, tb⟩, hb, heq⟩ := h
    simp only [Prod.mk.injEq] at heq
    obtain ⟨rfl, rfl⟩ := heq
    have hpre := getU16_at hp hR.left
    have hb2 : At buf (off + 2) b := by have := hR.right; rwa [u16_len] at this
    have := name_at hn hb hb2 (rootOK_take_mono (by omega) ht) (by simp only [List.length_append, u16_len] at hsz; omega)
    simp only [hty, T_CNAME, T_NS, T_PTR, T_AFSDB, T_RP, T_RT, T_MX, hpre, this.1, pure, Except.pure]
    refine ⟨by simp [u16_len]; omega, ?_⟩
    have h2 := this.2
    simp only [List.length_append, u16_len] at hsz ⊢
    rwa [show off + (2 + b.length) = off + 2 + b.length by omega]
  | rt pref d =>
    rw [hrd] at hok
    obtain ⟨hty, hp, hn⟩ := hok
    unfold pushRData at h; rw [hrd] at h; simp only [Option.map_eq_some_iff] at h
    obtain ⟨⟨b, tb⟩, hb, heq⟩ := h
    simp only [Prod.mk.injEq] at heq
    obtain ⟨rfl, rfl⟩ := heq
    have hpre := getU16_at hp hR.left
    have hb2 : At buf (off + 2) b := by have := hR.right; rwa [u16_len] at this
    have := name_at hn hb hb2 (rootOK_take_mono (by omega) ht) (by simp only [List.length_append, u16_len] at hsz; omega)
    simp only [hty, T_CNAME, T_NS, T_PTR, T_AFSDB, T_RP, T_RT, hpre, this.1, pure, Except.pure]
    refine ⟨by simp [u16_len]; omega, ?_⟩
    have h2 := this.2
    simp only [List.length_append, u16_len] at hsz ⊢
    rwa [show off + (2 + b.length) = off + 2 + b.length by omega]
  | afsdb st d =>
    rw [hrd] at hok
    obtain ⟨hty, hp, hn⟩ := hok
    unfold pushRData at h; rw [hrd] at h; simp only [Option.map_eq_some_iff] at h
    obtain ⟨⟨b, tb⟩, hb, heq⟩ := h
    simp only [Prod.mk.injEq] at heq
    obtain ⟨rfl, rfl⟩ := heq
    have hpre := getU16_at hp hR.left
    have hb2 : At buf (off + 2) b := by have := hR.right; rwa [u16_len] at this
    have := name_at hn hb hb2 (rootOK_take_mono (by omega) ht) (by simp only [List.length_append, u16_len] at hsz; omega)
    simp only [hty, T_CNAME, T_NS, T_PTR, T_AFSDB, hpre, this.1, pure, Except.pure]
    refine ⟨by simp [u16_len]; omega, ?_⟩
    have h2 := this.2
    simp only [List.length_append, u16_len] at hsz ⊢
    rwa [show off + (2 + b.length) = off + 2 + b.length by omega]
  | rp m x =>
    rw [hrd] at hok
    obtain ⟨hty, hm, hx⟩ := hok
    unfold pushRData at h; rw [hrd] at h
    simp only [bind, Option.bind] at h
    cases h1 : pushName m t off with
    | none => simp [h1] at h
    | some r1 =>
      obtain ⟨b1, t1⟩ := r1
      simp only [h1] at h
      cases h2 : pushName x t1 (off + b1.length) with
      | none => simp [h2] at h
      | some r2 =>
        obtain ⟨b2, t2⟩ := r2
        simp only [h2, pure, Option.some.injEq, Prod.mk.injEq] at h
        obtain ⟨rfl, rfl⟩ := h
        simp only [List.length_append] at hsz
        have n1 := name_at hm h1 hR.left ht (by omega)
        have n2 := name_at hx h2 hR.right n1.2 (by omega)
        simp only [hty, T_CNAME, T_NS, T_PTR, T_AFSDB, T_RP, n1.1, n2.1, pure, Except.pure]
        refine ⟨by simp; omega, ?_⟩
        simp only [List.length_append]
        rw [show off + (b1.length + b2.length) = off + b1.length + b2.length by omega]
        exact n2.2
  | soa m r a b c d e =>
    rw [hrd] at hok
    obtain ⟨hty, hm, hr, ha, hb, hc, hd, he⟩ := hok
    unfold pushRData at h; rw [hrd] at h
    simp only [hty, ne_eq, not_true_eq_false, if_false, bind, Option.bind] at h
    cases h1 : pushName m t off with
    | none => simp [h1] at h
    | some r1 =>
      obtain ⟨b1, t1⟩ := r1
      simp only [h1] at h
      cases h2 : pushName r t1 (off + b1.length) with
      | none => simp [h2] at h
      | some r2 =>
        obtain ⟨b2, t2⟩ := r2
        simp only [h2, pure, Option.some.injEq, Prod.mk.injEq] at h
        obtain ⟨rfl, rfl⟩ := h
        simp only [List.length_append, u32_len] at hsz
        -- split the rdata into its seven parts
        have hA : At buf off (b1 ++ (b2 ++ (u32 a ++ (u32 b ++ (u32 c ++ (u32 d ++ u32 e)))))) := by
          simpa [List.append_assoc] using hR
        have p1 := hA.left
        have q1 := hA.right
        have p2 := q1.left
        have q2 := q1.right
        have p3 := q2.left
        have q3 := q2.right
        have p4 := q3.left
        have q4 := q3.right
        have p5 := q4.left
        have q5 := q4.right
        have p6 := q5.left
        have p7 := q5.right
        simp only [u32_len] at q2 q3 q4 q5 p3 p4 p5 p6 p7
        have n1 := name_at hm h1 p1 ht (by omega)
        have n2 := name_at hr h2 p2 n1.2 (by omega)
        have g1 := getU32_at ha p3
        have g2 := getU32_at hb p4
        have g3 := getU32_at hc p5
        have g4 := getU32_at hd p6
        have g5 := getU32_at he p7
        simp only [hty, T_CNAME, T_NS, T_PTR, T_AFSDB, T_RP, T_RT, T_MX, T_NAPTR, T_OPT, T_SOA, n1.1, n2.1, g1, g2, g3, g4, g5,
          pure, Except.pure]
        refine ⟨by simp [u32_len]; omega, ?_⟩
        have : off + (b1 ++ b2 ++ u32 a ++ u32 b ++ u32 c ++ u32 d ++ u32 e).length = off + b1.length + b2.length + 20 := by
          simp [u32_len]; omega
        rw [this]
        exact rootOK_take_mono (by omega) n2.2
  | naptr o p f sv r d =>
    rw [hrd] at hok
    obtain ⟨hty, ho, hp, hf, hs, hr, hn⟩ := hok
    unfold pushRData at h; rw [hrd] at h
    simp only [pushStr, show ¬ f.length ≥ 256 by omega, show ¬ sv.length ≥ 256 by omega, show ¬ r.length ≥ 256 by omega,
      if_false, bind, Option.bind] at h
    split at h
    · cases h
    · rename_i fn pr hpr
      obtain ⟨b, tb⟩ := pr
      simp only [pure, Option.some.injEq, Prod.mk.injEq] at h
      obtain ⟨rfl, rfl⟩ := h
      have hX : off + (u16 o ++ u16 p ++ (f.length :: f) ++ (sv.length :: sv) ++ (r.length :: r)).length =
          off + 2 + 2 + (f.length + 1) + (sv.length + 1) + (r.length + 1) := by simp [u16_len]; omega
      rw [hX] at hpr
      have h1 := hpr
      have hA : At buf off (u16 o ++ (u16 p ++ ((f.length :: f) ++ ((sv.length :: sv) ++ ((r.length :: r) ++ b))))) := by
        simpa [List.append_assoc] using hR
      have p1 := hA.left
      have q1 := hA.right
      have p2 := q1.left
      have q2 := q1.right
      have p3 := q2.left
      have q3 := q2.right
      have p4 := q3.left
      have q4 := q3.right
      have p5 := q4.left
      have p6 := q4.right
      simp only [u16_len, List.length_cons] at q1 q2 q3 q4 p2 p3 p4 p5 p6
      have g1 := getU16_at ho p1
      have g2 := getU16_at hp p2
      have g3 := getString_at hf p3
      have g4 := getString_at hs p4
      have g5 := getString_at hr p5
      simp only [List.length_append, u16_len, List.length_cons] at hsz
      have n1 := name_at hn h1 p6 (rootOK_take_mono (by omega) ht) (by omega)
      have e3 : off + 2 + 2 + 1 + f.length = off + 2 + 2 + (f.length + 1) := by omega
      have e4 : off + 2 + 2 + (f.length + 1) + 1 + sv.length = off + 2 + 2 + (f.length + 1) + (sv.length + 1) := by omega
      have e5 : off + 2 + 2 + (f.length + 1) + (sv.length + 1) + 1 + r.length = off + 2 + 2 + (f.length + 1) + (sv.length + 1) + (r.length + 1) := by omega
      rw [e3] at g3; rw [e4] at g4; rw [e5] at g5
      simp only [hty, T_CNAME, T_NS, T_PTR, T_AFSDB, T_RP, T_RT, T_MX, T_NAPTR, g1, g2, g3, g4, g5, n1.1, pure, Except.pure]
      refine ⟨by simp [u16_len]; omega, ?_⟩
      have : off + (u16 o ++ u16 p ++ (f.length :: f) ++ (sv.length :: sv) ++ (r.length :: r) ++ b).length =
          off + 2 + 2 + (f.length + 1) + (sv.length + 1) + (r.length + 1) + b.length := by
        simp [u16_len]; omega
      rw [this]; exact n1.2
  | opt o =>
    rw [hrd] at hok
    obtain ⟨hty, ho⟩ := hok
    unfold pushRData at h; rw [hrd] at h
    simp only [hty, ne_eq, not_true_eq_false, if_false, Option.some.injEq, Prod.mk.injEq] at h
    obtain ⟨rfl, rfl⟩ := h
    have g := getBytes_at hR
    have hp := parseOpts_pushOpts o ho ((pushOpts o).length + 1) (by
      have : o.length ≤ (pushOpts o).length := by
        clear hrd ho hat hR g hL hlen hsz
        induction o with
        | nil => simp [pushOpts]
        | cons e es ih => simp [pushOpts, u16] at ih ⊢; omega
      omega)
    simp only [hty, T_CNAME, T_NS, T_PTR, T_AFSDB, T_RP, T_RT, T_MX, T_NAPTR, T_OPT, g, hp, pure, Except.pure]
    exact ⟨by simp, rootOK_take_mono (by omega) ht⟩
  | other x =>
    rw [hrd] at hok
    obtain ⟨n1, n2, n3, n4, n5, n6, n7, n8, n9, n10⟩ := hok
    unfold pushRData at h; rw [hrd] at h
    simp only [n9, n10, or_self, if_false] at h
    split at h
    · cases h
    · simp only [Option.some.injEq, Prod.mk.injEq] at h
      obtain ⟨rfl, rfl⟩ := h
      have g := getBytes_at hR
      simp only [n1, n2, n3, n4, n5, n6, n7, n8, n9, n10, if_false, g, pure, Except.pure]
      exact ⟨trivial, rootOK_take_mono (by omega) ht⟩


/-- a record as the decoder produces them -/
structure RROK (rr : RR) : Prop where
  name : NameOK rr.domain
  ty : rr.rrtype < 65536
  cls : rr.cls < 65536
  ttl : rr.ttl < 4294967296
  rd : RDataOK rr.rrtype rr.rdata

/-- **record round trip**: what `push_rr` appends at `off` is read back by `get_rr` as the same record, the
    stream continues right behind it and the offsets tree stays valid -/
theorem rr_at (rr : RR) (hok : RROK rr) {t t' : Tree} {buf b : Bytes} {off : Nat}
    (h : pushRR rr t off = some (b, t')) (hat : At buf off b) (ht : RootOK (buf.take off) t)
    (hsz : off + b.length < 65536) :
    getRR buf off = .ok (rr, off + b.length) ∧ RootOK (buf.take (off + b.length)) t' := by
  unfold pushRR at h
  simp only [bind, Option.bind] at h
  cases h1 : pushName rr.domain t off with
  | none => simp [h1] at h
  | some r1 =>
    obtain ⟨nb, t1⟩ := r1
    simp only [h1] at h
    split at h
    · cases h
    · rename_i fn pr h2
      obtain ⟨rb, t2⟩ := pr
      simp only [Option.some.injEq, Prod.mk.injEq] at h
      obtain ⟨rfl, rfl⟩ := h
      have hat : At buf off (nb ++ u16 rr.rrtype ++ u16 rr.cls ++ u32 rr.ttl ++ u16 (rb.length % 65536) ++ rb) := by
        simpa [List.append_assoc] using hat
      have hsz : off + (nb ++ u16 rr.rrtype ++ u16 rr.cls ++ u32 rr.ttl ++ u16 (rb.length % 65536) ++ rb).length < 65536 := by
        simpa [List.append_assoc] using hsz
      have hA : At buf off (nb ++ (u16 rr.rrtype ++ (u16 rr.cls ++ (u32 rr.ttl ++ (u16 (rb.length % 65536) ++ rb))))) := by
        simpa [List.append_assoc] using hat
      have p1 := hA.left
      have q1 := hA.right
      have p2 := q1.left
      have q2 := q1.right
      have p3 := q2.left
      have q3 := q2.right
      have p4 := q3.left
      have q4 := q3.right
      simp only [u16_len, u32_len] at q2 q3 q4 p3 p4
      simp only [List.length_append, u16_len, u32_len] at hsz h2
      have n1 := name_at hok.name h1 p1 ht (by omega)
      have g2 := getU16_at hok.ty p2
      have g3 := getU16_at hok.cls p3
      have g4 := getU32_at hok.ttl p4
      have hpos : off + (nb.length + (2 + (2 + 4))) + 2 = off + nb.length + 2 + 2 + 4 + 2 := by omega
      rw [hpos] at h2
      have hq4 : At buf (off + nb.length + 2 + 2 + 4 + 2 - 2) (u16 (rb.length % 65536) ++ rb) := by
        rw [show off + nb.length + 2 + 2 + 4 + 2 - 2 = off + nb.length + 2 + 2 + 4 by omega]; exact q4
      have rd := rdata_at rr hok.rd h2 (by omega) hq4 (rootOK_take_mono (by omega) n1.2) (by omega)
      rw [show off + nb.length + 2 + 2 + 4 + 2 - 2 = off + nb.length + 2 + 2 + 4 by omega] at rd
      unfold getRR
      simp only [bind, Except.bind, n1.1, g2, g3, g4, rd.1, pure, Except.pure]
      have hlen : off + (nb ++ u16 rr.rrtype ++ u16 rr.cls ++ u32 rr.ttl ++ u16 (rb.length % 65536) ++ rb).length =
          off + nb.length + 2 + 2 + 4 + 2 + rb.length := by simp [u16_len, u32_len]; omega
      rw [hlen]
      exact ⟨rfl, rd.2⟩


theorem at_mid (pre mid post : Bytes) : At (pre ++ mid ++ post) pre.length mid := ⟨pre, post, rfl, rfl⟩

theorem pushRR_nonempty {rr : RR} {t t' : Tree} {off : Nat} {b : Bytes} (h : pushRR rr t off = some (b, t')) : 10 ≤ b.length := by
  unfold pushRR at h
  simp only [bind, Option.bind] at h
  split at h
  · cases h
  · rename_i pr _
    obtain ⟨nb, t1⟩ := pr
    simp only at h
    split at h
    · cases h
    · simp only [pure, Option.some.injEq, Prod.mk.injEq] at h
      rw [← h.1]
      simp [u16, u32]
      omega

theorem pushSection_ext (size : Nat) (rs : List RR) :
    ∀ (bf : Bytes) (tt : Tree) (nn : Nat) (bf' : Bytes) (tt' : Tree) (nn' : Nat),
      pushSection size rs bf tt nn = some (bf', tt', nn', false) → ∃ ext, bf' = bf ++ ext := by
  induction rs with
  | nil =>
    intro bf tt nn bf' tt' nn' hh
    simp only [pushSection, Option.some.injEq, Prod.mk.injEq] at hh
    exact ⟨[], by simp [hh.1]⟩
  | cons r rs ih2 =>
    intro bf tt nn bf' tt' nn' hh
    unfold pushSection at hh
    cases hp : pushRR r tt bf.length with
    | none => simp [hp] at hh
    | some pr =>
      obtain ⟨b, t1⟩ := pr
      simp only [hp] at hh
      split at hh
      · simp at hh
      · obtain ⟨e, he⟩ := ih2 _ _ _ _ _ _ hh
        exact ⟨b ++ e, by rw [he, List.append_assoc]⟩

/-- **section round trip**: the records `serialise_with_size` appends without truncating are read back, in order -/
theorem section_at (size : Nat) (trunc : Bool) (rrs : List RR) (hok : ∀ rr ∈ rrs, RROK rr) :
    ∀ (buf : Bytes) (t : Tree) (n : Nat) (buf' : Bytes) (t' : Tree) (n' : Nat),
      pushSection size rrs buf t n = some (buf', t', n', false) → RootOK buf t → buf'.length < 65536 →
      (∃ ext, buf' = buf ++ ext) ∧ n' = n + rrs.length ∧
      (∀ post, getRRs (buf' ++ post) trunc rrs.length buf.length = .ok (rrs, buf'.length)) ∧ RootOK buf' t' := by
  induction rrs with
  | nil =>
    intro buf t n buf' t' n' h ht _
    simp only [pushSection, Option.some.injEq, Prod.mk.injEq] at h
    obtain ⟨rfl, rfl, rfl, _⟩ := h
    exact ⟨⟨[], by simp⟩, by simp, fun post => by simp [getRRs], ht⟩
  | cons rr rest ih =>
    intro buf t n buf' t' n' h ht hsz
    unfold pushSection at h
    cases hp : pushRR rr t buf.length with
    | none => simp [hp] at h
    | some r1 =>
      obtain ⟨b, t1⟩ := r1
      simp only [hp] at h
      split at h
      · simp at h
      · have hrec := ih (fun x hx => hok x (List.mem_cons_of_mem _ hx)) (buf ++ b) t1 (n + 1) buf' t' n' h
        -- buf' extends buf ++ b, so its length bounds the record's end
        have hb10 := pushRR_nonempty hp
        -- first get the extension fact without needing RootOK
        have hext : ∃ ext, buf' = buf ++ b ++ ext := pushSection_ext size rest (buf ++ b) t1 (n + 1) buf' t' n' h
        obtain ⟨ext, hext⟩ := hext
        have hlen : buf.length + b.length ≤ buf'.length := by rw [hext]; simp
        have hat : ∀ post, At (buf' ++ post) buf.length b := by
          intro post; rw [hext]
          have := at_mid buf b (ext ++ post)
          simpa [List.append_assoc] using this
        have htk : ∀ post, (buf' ++ post).take buf.length = buf := by
          intro post; rw [hext]; simp [List.append_assoc, List.take_left']
        have r0 := rr_at rr (hok rr (List.mem_cons_self ..)) hp (hat []) (by rw [htk]; exact ht) (by omega)
        have ht1 : RootOK (buf ++ b) t1 := by
          have := r0.2
          have e2 : (buf' ++ []).take (buf.length + b.length) = buf ++ b := by
            rw [hext, show buf.length + b.length = (buf ++ b).length by simp, List.append_assoc (buf ++ b) ext [],
                List.take_left' rfl]
          rw [e2] at this
          exact this
        obtain ⟨_, hn, hget, hroot⟩ := hrec ht1 hsz
        refine ⟨⟨b ++ ext, by rw [hext, List.append_assoc]⟩, by simp [hn]; omega, ?_, hroot⟩
        intro post
        have r1 := rr_at rr (hok rr (List.mem_cons_self ..)) hp (hat post) (by rw [htk]; exact ht) (by omega)
        have hoff : ¬ (buf.length ≥ (buf' ++ post).length && trunc) = true := by
          simp; intro hge; omega
        have hg := hget post
        simp only [List.length_append] at hg
        simp only [List.length_cons]
        unfold getRRs
        split
        · rename_i hc; exact absurd hc hoff
        · rw [r1.1]
          simp only [hg]


end Erbium.DnsWire
