import ErbiumModel.Model.Acl
namespace Erbium.Acl

/-- and-ing with a mask of `n` one-bits shifted left by `k` keeps exactly those bits -/
theorem and_himask (x k n : Nat) : x &&& ((2 ^ n - 1) * 2 ^ k) = (x / 2 ^ k % 2 ^ n) * 2 ^ k := by
  apply Nat.eq_of_testBit_eq
  intro i
  rw [Nat.testBit_and, Nat.testBit_mul_two_pow, Nat.testBit_mul_two_pow, Nat.testBit_two_pow_sub_one,
      Nat.testBit_mod_two_pow, Nat.testBit_div_two_pow]
  by_cases h : k ≤ i
  · simp [h]
    by_cases h2 : i - k < n
    · simp [h2]
    · simp [h2]
  · simp [h]

theorem netmask_eq (w len : Nat) (h : len ≤ w) : netmask w len = (2 ^ len - 1) * 2 ^ (w - len) := by
  unfold netmask
  have hp : 2 ^ w = 2 ^ len * 2 ^ (w - len) := by rw [← Nat.pow_add]; congr 1; omega
  have hpos : 0 < 2 ^ (w - len) := Nat.two_pow_pos _
  have hposl : 0 < 2 ^ len := Nat.two_pow_pos _
  by_cases hl : len < w
  · simp only [hl, if_true]
    have hdiv : (2 ^ w - 1) / 2 ^ len = 2 ^ (w - len) - 1 := by
      rw [hp]
      have : 2 ^ len * 2 ^ (w - len) - 1 = 2 ^ len * (2 ^ (w - len) - 1) + (2 ^ len - 1) := by
        have : 2 ^ len * (2 ^ (w - len) - 1) = 2 ^ len * 2 ^ (w - len) - 2 ^ len := by
          rw [Nat.mul_sub, Nat.mul_one]
        have h1 : 2 ^ len ≤ 2 ^ len * 2 ^ (w - len) := Nat.le_mul_of_pos_right _ hpos
        omega
      rw [this, Nat.mul_add_div hposl, Nat.div_eq_of_lt (by omega)]
      omega
    rw [hdiv, hp, Nat.sub_mul, Nat.one_mul]
    have h1 : 2 ^ (w - len) ≤ 2 ^ len * 2 ^ (w - len) := Nat.le_mul_of_pos_left _ hposl
    omega
  · have : len = w := by omega
    subst this
    simp

/-- **the written prefix, host bits ignored**: containment is equality of the top `len` bits -/
theorem containsW_iff (w addr len ip : Nat) (hl : len ≤ w) (ha : addr < 2 ^ w) (hi : ip < 2 ^ w) :
    containsW w addr len ip = decide (ip / 2 ^ (w - len) = addr / 2 ^ (w - len)) := by
  unfold containsW
  rw [netmask_eq w len hl, and_himask, and_himask]
  have hp : 2 ^ w = 2 ^ (w - len) * 2 ^ len := by rw [← Nat.pow_add]; congr 1; omega
  have hpos : 0 < 2 ^ (w - len) := Nat.two_pow_pos _
  have h1 : ip / 2 ^ (w - len) < 2 ^ len := by
    apply Nat.div_lt_of_lt_mul; rw [← hp]; exact hi
  have h2 : addr / 2 ^ (w - len) < 2 ^ len := by
    apply Nat.div_lt_of_lt_mul; rw [← hp]; exact ha
  rw [Nat.mod_eq_of_lt h1, Nat.mod_eq_of_lt h2]
  by_cases h : ip / 2 ^ (w - len) = addr / 2 ^ (w - len)
  · simp [h]
  · simp only [h, decide_false, beq_eq_false_iff_ne, ne_eq]
    intro hh
    exact h (Nat.eq_of_mul_eq_mul_right hpos hh)

end Erbium.Acl
