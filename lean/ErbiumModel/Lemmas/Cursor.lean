import ErbiumModel.Model.Cursor
/-! Hoare-style reasoning over `Out`, and the contract of every `pktparser::Buffer` method: on a
    well-formed cursor (`off ≤ len`) no method panics, the cursor stays well-formed over the same data
    and reading methods advance it. -/
namespace Erbium.Safe

/-- partial-correctness + panic-freedom: the outcome is not a panic and a value satisfies `P` -/
def Post {α : Type} (x : Out α) (P : α → Prop) : Prop :=
  match x with
  | .ok a => P a
  | .err _ => True
  | .panic _ => False

theorem Post.noPanic {α : Type} {x : Out α} {P : α → Prop} (h : Post x P) : NoPanic x := by
  cases x <;> simp_all [Post]

theorem Post.bind {α β : Type} {x : Out α} {f : α → Out β} {P : α → Prop} {Q : β → Prop}
    (hx : Post x P) (hf : ∀ a, P a → Post (f a) Q) : Post (x >>= f) Q := by
  cases x with
  | ok a => exact hf a hx
  | err e => trivial
  | panic s => exact hx.elim

theorem Post.mono {α : Type} {x : Out α} {P Q : α → Prop} (hx : Post x P) (h : ∀ a, P a → Q a) : Post x Q := by
  cases x <;> simp_all [Post]

theorem Post.orErr {α : Type} {x : Out α} {P : α → Prop} (e : String) (hx : Post x P) : Post (x.orErr e) P := by
  cases x <;> simp_all [Post, Out.orErr]

theorem Post.pure {α : Type} {a : α} {P : α → Prop} : Post (pure a : Out α) P ↔ P a := Iff.rfl
@[simp] theorem Post.ok {α : Type} {a : α} {P : α → Prop} : Post (Out.ok a) P ↔ P a := Iff.rfl
@[simp] theorem Post.err {α : Type} {e : String} {P : α → Prop} : Post (Out.err e : Out α) P := trivial

theorem Post.of_noPanic {α : Type} {x : Out α} (h : NoPanic x) : Post x (fun _ => True) := by
  cases x <;> simp_all [Post]

theorem post_idx {site : String} {l : List Nat} {i : Nat} (h : i < l.length) : Post (idx site l i) (fun v => v = l[i]) := by
  simp [idx, h]

theorem post_slice {site : String} {l : List Nat} {a b : Nat} (h : a ≤ b) (h2 : b ≤ l.length) :
    Post (slice site l a b) (fun v => v = (l.take b).drop a ∧ v.length = b - a) := by
  simp [slice, h, h2]

theorem post_subU {site : String} {a b : Nat} (h : b ≤ a) : Post (subU site a b) (fun v => v = a - b) := by
  simp [subU, h]

theorem post_exactLen {site : String} {n : Nat} {v : List Nat} (h : v.length = n) : Post (exactLen site n v) (fun w => w = v) := by
  simp [exactLen, h]

end Erbium.Safe

namespace Erbium.Cursor
open Erbium.Safe Erbium.Generated.Pkt

def Buf.WF (b : Buf) : Prop := b.off ≤ b.data.length

/-- `b'` is `b` advanced by `n` octets over the same data -/
def Adv (b b' : Buf) (n : Nat) : Prop := b'.data = b.data ∧ b'.off = b.off + n ∧ b'.WF

theorem Adv.trans {b b1 b2 : Buf} {n m : Nat} (h1 : Adv b b1 n) (h2 : Adv b1 b2 m) : Adv b b2 (n + m) := by
  obtain ⟨d1, o1, w1⟩ := h1; obtain ⟨d2, o2, w2⟩ := h2
  exact ⟨by rw [d2, d1], by rw [o2, o1]; omega, w2⟩

theorem Adv.wf {b b' : Buf} {n : Nat} (h : Adv b b' n) : b'.WF := h.2.2
theorem Adv.le {b b' : Buf} {n : Nat} (h : Adv b b' n) : b.off + n ≤ b.data.length := by
  obtain ⟨d, o, w⟩ := h; unfold Buf.WF at w; rw [d, o] at w; exact w

theorem new_wf (d : List Nat) : (Buf.new d).WF := by simp [Buf.new, Buf.WF]

theorem remaining_spec (b : Buf) (h : b.WF) : Post b.remaining (fun r => r = b.data.length - b.off) := by
  unfold Buf.remaining; exact post_subU h

theorem getU8_spec (b : Buf) : Post b.getU8 (fun r => Adv b r.2 1) := by
  unfold Buf.getU8 bufGetU8Guard
  by_cases h : b.off < b.data.length
  · simp only [h, decide_true, if_true]
    rw [idx_ok h]
    simp [Post, Adv, Buf.WF]
    omega
  · simp [h, Post]

theorem peekU8_spec (b : Buf) : Post b.peekU8 (fun _ => True) := by
  unfold Buf.peekU8 bufPeekU8Guard
  by_cases h : b.off < b.data.length
  · simp [h, idx, Post]
  · simp [h, Post]

theorem getBytes_spec (b : Buf) (n : Nat) : Post (b.getBytes n) (fun r => Adv b r.2 n ∧ r.1.length = n) := by
  unfold Buf.getBytes bufGetBytesGuard
  by_cases h : b.off + n ≤ b.data.length
  · simp only [h, decide_true, if_true]
    rw [slice_ok (by omega) h]
    simp [Post, Adv, Buf.WF]
    omega
  · simp [h, Post]

theorem getBuffer_spec (b : Buf) (n : Nat) :
    Post (b.getBuffer n) (fun r => Adv b r.2 n ∧ r.1.WF ∧ r.1.off = 0 ∧ r.1.data.length = n) := by
  unfold Buf.getBuffer bufGetBufferGuard
  by_cases h : b.off + n ≤ b.data.length
  · simp only [h, decide_true, if_true]
    rw [slice_ok (by omega) h]
    simp [Post, Adv, Buf.WF]
    omega
  · simp [h, Post]

theorem getBe16_spec (b : Buf) : Post b.getBe16 (fun r => Adv b r.2 2) := by
  unfold Buf.getBe16
  refine Post.bind (getBytes_spec b 2) ?_
  rintro ⟨bs, b'⟩ ⟨ha, hl⟩
  refine Post.bind (post_exactLen hl) ?_
  intro a _; exact ha

theorem getBe32_spec (b : Buf) : Post b.getBe32 (fun r => Adv b r.2 4) := by
  unfold Buf.getBe32
  refine Post.bind (getBytes_spec b 4) ?_
  rintro ⟨bs, b'⟩ ⟨ha, hl⟩
  refine Post.bind (post_exactLen hl) ?_
  intro a _; exact ha

theorem getIpv4_spec (b : Buf) : Post b.getIpv4 (fun r => Adv b r.2 4) := by
  unfold Buf.getIpv4
  refine Post.bind (getBytes_spec b 4) ?_
  rintro ⟨bs, b'⟩ ⟨ha, hl⟩
  simp only at hl
  refine Post.bind (post_idx (by omega)) ?_; intro _ _
  refine Post.bind (post_idx (by omega)) ?_; intro _ _
  refine Post.bind (post_idx (by omega)) ?_; intro _ _
  refine Post.bind (post_idx (by omega)) ?_; intro _ _
  exact ha

theorem getTlv_spec (b : Buf) : Post b.getTlv (fun r => ∃ n, Adv b r.2 (2 + n)) := by
  unfold Buf.getTlv
  refine Post.bind (getBytes_spec b 2) ?_
  rintro ⟨tl, b1⟩ ⟨ha, hl⟩
  simp only at hl
  refine Post.bind (post_idx (by omega)) ?_; intro t _
  refine Post.bind (post_idx (by omega)) ?_; intro l _
  refine Post.bind (getBytes_spec b1 l) ?_
  rintro ⟨v, b2⟩ ⟨ha2, _⟩
  exact ⟨l, ha.trans ha2⟩

theorem getLabel_spec (b : Buf) : Post b.getLabel (fun r => Adv b r.2 (1 + r.1.length)) := by
  unfold Buf.getLabel
  refine Post.bind (getU8_spec b) ?_
  rintro ⟨l, b1⟩ ha
  refine Post.mono (getBytes_spec b1 l) ?_
  rintro ⟨v, b2⟩ ⟨ha2, hl⟩
  simp only at hl ⊢
  rw [hl]; exact ha.trans ha2

/-- the label loop: with fuel above the octets left it never runs out (each label consumes at least one) -/
theorem getDomain_spec (fuel : Nat) (b : Buf) (acc : List (List Nat)) (hw : b.WF)
    (hf : b.data.length - b.off < fuel) :
    Post (b.getDomain fuel acc) (fun r => ∃ n, 1 ≤ n ∧ Adv b r.2 n) := by
  induction fuel generalizing b acc with
  | zero => omega
  | succ fuel ih =>
    unfold Buf.getDomain
    refine Post.bind (getLabel_spec b) ?_
    rintro ⟨l, b1⟩ ha
    simp only at ha
    dsimp only
    split
    · exact Post.pure.mpr ⟨1 + l.length, by omega, ha⟩
    · have hle := ha.le
      obtain ⟨hd, ho, hw1⟩ := ha
      have : b1.data.length - b1.off < fuel := by rw [hd, ho]; omega
      refine Post.mono (ih b1 (l :: acc) hw1 this) ?_
      rintro r ⟨n, hn, ha2⟩
      exact ⟨1 + l.length + n, by omega, Adv.trans ⟨hd, ho, hw1⟩ ha2⟩

theorem getDomains_spec (fuel : Nat) (b : Buf) (acc : List (List (List Nat))) (hw : b.WF)
    (hf : b.data.length - b.off < fuel) :
    Post (b.getDomains fuel acc) (fun r => r.2.WF) := by
  induction fuel generalizing b acc with
  | zero => omega
  | succ fuel ih =>
    unfold Buf.getDomains
    refine Post.bind (remaining_spec b hw) ?_
    intro r hr
    split
    · exact Post.pure.mpr hw
    · rename_i hne
      refine Post.bind (getDomain_spec (b.data.length + 1) b [] hw (by omega)) ?_
      rintro ⟨d, b1⟩ ⟨n, hn, ha⟩
      have hle := ha.le
      obtain ⟨hd, ho, hw1⟩ := ha
      exact ih b1 (d :: acc) hw1 (by rw [hd, ho]; omega)

theorem setOffset_spec (b : Buf) (o : Nat) : Post (b.setOffset o) (fun r => r.WF ∧ r.data = b.data) := by
  unfold Buf.setOffset bufSetOffsetGuard
  by_cases h : o ≤ b.data.length
  · have h' := h
    simp [Buf.WF, h', Post]
  · simp [h, Post]

theorem skip_spec (b : Buf) (s : Nat) : Post (b.skip s) (fun r => r.WF ∧ r.data = b.data) := setOffset_spec b _

end Erbium.Cursor
