import ErbiumModel.Lemmas.DnsName
/-! The suffix tree of `push_prefix`: every node that a pointer may target decodes to the suffix
    it stands for; `pushName` writes a name that decodes back and keeps the tree valid (C14). -/
namespace Erbium.DnsWire

def ptrLimit : Nat := Generated.Dns.pointerLimit

/-- below 64 KiB the recorded offset is the offset itself, whichever way the source narrows it -/
theorem storeOff_of_lt {off : Nat} (h : off < 65536) : storeOff off = off := by
  unfold storeOff; split <;> omega

/-- when the source saturates, an offset a pointer cannot reach is never recorded as one it can -/
theorem storeOff_ge (h : Generated.Dns.offsetSaturates = true) {off : Nat} (hge : ptrLimit ≤ off) (hl : ptrLimit ≤ 65535) :
    ptrLimit ≤ storeOff off := by
  unfold storeOff; rw [if_pos h]; omega

/-- a tree node below suffix `suf` stands for `label :: suf`; if a pointer may target it, its
    offset decodes to that suffix with at most `|suffix| - 1` jumps -/
inductive TreeOK (buf : Bytes) : Name → Tree → Prop
  | mk (suf : Name) (label : Label) (data : Nat) (children : List Tree) :
      (data < ptrLimit → ∃ o, Dec buf data (label :: suf) suf.length o) →
      (∀ c ∈ children, TreeOK buf (label :: suf) c) →
      TreeOK buf suf (.node label data children)

theorem TreeOK.append {buf suf t} (h : TreeOK buf suf t) (ext : Bytes) : TreeOK (buf ++ ext) suf t := by
  induction h with
  | mk suf label data children hd _ ih =>
    exact .mk suf label data children (fun hl => let ⟨o, ho⟩ := hd hl; ⟨o, ho.append ext⟩) ih

/-- the children of an optional node are valid below `suf` -/
def Valid (buf : Bytes) (suf : Name) : Option Tree → Prop
  | none => True
  | some n => ∀ c ∈ n.children, TreeOK buf suf c

theorem Valid.append {buf suf node} (h : Valid buf suf node) (ext : Bytes) : Valid (buf ++ ext) suf node := by
  cases node with
  | none => trivial
  | some n => exact fun c hc => (h c hc).append ext

theorem findChildAux_spec (label : Label) (cs : List Tree) (i0 : Nat) (acc : Option (Nat × Tree)) (i : Nat) (c : Tree)
    (h : findChildAux label cs i0 acc = some (i, c)) :
    acc = some (i, c) ∨ (i0 ≤ i ∧ cs[i - i0]? = some c ∧ c.label = label ∧ c.data < ptrLimit) := by
  induction cs generalizing i0 acc with
  | nil => left; simpa [findChildAux] using h
  | cons x xs ih =>
    simp only [findChildAux] at h
    rcases ih _ _ h with hacc | ⟨h1, h2, h3, h4⟩
    · split at hacc
      · rename_i hx
        simp only [Option.some.injEq, Prod.mk.injEq] at hacc
        obtain ⟨rfl, rfl⟩ := hacc
        right
        simp only [Bool.and_eq_true, beq_iff_eq, decide_eq_true_eq] at hx
        exact ⟨Nat.le_refl _, by simp, hx.1, hx.2⟩
      · left; exact hacc
    · right
      refine ⟨by omega, ?_, h3, h4⟩
      have : i - i0 = (i - (i0 + 1)) + 1 := by omega
      rw [this]; simpa using h2

theorem findChild_spec {node : Option Tree} {label : Label} {i : Nat} {c : Tree}
    (h : findChild node label = some (i, c)) :
    ∃ n, node = some n ∧ n.children[i]? = some c ∧ c.label = label ∧ c.data < ptrLimit := by
  cases node with
  | none => simp [findChild] at h
  | some n =>
    simp only [findChild] at h
    rcases findChildAux_spec label n.children 0 none i c h with h | ⟨_, h2, h3, h4⟩
    · cases h
    · exact ⟨n, rfl, by simpa using h2, h3, h4⟩

/-- the octets of labels written out in full -/
def plain : Name → Bytes
  | [] => []
  | l :: rest => l.length :: l ++ plain rest

theorem plain_append (a b : Name) : plain (a ++ b) = plain a ++ plain b := by
  induction a with
  | nil => rfl
  | cons l ls ih => simp [plain, ih]

def WfLabel (l : Label) : Prop := 1 ≤ l.length ∧ l.length ≤ 63
def WfName (n : Name) : Prop := ∀ l ∈ n, WfLabel l

/-- every label takes at least two octets, so a name of at most 255 octets has at most 127 labels -/
theorem wireLen_ge {d : Name} (hd : WfName d) : 2 * d.length + 1 ≤ wireLen d := by
  induction d with
  | nil => simp [wireLen]
  | cons l ls ih =>
    have hl := hd l (by simp)
    have := ih (fun x hx => hd x (by simp [hx]))
    unfold WfLabel at hl
    simp only [wireLen, List.length_cons]
    omega

theorem pushLabel_wf {l : Label} (h : WfLabel l) : pushLabel l = some (l.length :: l) := by
  unfold pushLabel WfLabel at *
  have : ¬ (l.length = 0 ∨ l.length ≥ 64) := by omega
  rw [if_neg this]

/-- the chain of new nodes `push_prefix` returns when it had to write all the labels of `rl`
    (rightmost label first) starting at offset `off` -/
def chainOf : List Label → Nat → Option Tree
  | [], _ => none
  | [l], off => some (.node l (storeOff off) [])
  | l :: rest, off =>
    match chainOf rest off with
    | some r => some (.node l (storeOff (off + (plain rest.reverse).length)) [r])
    | none => none

theorem Dec.label' {pre post : Bytes} {l : Label} {rest : Name} {k o : Nat} (hl : WfLabel l)
    (h : Dec (pre ++ (l.length :: l ++ post)) (pre.length + 1 + l.length) rest k o) :
    Dec (pre ++ (l.length :: l ++ post)) pre.length (l :: rest) k o := by
  apply Dec.label hl _ _ h
  · have h1 : (pre ++ (l.length :: l ++ post)).drop pre.length = l.length :: l ++ post := by simp
    have h2 : (pre ++ (l.length :: l ++ post)).drop (pre.length + 1 + l.length) = post := by
      have : pre ++ (l.length :: l ++ post) = (pre ++ l.length :: l) ++ post := by simp
      rw [this, List.drop_left' (by simp; omega)]
    rw [h1, h2]; simp
  · simp; omega

/-- labels written in full, followed by something that decodes to `suf`, decode to the labels
    followed by `suf` -/
theorem dec_plain (w : Name) (hw : WfName w) (pre post : Bytes) (suf : Name) (k o : Nat)
    (htail : Dec (pre ++ plain w ++ post) (pre.length + (plain w).length) suf k o) :
    Dec (pre ++ plain w ++ post) pre.length (w ++ suf) k o := by
  induction w generalizing pre with
  | nil => simpa [plain] using htail
  | cons l ls ih =>
    have hl := hw l (by simp)
    have hls : WfName ls := fun x hx => hw x (by simp [hx])
    have e : pre ++ plain (l :: ls) ++ post = pre ++ (l.length :: l ++ (plain ls ++ post)) := by simp [plain]
    have e2 : pre ++ (l.length :: l ++ (plain ls ++ post)) = (pre ++ l.length :: l) ++ plain ls ++ post := by simp
    rw [e] at htail ⊢
    show Dec _ pre.length (l :: (ls ++ suf)) k o
    apply Dec.label' hl
    rw [e2]
    have hlen : pre.length + 1 + l.length = (pre ++ l.length :: l).length := by simp; omega
    rw [hlen]
    apply ih hls
    rw [← e2]
    have : (pre ++ l.length :: l).length + (plain ls).length = pre.length + (plain (l :: ls)).length := by
      simp [plain]; omega
    rw [this]; exact htail

end Erbium.DnsWire

namespace Erbium.DnsWire

theorem plain_singleton (l : Label) : plain [l] = l.length :: l := by simp [plain]

/-- the chain of nodes created for labels written in full is valid once what follows the labels
    decodes to the suffix below them -/
theorem chain_ok (rl : List Label) (hrl : WfName rl) :
    ∀ (suf : Name) (pre post : Bytes) (r : Tree) (k0 o : Nat),
      chainOf rl pre.length = some r →
      pre.length + (plain rl.reverse).length < 65536 →
      k0 ≤ suf.length → rl.length + suf.length ≤ limit →
      Dec (pre ++ plain rl.reverse ++ post) (pre.length + (plain rl.reverse).length) suf k0 o →
      TreeOK (pre ++ plain rl.reverse ++ post) suf r := by
  induction rl with
  | nil => intro suf pre post r k0 o h; simp [chainOf] at h
  | cons l rest ih =>
    intro suf pre post r k0 o hch hsz hk0 hlim htail
    have hl : WfLabel l := hrl l (by simp)
    have hrest : WfName rest := fun x hx => hrl x (by simp [hx])
    cases rest with
    | nil =>
      simp only [chainOf, Option.some.injEq] at hch
      subst hch
      simp only [List.reverse_cons, List.reverse_nil, List.nil_append] at *
      refine .mk suf l _ [] ?_ (by intro c hc; cases hc)
      intro _
      rw [storeOff_of_lt (by omega)]
      have := dec_plain [l] (by intro x hx; simp at hx; subst hx; exact hl) pre post suf k0 o htail
      exact ⟨o, this.mono hk0 (by simp at hlim; omega)⟩
    | cons l2 rest' =>
      simp only [chainOf] at hch
      cases hc : chainOf (l2 :: rest') pre.length with
      | none => simp [hc] at hch
      | some r' =>
        simp only [hc, Option.some.injEq] at hch
        subst hch
        -- wire order: (l2 :: rest').reverse then l
        have hw : (l :: l2 :: rest').reverse = (l2 :: rest').reverse ++ [l] := by simp
        have hpl : plain (l :: l2 :: rest').reverse = plain (l2 :: rest').reverse ++ (l.length :: l) := by
          rw [hw, plain_append, plain_singleton]
        rw [hpl] at hsz htail ⊢
        simp only [List.length_append, List.length_cons] at hsz htail hlim
        -- the node for `l` sits right after the deeper labels
        have hB : pre ++ (plain (l2 :: rest').reverse ++ (l.length :: l)) ++ post
            = (pre ++ plain (l2 :: rest').reverse) ++ plain [l] ++ post := by
          rw [plain_singleton]; simp
        have htop : Dec (pre ++ (plain (l2 :: rest').reverse ++ (l.length :: l)) ++ post)
            (pre.length + (plain (l2 :: rest').reverse).length) (l :: suf) suf.length o := by
          rw [hB]
          have hlen : pre.length + (plain (l2 :: rest').reverse).length = (pre ++ plain (l2 :: rest').reverse).length := by simp
          rw [hlen]
          have := dec_plain [l] (by intro x hx; simp at hx; subst hx; exact hl) (pre ++ plain (l2 :: rest').reverse) post suf k0 o
            (by rw [← hB, ← hlen, plain_singleton]; simp only [List.length_cons]
                have : pre.length + (plain (l2 :: rest').reverse).length + (l.length + 1) =
                       pre.length + ((plain (l2 :: rest').reverse).length + (l.length + 1)) := by omega
                rw [this]; exact htail)
          exact this.mono hk0 (by omega)
        refine .mk suf l _ [r'] ?_ ?_
        · intro _
          rw [storeOff_of_lt (by omega)]
          exact ⟨o, htop⟩
        · intro c hcm
          simp at hcm; subst hcm
          have hB2 : pre ++ (plain (l2 :: rest').reverse ++ (l.length :: l)) ++ post
              = pre ++ plain (l2 :: rest').reverse ++ ((l.length :: l) ++ post) := by simp
          rw [hB2]
          apply ih hrest (l :: suf) pre ((l.length :: l) ++ post) c suf.length o hc (by omega) (by simp) (by simp; omega)
          rw [← hB2]; exact htop

theorem pointerBytes_ok {d : Nat} (h : d < ptrLimit) :
    pointerBytes d = some [192 + d / 256, d % 256] ∧ d / 256 < 64 := by
  have hl : ptrLimit = 16384 := by decide
  have : d / 256 < 64 := by omega
  unfold pointerBytes
  simp [show ¬ d / 256 ≥ 64 by omega, this]

theorem getElem?_mid (pre : Bytes) (x : Nat) (post : Bytes) : (pre ++ x :: post)[pre.length]? = some x := by
  simp

/-- a pointer written at `pre.length` to a valid usable node decodes to that node's suffix -/
theorem dec_ptr_to_node (pre post : Bytes) (suf : Name) (label : Label) (d : Nat) (cs : List Tree)
    (hn : TreeOK pre suf (.node label d cs)) (hd : d < ptrLimit) (hk : suf.length + 1 ≤ limit) :
    Dec (pre ++ [192 + d / 256, d % 256] ++ post) pre.length (label :: suf) (suf.length + 1) (pre.length + 2) := by
  cases hn with
  | mk _ _ _ _ hdec _ =>
    obtain ⟨o, ho⟩ := hdec hd
    have hp := pointerBytes_ok hd
    apply Dec.pointer (target := d) _ _ hp.2 _ hk
    · exact o
    · simp
    · have : pre ++ [192 + d / 256, d % 256] ++ post = (pre ++ [192 + d / 256]) ++ (d % 256 :: post) := by simp
      rw [this]
      have hl : pre.length + 1 = (pre ++ [192 + d / 256]).length := by simp
      rw [hl]; exact getElem?_mid _ _ _
    · have : pre ++ [192 + d / 256, d % 256] ++ post = pre ++ ([192 + d / 256, d % 256] ++ post) := by simp
      rw [this]; exact ho.append _

end Erbium.DnsWire

namespace Erbium.DnsWire

@[simp] theorem Tree.withChildren_label (t : Tree) (c : List Tree) : (t.withChildren c).label = t.label := by cases t; rfl
@[simp] theorem Tree.withChildren_data (t : Tree) (c : List Tree) : (t.withChildren c).data = t.data := by cases t; rfl
@[simp] theorem Tree.withChildren_children (t : Tree) (c : List Tree) : (t.withChildren c).children = c := by cases t; rfl

theorem Tree.eta (t : Tree) : t = .node t.label t.data t.children := by cases t; rfl

theorem TreeOK.children_valid {buf suf t} (h : TreeOK buf suf t) : Valid buf (t.label :: suf) (some t) := by
  cases h with
  | mk _ _ _ _ _ hc => exact hc

theorem treeOK_of_parts {buf suf} (t t0 : Tree) (h0 : TreeOK buf suf t0) (hl : t.label = t0.label)
    (hd : t.data = t0.data) (hc : ∀ c ∈ t.children, TreeOK buf (t.label :: suf) c) : TreeOK buf suf t := by
  cases t with
  | node tl td tc =>
    cases h0 with
    | mk _ l d cs hdec _ =>
      simp only [Tree.label, Tree.data] at hl hd
      subst hl; subst hd
      exact .mk suf _ _ _ hdec hc

theorem mem_set {α} (l : List α) (i : Nat) (x y : α) (h : y ∈ l.set i x) : y = x ∨ y ∈ l := by
  induction l generalizing i with
  | nil => simp at h
  | cons a as ih =>
    cases i with
    | zero => simp at h; rcases h with h | h <;> simp [h]
    | succ j =>
      simp at h
      rcases h with h | h
      · simp [h]
      · rcases ih j h with h | h <;> simp [h]

/-- **the specification of `push_prefix`** (rightmost label first) -/
theorem pushPrefixR_spec (rl : List Label) (hrl : WfName rl) :
    ∀ (node : Option Tree) (suf : Name) (pre : Bytes) (bytes : Bytes) (ret node' : Option Tree),
      pushPrefixR rl node pre.length = some (bytes, ret, node') →
      Valid pre suf node → pre.length + bytes.length < 65536 → rl.length + suf.length ≤ limit →
      (∀ r, ret = some r → bytes = plain rl.reverse ∧ chainOf rl pre.length = some r ∧ node' = node) ∧
      (ret = none →
        (∃ k, k ≤ rl.length + suf.length ∧
          ∀ post, Dec (pre ++ bytes ++ post) pre.length (rl.reverse ++ suf) k (pre.length + bytes.length)) ∧
        Valid (pre ++ bytes) suf node' ∧
        ∃ n n', node = some n ∧ node' = some n' ∧ n'.label = n.label ∧ n'.data = n.data) := by
  induction rl with
  | nil => intro node suf pre bytes ret node' h; simp [pushPrefixR] at h
  | cons label rest ih =>
    intro node suf pre bytes ret node' h hv hsz hlim
    have hl : WfLabel label := hrl label (by simp)
    have hrest : WfName rest := fun x hx => hrl x (by simp [hx])
    cases rest with
    | nil =>
      simp only [pushPrefixR] at h
      cases hc : findChild node label with
      | none =>
        simp only [hc, pushLabel_wf hl, Option.map_some, Option.some.injEq, Prod.mk.injEq] at h
        obtain ⟨rfl, rfl, rfl⟩ := h
        refine ⟨?_, (by intro h; cases h)⟩
        intro r hr; cases hr
        exact ⟨by simp [plain], by simp [chainOf], rfl⟩
      | some ic =>
        obtain ⟨i, c⟩ := ic
        obtain ⟨n, rfl, hci, hcl, hcd⟩ := findChild_spec hc
        have hp := pointerBytes_ok hcd
        simp only [hc, hp.1, Option.map_some, Option.some.injEq, Prod.mk.injEq] at h
        obtain ⟨rfl, rfl, rfl⟩ := h
        refine ⟨(by intro r hr; cases hr), fun _ => ⟨⟨suf.length + 1, by simp; omega, ?_⟩, hv.append _, n, n, rfl, rfl, rfl, rfl⟩⟩
        intro post
        have hcm : c ∈ n.children := List.mem_of_getElem? hci
        have hok := hv c hcm
        rw [Tree.eta c, hcl] at hok
        have := dec_ptr_to_node pre post suf label c.data c.children hok hcd (by simp at hlim; omega)
        simpa using this
    | cons l2 rest' =>
      unfold pushPrefixR at h
      simp only at h
      cases hrec : pushPrefixR (l2 :: rest') (Option.map (fun x => x.2) (findChild node label)) pre.length with
      | none => simp [hrec] at h
      | some res =>
        obtain ⟨bytes0, ret0, child'⟩ := res
        simp only [hrec] at h
        cases hc : findChild node label with
        | none =>
          simp only [hc] at h hrec
          cases ret0 with
          | none => simp at h
          | some r =>
            simp only [pushLabel_wf hl, Option.map_some, Option.some.injEq, Prod.mk.injEq] at h
            obtain ⟨rfl, rfl, rfl⟩ := h
            have hsz0 : pre.length + bytes0.length < 65536 := by simp at hsz; omega
            have := (ih hrest none (label :: suf) pre bytes0 (some r) child' hrec trivial hsz0 (by simp at hlim ⊢; omega)).1 r rfl
            obtain ⟨hb0, hch0, _⟩ := this
            refine ⟨?_, (by intro h; cases h)⟩
            intro r' hr'
            simp only [Option.some.injEq] at hr'
            subst hr'
            refine ⟨?_, ?_, rfl⟩
            · rw [hb0, List.reverse_cons (a := label), plain_append, plain_singleton]
            · simp only [chainOf, hch0, hb0]
        | some ic =>
          obtain ⟨i, c0⟩ := ic
          obtain ⟨n, rfl, hci, hcl, hcd⟩ := findChild_spec hc
          simp only [hc, Option.map_some] at h hrec
          have hcm : c0 ∈ n.children := List.mem_of_getElem? hci
          have hok0 : TreeOK pre suf c0 := hv c0 hcm
          have hv0 : Valid pre (label :: suf) (some c0) := by
            have := hok0.children_valid; rw [hcl] at this; exact this
          cases ret0 with
          | none =>
            -- the deeper call emitted a pointer: the name is complete
            simp only [Option.some.injEq, Prod.mk.injEq] at h
            obtain ⟨rfl, rfl, rfl⟩ := h
            have IH := (ih hrest (some c0) (label :: suf) pre bytes0 none child' hrec hv0 hsz (by simp at hlim ⊢; omega)).2 rfl
            obtain ⟨⟨k, hk, hdec⟩, hvalid, n0, n0', hn0, hn0', hlab, hdat⟩ := IH
            simp only [Option.some.injEq] at hn0
            subst hn0
            subst hn0'
            refine ⟨(by intro r hr; cases hr), fun _ => ⟨⟨k, by simp at hk ⊢; omega, ?_⟩, ?_, n, _, rfl, rfl, by simp, by simp⟩⟩
            · intro post
              have := hdec post
              have e : (label :: l2 :: rest').reverse ++ suf = (l2 :: rest').reverse ++ (label :: suf) := by simp
              rw [e]
              exact this
            · -- the updated child keeps its label and offset; all other children are untouched
              intro c hcmem
              simp only [setChild, Option.map_some] at hcmem
              have hcmem' : c ∈ n.children.set i n0' := by simpa using hcmem
              rcases mem_set _ _ _ _ hcmem' with rfl | hold
              · apply treeOK_of_parts c c0 (hok0.append _) hlab hdat
                rw [hlab, hcl]; exact hvalid
              · exact (hv c hold).append _
          | some r =>
            -- the deeper call wrote labels in full; here a pointer to the existing node follows
            have IH := (ih hrest (some c0) (label :: suf) pre bytes0 (some r) child' hrec hv0
              (by
                by_cases hbad : (child'.getD c0).data / 256 ≥ 64 ∨ (child'.getD c0).data = 0
                · simp [hbad] at h
                · simp only [hbad, if_false] at h
                  cases hpb : pointerBytes (child'.getD c0).data with
                  | none => simp [hpb] at h
                  | some pb =>
                    simp only [hpb, Option.map_some, Option.some.injEq, Prod.mk.injEq] at h
                    obtain ⟨rfl, _, _⟩ := h
                    simp at hsz; omega)
              (by simp at hlim ⊢; omega)).1 r rfl
            obtain ⟨hb0, hch0, hchild⟩ := IH
            subst hchild
            simp only [Option.getD_some] at h
            have hp := pointerBytes_ok hcd
            by_cases hbad : c0.data / 256 ≥ 64 ∨ c0.data = 0
            · simp [hbad] at h
            · simp only [hbad, if_false, hp.1, Option.map_some, Option.some.injEq, Prod.mk.injEq] at h
              obtain ⟨rfl, rfl, rfl⟩ := h
              refine ⟨(by intro r' hr'; cases hr'), fun _ => ?_⟩
              have hkl : suf.length + 1 ≤ limit := by simp at hlim; omega
              have hokc : TreeOK pre suf (.node label c0.data c0.children) := by
                have := hok0; rw [Tree.eta c0, hcl] at this; exact this
              -- decoding of the pointer that follows the labels
              have hptr : ∀ post, Dec (pre ++ plain (l2 :: rest').reverse ++ ([192 + c0.data / 256, c0.data % 256] ++ post))
                  (pre.length + (plain (l2 :: rest').reverse).length) (label :: suf) (suf.length + 1)
                  (pre.length + (plain (l2 :: rest').reverse).length + 2) := by
                intro post
                have := dec_ptr_to_node (pre ++ plain (l2 :: rest').reverse) post suf label c0.data c0.children
                  (hokc.append _) hcd hkl
                simpa using this
              have hlen : (bytes0 ++ [192 + c0.data / 256, c0.data % 256]).length = (plain (l2 :: rest').reverse).length + 2 := by
                rw [hb0]; simp
              refine ⟨⟨suf.length + 1, by simp; omega, ?_⟩, ?_, n, _, rfl, rfl, by simp, by simp⟩
              · intro post
                have e : (label :: l2 :: rest').reverse ++ suf = (l2 :: rest').reverse ++ (label :: suf) := by simp
                rw [e, hb0]
                have hB : pre ++ (plain (l2 :: rest').reverse ++ [192 + c0.data / 256, c0.data % 256]) ++ post
                    = pre ++ plain (l2 :: rest').reverse ++ ([192 + c0.data / 256, c0.data % 256] ++ post) := by simp
                rw [hB]
                have := dec_plain (l2 :: rest').reverse (by intro x hx; exact hrest x (List.mem_reverse.mp hx)) pre
                  ([192 + c0.data / 256, c0.data % 256] ++ post) (label :: suf) (suf.length + 1) _ (hptr post)
                have ho : pre.length + (plain (l2 :: rest').reverse ++ [192 + c0.data / 256, c0.data % 256]).length
                    = pre.length + (plain (l2 :: rest').reverse).length + 2 := by simp; omega
                rw [ho]; exact this
              · intro c hcmem
                simp only [setChild, Option.map_some] at hcmem
                have hcmem' : c ∈ n.children.set i (c0.withChildren (c0.children ++ [r])) := by simpa using hcmem
                rcases mem_set _ _ _ _ hcmem' with rfl | hold
                · apply treeOK_of_parts _ c0 (hok0.append _) (by simp) (by simp)
                  intro c hc'
                  have hc'' : c ∈ c0.children ++ [r] := by simpa using hc'
                  have hlabel : (c0.withChildren (c0.children ++ [r])).label = label := by simpa using hcl
                  rw [hlabel]
                  rcases List.mem_append.mp hc'' with hold | hnew
                  · exact (hv0 c hold).append _
                  · simp at hnew; subst hnew
                    rw [hb0]
                    have hB : pre ++ (plain (l2 :: rest').reverse ++ [192 + c0.data / 256, c0.data % 256])
                        = pre ++ plain (l2 :: rest').reverse ++ [192 + c0.data / 256, c0.data % 256] := by simp
                    rw [hB]
                    apply chain_ok (l2 :: rest') hrest (label :: suf) pre _ c (suf.length + 1) _ hch0
                      (by rw [hb0] at hsz; simp at hsz ⊢; omega) (by simp) (by simp at hlim ⊢; omega)
                    have := hptr []
                    simpa using this
                · exact (hv c hold).append _

end Erbium.DnsWire

namespace Erbium.DnsWire

/-- the whole offsets tree is valid for the buffer written so far -/
def RootOK (buf : Bytes) (t : Tree) : Prop := Valid buf [] (some t)

theorem RootOK.append {buf t} (h : RootOK buf t) (ext : Bytes) : RootOK (buf ++ ext) t := Valid.append h ext

theorem rootOK_root (buf : Bytes) : RootOK buf root := by
  intro c hc; simp [root, Tree.children] at hc

/-- **`push_compressed_domain` is correct**: the name it writes at the end of a buffer decodes
    back to the name (from any continuation of the buffer), the stream continues right after it,
    and the offsets tree stays valid. -/
theorem pushName_spec (d : Name) (hd : WfName d) (hlen : d.length ≤ limit) (hw : wireLen d ≤ Generated.Dns.nameOctetLimit)
    (t t' : Tree) (pre bytes : Bytes)
    (h : pushName d t pre.length = some (bytes, t')) (ht : RootOK pre t)
    (hsz : pre.length + bytes.length < 65536) :
    (∀ post, getDomain (pre ++ bytes ++ post) pre.length = .ok (d, pre.length + bytes.length)) ∧
    RootOK (pre ++ bytes) t' := by
  unfold pushName at h
  by_cases hemp : d.isEmpty = true
  · simp only [hemp, if_true, Option.some.injEq, Prod.mk.injEq] at h
    obtain ⟨rfl, rfl⟩ := h
    have hd0 : d = [] := by simpa using hemp
    subst hd0
    refine ⟨?_, ht.append _⟩
    intro post
    apply getDomain_of_dec (k := 0) _ (by simp) (by simp [wireLen]; decide)
    have : (pre ++ [0] ++ post)[pre.length]? = some 0 := by simp
    simpa using Dec.zero this 0 (Nat.zero_le _)
  · simp only [hemp, Bool.false_eq_true, if_false] at h
    have hrl : WfName d.reverse := fun l hl => hd l (List.mem_reverse.mp hl)
    cases hp : pushPrefixR d.reverse (some t) pre.length with
    | none => simp [hp] at h
    | some res =>
      obtain ⟨bytes0, ret, node'⟩ := res
      simp only [hp] at h
      cases ret with
      | none =>
        simp only [Option.some.injEq, Prod.mk.injEq] at h
        obtain ⟨rfl, rfl⟩ := h
        have S := (pushPrefixR_spec d.reverse hrl (some t) [] pre bytes0 none node' hp ht hsz (by simpa using hlen)).2 rfl
        obtain ⟨⟨k, hk, hdec⟩, hvalid, n, n', hn, hn', _, _⟩ := S
        subst hn'
        refine ⟨?_, by simpa [RootOK] using hvalid⟩
        intro post
        have := hdec post
        simp only [List.reverse_reverse, List.append_nil] at this
        exact getDomain_of_dec this hlen hw
      | some r =>
        simp only [Option.some.injEq, Prod.mk.injEq] at h
        obtain ⟨rfl, rfl⟩ := h
        have hsz0 : pre.length + bytes0.length < 65536 := by simp at hsz; omega
        have S := (pushPrefixR_spec d.reverse hrl (some t) [] pre bytes0 (some r) node' hp ht hsz0 (by simpa using hlen)).1 r rfl
        obtain ⟨hb0, hch, hnode⟩ := S
        subst hnode
        simp only [List.reverse_reverse] at hb0
        subst hb0
        have hzero : ∀ post, Dec (pre ++ plain d ++ ([0] ++ post)) (pre.length + (plain d).length) [] 0
            (pre.length + (plain d).length + 1) := by
          intro post
          have : (pre ++ plain d ++ ([0] ++ post))[pre.length + (plain d).length]? = some 0 := by
            have : pre.length + (plain d).length = (pre ++ plain d).length := by simp
            rw [this]; simp
          exact Dec.zero this 0 (Nat.zero_le _)
        refine ⟨?_, ?_⟩
        · intro post
          have := dec_plain d hd pre ([0] ++ post) [] 0 _ (hzero post)
          simp only [List.append_nil] at this
          have hB : pre ++ (plain d ++ [0]) ++ post = pre ++ plain d ++ ([0] ++ post) := by simp
          have ho : pre.length + (plain d ++ [0]).length = pre.length + (plain d).length + 1 := by simp; omega
          rw [hB, ho]
          exact getDomain_of_dec this hlen hw
        · intro c hc
          simp only [Option.getD_some, Tree.withChildren_children] at hc
          rcases List.mem_append.mp hc with hold | hnew
          · exact (ht c hold).append _
          · simp at hnew; subst hnew
            have hB : pre ++ (plain d ++ [0]) = pre ++ plain d.reverse.reverse ++ [0] := by simp
            rw [hB]
            apply chain_ok d.reverse hrl [] pre [0] c 0 _ hch (by simpa using hsz0) (Nat.le_refl _) (by simpa using hlen)
            have := hzero []
            simpa using this

end Erbium.DnsWire
