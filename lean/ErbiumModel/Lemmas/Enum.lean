/-! Exhaustive enumeration of `[lo, lo + 2^d)` by binary splitting, so that the kernel can check a
    decidable predicate on all 65536 values of a 16-bit field without deep recursion. -/
namespace Erbium.Enum

def checkRange (p : Nat → Bool) : Nat → Nat → Bool
  | 0, lo => p lo
  | d + 1, lo => checkRange p d lo && checkRange p d (lo + 2 ^ d)

theorem checkRange_sound (p : Nat → Bool) :
    ∀ (d lo : Nat), checkRange p d lo = true → ∀ f, lo ≤ f → f < lo + 2 ^ d → p f = true := by
  intro d
  induction d with
  | zero =>
    intro lo h f h1 h2
    have : f = lo := by simp at h2; omega
    subst this; exact h
  | succ d ih =>
    intro lo h f h1 h2
    simp only [checkRange, Bool.and_eq_true] at h
    by_cases hf : f < lo + 2 ^ d
    · exact ih lo h.1 f h1 hf
    · exact ih (lo + 2 ^ d) h.2 f (by omega) (by rw [Nat.pow_succ] at h2; omega)

theorem forall_lt_two_pow (p : Nat → Bool) (d : Nat) (h : checkRange p d 0 = true) :
    ∀ f, f < 2 ^ d → p f = true :=
  fun f hf => checkRange_sound p d 0 h f (Nat.zero_le _) (by simpa using hf)

end Erbium.Enum
