import ErbiumModel.Lemmas.Cursor
import ErbiumModel.Model.DhcpSafe
/-! No DHCP packet, option value or hardware address makes the DHCP decoders panic. -/
namespace Erbium.DhcpSafe
open Erbium.Safe Erbium.Cursor Erbium.Generated.Pkt

def Bytes (l : List Nat) : Prop := ∀ x ∈ l, x < 256

theorem parseOptions_spec (fuel : Nat) (b : Buf) (acc : List (Nat × List Nat)) (hw : b.WF)
    (hf : b.data.length - b.off < fuel) : Post (parseOptions fuel b acc) (fun _ => True) := by
  induction fuel generalizing b acc with
  | zero => omega
  | succ fuel ih =>
    unfold parseOptions
    refine Post.bind (Post.orErr _ (getU8_spec b)) ?_
    rintro ⟨x, b1⟩ h1
    simp only at h1
    have hle1 := h1.le
    dsimp only
    split
    · obtain ⟨hd, ho, hw1⟩ := h1
      exact ih b1 acc hw1 (by rw [hd, ho]; omega)
    · split
      · trivial
      · refine Post.bind (Post.orErr _ (getU8_spec b1)) ?_
        rintro ⟨l, b2⟩ h2
        refine Post.bind (Post.orErr _ (getBytes_spec b2 l)) ?_
        rintro ⟨v, b3⟩ ⟨h3, _⟩
        simp only at h2 h3
        have ha := (h1.trans h2).trans h3
        have hle := ha.le
        obtain ⟨hd, ho, hw3⟩ := ha
        exact ih b3 _ hw3 (by rw [hd, ho]; omega)

theorem parse_spec (pkt : List Nat) : Post (parse pkt) (fun _ => True) := by
  unfold parse
  refine Post.bind (Post.orErr _ (getU8_spec _)) ?_; rintro ⟨op, b1⟩ h1
  refine Post.bind (Post.orErr _ (getU8_spec _)) ?_; rintro ⟨htype, b2⟩ h2
  refine Post.bind (Post.orErr _ (getU8_spec _)) ?_; rintro ⟨hlen, b3⟩ h3
  refine Post.bind (Post.orErr _ (getU8_spec _)) ?_; rintro ⟨hops, b4⟩ h4
  refine Post.bind (Post.orErr _ (getBe32_spec _)) ?_; rintro ⟨xid, b5⟩ h5
  refine Post.bind (Post.orErr _ (getBe16_spec _)) ?_; rintro ⟨secs, b6⟩ h6
  refine Post.bind (Post.orErr _ (getBe16_spec _)) ?_; rintro ⟨flags, b7⟩ h7
  refine Post.bind (Post.orErr _ (getIpv4_spec _)) ?_; rintro ⟨ci, b8⟩ h8
  refine Post.bind (Post.orErr _ (getIpv4_spec _)) ?_; rintro ⟨yi, b9⟩ h9
  refine Post.bind (Post.orErr _ (getIpv4_spec _)) ?_; rintro ⟨si, b10⟩ h10
  refine Post.bind (Post.orErr _ (getIpv4_spec _)) ?_; rintro ⟨gi, b11⟩ h11
  refine Post.bind (Post.orErr _ (getBytes_spec _ 16)) ?_; rintro ⟨chaddr, b12⟩ ⟨h12, hcl⟩
  dsimp only
  split
  · trivial
  · rename_i hh
    have hhl : hlen ≤ 16 := by
      simp [dhcpHlenChecked] at hh; simp only at hcl; omega
    refine Post.bind (Post.orErr _ (getBytes_spec _ 64)) ?_; rintro ⟨sname, b13⟩ ⟨h13, _⟩
    refine Post.bind (Post.orErr _ (getBytes_spec _ 128)) ?_; rintro ⟨file, b14⟩ ⟨h14, _⟩
    refine Post.bind (Post.orErr _ (getBe32_spec _)) ?_; rintro ⟨magic, b15⟩ h15
    dsimp only
    split
    · trivial
    · simp only at h1 h2 h3 h4 h5 h6 h7 h8 h9 h10 h11 h12 h13 h14 h15
      have ha := ((((((((((((((h1.trans h2).trans h3).trans h4).trans h5).trans h6).trans h7).trans h8).trans h9).trans
        h10).trans h11).trans h12).trans h13).trans h14).trans h15)
      have hd : b15.data.length = pkt.length := by rw [ha.1]; rfl
      refine Post.bind (parseOptions_spec _ b15 [] ha.wf (by omega)) ?_
      intro opts _
      refine Post.bind (post_slice (Nat.zero_le _) (by simp only at hcl; omega)) ?_
      intro _ _; trivial

/-- any hardware-address length, including 0..5, is handled -/
theorem toArray_spec (mac : List Nat) : Post (toArray mac) (fun _ => True) := by
  unfold toArray
  simp only [dhcpToArrayChecked, if_true]
  split <;> trivial

theorem netmask_spec (len : Nat) (h : len < 64) : Post (netmask len) (fun _ => True) := by
  unfold netmask shrU
  simp [h, Post]

/-- any prefix-length octet 0..255 is handled: lengths above 32 are an `InvalidSubnet` error -/
theorem subnetNew_spec (addr len : Nat) : Post (subnetNew addr len) (fun _ => True) := by
  unfold subnetNew
  simp only [subnetPrefixLenMax]
  split
  · trivial
  · rename_i h
    refine Post.bind (netmask_spec len (by omega)) ?_
    intro nm _
    split <;> trivial

theorem decodeRoutes_spec (fuel : Nat) (v : List Nat) (acc : List (Nat × Nat × Nat)) (hf : v.length < fuel) :
    Post (decodeRoutes fuel v acc) (fun _ => True) := by
  induction fuel generalizing v acc with
  | zero => omega
  | succ fuel ih =>
    unfold decodeRoutes
    split
    · trivial
    · rename_i len a b c d rest
      have hs : Post (subnetNew (be4 a b c d) len).toOpt (fun _ => True) :=
        Post.of_noPanic (noPanic_toOpt (subnetNew_spec _ _).noPanic)
      refine Post.bind hs ?_
      intro r _
      split
      · trivial
      · split
        · rename_i e f g h rest'
          exact ih rest' _ (by simp at hf; omega)
        · trivial
    · trivial

theorem foldU16_step (acc x : Nat) (hx : x < 256) : (acc * 256) % 2 ^ 16 + x < 2 ^ 16 := by
  have : (2:Nat) ^ 16 = 65536 := by decide
  rw [this]; omega

theorem foldU32_step (acc x : Nat) (hx : x < 256) : (acc * 256) % 2 ^ 32 + x < 2 ^ 32 := by
  have : (2:Nat) ^ 32 = 4294967296 := by decide
  rw [this]; omega

theorem foldlM_post {α : Type} (f : α → Nat → Out α) (v : List Nat) (a : α)
    (h : ∀ a x, x ∈ v → Post (f a x) (fun _ => True)) : Post (v.foldlM f a) (fun _ => True) := by
  induction v generalizing a with
  | nil => trivial
  | cons x xs ih =>
    rw [List.foldlM_cons]
    refine Post.bind (h a x (List.mem_cons_self ..)) ?_
    intro a' _
    exact ih a' (fun a x hx => h a x (List.mem_cons_of_mem _ hx))

/-- the byte fold never overflows a 16- or 32-bit accumulator, whatever the length of the option value -/
theorem foldU16_spec (v : List Nat) (hb : Bytes v) : Post (foldU 16 v) (fun _ => True) := by
  unfold foldU
  apply foldlM_post
  intro a x hx
  simp [fitU, foldU16_step a x (hb x hx), Post]

theorem foldU32_spec (v : List Nat) (hb : Bytes v) : Post (foldU 32 v) (fun _ => True) := by
  unfold foldU
  apply foldlM_post
  intro a x hx
  simp [fitU, foldU32_step a x (hb x hx), Post]

theorem foldI32_spec (v : List Nat) (hb : Bytes v) : Post (foldI32 v) (fun _ => True) := by
  unfold foldI32
  apply foldlM_post
  intro a x hx
  have hx' := hb x hx
  have h2 : (2:Nat) ^ 32 = 4294967296 := by decide
  have h3 : (2:Nat) ^ 31 = 2147483648 := by decide
  dsimp only
  split
  · rename_i h
    rw [h2, h3] at h
    omega
  · trivial

/-- **every** typed option decoder, on **every** option value: no panic -/
theorem decode_spec (ty : String) (v : List Nat) (hb : Bytes v) : Post (decode ty v) (fun _ => True) := by
  unfold decode
  split
  · trivial
  · trivial
  · trivial
  · split
    · trivial
    · rename_i h
      have hl : v.length = 4 := by simpa using h
      refine Post.bind (post_idx (by omega)) ?_; intro _ _
      refine Post.bind (post_idx (by omega)) ?_; intro _ _
      refine Post.bind (post_idx (by omega)) ?_; intro _ _
      refine Post.bind (post_idx (by omega)) ?_; intro _ _
      trivial
  · trivial
  · exact Post.bind (foldI32_spec v hb) (fun _ _ => trivial)
  · split <;> trivial
  · split <;> trivial
  · exact Post.bind (foldU16_spec v hb) (fun _ _ => trivial)
  · exact Post.bind (foldU16_spec v hb) (fun _ _ => trivial)
  · exact Post.bind (foldU32_spec v hb) (fun _ _ => trivial)
  · exact Post.bind (foldU32_spec v hb) (fun _ _ => trivial)
  · refine Post.bind (decodeRoutes_spec _ v [] (by omega)) ?_
    intro r _
    split <;> trivial
  · have hd : Post ((Buf.new v).getDomains (v.length + 1) []).toOpt (fun _ => True) :=
      Post.of_noPanic (noPanic_toOpt (getDomains_spec _ _ [] (new_wf v) (by simp [Buf.new])).noPanic)
    refine Post.bind hd ?_
    intro r _
    split <;> trivial
  · trivial

end Erbium.DhcpSafe
