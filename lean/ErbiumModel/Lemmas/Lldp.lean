import ErbiumModel.Lemmas.Cursor
import ErbiumModel.Model.Lldp
/-! The LLDP decoder never panics on any frame and its TLV loop terminates within the frame length. -/
namespace Erbium.Lldp
open Erbium.Safe Erbium.Cursor Erbium.Generated.Pkt

theorem getRest_spec (b : Buf) (hw : b.WF) : Post (getRest b) (fun _ => True) := by
  unfold getRest
  refine Post.bind (remaining_spec b hw) ?_
  intro r _
  exact Post.mono (Post.orErr _ (getBytes_spec b r)) (fun _ _ => trivial)

theorem getText_spec (b : Buf) (hw : b.WF) : Post (getText b) (fun _ => True) := by
  unfold getText
  refine Post.bind (getRest_spec b hw) ?_
  rintro ⟨v, b'⟩ _
  dsimp only
  split <;> trivial

theorem parseId_spec (mk : Nat → List Nat → Tlv) (p : Buf) : Post (parseId mk p) (fun _ => True) := by
  unfold parseId
  refine Post.bind (Post.orErr _ (getU8_spec p)) ?_
  rintro ⟨st, p1⟩ h1
  dsimp only
  split
  · refine Post.bind (getRest_spec p1 h1.wf) ?_
    rintro ⟨id, _⟩ _; trivial
  · trivial

theorem parseTtl_spec (p : Buf) (hw : p.WF) : Post (parseTtl p) (fun _ => True) := by
  unfold parseTtl
  refine Post.bind (remaining_spec p hw) ?_
  intro r _
  split
  · trivial
  · refine Post.bind (Post.orErr _ (getBe16_spec p)) ?_
    rintro ⟨n, _⟩ _; trivial

theorem parseCaps_spec (p : Buf) (hw : p.WF) : Post (parseCaps p) (fun _ => True) := by
  unfold parseCaps
  refine Post.bind (remaining_spec p hw) ?_
  intro r _
  split
  · trivial
  · refine Post.bind (Post.orErr _ (getBe16_spec p)) ?_
    rintro ⟨a, p1⟩ _
    refine Post.bind (Post.orErr _ (getBe16_spec p1)) ?_
    rintro ⟨b, _⟩ _; trivial

/-- a zero length octet is reported, not subtracted from -/
theorem mgmtLen_spec (l0 : Nat) : Post (mgmtLen l0) (fun _ => True) := by
  unfold mgmtLen
  simp only [lldpMgmtLenChecked, if_true]
  split <;> trivial

theorem parseMgmt_spec (p : Buf) : Post (parseMgmt p) (fun _ => True) := by
  unfold parseMgmt
  refine Post.bind (Post.orErr _ (getU8_spec p)) ?_
  rintro ⟨l0, p1⟩ h1
  refine Post.bind (mgmtLen_spec l0) ?_
  intro alen _
  refine Post.bind (Post.orErr _ (getU8_spec p1)) ?_
  rintro ⟨af, p2⟩ _
  dsimp only
  split
  · trivial
  · refine Post.bind (Post.orErr _ (getBytes_spec p2 alen)) ?_
    rintro ⟨addr, p3⟩ _
    refine Post.bind (Post.orErr _ (getU8_spec p3)) ?_
    rintro ⟨ns, p4⟩ _
    refine Post.bind (Post.orErr _ (getBe32_spec p4)) ?_
    rintro ⟨ifn, p5⟩ _
    refine Post.bind (Post.orErr _ (getU8_spec p5)) ?_
    rintro ⟨ol, p6⟩ _
    refine Post.bind (Post.orErr _ (getBytes_spec p6 ol)) ?_
    rintro ⟨oid, _⟩ _; trivial

theorem parseOrg_spec (p : Buf) : Post (parseOrg p) (fun _ => True) := by
  unfold parseOrg
  refine Post.bind (Post.orErr _ (getBytes_spec p 3)) ?_
  rintro ⟨oui, p1⟩ ⟨h1, hl⟩
  refine Post.bind (Post.orErr _ (getU8_spec p1)) ?_
  rintro ⟨st, p2⟩ h2
  refine Post.bind (getRest_spec p2 h2.wf) ?_
  rintro ⟨v, _⟩ _
  refine Post.bind (post_exactLen hl) ?_
  intro _ _; trivial

theorem parseUnknown_spec (ty : Nat) (p : Buf) (hw : p.WF) : Post (parseUnknown ty p) (fun _ => True) := by
  unfold parseUnknown
  refine Post.bind (getRest_spec p hw) ?_
  rintro ⟨v, _⟩ _; trivial

theorem parseBody_spec (ty : Nat) (p : Buf) (hw : p.WF) : Post (parseBody ty p) (fun _ => True) := by
  unfold parseBody
  split
  · trivial
  split
  · exact parseId_spec _ p
  split
  · exact parseId_spec _ p
  split
  · exact parseTtl_spec p hw
  split
  · exact Post.bind (getText_spec p hw) (fun _ _ => trivial)
  split
  · exact Post.bind (getText_spec p hw) (fun _ _ => trivial)
  split
  · exact Post.bind (getText_spec p hw) (fun _ _ => trivial)
  split
  · exact parseCaps_spec p hw
  split
  · exact parseMgmt_spec p
  split
  · exact parseOrg_spec p
  · exact parseUnknown_spec ty p hw

theorem parseTlv_spec (b : Buf) : Post (parseTlv b) (fun r => ∃ n, 2 ≤ n ∧ Adv b r.2 n) := by
  unfold parseTlv
  refine Post.bind (Post.orErr _ (getU8_spec b)) ?_
  rintro ⟨t0, b1⟩ h1
  refine Post.bind (Post.orErr _ (getU8_spec b1)) ?_
  rintro ⟨len, b2⟩ h2
  refine Post.bind (Post.orErr _ (getBuffer_spec b2 len)) ?_
  rintro ⟨p, b3⟩ ⟨h3, hpw, _, _⟩
  refine Post.bind (parseBody_spec _ p hpw) ?_
  intro t _
  exact ⟨1 + 1 + len, by omega, (h1.trans h2).trans h3⟩

theorem parsePdu_spec (fuel : Nat) (b : Buf) (acc : List Tlv) (hw : b.WF)
    (hf : b.data.length - b.off < fuel) : Post (parsePdu fuel b acc) (fun _ => True) := by
  induction fuel generalizing b acc with
  | zero => omega
  | succ fuel ih =>
    unfold parsePdu
    refine Post.bind (remaining_spec b hw) ?_
    intro r _
    split
    · trivial
    · refine Post.bind (parseTlv_spec b) ?_
      rintro ⟨t, b1⟩ ⟨n, hn, ha⟩
      refine Post.bind (post_subU (by omega)) ?_
      intro _ _
      split
      · trivial
      · have hle := ha.le
        obtain ⟨hd, ho, hw1⟩ := ha
        exact ih b1 _ hw1 (by rw [hd, ho]; omega)

theorem decodeFrame_spec (frame : List Nat) : Post (decodeFrame frame) (fun _ => True) := by
  unfold decodeFrame
  have h : Post (if lldpFrameChecked = true then (if frame.length < lldpHeaderLen then Out.err "eoi" else pure (frame.drop lldpHeaderLen))
             else slice "lldp msg.buffer[14..]" frame lldpHeaderLen frame.length) (fun _ => True) := by
    simp only [lldpFrameChecked, if_true]
    split <;> trivial
  refine Post.bind h ?_
  intro pdu _
  exact parsePdu_spec _ _ [] (new_wf pdu) (by simp [Buf.new])

end Erbium.Lldp
