import ErbiumModel.Lemmas.DnsMessage
/-! Truncated responses: what `serialise_with_size` returns when a record does not fit is the complete
    encoding of the message cut to the records written (TC set, counts rewritten, EDNS record gone), so the
    message-level round trip applies to it (C04, C03). -/
namespace Erbium.DnsWire

/-- whatever a section run returns extends the buffer it started from -/
theorem pushSection_ext' (size : Nat) (rs : List RR) :
    ∀ (bf : Bytes) (tt : Tree) (nn : Nat) (bf' : Bytes) (tt' : Tree) (nn' : Nat) (tr : Bool),
      pushSection size rs bf tt nn = some (bf', tt', nn', tr) → ∃ ext, bf' = bf ++ ext := by
  induction rs with
  | nil =>
    intro bf tt nn bf' tt' nn' tr hh
    simp only [pushSection, Option.some.injEq, Prod.mk.injEq] at hh
    exact ⟨[], by simp [hh.1]⟩
  | cons r rs ih =>
    intro bf tt nn bf' tt' nn' tr hh
    unfold pushSection at hh
    cases hp : pushRR r tt bf.length with
    | none => simp [hp] at hh
    | some r1 =>
      obtain ⟨b, t1⟩ := r1
      simp only [hp] at hh
      split at hh
      · simp only [Option.some.injEq, Prod.mk.injEq] at hh
        exact ⟨[], by simp [hh.1]⟩
      · obtain ⟨e, he⟩ := ih _ _ _ _ _ _ _ hh
        exact ⟨b ++ e, by rw [he, List.append_assoc]⟩

/-- a section run depends on the buffer only through its length -/
theorem pushSection_reheader (size : Nat) (rs : List RR) :
    ∀ (bf bf2 ext : Bytes) (tt : Tree) (nn : Nat) (tt' : Tree) (nn' : Nat) (tr : Bool), bf.length = bf2.length →
      pushSection size rs bf tt nn = some (bf ++ ext, tt', nn', tr) →
      pushSection size rs bf2 tt nn = some (bf2 ++ ext, tt', nn', tr) := by
  induction rs with
  | nil =>
    intro bf bf2 ext tt nn tt' nn' tr hl hh
    simp only [pushSection, Option.some.injEq, Prod.mk.injEq] at hh ⊢
    obtain ⟨h1, h2, h3, h4⟩ := hh
    have : ext = [] := by simpa using h1.symm
    subst this
    exact ⟨by simp, h2, h3, h4⟩
  | cons r rs ih =>
    intro bf bf2 ext tt nn tt' nn' tr hl hh
    unfold pushSection at hh ⊢
    rw [← hl]
    cases hp : pushRR r tt bf.length with
    | none => simp [hp] at hh
    | some r1 =>
      obtain ⟨b, t1⟩ := r1
      simp only [hp] at hh ⊢
      have hlen : (bf2 ++ b).length = (bf ++ b).length := by simp [hl]
      rw [hlen]
      split at hh
      · rename_i hgt
        simp only [Option.some.injEq, Prod.mk.injEq] at hh
        obtain ⟨h1, h2, h3, h4⟩ := hh
        have : ext = [] := by simpa using h1.symm
        subst this
        simp only [hgt, if_true, Option.some.injEq, Prod.mk.injEq]
        exact ⟨by simp, h2, h3, h4⟩
      · rename_i hgt
        simp only [hgt, if_false]
        obtain ⟨e, he⟩ := pushSection_ext' size rs _ _ _ _ _ _ _ hh
        have hext : ext = b ++ e := by
          have : bf ++ ext = bf ++ (b ++ e) := by rw [he, List.append_assoc]
          exact List.append_cancel_left this
        subst hext
        have hh' : pushSection size rs (bf ++ b) t1 (nn + 1) = some ((bf ++ b) ++ e, tt', nn', tr) := by
          rw [hh]; simp [List.append_assoc]
        have := ih (bf ++ b) (bf2 ++ b) e t1 (nn + 1) tt' nn' tr (by simp [hl]) hh'
        rw [this]; simp [List.append_assoc]

/-- a section that stopped early wrote, completely, the records before the one that did not fit -/
theorem pushSection_take (size : Nat) (rs : List RR) :
    ∀ (bf : Bytes) (tt : Tree) (nn : Nat) (bf' : Bytes) (tt' : Tree) (nn' : Nat),
      pushSection size rs bf tt nn = some (bf', tt', nn', true) →
      ∃ k tt'', k < rs.length ∧ nn' = nn + k ∧ pushSection size (rs.take k) bf tt nn = some (bf', tt'', nn', false) := by
  induction rs with
  | nil =>
    intro bf tt nn bf' tt' nn' hh
    simp [pushSection] at hh
  | cons r rs ih =>
    intro bf tt nn bf' tt' nn' hh
    unfold pushSection at hh
    cases hp : pushRR r tt bf.length with
    | none => simp [hp] at hh
    | some r1 =>
      obtain ⟨b, t1⟩ := r1
      simp only [hp] at hh
      split at hh
      · simp only [Option.some.injEq, Prod.mk.injEq] at hh
        obtain ⟨rfl, _, rfl, _⟩ := hh
        exact ⟨0, tt, by simp, by simp, by simp [pushSection]⟩
      · rename_i hgt
        obtain ⟨k, t2, hk, hn, hrec⟩ := ih _ _ _ _ _ _ hh
        refine ⟨k + 1, t2, by simp; omega, by omega, ?_⟩
        simp only [List.take_succ_cons]
        unfold pushSection
        simp only [hp, hgt, if_false]
        exact hrec


/-- the message a truncated response stands for: sections cut to the records written, TC set, and — the EDNS
    pseudo-record is written last, so it is never among them — the EDNS fields at their defaults -/
def truncated (p : Pkt) (ka kn kd : Nat) : Pkt :=
  { p with tc := true, answer := p.answer.take ka, nameserver := p.nameserver.take kn,
           additional := p.additional.take kd, edns := none, ednsVer := none, bufsize := 512, ednsDo := false,
           rcode := p.rcode % 16 }

theorem additional_le (p : Pkt) : p.additional.length ≤ (additionalOf p).length := by
  unfold additionalOf; split <;> simp

theorem truncated_wf {p : Pkt} (hw : WfPkt p) (ka kn kd : Nat) : WfPkt (truncated p ka kn kd) where
  qid := hw.qid
  opcode := hw.opcode
  rcode := by show p.rcode % 16 < 4096; omega
  qtype := hw.qtype
  qclass := hw.qclass
  qname := hw.qname
  an := fun rr hrr => hw.an rr (List.mem_of_mem_take hrr)
  ns := fun rr hrr => hw.ns rr (List.mem_of_mem_take hrr)
  ad := fun rr hrr => hw.ad rr (List.mem_of_mem_take hrr)
  anN := by show (p.answer.take ka).length < 65536; have := hw.anN; simp only [List.length_take]; omega
  nsN := by show (p.nameserver.take kn).length < 65536; have := hw.nsN; simp only [List.length_take]; omega
  adN := by
    show (p.additional.take kd).length < 65536
    have := hw.adN; have := additional_le p
    simp only [List.length_take]; omega
  bufsize := ⟨Nat.le_refl _, by show (512 : Nat) < 65536; decide⟩
  edns := Or.inr ⟨rfl, rfl, rfl, rfl, by show p.rcode % 16 < 16; omega⟩

theorem flag1_tc (rd tc aa qr : Bool) (op : Fin 16) :
    ((b2n rd) ||| (if tc then 2 else 0) ||| (if aa then 4 else 0) ||| (if qr then 128 else 0) ||| ((op.val * 8) % 256)) ||| 2 =
    (b2n rd) ||| 2 ||| (if aa then 4 else 0) ||| (if qr then 128 else 0) ||| ((op.val * 8) % 256) := by
  revert rd tc aa qr op
  decide

theorem flag1Of_truncated {p : Pkt} (hw : WfPkt p) (ka kn kd : Nat) : flag1Of (truncated p ka kn kd) = flag1Of p ||| 2 := by
  have := flag1_tc p.rd p.tc p.aa p.qr ⟨p.opcode, hw.opcode⟩
  simp only [flag1Of, truncated, if_true]
  exact this.symm

theorem flag2Of_truncated (p : Pkt) (ka kn kd : Nat) : flag2Of (truncated p ka kn kd) = flag2Of p := by
  have h : p.rcode % 16 % 16 = p.rcode % 16 := Nat.mod_mod _ _
  show (if p.cd then 32 else 0) ||| (if p.ad then 64 else 0) ||| (if p.ra then 128 else 0) ||| (p.rcode % 16 % 16) = flag2Of p
  rw [h]; rfl

theorem u16_mod (x : Nat) : u16 (x % 65536) = u16 x := by
  unfold u16
  have h1 : x % 65536 / 256 % 256 = x / 256 % 256 := by omega
  have h2 : x % 65536 % 256 = x % 256 := by omega
  rw [h1, h2]

/-- the header of the truncated message, in terms of the original one -/
theorem hdrOf_truncated {p : Pkt} (hw : WfPkt p) (ka kn kd : Nat) (ha : ka ≤ p.answer.length) (hn : kn ≤ p.nameserver.length)
    (hd : kd ≤ p.additional.length) :
    hdrOf (truncated p ka kn kd) = u16 p.qid ++ [flag1Of p ||| 2, flag2Of p] ++ u16 1 ++ u16 ka ++ u16 kn ++ u16 kd := by
  have e1 : (truncated p ka kn kd).answer.length = ka := by simp [truncated, List.length_take]; omega
  have e2 : (truncated p ka kn kd).nameserver.length = kn := by simp [truncated, List.length_take]; omega
  have e3 : (additionalOf (truncated p ka kn kd)).length = kd := by
    simp [additionalOf, truncated, List.length_take]; omega
  unfold hdrOf
  rw [flag1Of_truncated hw, flag2Of_truncated, e1, e2, e3, u16_mod, u16_mod, u16_mod]
  rfl

/-- setting TC and rewriting the three counts in a buffer that starts with the header of `p` -/
theorem header_rewrite (p : Pkt) (rest : Bytes) (an nsn adn : Nat) :
    splice (splice (splice ((hdrOf p ++ rest).set 2 ((hdrOf p ++ rest).getD 2 0 ||| 2)) (6, 8) (u16 an)) (8, 10) (u16 nsn))
      (10, 12) (u16 adn) =
    u16 p.qid ++ [flag1Of p ||| 2, flag2Of p] ++ u16 1 ++ u16 an ++ u16 nsn ++ u16 adn ++ rest := by
  simp [hdrOf, u16, splice]



/-- a section that did not stop early wrote every record -/
theorem section_count_false (size : Nat) (rs : List RR) :
    ∀ (bf : Bytes) (tt : Tree) (nn : Nat) (bf' : Bytes) (tt' : Tree) (nn' : Nat),
      pushSection size rs bf tt nn = some (bf', tt', nn', false) → nn' = nn + rs.length := by
  induction rs with
  | nil =>
    intro bf tt nn bf' tt' nn' hh
    simp only [pushSection, Option.some.injEq, Prod.mk.injEq] at hh
    simp [hh.2.2.1]
  | cons r rs ih =>
    intro bf tt nn bf' tt' nn' hh
    unfold pushSection at hh
    cases hp : pushRR r tt bf.length with
    | none => simp [hp] at hh
    | some r1 =>
      obtain ⟨b, t1⟩ := r1
      simp only [hp] at hh
      split at hh
      · simp at hh
      · have := ih _ _ _ _ _ _ hh
        simp only [List.length_cons]; omega

/-- three complete runs over the cut sections, started behind the original header, make the truncated message
    `Complete` behind its own header -/
theorem trunc_complete {p : Pkt} (size : Nat) {qb : Bytes} {t0 : Tree}
    (h0 : pushName p.qdomain root (hdrOf p).length = some (qb, t0))
    (ka kn kd : Nat) (e1 e2 e3 : Bytes) (t1 t2 t3 : Tree)
    (h1 : pushSection size (p.answer.take ka) (hdrOf p ++ qb ++ u16 p.qtype ++ u16 p.qclass) t0 0 =
      some (hdrOf p ++ qb ++ u16 p.qtype ++ u16 p.qclass ++ e1, t1, ka, false))
    (h2 : pushSection size (p.nameserver.take kn) (hdrOf p ++ qb ++ u16 p.qtype ++ u16 p.qclass ++ e1) t1 0 =
      some (hdrOf p ++ qb ++ u16 p.qtype ++ u16 p.qclass ++ e1 ++ e2, t2, kn, false))
    (h3 : pushSection size (p.additional.take kd) (hdrOf p ++ qb ++ u16 p.qtype ++ u16 p.qclass ++ e1 ++ e2) t2 0 =
      some (hdrOf p ++ qb ++ u16 p.qtype ++ u16 p.qclass ++ e1 ++ e2 ++ e3, t3, kd, false)) :
    Complete (truncated p ka kn kd) size
      (hdrOf (truncated p ka kn kd) ++ qb ++ u16 p.qtype ++ u16 p.qclass ++ e1 ++ e2 ++ e3) := by
  have hl : ∀ x : Bytes, (hdrOf p ++ x).length = (hdrOf (truncated p ka kn kd) ++ x).length := by
    intro x; simp [hdr_len]
  unfold Complete
  refine ⟨qb, t0, hdrOf (truncated p ka kn kd) ++ qb ++ u16 p.qtype ++ u16 p.qclass ++ e1, t1, ka,
    hdrOf (truncated p ka kn kd) ++ qb ++ u16 p.qtype ++ u16 p.qclass ++ e1 ++ e2, t2, kn, t3, kd, ?_, ?_, ?_, ?_⟩
  · rw [hdr_len] at h0 ⊢; exact h0
  · have := pushSection_reheader size _ (hdrOf p ++ qb ++ u16 p.qtype ++ u16 p.qclass)
      (hdrOf (truncated p ka kn kd) ++ qb ++ u16 p.qtype ++ u16 p.qclass) e1 t0 0 t1 ka false
      (by simp [hdr_len]) h1
    exact this
  · have := pushSection_reheader size _ (hdrOf p ++ qb ++ u16 p.qtype ++ u16 p.qclass ++ e1)
      (hdrOf (truncated p ka kn kd) ++ qb ++ u16 p.qtype ++ u16 p.qclass ++ e1) e2 t1 0 t2 kn false
      (by simp [hdr_len]) h2
    exact this
  · have hadd : additionalOf (truncated p ka kn kd) = p.additional.take kd := by simp [additionalOf, truncated]
    rw [hadd]
    have := pushSection_reheader size _ (hdrOf p ++ qb ++ u16 p.qtype ++ u16 p.qclass ++ e1 ++ e2)
      (hdrOf (truncated p ka kn kd) ++ qb ++ u16 p.qtype ++ u16 p.qclass ++ e1 ++ e2) e3 t2 0 t3 kd false
      (by simp [hdr_len]) h3
    exact this

theorem pushSection_nil (size : Nat) (buf : Bytes) (t : Tree) : pushSection size [] buf t 0 = some (buf ++ [], t, 0, false) := by
  simp [pushSection]

/-- where the output was cut: inside the answer section, inside the authority section (answers complete), or inside
    the additional section (answers and authority complete) — records are only ever omitted from the end -/
def CutAt (p : Pkt) (ka kn kd : Nat) : Prop :=
  (ka < p.answer.length ∧ kn = 0 ∧ kd = 0) ∨
  (ka = p.answer.length ∧ kn < p.nameserver.length ∧ kd = 0) ∨
  (ka = p.answer.length ∧ kn = p.nameserver.length ∧ kd < (additionalOf p).length ∧ kd ≤ p.additional.length)

/-- **what `serialise_with_size` returns**: the complete message, or the complete encoding of the message cut at
    some record (TC set, counts of the records present, EDNS record gone) -/
theorem serialise_cases (p : Pkt) (hw : WfPkt p) (size : Nat) (hs : 512 ≤ size) (wire : Bytes)
    (h : serialiseWithSize p size = some wire) :
    Complete p size wire ∨ ∃ ka kn kd, CutAt p ka kn kd ∧ Complete (truncated p ka kn kd) size wire := by
  unfold serialiseWithSize at h
  simp only [show ¬ size < 512 by omega, show ¬ p.rcode ≥ 4096 by have := hw.rcode; omega, if_false] at h
  cases h0 : pushName p.qdomain root (hdrOf p).length with
  | none => rw [h0] at h; simp at h
  | some r0 =>
    obtain ⟨qb, t0⟩ := r0
    simp only [h0] at h
    cases h1 : pushSection size p.answer (hdrOf p ++ qb ++ u16 p.qtype ++ u16 p.qclass) t0 0 with
    | none => rw [h1] at h; simp at h
    | some r1 =>
      obtain ⟨buf1, t1, an, tr1⟩ := r1
      simp only [h1] at h
      obtain ⟨e1, he1⟩ := pushSection_ext' size _ _ _ _ _ _ _ _ h1
      subst he1
      have hspl : Generated.Dns.spliceRanges = [(6, 8), (8, 10), (10, 12)] := by decide
      cases tr1 with
      | true =>
        right
        simp only [if_true, hspl, List.getD_cons_zero, List.getD_cons_succ] at h
        obtain ⟨k, t1', hk, han, hrun⟩ := pushSection_take size _ _ _ _ _ _ _ h1
        simp only [Nat.zero_add] at han
        subst han
        refine ⟨an, 0, 0, Or.inl ⟨hk, rfl, rfl⟩, ?_⟩
        have hc := trunc_complete size h0 an 0 0 e1 [] [] t1' t1' t1' hrun
          (by simp [pushSection]) (by simp [pushSection])
        have hw' : wire = hdrOf (truncated p an 0 0) ++ qb ++ u16 p.qtype ++ u16 p.qclass ++ e1 ++ [] ++ [] := by
          simp only [Option.some.injEq] at h
          rw [← h, hdrOf_truncated hw an 0 0 (by omega) (by omega) (by omega)]
          have := header_rewrite p (qb ++ u16 p.qtype ++ u16 p.qclass ++ e1) an 0 0
          simp only [List.append_assoc, List.append_nil] at this ⊢
          exact this
        rw [hw']; exact hc
      | false =>
        simp only [Bool.false_eq_true, if_false] at h
        cases h2 : pushSection size p.nameserver (hdrOf p ++ qb ++ u16 p.qtype ++ u16 p.qclass ++ e1) t1 0 with
        | none => rw [h2] at h; simp at h
        | some r2 =>
          obtain ⟨buf2, t2, nsn, tr2⟩ := r2
          simp only [h2] at h
          obtain ⟨e2, he2⟩ := pushSection_ext' size _ _ _ _ _ _ _ _ h2
          subst he2
          have han : an = p.answer.length := by
            have := (section_count_false size p.answer _ _ _ _ _ _ h1); omega
          cases tr2 with
          | true =>
            right
            simp only [if_true, hspl, List.getD_cons_zero, List.getD_cons_succ] at h
            obtain ⟨k, t2', hk, hnn, hrun⟩ := pushSection_take size _ _ _ _ _ _ _ h2
            simp only [Nat.zero_add] at hnn
            subst hnn
            refine ⟨p.answer.length, nsn, 0, Or.inr (Or.inl ⟨rfl, hk, rfl⟩), ?_⟩
            have h1' : pushSection size (p.answer.take p.answer.length) (hdrOf p ++ qb ++ u16 p.qtype ++ u16 p.qclass) t0 0 =
                some (hdrOf p ++ qb ++ u16 p.qtype ++ u16 p.qclass ++ e1, t1, p.answer.length, false) := by
              rw [List.take_length, h1, han]
            have hc := trunc_complete size h0 p.answer.length nsn 0 e1 e2 [] t1 t2' t2' h1' hrun (by simp [pushSection])
            have hw' : wire = hdrOf (truncated p p.answer.length nsn 0) ++ qb ++ u16 p.qtype ++ u16 p.qclass ++ e1 ++ e2 ++ [] := by
              simp only [Option.some.injEq] at h
              rw [← h, hdrOf_truncated hw _ nsn 0 (by omega) (by omega) (by omega), han]
              have := header_rewrite p (qb ++ u16 p.qtype ++ u16 p.qclass ++ e1 ++ e2) p.answer.length nsn 0
              simp only [List.append_assoc, List.append_nil] at this ⊢
              exact this
            rw [hw']; exact hc
          | false =>
            simp only [Bool.false_eq_true, if_false] at h
            cases h3 : pushSection size (additionalOf p) (hdrOf p ++ qb ++ u16 p.qtype ++ u16 p.qclass ++ e1 ++ e2) t2 0 with
            | none => rw [h3] at h; simp at h
            | some r3 =>
              obtain ⟨buf3, t3, adn, tr3⟩ := r3
              simp only [h3] at h
              obtain ⟨e3, he3⟩ := pushSection_ext' size _ _ _ _ _ _ _ _ h3
              subst he3
              have hnn : nsn = p.nameserver.length := by
                have := (section_count_false size p.nameserver _ _ _ _ _ _ h2); omega
              cases tr3 with
              | false =>
                left
                simp only [Bool.false_eq_true, if_false, Option.some.injEq] at h
                subst h
                unfold Complete
                exact ⟨qb, t0, _, t1, an, _, t2, nsn, t3, adn, h0, h1, h2, h3⟩
              | true =>
                right
                simp only [if_true, hspl, List.getD_cons_zero, List.getD_cons_succ] at h
                obtain ⟨k, t3', hk, hdn, hrun⟩ := pushSection_take size _ _ _ _ _ _ _ h3
                simp only [Nat.zero_add] at hdn
                subst hdn
                have hkle : adn ≤ p.additional.length := by
                  have : (additionalOf p).length ≤ p.additional.length + 1 := by unfold additionalOf; split <;> simp
                  omega
                have htake : (additionalOf p).take adn = p.additional.take adn := by
                  unfold additionalOf
                  split
                  · exact List.take_append_of_le_length hkle
                  · rfl
                rw [htake] at hrun
                refine ⟨p.answer.length, p.nameserver.length, adn, Or.inr (Or.inr ⟨rfl, rfl, hk, hkle⟩), ?_⟩
                have h1' : pushSection size (p.answer.take p.answer.length) (hdrOf p ++ qb ++ u16 p.qtype ++ u16 p.qclass) t0 0 =
                    some (hdrOf p ++ qb ++ u16 p.qtype ++ u16 p.qclass ++ e1, t1, p.answer.length, false) := by
                  rw [List.take_length, h1, han]
                have h2' : pushSection size (p.nameserver.take p.nameserver.length) (hdrOf p ++ qb ++ u16 p.qtype ++ u16 p.qclass ++ e1) t1 0 =
                    some (hdrOf p ++ qb ++ u16 p.qtype ++ u16 p.qclass ++ e1 ++ e2, t2, p.nameserver.length, false) := by
                  rw [List.take_length, h2, hnn]
                have hc := trunc_complete size h0 p.answer.length p.nameserver.length adn e1 e2 e3 t1 t2 t3' h1' h2' hrun
                have hw' : wire = hdrOf (truncated p p.answer.length p.nameserver.length adn) ++ qb ++ u16 p.qtype ++ u16 p.qclass ++ e1 ++ e2 ++ e3 := by
                  simp only [Option.some.injEq] at h
                  rw [← h, hdrOf_truncated hw _ _ adn (by omega) (by omega) hkle, han, hnn]
                  have := header_rewrite p (qb ++ u16 p.qtype ++ u16 p.qclass ++ e1 ++ e2 ++ e3) p.answer.length p.nameserver.length adn
                  simp only [List.append_assoc, List.append_nil] at this ⊢
                  exact this
                rw [hw']; exact hc


/-- a section written completely under one limit is written identically under any limit its result fits -/
theorem pushSection_fits (size size2 : Nat) (rs : List RR) :
    ∀ (bf : Bytes) (tt : Tree) (nn : Nat) (bf' : Bytes) (tt' : Tree) (nn' : Nat),
      pushSection size rs bf tt nn = some (bf', tt', nn', false) → bf'.length ≤ size2 →
      pushSection size2 rs bf tt nn = some (bf', tt', nn', false) := by
  induction rs with
  | nil => intro bf tt nn bf' tt' nn' hh _; simpa [pushSection] using hh
  | cons r rs ih =>
    intro bf tt nn bf' tt' nn' hh hle
    unfold pushSection at hh ⊢
    cases hp : pushRR r tt bf.length with
    | none => simp [hp] at hh
    | some r1 =>
      obtain ⟨b, t1⟩ := r1
      simp only [hp] at hh ⊢
      split at hh
      · simp at hh
      · obtain ⟨e, he⟩ := pushSection_ext' size rs _ _ _ _ _ _ _ hh
        have : ¬ (bf ++ b).length > size2 := by
          have : bf'.length = (bf ++ b).length + e.length := by rw [he]; simp only [List.length_append]
          omega
        simp only [this, if_false]
        exact ih _ _ _ _ _ _ hh hle

theorem complete_fits {p : Pkt} {size size2 : Nat} {wire : Bytes} (hc : Complete p size wire) (hle : wire.length ≤ size2) :
    Complete p size2 wire := by
  unfold Complete at hc ⊢
  obtain ⟨qb, t0, buf1, t1, an, buf2, t2, nsn, t3, adn, h0, h1, h2, h3⟩ := hc
  obtain ⟨e3, he3⟩ := pushSection_ext' size _ _ _ _ _ _ _ _ h3
  obtain ⟨e2, he2⟩ := pushSection_ext' size _ _ _ _ _ _ _ _ h2
  have l2 : buf2.length ≤ size2 := by
    have : wire.length = buf2.length + e3.length := by rw [he3]; simp only [List.length_append]
    omega
  have l1 : buf1.length ≤ size2 := by
    have : buf2.length = buf1.length + e2.length := by rw [he2]; simp only [List.length_append]
    omega
  exact ⟨qb, t0, buf1, t1, an, buf2, t2, nsn, t3, adn, h0, pushSection_fits size size2 _ _ _ _ _ _ _ h1 l1,
    pushSection_fits size size2 _ _ _ _ _ _ _ h2 l2, pushSection_fits size size2 _ _ _ _ _ _ _ h3 hle⟩

end Erbium.DnsWire
