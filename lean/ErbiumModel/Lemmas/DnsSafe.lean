import ErbiumModel.Lemmas.Cursor
import ErbiumModel.Model.DnsSafe
/-! `dns/parse.rs` never panics: every index and slice is in range, no `u16`/`u32` expression
    overflows, the error message of `get_bytes` never underflows, the name reader terminates (the fuel
    `(len + 2) * (limit + 2)` always suffices) and the `panic!` arm of `get_dns` is unreachable. -/
namespace Erbium.DnsSafe
open Erbium.Safe Erbium.DnsWire Erbium.Generated.Pkt

def IsBytes (l : List Nat) : Prop := ∀ x ∈ l, x < 256

theorem IsBytes.take {l : List Nat} (h : IsBytes l) (n : Nat) : IsBytes (l.take n) :=
  fun x hx => h x (List.mem_of_mem_take hx)
theorem IsBytes.drop {l : List Nat} (h : IsBytes l) (n : Nat) : IsBytes (l.drop n) :=
  fun x hx => h x (List.mem_of_mem_drop hx)

theorem post_fitU {site : String} {bits v : Nat} (h : v < 2 ^ bits) : Post (fitU site bits v) (fun r => r = v) := by
  simp [fitU, h, Post]

/-- parser state over the fixed message `buf`, cursor inside it -/
def Inv (buf : Bytes) (p : P) : Prop := p.buf = buf ∧ p.off ≤ buf.length

section
variable {buf : Bytes}

theorem getU8_spec (p : P) (hp : p.buf = buf) :
    Post (getU8 p) (fun r => Inv buf r.2 ∧ r.2.off = p.off + 1 ∧ p.off < buf.length ∧ (IsBytes buf → r.1 < 256)) := by
  unfold getU8 peekU8 dnsPeekU8Guard
  by_cases h : p.off < p.buf.length
  · simp only [h, decide_true, if_true]
    rw [idx_ok h]
    refine ⟨⟨hp, by rw [← hp]; exact h⟩, rfl, by rw [← hp]; exact h, ?_⟩
    intro hb
    exact hb _ (by rw [← hp]; exact List.getElem_mem h)
  · simp [h, Post]

theorem getU16_spec (hb : IsBytes buf) (p : P) (hp : p.buf = buf) :
    Post (getU16 p) (fun r => Inv buf r.2 ∧ r.1 < 65536) := by
  unfold getU16
  refine Post.bind (getU8_spec p hp) ?_
  rintro ⟨a, p1⟩ ⟨h1, _, _, ha⟩
  have ha := ha hb
  simp only at ha h1
  refine Post.bind (post_fitU (by have : (2:Nat)^16 = 65536 := by decide
                                  rw [this]; omega)) ?_
  intro hi hhi
  refine Post.bind (getU8_spec p1 h1.1) ?_
  rintro ⟨b, p2⟩ ⟨h2, _, _, hb2⟩
  have hb2 := hb2 hb
  simp only at hb2 h2
  have h16 : (2:Nat)^16 = 65536 := by decide
  refine Post.bind (post_fitU (by rw [h16, hhi]; omega)) ?_
  intro v hv
  exact ⟨h2, by rw [hv, hhi]; omega⟩

theorem getU32_spec (hb : IsBytes buf) (p : P) (hp : p.buf = buf) :
    Post (getU32 p) (fun r => Inv buf r.2) := by
  have h32 : (2:Nat)^32 = 4294967296 := by decide
  unfold getU32
  refine Post.bind (getU8_spec p hp) ?_
  rintro ⟨a, p1⟩ ⟨h1, _, _, ha⟩
  have ha := ha hb; simp only at ha h1
  refine Post.bind (post_fitU (by rw [h32]; omega)) ?_
  intro x3 hx3
  refine Post.bind (getU8_spec p1 h1.1) ?_
  rintro ⟨b, p2⟩ ⟨h2, _, _, hbb⟩
  have hbb := hbb hb; simp only at hbb h2
  refine Post.bind (post_fitU (by rw [h32]; omega)) ?_
  intro x2 hx2
  refine Post.bind (post_fitU (by rw [h32, hx3, hx2]; omega)) ?_
  intro s2 hs2
  refine Post.bind (getU8_spec p2 h2.1) ?_
  rintro ⟨c, p3⟩ ⟨h3, _, _, hc⟩
  have hc := hc hb; simp only at hc h3
  refine Post.bind (post_fitU (by rw [h32]; omega)) ?_
  intro x1 hx1
  refine Post.bind (post_fitU (by rw [h32, hs2, hx3, hx2, hx1]; omega)) ?_
  intro s1 hs1
  refine Post.bind (getU8_spec p3 h3.1) ?_
  rintro ⟨d, p4⟩ ⟨h4, _, _, hd⟩
  have hd := hd hb; simp only at hd h4
  refine Post.bind (post_fitU (by rw [h32, hs1, hs2, hx3, hx2, hx1]; omega)) ?_
  intro v _
  exact h4

/-- `get_bytes` on a cursor inside the message: in range on success, and the failing branch's
    `len - offset` does not underflow -/
theorem getBytes_spec (p : P) (n : Nat) (hp : Inv buf p) :
    Post (getBytes p n) (fun r => Inv buf r.2 ∧ r.2.off = p.off + n ∧ r.1 = (buf.take (p.off + n)).drop p.off) := by
  obtain ⟨hpb, hpo⟩ := hp
  unfold getBytes dnsGetBytesGuard
  by_cases h : p.off + n ≤ p.buf.length
  · simp only [h, decide_true, if_true]
    rw [slice_ok (by omega) h]
    exact ⟨⟨hpb, by rw [← hpb]; exact h⟩, rfl, by rw [hpb]⟩
  · simp only [h, decide_false]
    rw [subU_ok (by rw [hpb]; exact hpo)]
    simp [Post]

theorem getString_spec (hb : IsBytes buf) (p : P) (hp : p.buf = buf) :
    Post (getString p) (fun r => Inv buf r.2) := by
  unfold getString
  refine Post.bind (getU8_spec p hp) ?_
  rintro ⟨n, p1⟩ ⟨h1, _, _, _⟩
  exact Post.mono (getBytes_spec p1 n h1) (fun _ h => h.1)

/-- termination measure of the name reader: pointer levels left, then octets left at this level -/
def M (len limit off depth : Nat) : Nat :=
  (limit + 1 - depth) * (len + 2) + (len + 1 - min off (len + 1)) + 1

theorem getDomainInto_spec (fuel : Nat) (p : P) (depth : Nat) (hp : p.buf = buf)
    (hd : depth ≤ Generated.Dns.pointerDepthLimit + 1)
    (hf : M buf.length Generated.Dns.pointerDepthLimit p.off depth ≤ fuel) :
    Post (getDomainInto fuel p depth) (fun r => Inv buf r.2) := by
  generalize hL : Generated.Dns.pointerDepthLimit = L at hd hf
  induction fuel generalizing p depth with
  | zero => unfold M at hf; omega
  | succ fuel ih =>
    unfold getDomainInto
    refine Post.bind (getU8_spec p hp) ?_
    rintro ⟨pre, p1⟩ ⟨h1, ho1, hlt, _⟩
    simp only at h1 ho1
    dsimp only
    split
    · exact h1
    · split
      · refine Post.bind (getBytes_spec p1 pre h1) ?_
        rintro ⟨l, p2⟩ ⟨h2, ho2, _⟩
        simp only at h2 ho2
        have hm : M buf.length L p2.off depth ≤ fuel := by
          have := h2.2
          unfold M at hf ⊢
          generalize (L + 1 - depth) * (buf.length + 2) = A at hf ⊢
          omega
        refine Post.bind (ih p2 depth h2.1 hd hm) ?_
        rintro ⟨rest, p3⟩ h3
        exact h3
      · split
        · rw [hL]
          split
          · trivial
          · rename_i hdep
            have hdep : depth ≤ L := by omega
            refine Post.bind (getU8_spec p1 h1.1) ?_
            rintro ⟨lo, p2⟩ ⟨h2, _, _, _⟩
            simp only at h2
            have hmul : (L + 1 - depth) * (buf.length + 2) = (L + 1 - (depth + 1)) * (buf.length + 2) + (buf.length + 2) := by
              have : L + 1 - depth = (L + 1 - (depth + 1)) + 1 := by omega
              rw [this, Nat.succ_mul]
            have hm : M buf.length L ((pre - 192) * 256 + lo) (depth + 1) ≤ fuel := by
              unfold M at hf ⊢
              rw [hmul] at hf
              generalize (L + 1 - (depth + 1)) * (buf.length + 2) = A at hf ⊢
              omega
            refine Post.bind (ih { p2 with off := (pre - 192) * 256 + lo } (depth + 1) h2.1 (by omega) hm) ?_
            rintro ⟨rest, _⟩ _
            exact h2
        · trivial

theorem getDomain_spec (p : P) (hp : p.buf = buf) : Post (getDomain p) (fun r => Inv buf r.2) := by
  unfold getDomain
  have hinto : Post (getDomainInto (nameFuel p.buf) p 1) (fun r => Inv buf r.2) := by
    refine getDomainInto_spec _ p 1 hp (by omega) ?_
    unfold M nameFuel
    rw [hp]
    have h1 : (Generated.Dns.pointerDepthLimit + 1 - 1) = Generated.Dns.pointerDepthLimit := by omega
    rw [h1, Nat.mul_comm (buf.length + 2), Nat.add_mul]
    generalize Generated.Dns.pointerDepthLimit * (buf.length + 2) = A
    omega
  refine Post.bind hinto ?_
  rintro ⟨d, p'⟩ hi
  dsimp only
  split
  · trivial
  · exact hi

theorem ednsOptions_spec (fuel : Nat) (b : Bytes) (hb : IsBytes b) (hf : b.length < fuel) :
    Post (ednsOptions fuel b) (fun _ => True) := by
  have h16 : (2:Nat)^16 = 65536 := by decide
  induction fuel generalizing b with
  | zero => omega
  | succ fuel ih =>
    unfold ednsOptions
    split
    · trivial
    · rename_i c1 c2 l1 l2 rest
      have hc1 := hb c1 (by simp)
      have hc2 := hb c2 (by simp)
      have hl1 := hb l1 (by simp)
      have hl2 := hb l2 (by simp)
      refine Post.bind (post_fitU (by rw [h16]; omega)) ?_; intro chi hchi
      refine Post.bind (post_fitU (by rw [h16, hchi]; omega)) ?_; intro code _
      refine Post.bind (post_fitU (by rw [h16]; omega)) ?_; intro lhi hlhi
      refine Post.bind (post_fitU (by rw [h16, hlhi]; omega)) ?_; intro len _
      unfold ednsOptShort
      by_cases hs : rest.length < len
      · simp [hs, Post]
      · simp only [hs, decide_false]
        have hle : len ≤ rest.length := by omega
        refine Post.bind (post_slice (Nat.zero_le _) hle) ?_; intro data _
        refine Post.bind (post_slice hle (Nat.le_refl _)) ?_
        rintro tail ⟨ht, htl⟩
        have hbt : IsBytes tail := by
          rw [ht]
          exact (IsBytes.take (fun x hx => hb x (by simp [hx])) _).drop _
        refine Post.bind (ih tail hbt (by simp at hf; omega)) ?_
        intro _ _; trivial
    · trivial

def OptOk (rtype : Nat) (rd : RData) : Prop := rtype = T_OPT → ∃ o, rd = .opt o

theorem rdName_spec (mk : Name → RData) (p : P) (hp : p.buf = buf) :
    Post (rdName mk p) (fun r => Inv buf r.2 ∧ ∃ d, r.1 = mk d) := by
  unfold rdName
  refine Post.bind (getDomain_spec p hp) ?_; rintro ⟨d, p1⟩ h1
  exact ⟨h1, d, rfl⟩

theorem rdU16Name_spec (hb : IsBytes buf) (mk : Nat → Name → RData) (p : P) (hp : p.buf = buf) :
    Post (rdU16Name mk p) (fun r => Inv buf r.2 ∧ ∃ x d, r.1 = mk x d) := by
  unfold rdU16Name
  refine Post.bind (getU16_spec hb p hp) ?_; rintro ⟨s, p1⟩ ⟨h1, _⟩
  refine Post.bind (getDomain_spec p1 h1.1) ?_; rintro ⟨d, p2⟩ h2
  exact ⟨h2, s, d, rfl⟩

theorem rdRp_spec (p : P) (hp : p.buf = buf) : Post (rdRp p) (fun r => Inv buf r.2 ∧ ∃ m t, r.1 = .rp m t) := by
  unfold rdRp
  refine Post.bind (getDomain_spec p hp) ?_; rintro ⟨m, p1⟩ h1
  refine Post.bind (getDomain_spec p1 h1.1) ?_; rintro ⟨t, p2⟩ h2
  exact ⟨h2, m, t, rfl⟩

theorem rdNaptr_spec (hb : IsBytes buf) (p : P) (hp : p.buf = buf) :
    Post (rdNaptr p) (fun r => Inv buf r.2 ∧ ∃ a b c d e f, r.1 = .naptr a b c d e f) := by
  unfold rdNaptr
  refine Post.bind (getU16_spec hb p hp) ?_; rintro ⟨o, p1⟩ ⟨h1, _⟩
  refine Post.bind (getU16_spec hb p1 h1.1) ?_; rintro ⟨pr, p2⟩ ⟨h2, _⟩
  refine Post.bind (getString_spec hb p2 h2.1) ?_; rintro ⟨f, p3⟩ h3
  refine Post.bind (getString_spec hb p3 h3.1) ?_; rintro ⟨s, p4⟩ h4
  refine Post.bind (getString_spec hb p4 h4.1) ?_; rintro ⟨r, p5⟩ h5
  refine Post.bind (getDomain_spec p5 h5.1) ?_; rintro ⟨d, p6⟩ h6
  exact ⟨h6, _, _, _, _, _, _, rfl⟩

theorem rdOpt_spec (hb : IsBytes buf) (rdlen : Nat) (p : P) (hp : Inv buf p) :
    Post (rdOpt rdlen p) (fun r => Inv buf r.2 ∧ ∃ o, r.1 = .opt o) := by
  unfold rdOpt
  refine Post.bind (getBytes_spec p rdlen hp) ?_
  rintro ⟨b, p1⟩ ⟨h1, _, hbv⟩
  simp only at hbv
  have hbb : IsBytes b := by rw [hbv]; exact (hb.take _).drop _
  refine Post.bind (ednsOptions_spec _ b hbb (by omega)) ?_
  intro os _
  exact ⟨h1, os, rfl⟩

theorem rdSoa_spec (hb : IsBytes buf) (p : P) (hp : p.buf = buf) :
    Post (rdSoa p) (fun r => Inv buf r.2 ∧ ∃ a b c d e f g, r.1 = .soa a b c d e f g) := by
  unfold rdSoa
  refine Post.bind (getDomain_spec p hp) ?_; rintro ⟨m, p1⟩ h1
  refine Post.bind (getDomain_spec p1 h1.1) ?_; rintro ⟨r, p2⟩ h2
  refine Post.bind (getU32_spec hb p2 h2.1) ?_; rintro ⟨a, p3⟩ h3
  refine Post.bind (getU32_spec hb p3 h3.1) ?_; rintro ⟨b, p4⟩ h4
  refine Post.bind (getU32_spec hb p4 h4.1) ?_; rintro ⟨c, p5⟩ h5
  refine Post.bind (getU32_spec hb p5 h5.1) ?_; rintro ⟨d, p6⟩ h6
  refine Post.bind (getU32_spec hb p6 h6.1) ?_; rintro ⟨e, p7⟩ h7
  exact ⟨h7, _, _, _, _, _, _, _, rfl⟩

theorem rdOther_spec (rdlen : Nat) (p : P) (hp : Inv buf p) :
    Post (rdOther rdlen p) (fun r => Inv buf r.2) := by
  unfold rdOther
  refine Post.bind (getBytes_spec p rdlen hp) ?_
  rintro ⟨b, p1⟩ ⟨h1, _, _⟩
  exact h1

/-- whatever the record type, `get_rdata` stays inside the message; for type OPT it returns `RData::Opt` -/
theorem rdDispatch_spec (hb : IsBytes buf) (rtype rdlen : Nat) (p : P) (hp : Inv buf p) :
    Post (rdDispatch rtype rdlen p) (fun r => Inv buf r.2 ∧ OptOk rtype r.1) := by
  unfold rdDispatch
  split
  · rename_i ht
    exact Post.mono (rdName_spec _ p hp.1) (fun r h => ⟨h.1, fun h' => absurd (ht ▸ h') (by decide)⟩)
  split
  · rename_i ht
    exact Post.mono (rdName_spec _ p hp.1) (fun r h => ⟨h.1, fun h' => absurd (ht ▸ h') (by decide)⟩)
  split
  · rename_i ht
    exact Post.mono (rdName_spec _ p hp.1) (fun r h => ⟨h.1, fun h' => absurd (ht ▸ h') (by decide)⟩)
  split
  · rename_i ht
    exact Post.mono (rdU16Name_spec hb _ p hp.1) (fun r h => ⟨h.1, fun h' => absurd (ht ▸ h') (by decide)⟩)
  split
  · rename_i ht
    exact Post.mono (rdRp_spec p hp.1) (fun r h => ⟨h.1, fun h' => absurd (ht ▸ h') (by decide)⟩)
  split
  · rename_i ht
    exact Post.mono (rdU16Name_spec hb _ p hp.1) (fun r h => ⟨h.1, fun h' => absurd (ht ▸ h') (by decide)⟩)
  split
  · rename_i ht
    exact Post.mono (rdU16Name_spec hb _ p hp.1) (fun r h => ⟨h.1, fun h' => absurd (ht ▸ h') (by decide)⟩)
  split
  · rename_i ht
    exact Post.mono (rdNaptr_spec hb p hp.1) (fun r h => ⟨h.1, fun h' => absurd (ht ▸ h') (by decide)⟩)
  split
  · exact Post.mono (rdOpt_spec hb rdlen p hp) (fun r h => ⟨h.1, fun _ => h.2⟩)
  split
  · rename_i ht
    exact Post.mono (rdSoa_spec hb p hp.1) (fun r h => ⟨h.1, fun h' => absurd (ht ▸ h') (by decide)⟩)
  · rename_i hno _
    exact Post.mono (rdOther_spec rdlen p hp) (fun r h => ⟨h, fun h' => absurd h' hno⟩)

theorem getRData_spec (hb : IsBytes buf) (p : P) (rtype : Nat) (hp : p.buf = buf) :
    Post (getRData p rtype) (fun r => Inv buf r.2 ∧ OptOk rtype r.1) := by
  unfold getRData
  refine Post.bind (getU16_spec hb p hp) ?_
  rintro ⟨rdlen, p0⟩ ⟨h0, _⟩
  exact rdDispatch_spec hb rtype rdlen p0 h0

theorem getRR_spec (hb : IsBytes buf) (p : P) (hp : p.buf = buf) :
    Post (getRR p) (fun r => Inv buf r.2 ∧ OptOk r.1.rrtype r.1.rdata) := by
  unfold getRR
  refine Post.bind (getDomain_spec p hp) ?_; rintro ⟨d, p1⟩ h1
  refine Post.bind (getU16_spec hb p1 h1.1) ?_; rintro ⟨t, p2⟩ ⟨h2, _⟩
  refine Post.bind (getU16_spec hb p2 h2.1) ?_; rintro ⟨c, p3⟩ ⟨h3, _⟩
  refine Post.bind (getU32_spec hb p3 h3.1) ?_; rintro ⟨ttl, p4⟩ h4
  refine Post.bind (getRData_spec hb p4 t h4.1) ?_; rintro ⟨rd, p5⟩ ⟨h5, ho⟩
  exact ⟨h5, ho⟩

theorem getRRs_spec (hb : IsBytes buf) (trunc : Bool) (n : Nat) (p : P) (hp : Inv buf p) :
    Post (getRRs trunc n p) (fun r => Inv buf r.2 ∧ ∀ rr ∈ r.1, OptOk rr.rrtype rr.rdata) := by
  induction n generalizing p with
  | zero => unfold getRRs; exact ⟨hp, by simp⟩
  | succ n ih =>
    unfold getRRs
    split
    · exact ⟨hp, by simp⟩
    · refine Post.bind (getRR_spec hb p hp.1) ?_; rintro ⟨rr, p1⟩ ⟨h1, ho⟩
      refine Post.bind (ih p1 h1) ?_; rintro ⟨rs, p2⟩ ⟨h2, hos⟩
      refine ⟨h2, ?_⟩
      intro x hx
      rcases List.mem_cons.mp hx with rfl | hx
      · exact ho
      · exact hos x hx

/-- **No byte string makes the DNS decoder panic.** -/
theorem parse_spec (hb : IsBytes buf) : Post (parse buf) (fun _ => True) := by
  unfold parse
  dsimp only
  refine Post.bind (getU16_spec hb _ rfl) ?_; rintro ⟨qid, p1⟩ ⟨h1, _⟩
  refine Post.bind (getU8_spec p1 h1.1) ?_; rintro ⟨f1, p2⟩ ⟨h2, _⟩
  refine Post.bind (getU8_spec p2 h2.1) ?_; rintro ⟨f2, p3⟩ ⟨h3, _⟩
  refine Post.bind (getU16_spec hb p3 h3.1) ?_; rintro ⟨qc, p4⟩ ⟨h4, _⟩
  dsimp only
  split
  · trivial
  · refine Post.bind (getU16_spec hb p4 h4.1) ?_; rintro ⟨arc, p5⟩ ⟨h5, _⟩
    refine Post.bind (getU16_spec hb p5 h5.1) ?_; rintro ⟨nsc, p6⟩ ⟨h6, _⟩
    refine Post.bind (getU16_spec hb p6 h6.1) ?_; rintro ⟨adc, p7⟩ ⟨h7, _⟩
    refine Post.bind (getDomain_spec p7 h7.1) ?_; rintro ⟨qd, p8⟩ h8
    refine Post.bind (getU16_spec hb p8 h8.1) ?_; rintro ⟨qt, p9⟩ ⟨h9, _⟩
    refine Post.bind (getU16_spec hb p9 h9.1) ?_; rintro ⟨qcl, p10⟩ ⟨h10, _⟩
    refine Post.bind (getRRs_spec hb _ arc p10 h10) ?_; rintro ⟨an, p11⟩ ⟨h11, _⟩
    refine Post.bind (getRRs_spec hb _ nsc p11 h11) ?_; rintro ⟨ns, p12⟩ ⟨h12, _⟩
    refine Post.bind (getRRs_spec hb _ adc p12 h12) ?_; rintro ⟨ad, p13⟩ ⟨h13, hopt⟩
    simp only at hopt
    dsimp only
    -- the `panic!("opt record does not contain opt data")` arm: the record found has type OPT, and
    -- `get_rdata` returns `RData::Opt` for that type
    have hedns : Post (match ad.find? (fun rr => rr.rrtype == T_OPT && rr.ttl / 65536 % 256 == 0) with
        | none => (pure none : Out (Option (List (Nat × Bytes))))
        | some x => match x.rdata with
          | .opt o => pure (some o)
          | _ => .panic "get_dns: opt record does not contain opt data") (fun _ => True) := by
      split
      · trivial
      · rename_i x hx
        have hmem := List.mem_of_find?_eq_some hx
        have hp := List.find?_some hx
        have ht : x.rrtype = T_OPT := by
          simp only [Bool.and_eq_true, beq_iff_eq] at hp; exact hp.1
        obtain ⟨o, ho⟩ := hopt x hmem ht
        rw [ho]; trivial
    refine Post.bind hedns ?_
    intro _ _; trivial

end
end Erbium.DnsSafe

namespace Erbium.DnsSafe
open Erbium.Safe Erbium.DnsWire Erbium.Generated.Pkt

theorem getCookie_spec (data : Bytes) : Post (getCookie data) (fun _ => True) := by
  unfold getCookie
  split
  · rename_i h
    have : 8 ≤ data.length := by simpa [cookieMinLen] using h
    refine Post.bind (post_slice (Nat.zero_le _) this) ?_
    intro _ _; trivial
  · trivial

theorem getEde_spec (data : Bytes) : Post (getEde data) (fun _ => True) := by
  unfold getEde
  split
  · rename_i h
    have : 2 ≤ data.length := by simpa [edeMinLen] using h
    refine Post.bind (post_idx (by omega)) ?_; intro _ _
    refine Post.bind (post_idx (by omega)) ?_; intro _ _
    refine Post.bind (post_slice this (Nat.le_refl _)) ?_
    intro _ _; trivial
  · trivial

end Erbium.DnsSafe
