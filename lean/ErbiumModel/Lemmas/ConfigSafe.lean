import ErbiumModel.Lemmas.Cursor
import ErbiumModel.Model.ConfigSafe
/-! The scalar parsers of the configuration loader never panic, whatever YAML value or string they are
    given, and the arithmetic fed by an accepted prefix cannot overflow. -/
namespace Erbium.ConfigSafe
open Erbium.Safe Erbium.Generated.Pkt

theorem typeToName_spec (y : Yaml) : Post (typeToName y) (fun _ => True) := by
  match y with
  | .real _ | .int _ | .str _ | .bool _ | .hash | .alias | .null | .bad => simp [typeToName, Post]
  | .arr [] => simp [typeToName, cfgTypeNameChecked, Post]
  | .arr (x :: _) =>
    unfold typeToName
    exact Post.bind (typeToName_spec x) (fun _ _ => trivial)

theorem typeError_spec {α : Type} (y : Yaml) : Post (typeError y : Out α) (fun _ => True) := by
  unfold typeError
  exact Post.bind (typeToName_spec y) (fun _ _ => trivial)

theorem parseI64_spec (y : Yaml) : Post (parseI64 y) (fun _ => True) := by
  unfold parseI64
  split
  · trivial
  · trivial
  · exact typeError_spec _

theorem parseNum_spec (lo hi : Int) (y : Yaml) : Post (parseNum lo hi y) (fun r => ∀ v, r = some v → lo ≤ v ∧ v ≤ hi) := by
  unfold parseNum
  refine Post.bind (parseI64_spec y) ?_
  intro r _
  split
  · simp [Post]
  · split
    · rename_i h
      simp only [pure_eq, Post]
      intro v hv; cases hv; exact h
    · trivial

theorem parseString_spec (y : Yaml) : Post (parseString y) (fun _ => True) := by
  unfold parseString
  split
  · trivial
  · trivial
  · exact typeError_spec _

theorem parseBoolean_spec (y : Yaml) : Post (parseBoolean y) (fun _ => True) := by
  unfold parseBoolean
  split
  · trivial
  · trivial
  · exact typeError_spec _

theorem mapM_post {α β : Type} (f : α → Out β) (l : List α) (h : ∀ a ∈ l, Post (f a) (fun _ => True)) :
    Post (l.mapM f) (fun _ => True) := by
  induction l with
  | nil => simp [List.mapM_nil, Post]
  | cons a as ih =>
    rw [List.mapM_cons]
    refine Post.bind (h a (List.mem_cons_self ..)) ?_
    intro b _
    refine Post.bind (ih (fun x hx => h x (List.mem_cons_of_mem _ hx))) ?_
    intro bs _
    trivial

theorem parseArray_spec {α : Type} (parser : Yaml → Out (Option α)) (hp : ∀ y, Post (parser y) (fun _ => True)) (y : Yaml) :
    Post (parseArray parser y) (fun _ => True) := by
  unfold parseArray
  split
  · trivial
  · refine Post.bind (mapM_post parser _ (fun a _ => hp a)) ?_
    intro vs _
    split <;> trivial
  · exact typeError_spec _

theorem parseSearchDomain_spec (y : Yaml) : Post (parseSearchDomain y) (fun _ => True) := by
  unfold parseSearchDomain
  refine Post.bind (parseString_spec y) ?_
  intro r _
  split
  · split <;> trivial
  · trivial

/-! durations: the total stays below 2^64 at every step -/

theorem digitStep_spec (num : Option Nat) (d : Nat) : Post (digitStep num d) (fun r => ∀ v, r = some v → v < U64) := by
  unfold digitStep
  simp only [cfgDurationChecked, if_true]
  split
  · rename_i h
    simp only [pure_eq, Post]
    intro v hv; cases hv; exact h
  · trivial

theorem addUnit_spec (ret : Nat) (num : Option Nat) (scale : Nat) : Post (addUnit ret num scale) (fun r => r < U64) := by
  unfold addUnit
  simp only [cfgDurationChecked, if_true]
  split
  · trivial
  · split
    · rename_i h
      simp only [pure_eq, Post]
      exact h.2
    · trivial

theorem strDurationLoop_spec (cs : List Char) (ret : Nat) (num : Option Nat) (hr : ret < U64) :
    Post (strDurationLoop cs ret num) (fun r => r < U64) := by
  induction cs generalizing ret num with
  | nil =>
    cases num with
    | none => simp [strDurationLoop, Post, hr]
    | some n => unfold strDurationLoop; exact addUnit_spec _ _ _
  | cons c cs ih =>
    unfold strDurationLoop
    split
    · refine Post.bind (digitStep_spec num _) ?_
      intro num' _
      exact ih ret num' hr
    · split
      · refine Post.bind (addUnit_spec ret num _) ?_
        intro ret' hret'
        exact ih ret' none hret'
      · split
        · exact ih ret num hr
        · trivial

/-- any YAML value offered as a duration: a number of seconds below 2^64, "nothing", or an error -/
theorem parseDuration_spec (y : Yaml) : Post (parseDuration y) (fun r => ∀ v, r = some v → v < U64) := by
  unfold parseDuration
  split
  · rename_i i
    simp only [pure_eq, Post]
    intro v hv; cases hv
    have : (0:Int) ≤ i % ((2 ^ 64 : Nat) : Int) := Int.emod_nonneg _ (by decide)
    have h2 : i % ((2 ^ 64 : Nat) : Int) < ((2 ^ 64 : Nat) : Int) := Int.emod_lt_of_pos _ (by decide)
    unfold U64
    omega
  · refine Post.bind (parseString_spec y) ?_
    intro r _
    split
    · simp [Post]
    · refine Post.bind (strDurationLoop_spec _ 0 none (by unfold U64; decide)) ?_
      intro d hd
      simp only [pure_eq, Post]
      intro v hv; cases hv; exact hd

/-! hardware addresses -/

theorem fit8 (x : Nat) (h : x ≤ 5) : Post (fitU "hexdigit + 10" 8 (x + 10)) (fun r => r < 16) := by
  have h8 : (2:Nat) ^ 8 = 256 := by decide
  have : x + 10 < 2 ^ 8 := by rw [h8]; omega
  simp only [fitU, this, if_true, Post]
  omega

theorem hexdigit_spec (c : Nat) : Post (hexdigit c) (fun r => r < 16) := by
  unfold hexdigit
  simp only [cfgHexdigitArms, if_true]
  split
  · rename_i h
    refine Post.bind (post_subU h.1) ?_
    intro x hx
    exact fit8 x (by omega)
  · split
    · rename_i h
      refine Post.bind (post_subU h.1) ?_
      intro x hx
      exact fit8 x (by omega)
    · split
      · rename_i h
        refine Post.mono (post_subU h.1) ?_
        intro x hx; omega
      · trivial

theorem hexbyte_spec (s : List Nat) : Post (hexbyte s) (fun _ => True) := by
  unfold hexbyte
  split
  · refine Post.bind (hexdigit_spec _) ?_; intro _ _
    refine Post.bind (hexdigit_spec _) ?_; intro _ _
    trivial
  · trivial

theorem strHwaddr_spec (s : String) : Post (strHwaddr s) (fun _ => True) := by
  unfold strHwaddr
  exact mapM_post _ _ (fun _ _ => hexbyte_spec _)

theorem parseHwaddr_spec (y : Yaml) : Post (parseHwaddr y) (fun _ => True) := by
  unfold parseHwaddr
  refine Post.bind (parseString_spec y) ?_
  intro r _
  split
  · trivial
  · exact Post.bind (strHwaddr_spec _) (fun _ _ => trivial)

/-! prefixes: no panic, and what is accepted has a length that fits the address family -/

theorem strPrefix_spec (want : PrefixWant) (s : String) (ip : IpKind) :
    Post (strPrefix want s ip) (fun r => (r.1 = 4 ∧ r.2.2 ≤ 32) ∨ (r.1 = 6 ∧ r.2.2 ≤ 128)) := by
  unfold strPrefix
  simp only [cfgSectionsChecked, cfgPrefixLenChecked, Bool.true_and]
  split
  · trivial
  · rename_i h
    have hl : (s.splitOn "/").length = 2 := by simpa using h
    have h1 : ∃ x, (s.splitOn "/")[1]? = some x := ⟨(s.splitOn "/")[1]'(by omega), List.getElem?_eq_getElem (by omega)⟩
    have h0 : ∃ x, (s.splitOn "/")[0]? = some x := ⟨(s.splitOn "/")[0]'(by omega), List.getElem?_eq_getElem (by omega)⟩
    obtain ⟨x1, hx1⟩ := h1
    obtain ⟨x0, hx0⟩ := h0
    rw [hx1, hx0]
    simp only [unwrap, bind_ok]
    split
    · trivial
    · split
      · trivial
      · trivial
      · trivial
      · split
        · trivial
        · rename_i hlen
          simp only [pure_eq, Post]
          left; exact ⟨trivial, by simpa using hlen⟩
      · split
        · trivial
        · rename_i hlen
          simp only [pure_eq, Post]
          right; exact ⟨trivial, by simpa using hlen⟩

/-! the host range of an accepted IPv4 prefix -/

theorem hostOffsets_spec (minLen len : Nat) (hlen : len ≤ 32) (hmin : 1 ≤ minLen) :
    Post (hostOffsets minLen len) (fun r => ∀ offs, r = some offs → ∀ o ∈ offs, 1 ≤ o ∧ o < 2 ^ (32 - len) - 1) := by
  unfold hostOffsets
  split
  · simp [Post]
  · rename_i hm
    refine Post.bind (post_subU hlen) ?_
    intro sh hsh
    have hshlt : sh < 32 := by omega
    unfold shlOne32
    simp only [hshlt, if_true, pure_eq, bind_ok]
    have hpos : 1 ≤ 2 ^ sh := Nat.one_le_two_pow
    refine Post.bind (post_subU hpos) ?_
    intro hi hhi
    simp only [pure_eq, Post]
    intro offs ho o hmem
    cases ho
    simp only [List.mem_filter, List.mem_range, decide_eq_true_eq] at hmem
    rw [hsh] at hhi
    omega

/-- every host address of an accepted, network-aligned prefix fits in 32 bits -/
theorem hostAddrs_spec (minLen net len : Nat) (hlen : len ≤ 32) (hmin : 1 ≤ minLen)
    (hal : net % 2 ^ (32 - len) = 0) (hnet : net < 2 ^ 32) :
    Post (hostAddrs minLen net len) (fun _ => True) := by
  unfold hostAddrs
  refine Post.bind (hostOffsets_spec minLen len hlen hmin) ?_
  intro r hr
  split
  · trivial
  · rename_i offs
    have hoffs := hr offs rfl
    refine Post.bind (mapM_post _ _ ?_) (fun _ _ => trivial)
    intro o ho
    have ⟨h1, h2⟩ := hoffs o ho
    -- net is a multiple of the block size and below 2^32 = 2^len blocks, so net + block ≤ 2^32
    have hsplit : (2:Nat) ^ 32 = 2 ^ (32 - len) * 2 ^ len := by
      rw [← Nat.pow_add]; congr 1; omega
    have hdvd : net = 2 ^ (32 - len) * (net / 2 ^ (32 - len)) := by
      have := Nat.div_add_mod net (2 ^ (32 - len))
      omega
    have hq : net / 2 ^ (32 - len) < 2 ^ len := by
      apply Nat.div_lt_of_lt_mul
      rw [← hsplit]; exact hnet
    have hle : net + 2 ^ (32 - len) ≤ 2 ^ 32 := by
      rw [hsplit]
      calc net + 2 ^ (32 - len) = 2 ^ (32 - len) * (net / 2 ^ (32 - len) + 1) := by
            rw [Nat.mul_add, Nat.mul_one, ← hdvd]
        _ ≤ 2 ^ (32 - len) * 2 ^ len := Nat.mul_le_mul_left _ hq
    have : net + o < 2 ^ 32 := by omega
    simp [fitU, this, Post]

end Erbium.ConfigSafe
