import ErbiumModel.Model.LeaseReport
import ErbiumModel.Spec.Json
/-! The lease listing is JSON and denotes the rows it was rendered from (C20). -/
namespace Erbium.LeaseReport
open Erbium.Spec.Json

/-- a character that may stand for itself inside a JSON string -/
def Plain (c : Char) : Prop := 0x20 ≤ c.toNat ∧ c ≠ '"' ∧ c ≠ '\\'

theorem strBody_plain (s : List Char) (h : ∀ c ∈ s, Plain c) : StrBody s s := by
  induction s with
  | nil => exact .nil
  | cons c t ih =>
    have hc := h c (by simp)
    exact .plain c t t hc.1 hc.2.1 hc.2.2 (ih (fun x hx => h x (by simp [hx])))

theorem digit_facts : ∀ k : Fin 10, IsDigit (Char.ofNat (48 + k.val)) ∧ (Char.ofNat (48 + k.val)).toNat - 48 = k.val ∧
    Plain (Char.ofNat (48 + k.val)) ∧ (0 < k.val → Char.ofNat (48 + k.val) ≠ '0') := by
  unfold IsDigit Plain
  decide

theorem hexDigit_facts : ∀ k : Fin 16, Plain (hexDigit k.val) ∧ hexVal (hexDigit k.val) = some k.val := by
  unfold Plain
  decide

theorem decValue_snoc (a : List Char) (d : Char) : decValue (a ++ [d]) = decValue a * 10 + (d.toNat - 48) := by
  simp [decValue, List.foldl_append]

theorem decDigits_spec : ∀ (fuel n : Nat), n < fuel →
    (∀ c ∈ decDigits fuel n, IsDigit c ∧ Plain c) ∧ decValue (decDigits fuel n) = n ∧ decDigits fuel n ≠ [] ∧
    (0 < n → (decDigits fuel n).head? ≠ some '0') ∧ (n = 0 → (decDigits fuel n).length = 1) := by
  intro fuel
  induction fuel with
  | zero => intro n h; omega
  | succ fuel ih =>
    intro n hn
    unfold decDigits
    by_cases h10 : n < 10
    · simp only [h10, if_true]
      have := digit_facts ⟨n, h10⟩
      simp only at this
      refine ⟨?_, ?_, by simp, ?_, by simp⟩
      · intro c hc; simp only [List.mem_singleton] at hc; subst hc; exact ⟨this.1, this.2.2.1⟩
      · simp [decValue, this.2.1]
      · intro hpos; simp only [List.head?_cons, ne_eq, Option.some.injEq]; exact this.2.2.2 hpos
    · simp only [h10, if_false]
      have hlt : n / 10 < fuel := by omega
      obtain ⟨i1, i2, i3, i4, _⟩ := ih (n / 10) hlt
      have hd := digit_facts ⟨n % 10, by omega⟩
      simp only at hd
      refine ⟨?_, ?_, by simp, ?_, by omega⟩
      · intro c hc
        rcases List.mem_append.mp hc with h | h
        · exact i1 c h
        · simp only [List.mem_singleton] at h; subst h; exact ⟨hd.1, hd.2.2.1⟩
      · rw [decValue_snoc, i2, hd.2.1]; omega
      · intro _
        have hpos : 0 < n / 10 := by omega
        have := i4 hpos
        cases hds : decDigits fuel (n / 10) with
        | nil => exact absurd hds i3
        | cons a as => rw [hds] at this; simpa using this

theorem dec_spec (n : Nat) : DecNum (dec n) n ∧ ∀ c ∈ dec n, Plain c := by
  obtain ⟨h1, h2, h3, h4, h5⟩ := decDigits_spec (n + 1) n (by omega)
  refine ⟨⟨h3, fun c hc => (h1 c hc).1, ?_, h2⟩, fun c hc => (h1 c hc).2⟩
  intro hlen
  by_cases h0 : n = 0
  · have := h5 h0; unfold dec at hlen; omega
  · exact h4 (by omega)

theorem dot_plain : Plain '.' := by unfold Plain; decide
theorem colon_plain : Plain ':' := by unfold Plain; decide

theorem ipStr_plain (ip : Nat) : ∀ c ∈ ipStr ip, Plain c := by
  intro c hc
  unfold ipStr at hc
  simp only [List.mem_append, List.mem_singleton] at hc
  rcases hc with ((((((h | h) | h) | h) | h) | h) | h)
  · exact (dec_spec _).2 c h
  · subst h; exact dot_plain
  · exact (dec_spec _).2 c h
  · subst h; exact dot_plain
  · exact (dec_spec _).2 c h
  · subst h; exact dot_plain
  · exact (dec_spec _).2 c h

theorem hex2_plain (b : Nat) : ∀ c ∈ hex2 b, Plain c := by
  intro c hc
  unfold hex2 at hc
  simp only [List.mem_cons, List.mem_nil_iff, or_false] at hc
  rcases hc with h | h
  · subst h; exact (hexDigit_facts ⟨b / 16 % 16, by omega⟩).1
  · subst h; exact (hexDigit_facts ⟨b % 16, by omega⟩).1

theorem clientStr_plain : ∀ (l : List Nat), ∀ c ∈ clientStr l, Plain c
  | [], c, hc => by simp [clientStr] at hc
  | [b], c, hc => by simp only [clientStr] at hc; exact hex2_plain b c hc
  | b :: b2 :: rest, c, hc => by
    simp only [clientStr, List.mem_append, List.mem_singleton] at hc
    rcases hc with (h | h) | h
    · exact hex2_plain b c h
    · subst h; exact colon_plain
    · exact clientStr_plain (b2 :: rest) c h

/-- **`json_string` is correct**: the escaped text denotes exactly the characters it was made from, whatever they are -/
theorem jsonStringBody_spec (s : List Char) : StrBody (jsonStringBody s) s := by
  induction s with
  | nil => exact .nil
  | cons c t ih =>
    unfold jsonStringBody at ih ⊢
    simp only [List.flatMap_cons]
    by_cases h1 : c = '"'
    · have e : escChar c = ['\\', '"'] := by unfold escChar; simp [h1]
      rw [e, h1]
      exact .esc '"' '"' _ _ (by decide) ih
    · by_cases h2 : c = '\\'
      · have e : escChar c = ['\\', '\\'] := by unfold escChar; simp [h2]
        rw [e, h2]
        exact .esc '\\' '\\' _ _ (by decide) ih
      · by_cases h3 : c.toNat < 0x20
        · have e : escChar c = ['\\', 'u'] ++ hex4 c.toNat := by unfold escChar; simp [h1, h2, h3]
          rw [e]
          have hx := hexDigit_facts ⟨c.toNat / 4096 % 16, by omega⟩
          have hy := hexDigit_facts ⟨c.toNat / 256 % 16, by omega⟩
          have hz := hexDigit_facts ⟨c.toNat / 16 % 16, by omega⟩
          have hw := hexDigit_facts ⟨c.toNat % 16, by omega⟩
          have hval : ((c.toNat / 4096 % 16 * 16 + c.toNat / 256 % 16) * 16 + c.toNat / 16 % 16) * 16 + c.toNat % 16 = c.toNat := by
            omega
          have := StrBody.uni _ _ _ _ _ _ _ _ _ _ hx.2 hy.2 hz.2 hw.2 (by rw [hval]; omega) ih
          rw [hval] at this
          simpa [hex4] using this
        · have e : escChar c = [c] := by unfold escChar; simp [h1, h2, h3]
          rw [e]
          exact .plain c _ _ (by omega) h1 h2 ih


/-! ### the structure of the document -/

def rowV (r : LRow) : JV :=
  .obj ([("ip".toList, .str (ipStr r.ip)), ("client_id".toList, .str (clientStr r.client)),
         ("start".toList, .num r.start), ("expire".toList, .num r.expire)] ++
        (match r.host with
         | some h => [("host-name".toList, .str h)]
         | none => []))

/-- what the listing says: one object per row, in order, under the key `leases` -/
def listingV (rows : List LRow) : JV := .obj [("leases".toList, .arr (rows.map rowV))]

theorem denotes_cast {t t' : List Char} {v : JV} (h : Denotes t v) (e : t' = t) : Denotes t' v := e ▸ h

theorem ws_nil : Ws [] := fun c hc => by cases hc
theorem ws_space : Ws [' '] := fun c hc => by simp only [List.mem_singleton] at hc; subst hc; exact Or.inl rfl
theorem ws_nl : Ws ['\n'] := fun c hc => by simp only [List.mem_singleton] at hc; subst hc; exact Or.inr (Or.inl rfl)

theorem key_plain (k : String) (h : ∀ c ∈ k.toList, Plain c) : StrBody k.toList k.toList := strBody_plain _ h

theorem den_str_plain (s : List Char) (h : ∀ c ∈ s, Plain c) : Denotes ([' '] ++ ('"' :: s ++ ['"']) ++ []) (.str s) :=
  .ws [' '] _ [] _ ws_space ws_nil (.str s s (strBody_plain s h))

theorem den_num (n : Nat) (w2 : List Char) (hw : Ws w2) : Denotes ([' '] ++ dec n ++ w2) (.num n) :=
  .ws [' '] _ w2 _ ws_space hw (.num _ _ (dec_spec n).1)

theorem den_jsonString (h : List Char) (w2 : List Char) (hw : Ws w2) :
    Denotes ([' '] ++ ('"' :: jsonStringBody h ++ ['"']) ++ w2) (.str h) :=
  .ws [' '] _ w2 _ ws_space hw (.str _ _ (jsonStringBody_spec h))

theorem k_ip : StrBody "ip".toList "ip".toList := strBody_plain _ (by unfold Plain; decide)
theorem k_client : StrBody "client_id".toList "client_id".toList := strBody_plain _ (by unfold Plain; decide)
theorem k_start : StrBody "start".toList "start".toList := strBody_plain _ (by unfold Plain; decide)
theorem k_expire : StrBody "expire".toList "expire".toList := strBody_plain _ (by unfold Plain; decide)
theorem k_host : StrBody "host-name".toList "host-name".toList := strBody_plain _ (by unfold Plain; decide)
theorem k_leases : StrBody "leases".toList "leases".toList := strBody_plain _ (by unfold Plain; decide)


/-! the literal pieces of the listing, as character lists -/
theorem lit_open : " { \"ip\": \"".toList = [' ', '{', ' ', '"', 'i', 'p', '"', ':', ' ', '"'] := by decide
theorem lit_client : "\", \"client_id\": \"".toList = ['"', ',', ' ', '"', 'c', 'l', 'i', 'e', 'n', 't', '_', 'i', 'd', '"', ':', ' ', '"'] := by decide
theorem lit_start : "\", \"start\": ".toList = ['"', ',', ' ', '"', 's', 't', 'a', 'r', 't', '"', ':', ' '] := by decide
theorem lit_expire : ", \"expire\": ".toList = [',', ' ', '"', 'e', 'x', 'p', 'i', 'r', 'e', '"', ':', ' '] := by decide
theorem lit_host : ", \"host-name\": ".toList = [',', ' ', '"', 'h', 'o', 's', 't', '-', 'n', 'a', 'm', 'e', '"', ':', ' '] := by decide
theorem lit_close : " }".toList = [' ', '}'] := by decide
theorem lit_kip : "ip".toList = ['i', 'p'] := by decide
theorem lit_kclient : "client_id".toList = ['c', 'l', 'i', 'e', 'n', 't', '_', 'i', 'd'] := by decide
theorem lit_kstart : "start".toList = ['s', 't', 'a', 'r', 't'] := by decide
theorem lit_kexpire : "expire".toList = ['e', 'x', 'p', 'i', 'r', 'e'] := by decide
theorem lit_khost : "host-name".toList = ['h', 'o', 's', 't', '-', 'n', 'a', 'm', 'e'] := by decide
theorem lit_kleases : "leases".toList = ['l', 'e', 'a', 's', 'e', 's'] := by decide
theorem lit_head : "{ \"leases\" : [\n".toList = ['{', ' ', '"', 'l', 'e', 'a', 's', 'e', 's', '"', ' ', ':', ' ', '[', '\n'] := by decide
theorem lit_tail : "\n]}\n".toList = ['\n', ']', '}', '\n'] := by decide
theorem lit_sep : ",\n".toList = [',', '\n'] := by decide

/-- **one entry** is a JSON object carrying the row's address, client identifier, start, expiry and host name -/
theorem entry_denotes (r : LRow) : Denotes (entry r) (rowV r) := by
  cases hh : r.host with
  | none =>
    have m4 := Members.one [' '] _ _ [] _ _ ws_space k_expire ws_nil (den_num r.expire [' '] ws_space)
    have m3 := Members.cons [' '] _ _ [] _ _ _ _ ws_space k_start ws_nil (den_num r.start [] ws_nil) m4
    have m2 := Members.cons [' '] _ _ [] _ _ _ _ ws_space k_client ws_nil (den_str_plain _ (clientStr_plain r.client)) m3
    have m1 := Members.cons [' '] _ _ [] _ _ _ _ ws_space k_ip ws_nil (den_str_plain _ (ipStr_plain r.ip)) m2
    have d := Denotes.ws [' '] _ [] _ ws_space ws_nil (Denotes.obj _ _ m1)
    have hv : rowV r = .obj [("ip".toList, .str (ipStr r.ip)), ("client_id".toList, .str (clientStr r.client)),
        ("start".toList, .num r.start), ("expire".toList, .num r.expire)] := by simp [rowV, hh]
    rw [hv]
    refine denotes_cast d ?_
    unfold entry
    rw [hh]
    simp only [lit_open, lit_client, lit_start, lit_expire, lit_close, lit_kip, lit_kclient, lit_kstart, lit_kexpire, List.append_assoc, List.cons_append, List.nil_append, List.append_nil]
  | some h =>
    have m5 := Members.one [' '] _ _ [] _ _ ws_space k_host ws_nil (den_jsonString h [' '] ws_space)
    have m4 := Members.cons [' '] _ _ [] _ _ _ _ ws_space k_expire ws_nil (den_num r.expire [] ws_nil) m5
    have m3 := Members.cons [' '] _ _ [] _ _ _ _ ws_space k_start ws_nil (den_num r.start [] ws_nil) m4
    have m2 := Members.cons [' '] _ _ [] _ _ _ _ ws_space k_client ws_nil (den_str_plain _ (clientStr_plain r.client)) m3
    have m1 := Members.cons [' '] _ _ [] _ _ _ _ ws_space k_ip ws_nil (den_str_plain _ (ipStr_plain r.ip)) m2
    have d := Denotes.ws [' '] _ [] _ ws_space ws_nil (Denotes.obj _ _ m1)
    have hv : rowV r = .obj [("ip".toList, .str (ipStr r.ip)), ("client_id".toList, .str (clientStr r.client)),
        ("start".toList, .num r.start), ("expire".toList, .num r.expire), ("host-name".toList, .str h)] := by simp [rowV, hh]
    rw [hv]
    refine denotes_cast d ?_
    unfold entry jsonString
    rw [hh]
    simp only [lit_open, lit_client, lit_start, lit_expire, lit_host, lit_close, lit_kip, lit_kclient, lit_kstart, lit_kexpire, lit_khost, List.append_assoc, List.cons_append, List.nil_append, List.append_nil]


/-- the entries between the brackets: one per row, in order, separated by commas -/
theorem elems_join : ∀ (rows : List LRow), rows ≠ [] →
    Elems (['\n'] ++ joinEntries (rows.map entry) ++ ['\n']) (rows.map rowV)
  | [], h => absurd rfl h
  | [r], _ => by
    simp only [List.map_cons, List.map_nil, joinEntries]
    exact .one _ _ (.ws ['\n'] _ ['\n'] _ ws_nl ws_nl (entry_denotes r))
  | r :: r2 :: rest, _ => by
    have ih := elems_join (r2 :: rest) (by simp)
    have d := Denotes.ws ['\n'] _ [] _ ws_nl ws_nil (entry_denotes r)
    have e := Elems.cons _ _ _ _ d ih
    simp only [List.map_cons, joinEntries] at e ⊢
    have : ['\n'] ++ (entry r ++ ",\n".toList ++ joinEntries (entry r2 :: List.map entry rest)) ++ ['\n'] =
        ['\n'] ++ entry r ++ [] ++ ',' :: (['\n'] ++ joinEntries (entry r2 :: List.map entry rest) ++ ['\n']) := by
      simp only [lit_sep, List.append_assoc, List.cons_append, List.nil_append, List.append_nil]
    rw [this]; exact e

/-- **C20 (the listing is JSON and says what the store holds)**: for every list of rows, the rendered text is a JSON
    document (RFC 8259) denoting `{"leases": [ … ]}` with exactly one object per row, in order, carrying that row's
    address, client identifier, start, expiry and (when stored) host name — whatever characters the host name has. -/
theorem render_denotes (rows : List LRow) : Denotes (render rows) (listingV rows) := by
  have hval : ∀ inner, Denotes ('[' :: inner ++ [']']) (.arr (rows.map rowV)) →
      Denotes ('{' :: ([' '] ++ '"' :: "leases".toList ++ '"' :: [' '] ++ ':' :: ([' '] ++ ('[' :: inner ++ [']']) ++ [])) ++ ['}'] ) (listingV rows) := by
    intro inner h
    exact .obj _ _ (.one [' '] _ _ [' '] _ _ ws_space k_leases ws_space (.ws [' '] _ [] _ ws_space ws_nil h))
  cases rows with
  | nil =>
    have h := hval (['\n'] ++ ['\n']) (.arrNil _ (by intro c hc; simp at hc; subst hc; exact Or.inr (Or.inl rfl)))
    have d := Denotes.ws [] _ ['\n'] _ ws_nil ws_nl h
    refine denotes_cast d ?_
    unfold render
    simp only [List.map_nil, joinEntries, lit_head, lit_tail, lit_kleases, List.append_assoc, List.cons_append, List.nil_append, List.append_nil]
  | cons r rest =>
    have h := hval _ (.arr _ _ (elems_join (r :: rest) (by simp)))
    have d := Denotes.ws [] _ ['\n'] _ ws_nil ws_nl h
    refine denotes_cast d ?_
    unfold render
    simp only [lit_head, lit_tail, lit_kleases, List.append_assoc, List.cons_append, List.nil_append, List.append_nil]


/-! ### a string text denotes only one string -/

theorem escapeOf_u : escapeOf 'u' = none := by decide

/-- **the string grammar is unambiguous**: the text between the quotation marks denotes at most one sequence of
    characters — so what a JSON reader gets for a host name is exactly the stored host name and nothing else -/
theorem strBody_unique : ∀ {t s s' : List Char}, StrBody t s → StrBody t s' → s = s' := by
  intro t s s' h
  induction h generalizing s' with
  | nil => intro h'; cases h'; rfl
  | plain c t s hc hq hb _ ih =>
    intro h'
    cases h' with
    | plain _ _ s2 _ _ _ h2 => rw [ih h2]
    | esc e c2 _ s2 _ _ => exact absurd rfl hb
    | uni a b c2 d x y z w _ s2 _ _ _ _ _ _ => exact absurd rfl hb
  | esc e c t s he _ ih =>
    intro h'
    cases h' with
    | plain _ _ s2 _ _ hb _ => exact absurd rfl hb
    | esc _ c2 _ s2 he2 h2 =>
      rw [he] at he2; cases he2
      rw [ih h2]
    | uni a b c2 d x y z w _ s2 _ _ _ _ _ _ => rw [escapeOf_u] at he; cases he
  | uni a b c d x y z w t s ha hb hc hd _ _ ih =>
    intro h'
    cases h' with
    | plain _ _ s2 _ _ hbs _ => exact absurd rfl hbs
    | esc _ c2 _ s2 he2 _ => rw [escapeOf_u] at he2; cases he2
    | uni _ _ _ _ x2 y2 z2 w2 _ s2 ha2 hb2 hc2 hd2 _ h2 =>
      rw [ha] at ha2; rw [hb] at hb2; rw [hc] at hc2; rw [hd] at hd2
      cases ha2; cases hb2; cases hc2; cases hd2
      rw [ih h2]

end Erbium.LeaseReport
