import ErbiumModel.Lemmas.Frame
import ErbiumModel.Spec.FrameRfc
namespace Erbium.Frame
open Spec.FrameRfc

theorem len4 (l : List Nat) (h : l.length = 4) : ∃ a b c d, l = [a, b, c, d] := by
  match l, h with
  | [a, b, c, d], _ => exact ⟨a, b, c, d, rfl⟩

theorem len6 (l : List Nat) (h : l.length = 6) : ∃ a b c d e f, l = [a, b, c, d, e, f] := by
  match l, h with
  | [a, b, c, d, e, f], _ => exact ⟨a, b, c, d, e, f, rfl⟩

theorem recomb (x : Nat) (h : x < 65536) : x / 256 % 256 * 256 + x % 256 = x := by omega

theorem frame_valid (u : Udp4) (h : WfU u) : validFrame u (frame u) = none := by
  have hp := h.payload.1
  have hsp := h.sport
  have hdp := h.dport
  have e1 : ipTotalLen u / 256 % 256 * 256 + ipTotalLen u % 256 = 28 + u.payload.length := by
    rw [recomb _ (by unfold ipTotalLen; omega)]; unfold ipTotalLen; omega
  have e2 : udpLen u / 256 % 256 * 256 + udpLen u % 256 = 8 + u.payload.length := by
    rw [recomb _ (by unfold udpLen; omega)]; unfold udpLen; omega
  have e3 := recomb u.sport hsp
  have e4 := recomb u.dport hdp
  clear hp hsp hdp
  have hip := ip_checksum_verifies u h
  have hudp := udp_checksum_verifies u h
  obtain ⟨src, sport, smac, dst, dport, dmac, payload⟩ := u
  obtain ⟨⟨hs, hsb⟩, ⟨hd, hdb⟩, hsm, hdm, hsp, hdp, hpl, hpb⟩ := h
  simp only at hs hd hsm hdm hsp hdp hpl e1 e2 e3 e4
  obtain ⟨s0, s1, s2, s3, rfl⟩ := len4 src hs
  obtain ⟨d0, d1, d2, d3, rfl⟩ := len4 dst hd
  obtain ⟨a0, a1, a2, a3, a4, a5, rfl⟩ := len6 smac hsm
  obtain ⟨b0, b1, b2, b3, b4, b5, rfl⟩ := len6 dmac hdm
  clear hs hd hsm hdm hsb hdb hpb
  simp only [validFrame, frame, ethHeader, ipHeader, udpHeader, be16, pseudo, List.cons_append, List.nil_append] at hip hudp ⊢
  simp [g16, hip, hudp, e1, e2, e3, e4]

end Erbium.Frame

namespace Erbium.Frame

/-- every element of the frame is an octet: no field of the Ethernet, IPv4 or UDP header is written
    from a value that does not fit it (lengths are < 65536 for payloads ≤ 65507, both checksums are
    16-bit by `finishNetsum_lt`, `be16` splits into two octets). -/
theorem frame_octets (u : Udp4) (h : WfU u) (hsm : ∀ b ∈ u.smac, b < 256) (hdm : ∀ b ∈ u.dmac, b < 256) :
    ∀ b ∈ frame u, b < 256 := by
  intro b hb
  simp only [frame, ethHeader, ipHeader, udpHeader, List.mem_append] at hb
  rcases hb with (((((hb | hb) | hb) | (((((hb | hb) | hb) | hb) | hb) | hb)) | (((hb | hb) | hb) | hb)) | hb)
  · exact hdm b hb
  · exact hsm b hb
  · simp at hb; omega
  · simp at hb; omega
  · exact be16_lt _ b hb
  · simp at hb; omega
  · exact be16_lt _ b hb
  · exact h.src.2 b hb
  · exact h.dst.2 b hb
  · exact be16_lt _ b hb
  · exact be16_lt _ b hb
  · exact be16_lt _ b hb
  · exact be16_lt _ b hb
  · exact h.payload.2 b hb

end Erbium.Frame
