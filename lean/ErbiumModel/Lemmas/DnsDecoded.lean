import ErbiumModel.Lemmas.DnsMessage
import ErbiumModel.Lemmas.DnsTotal
/-! What the decoder returns is inside the domain of the round-trip and totality theorems: every message
    `parse` accepts is a `WfPkt` whose opaque record data fit 16 bits (C14's "any message the decoder accepts"). -/
namespace Erbium.DnsWire

/-- the input is a string of octets -/
def Octets (l : Bytes) : Prop := ∀ x ∈ l, x < 256

theorem Octets.take {l : Bytes} (h : Octets l) (n : Nat) : Octets (l.take n) := fun x hx => h x (List.mem_of_mem_take hx)
theorem Octets.drop {l : Bytes} (h : Octets l) (n : Nat) : Octets (l.drop n) := fun x hx => h x (List.mem_of_mem_drop hx)

theorem getU8_ok {buf : Bytes} (hb : Octets buf) {off v o : Nat} (h : getU8 buf off = .ok (v, o)) : v < 256 ∧ o = off + 1 := by
  unfold getU8 at h
  cases hg : buf[off]? with
  | none => simp [hg] at h
  | some b =>
    simp only [hg, Except.ok.injEq, Prod.mk.injEq] at h
    obtain ⟨rfl, rfl⟩ := h
    exact ⟨hb _ (List.mem_of_getElem? hg), rfl⟩

theorem getU16_ok {buf : Bytes} (hb : Octets buf) {off v o : Nat} (h : getU16 buf off = .ok (v, o)) : v < 65536 := by
  unfold getU16 at h
  simp only [bind, Except.bind] at h
  cases h1 : getU8 buf off with
  | error e => simp [h1] at h
  | ok r1 =>
    obtain ⟨a, o1⟩ := r1
    simp only [h1] at h
    cases h2 : getU8 buf o1 with
    | error e => simp [h2] at h
    | ok r2 =>
      obtain ⟨b, o2⟩ := r2
      simp only [h2, pure, Except.pure, Except.ok.injEq, Prod.mk.injEq] at h
      have := (getU8_ok hb h1).1
      have := (getU8_ok hb h2).1
      omega

theorem getU32_ok {buf : Bytes} (hb : Octets buf) {off v o : Nat} (h : getU32 buf off = .ok (v, o)) : v < 4294967296 := by
  unfold getU32 at h
  simp only [bind, Except.bind] at h
  cases h1 : getU8 buf off with
  | error e => simp [h1] at h
  | ok r1 =>
    obtain ⟨a, o1⟩ := r1
    simp only [h1] at h
    cases h2 : getU8 buf o1 with
    | error e => simp [h2] at h
    | ok r2 =>
      obtain ⟨b, o2⟩ := r2
      simp only [h2] at h
      cases h3 : getU8 buf o2 with
      | error e => simp [h3] at h
      | ok r3 =>
        obtain ⟨c, o3⟩ := r3
        simp only [h3] at h
        cases h4 : getU8 buf o3 with
        | error e => simp [h4] at h
        | ok r4 =>
          obtain ⟨d, o4⟩ := r4
          simp only [h4, pure, Except.pure, Except.ok.injEq, Prod.mk.injEq] at h
          have := (getU8_ok hb h1).1
          have := (getU8_ok hb h2).1
          have := (getU8_ok hb h3).1
          have := (getU8_ok hb h4).1
          omega

theorem getBytes_ok {buf : Bytes} {off n : Nat} {b : Bytes} {o : Nat} (h : getBytes buf off n = .ok (b, o)) : b.length = n := by
  unfold getBytes at h
  split at h
  · simp only [Except.ok.injEq, Prod.mk.injEq] at h
    obtain ⟨rfl, _⟩ := h
    simp; omega
  · cases h

theorem getBytes_octets {buf : Bytes} (hb : Octets buf) {off n : Nat} {b : Bytes} {o : Nat} (h : getBytes buf off n = .ok (b, o)) : Octets b := by
  unfold getBytes at h
  split at h
  · simp only [Except.ok.injEq, Prod.mk.injEq] at h
    obtain ⟨rfl, _⟩ := h
    exact (hb.drop _).take _
  · cases h

theorem getString_ok {buf : Bytes} (hb : Octets buf) {off : Nat} {s : Bytes} {o : Nat} (h : getString buf off = .ok (s, o)) : s.length < 256 := by
  unfold getString at h
  simp only [bind, Except.bind] at h
  cases h1 : getU8 buf off with
  | error e => simp [h1] at h
  | ok r1 =>
    obtain ⟨n, o1⟩ := r1
    simp only [h1] at h
    have := (getU8_ok hb h1).1
    have := getBytes_ok h
    omega

theorem getDomainInto_wf (buf : Bytes) : ∀ (fuel off depth : Nat) (d : Name) (o : Nat),
    getDomainInto buf fuel off depth = .ok (d, o) → WfName d := by
  intro fuel
  induction fuel with
  | zero => intro off depth d o h; simp [getDomainInto] at h
  | succ fuel ih =>
    intro off depth d o h
    unfold getDomainInto at h
    cases hg : buf[off]? with
    | none => simp [hg] at h
    | some p =>
      simp only [hg] at h
      by_cases h0 : p = 0
      · simp only [h0, if_true, Except.ok.injEq, Prod.mk.injEq] at h
        obtain ⟨rfl, _⟩ := h
        intro l hl; cases hl
      · simp only [h0, if_false] at h
        by_cases h64 : p < 64
        · simp only [h64, if_true] at h
          by_cases hlen : off + 1 + p ≤ buf.length
          · simp only [hlen, if_true] at h
            cases hr : getDomainInto buf fuel (off + 1 + p) depth with
            | error e => simp [hr] at h
            | ok r =>
              obtain ⟨rest, o'⟩ := r
              simp only [hr, Except.ok.injEq, Prod.mk.injEq] at h
              obtain ⟨rfl, _⟩ := h
              have hrest := ih _ _ _ _ hr
              intro l hl
              rcases List.mem_cons.mp hl with rfl | hl
              · unfold WfLabel
                simp only [List.length_take, List.length_drop]
                omega
              · exact hrest l hl
          · simp [hlen] at h
        · simp only [h64, if_false] at h
          by_cases h192 : p ≥ 192
          · simp only [h192, if_true] at h
            split at h
            · cases h
            · cases hlo : buf[off + 1]? with
              | none => simp [hlo] at h
              | some lo =>
                simp only [hlo] at h
                cases hr : getDomainInto buf fuel ((p - 192) * 256 + lo) (depth + 1) with
                | error e => simp [hr] at h
                | ok r =>
                  obtain ⟨rest, o'⟩ := r
                  simp only [hr, Except.ok.injEq, Prod.mk.injEq] at h
                  obtain ⟨rfl, _⟩ := h
                  exact ih _ _ _ _ hr
          · simp [h192] at h

theorem getDomain_ok {buf : Bytes} {off : Nat} {d : Name} {o : Nat} (h : getDomain buf off = .ok (d, o)) : NameOK d := by
  unfold getDomain at h
  cases hr : getDomainInto buf (nameFuel buf) off 1 with
  | error e => simp [hr] at h
  | ok r =>
    obtain ⟨d', o'⟩ := r
    simp only [hr] at h
    split at h
    · cases h
    · rename_i hw
      simp only [Except.ok.injEq, Prod.mk.injEq] at h
      obtain ⟨rfl, _⟩ := h
      have hwf := getDomainInto_wf buf _ _ _ _ _ hr
      have hge := wireLen_ge hwf
      have hl : Generated.Dns.nameOctetLimit = 255 := by decide
      have hlim : limit = 127 := by decide
      refine ⟨hwf, by omega, by omega⟩


theorem parseOpts_ok : ∀ (fuel : Nat) (b : Bytes) (os : List (Nat × Bytes)), Octets b → parseOpts fuel b = .ok os → OptsOK os := by
  intro fuel
  induction fuel with
  | zero => intro b os _ h; simp only [parseOpts, Except.ok.injEq] at h; subst h; intro e he; cases he
  | succ fuel ih =>
    intro b os hb h
    unfold parseOpts at h
    split at h
    · simp only [Except.ok.injEq] at h; subst h; intro e he; cases he
    · rename_i c1 c2 l1 l2 rest
      simp only at h
      split at h
      · cases h
      · rename_i hlen
        cases hr : parseOpts fuel (rest.drop (l1 * 256 + l2)) with
        | error e => simp [hr] at h
        | ok os' =>
          simp only [hr, Except.ok.injEq] at h
          subst h
          have hc1 : c1 < 256 := hb c1 (by simp)
          have hc2 : c2 < 256 := hb c2 (by simp)
          have hl1 : l1 < 256 := hb l1 (by simp)
          have hl2 : l2 < 256 := hb l2 (by simp)
          have hrest : Octets rest := fun x hx => hb x (by simp [hx])
          have ih' := ih _ _ (hrest.drop _) hr
          intro e he
          rcases List.mem_cons.mp he with rfl | he
          · refine ⟨by simp only; omega, ?_⟩
            simp only [List.length_take]
            omega
          · exact ih' e he
    · cases h

/-- opaque record data fit the 16-bit length the encoder writes in front of them -/
def RawFits : RData → Prop
  | .other x => x.length < 65536
  | _ => True

/-- helper: destructing one `Except` bind -/
theorem bind_ok {α β : Type} {x : Except DErr α} {f : α → Except DErr β} {b : β} (h : (x >>= f) = .ok b) :
    ∃ a, x = .ok a ∧ f a = .ok b := by
  cases x with
  | error e => cases h
  | ok a => exact ⟨a, rfl, h⟩


theorem getRData_ok {buf : Bytes} (hb : Octets buf) {off rtype : Nat} {rd : RData} {o : Nat}
    (h : getRData buf off rtype = .ok (rd, o)) : RDataOK rtype rd ∧ RawFits rd := by
  unfold getRData at h
  obtain ⟨⟨rdlen, o1⟩, hlen, h⟩ := bind_ok h
  dsimp only at h
  have hrdlen := getU16_ok hb hlen
  by_cases t1 : rtype = T_CNAME
  · rw [if_pos t1] at h
    obtain ⟨⟨d, o2⟩, hd, h⟩ := bind_ok h
    simp only [pure, Except.pure, Except.ok.injEq, Prod.mk.injEq] at h
    obtain ⟨rfl, _⟩ := h
    exact ⟨⟨t1, getDomain_ok hd⟩, trivial⟩
  rw [if_neg t1] at h
  by_cases t2 : rtype = T_NS
  · rw [if_pos t2] at h
    obtain ⟨⟨d, o2⟩, hd, h⟩ := bind_ok h
    simp only [pure, Except.pure, Except.ok.injEq, Prod.mk.injEq] at h
    obtain ⟨rfl, _⟩ := h
    exact ⟨⟨t2, getDomain_ok hd⟩, trivial⟩
  rw [if_neg t2] at h
  by_cases t3 : rtype = T_PTR
  · rw [if_pos t3] at h
    obtain ⟨⟨d, o2⟩, hd, h⟩ := bind_ok h
    simp only [pure, Except.pure, Except.ok.injEq, Prod.mk.injEq] at h
    obtain ⟨rfl, _⟩ := h
    exact ⟨⟨t3, getDomain_ok hd⟩, trivial⟩
  rw [if_neg t3] at h
  by_cases t4 : rtype = T_AFSDB
  · rw [if_pos t4] at h
    obtain ⟨⟨v, o2⟩, hv, h⟩ := bind_ok h
    dsimp only at h
    obtain ⟨⟨d, o3⟩, hd, h⟩ := bind_ok h
    simp only [pure, Except.pure, Except.ok.injEq, Prod.mk.injEq] at h
    obtain ⟨rfl, _⟩ := h
    exact ⟨⟨t4, getU16_ok hb hv, getDomain_ok hd⟩, trivial⟩
  rw [if_neg t4] at h
  by_cases t5 : rtype = T_RP
  · rw [if_pos t5] at h
    obtain ⟨⟨m, o2⟩, hm, h⟩ := bind_ok h
    dsimp only at h
    obtain ⟨⟨d, o3⟩, hd, h⟩ := bind_ok h
    simp only [pure, Except.pure, Except.ok.injEq, Prod.mk.injEq] at h
    obtain ⟨rfl, _⟩ := h
    exact ⟨⟨t5, getDomain_ok hm, getDomain_ok hd⟩, trivial⟩
  rw [if_neg t5] at h
  by_cases t6 : rtype = T_RT
  · rw [if_pos t6] at h
    obtain ⟨⟨v, o2⟩, hv, h⟩ := bind_ok h
    dsimp only at h
    obtain ⟨⟨d, o3⟩, hd, h⟩ := bind_ok h
    simp only [pure, Except.pure, Except.ok.injEq, Prod.mk.injEq] at h
    obtain ⟨rfl, _⟩ := h
    exact ⟨⟨t6, getU16_ok hb hv, getDomain_ok hd⟩, trivial⟩
  rw [if_neg t6] at h
  by_cases t7 : rtype = T_MX
  · rw [if_pos t7] at h
    obtain ⟨⟨v, o2⟩, hv, h⟩ := bind_ok h
    dsimp only at h
    obtain ⟨⟨d, o3⟩, hd, h⟩ := bind_ok h
    simp only [pure, Except.pure, Except.ok.injEq, Prod.mk.injEq] at h
    obtain ⟨rfl, _⟩ := h
    exact ⟨⟨t7, getU16_ok hb hv, getDomain_ok hd⟩, trivial⟩
  rw [if_neg t7] at h
  by_cases t8 : rtype = T_NAPTR
  · rw [if_pos t8] at h
    obtain ⟨⟨order, o2⟩, h1, h⟩ := bind_ok h
    dsimp only at h
    obtain ⟨⟨pref, o3⟩, h2, h⟩ := bind_ok h
    dsimp only at h
    obtain ⟨⟨f, o4⟩, h3, h⟩ := bind_ok h
    dsimp only at h
    obtain ⟨⟨sv, o5⟩, h4, h⟩ := bind_ok h
    dsimp only at h
    obtain ⟨⟨r, o6⟩, h5, h⟩ := bind_ok h
    dsimp only at h
    obtain ⟨⟨d, o7⟩, hd, h⟩ := bind_ok h
    simp only [pure, Except.pure, Except.ok.injEq, Prod.mk.injEq] at h
    obtain ⟨rfl, _⟩ := h
    exact ⟨⟨t8, getU16_ok hb h1, getU16_ok hb h2, getString_ok hb h3, getString_ok hb h4, getString_ok hb h5, getDomain_ok hd⟩, trivial⟩
  rw [if_neg t8] at h
  by_cases t9 : rtype = T_OPT
  · rw [if_pos t9] at h
    obtain ⟨⟨b, o2⟩, hbts, h⟩ := bind_ok h
    dsimp only at h
    cases hp : parseOpts (b.length + 1) b with
    | error e => simp [hp] at h
    | ok os =>
      simp only [hp, pure, Except.pure, Except.ok.injEq, Prod.mk.injEq] at h
      obtain ⟨rfl, _⟩ := h
      exact ⟨⟨t9, parseOpts_ok _ _ _ (getBytes_octets hb hbts) hp⟩, trivial⟩
  rw [if_neg t9] at h
  by_cases t10 : rtype = T_SOA
  · rw [if_pos t10] at h
    obtain ⟨⟨m, o2⟩, hm, h⟩ := bind_ok h
    dsimp only at h
    obtain ⟨⟨r, o3⟩, hr, h⟩ := bind_ok h
    dsimp only at h
    obtain ⟨⟨a, o4⟩, ha, h⟩ := bind_ok h
    dsimp only at h
    obtain ⟨⟨b, o5⟩, hb', h⟩ := bind_ok h
    dsimp only at h
    obtain ⟨⟨c, o6⟩, hc, h⟩ := bind_ok h
    dsimp only at h
    obtain ⟨⟨d, o7⟩, hd, h⟩ := bind_ok h
    dsimp only at h
    obtain ⟨⟨e, o8⟩, he, h⟩ := bind_ok h
    simp only [pure, Except.pure, Except.ok.injEq, Prod.mk.injEq] at h
    obtain ⟨rfl, _⟩ := h
    exact ⟨⟨t10, getDomain_ok hm, getDomain_ok hr, getU32_ok hb ha, getU32_ok hb hb', getU32_ok hb hc, getU32_ok hb hd,
      getU32_ok hb he⟩, trivial⟩
  rw [if_neg t10] at h
  obtain ⟨⟨b, o2⟩, hbts, h⟩ := bind_ok h
  simp only [pure, Except.pure, Except.ok.injEq, Prod.mk.injEq] at h
  obtain ⟨rfl, _⟩ := h
  refine ⟨⟨t1, t2, t3, t4, t5, t6, t7, t8, t9, t10⟩, ?_⟩
  show b.length < 65536
  rw [getBytes_ok hbts]; exact hrdlen

theorem getRR_ok {buf : Bytes} (hb : Octets buf) {off : Nat} {rr : RR} {o : Nat}
    (h : getRR buf off = .ok (rr, o)) : RROK rr ∧ RawFits rr.rdata := by
  unfold getRR at h
  obtain ⟨⟨domain, o1⟩, hd, h⟩ := bind_ok h
  dsimp only at h
  obtain ⟨⟨rrtype, o2⟩, ht, h⟩ := bind_ok h
  dsimp only at h
  obtain ⟨⟨cls, o3⟩, hc, h⟩ := bind_ok h
  dsimp only at h
  obtain ⟨⟨ttl, o4⟩, hl, h⟩ := bind_ok h
  dsimp only at h
  obtain ⟨⟨rdata, o5⟩, hr, h⟩ := bind_ok h
  simp only [pure, Except.pure, Except.ok.injEq, Prod.mk.injEq] at h
  obtain ⟨rfl, _⟩ := h
  have := getRData_ok hb hr
  exact ⟨⟨getDomain_ok hd, getU16_ok hb ht, getU16_ok hb hc, getU32_ok hb hl, this.1⟩, this.2⟩

theorem getRRs_ok {buf : Bytes} (hb : Octets buf) (trunc : Bool) : ∀ (n off : Nat) (rs : List RR) (o : Nat),
    getRRs buf trunc n off = .ok (rs, o) → (∀ rr ∈ rs, RROK rr ∧ RawFits rr.rdata) ∧ rs.length ≤ n := by
  intro n
  induction n with
  | zero =>
    intro off rs o h
    simp only [getRRs, Except.ok.injEq, Prod.mk.injEq] at h
    obtain ⟨rfl, _⟩ := h
    exact ⟨(by intro rr hrr; cases hrr), (by simp)⟩
  | succ n ih =>
    intro off rs o h
    unfold getRRs at h
    split at h
    · simp only [Except.ok.injEq, Prod.mk.injEq] at h
      obtain ⟨rfl, _⟩ := h
      exact ⟨(by intro rr hrr; cases hrr), (by simp)⟩
    · cases h1 : getRR buf off with
      | error e => simp [h1] at h
      | ok r =>
        obtain ⟨rr, o1⟩ := r
        simp only [h1] at h
        cases h2 : getRRs buf trunc n o1 with
        | error e => simp [h2] at h
        | ok r2 =>
          obtain ⟨rs', o2⟩ := r2
          simp only [h2, Except.ok.injEq, Prod.mk.injEq] at h
          obtain ⟨rfl, _⟩ := h
          have := ih _ _ _ h2
          refine ⟨?_, by simp; omega⟩
          intro x hx
          rcases List.mem_cons.mp hx with rfl | hx
          · exact getRR_ok hb h1
          · exact this.1 x hx


theorem filter_lt_of_mem {α : Type} (p : α → Bool) (l : List α) (x : α) (hx : x ∈ l) (hp : p x = false) :
    (l.filter p).length + 1 ≤ l.length := by
  induction l with
  | nil => cases hx
  | cons a as ih =>
    rcases List.mem_cons.mp hx with rfl | hx
    · simp only [List.filter_cons, hp, Bool.false_eq_true, if_false, List.length_cons]
      have := List.length_filter_le p as
      omega
    · have := ih hx
      simp only [List.filter_cons, List.length_cons]
      split
      · simp only [List.length_cons]; omega
      · omega

/-- every record of the message, for the conditions that are stated per record -/
def allRRs (p : Pkt) : List RR := p.answer ++ p.nameserver ++ p.additional

/-- **what the decoder returns**: a message of the shape the round-trip theorem is about, whose opaque record
    data fit their 16-bit length -/
theorem parse_wf {buf : Bytes} (hb : Octets buf) {m : Pkt} (h : parse buf = .ok m) :
    WfPkt m ∧ ∀ rr ∈ allRRs m, RawFits rr.rdata := by
  unfold parse at h
  obtain ⟨⟨qid, o1⟩, hqid, h⟩ := bind_ok h
  dsimp only at h
  obtain ⟨⟨flag1, o2⟩, hf1, h⟩ := bind_ok h
  dsimp only at h
  obtain ⟨⟨flag2, o3⟩, hf2, h⟩ := bind_ok h
  dsimp only at h
  obtain ⟨⟨qcount, o4⟩, hqc, h⟩ := bind_ok h
  dsimp only at h
  split at h
  · cases h
  obtain ⟨⟨arcount, o5⟩, har, h⟩ := bind_ok h
  dsimp only at h
  obtain ⟨⟨nscount, o6⟩, hns, h⟩ := bind_ok h
  dsimp only at h
  obtain ⟨⟨adcount, o7⟩, had, h⟩ := bind_ok h
  dsimp only at h
  obtain ⟨⟨qdomain, o8⟩, hqd, h⟩ := bind_ok h
  dsimp only at h
  obtain ⟨⟨qtype, o9⟩, hqt, h⟩ := bind_ok h
  dsimp only at h
  obtain ⟨⟨qclass, o10⟩, hqcl, h⟩ := bind_ok h
  dsimp only at h
  obtain ⟨⟨answer, o11⟩, hans, h⟩ := bind_ok h
  dsimp only at h
  obtain ⟨⟨nameserver, o12⟩, hnss, h⟩ := bind_ok h
  dsimp only at h
  obtain ⟨⟨additional, o13⟩, hadd, h⟩ := bind_ok h
  dsimp only at h
  have hfl1 := (getU8_ok hb hf1).1
  have hfl2 := (getU8_ok hb hf2).1
  have hA := getRRs_ok hb _ _ _ _ _ hans
  have hN := getRRs_ok hb _ _ _ _ _ hnss
  have hD := getRRs_ok hb _ _ _ _ _ hadd
  have harc := getU16_ok hb har
  have hnsc := getU16_ok hb hns
  have hadc := getU16_ok hb had
  simp only [pure, Except.pure, Except.ok.injEq] at h
  have hfits : ∀ rr ∈ answer ++ nameserver ++ additional.filter (fun rr => rr.rrtype != T_OPT), RawFits rr.rdata := by
    intro rr hrr
    rcases List.mem_append.mp hrr with h1 | h1
    · rcases List.mem_append.mp h1 with h2 | h2
      · exact (hA.1 rr h2).2
      · exact (hN.1 rr h2).2
    · exact (hD.1 rr (List.mem_filter.mp h1).1).2
  have hadOK : ∀ rr ∈ additional.filter (fun rr => rr.rrtype != T_OPT), RROK rr ∧ rr.rrtype ≠ T_OPT := by
    intro rr hrr
    obtain ⟨hm, hp⟩ := List.mem_filter.mp hrr
    exact ⟨(hD.1 rr hm).1, by simpa using hp⟩
  cases hopt : additional.find? isOpt0 with
  | none =>
    rw [hopt] at h
    subst h
    refine ⟨?_, hfits⟩
    refine
      { qid := getU16_ok hb hqid, opcode := by show flag1 / 8 % 16 < 16; omega,
        rcode := by show (flag2 % 16 + 0 * 16) % 65536 < 4096; omega,
        qtype := getU16_ok hb hqt, qclass := getU16_ok hb hqcl, qname := getDomain_ok hqd,
        an := fun rr hrr => (hA.1 rr hrr).1, ns := fun rr hrr => (hN.1 rr hrr).1, ad := hadOK,
        anN := by show answer.length < 65536; have := hA.2; omega,
        nsN := by show nameserver.length < 65536; have := hN.2; omega,
        adN := ?_, bufsize := ⟨by show 512 ≤ max 512 512; decide, by show max 512 512 < 65536; decide⟩,
        edns := Or.inr ⟨rfl, rfl, rfl, by show max 512 512 = 512; decide, by show (flag2 % 16 + 0 * 16) % 65536 < 16; omega⟩ }
    show (additionalOf _).length < 65536
    unfold additionalOf
    simp only [Option.map_none]
    have := List.length_filter_le (fun rr : RR => rr.rrtype != T_OPT) additional
    have := hD.2
    omega
  | some O =>
    rw [hopt] at h
    subst h
    have hOmem : O ∈ additional := List.mem_of_find?_eq_some hopt
    have hOis : isOpt0 O = true := List.find?_some hopt
    have hOok := (hD.1 O hOmem).1
    unfold isOpt0 at hOis
    simp only [Bool.and_eq_true, beq_iff_eq] at hOis
    have httl := hOok.ttl
    have hcls := hOok.cls
    refine ⟨?_, hfits⟩
    refine
      { qid := getU16_ok hb hqid, opcode := by show flag1 / 8 % 16 < 16; omega,
        rcode := by show (flag2 % 16 + O.ttl / 16777216 * 16) % 65536 < 4096; omega,
        qtype := getU16_ok hb hqt, qclass := getU16_ok hb hqcl, qname := getDomain_ok hqd,
        an := fun rr hrr => (hA.1 rr hrr).1, ns := fun rr hrr => (hN.1 rr hrr).1, ad := hadOK,
        anN := by show answer.length < 65536; have := hA.2; omega,
        nsN := by show nameserver.length < 65536; have := hN.2; omega,
        adN := ?_, bufsize := ⟨by show 512 ≤ max O.cls 512; omega, by show max O.cls 512 < 65536; omega⟩,
        edns := Or.inl ⟨_, rfl, ?_, by show some (O.ttl / 65536 % 256) = some 0; rw [hOis.2]⟩ }
    · show (additionalOf _).length < 65536
      unfold additionalOf
      simp only [Option.map_some, List.length_append, List.length_singleton]
      have := filter_lt_of_mem (fun rr : RR => rr.rrtype != T_OPT) additional O hOmem (by simp [hOis.1])
      have := hD.2
      omega
    · -- the options of the pseudo-record
      have hrd := hOok.rd
      rw [hOis.1] at hrd
      show OptsOK (match O.rdata with | .opt o => o | _ => [])
      cases hr : O.rdata with
      | opt os => rw [hr] at hrd; exact hrd.2
      | _ => intro e he; cases he


theorem rrenc_of_ok {rr : RR} (h : RROK rr) (hf : RawFits rr.rdata) : RREnc rr := by
  refine ⟨h.name.1, ?_⟩
  have hrd := h.rd
  cases hr : rr.rdata with
  | cname d => rw [hr] at hrd; exact hrd.2.1
  | ns d => rw [hr] at hrd; exact hrd.2.1
  | ptr d => rw [hr] at hrd; exact hrd.2.1
  | mx p d => rw [hr] at hrd; exact hrd.2.2.1
  | rt p d => rw [hr] at hrd; exact hrd.2.2.1
  | afsdb p d => rw [hr] at hrd; exact hrd.2.2.1
  | rp m x => rw [hr] at hrd; exact ⟨hrd.2.1.1, hrd.2.2.1⟩
  | soa m r a b c d e => rw [hr] at hrd; exact ⟨hrd.1, hrd.2.1.1, hrd.2.2.1.1⟩
  | naptr o p f s r d => rw [hr] at hrd; exact ⟨hrd.2.2.2.1, hrd.2.2.2.2.1, hrd.2.2.2.2.2.1, hrd.2.2.2.2.2.2.1⟩
  | opt o => rw [hr] at hrd; exact hrd.1
  | other x =>
    rw [hr] at hrd hf
    exact ⟨hrd.2.2.2.2.2.2.2.2.1, hrd.2.2.2.2.2.2.2.2.2, hf⟩

theorem pktenc_of_wf {p : Pkt} (hw : WfPkt p) (hf : ∀ rr ∈ allRRs p, RawFits rr.rdata) : PktEnc p where
  rcode := hw.rcode
  qname := hw.qname.1
  an := fun rr hrr => rrenc_of_ok (hw.an rr hrr) (hf rr (by unfold allRRs; simp [hrr]))
  ns := fun rr hrr => rrenc_of_ok (hw.ns rr hrr) (hf rr (by unfold allRRs; simp [hrr]))
  ad := fun rr hrr => rrenc_of_ok (hw.ad rr hrr).1 (hf rr (by unfold allRRs; simp [hrr]))

end Erbium.DnsWire
