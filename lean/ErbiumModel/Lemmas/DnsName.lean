import ErbiumModel.Model.DnsWire
/-! Name decoding lemmas for the DNS wire round trip (C14): monotonicity of the fuelled decoder,
    stability under append, and the three ways a name position decodes (terminator, label,
    pointer). -/
namespace Erbium.DnsWire

def limit : Nat := Generated.Dns.pointerDepthLimit

/-- unfolding lemma for one step of the decoder -/
theorem getDomainInto_succ (buf : Bytes) (fuel off depth : Nat) :
    getDomainInto buf (fuel + 1) off depth =
      match buf[off]? with
      | none => .error .truncated
      | some p =>
        if p = 0 then .ok ([], off + 1)
        else if p < 64 then
          if off + 1 + p ≤ buf.length then
            match getDomainInto buf fuel (off + 1 + p) depth with
            | .ok (rest, o) => .ok (((buf.drop (off + 1)).take p) :: rest, o)
            | .error e => .error e
          else .error .truncated
        else if p ≥ 192 then
          if depth > Generated.Dns.pointerDepthLimit then .error .compression else
          match buf[off + 1]? with
          | none => .error .truncated
          | some lo =>
            match getDomainInto buf fuel ((p - 192) * 256 + lo) (depth + 1) with
            | .ok (rest, _) => .ok (rest, off + 2)
            | .error e => .error e
        else .error .labelType := by
  rfl

/-- more fuel and a smaller depth counter never hurt -/
theorem getDomainInto_mono (buf : Bytes) :
    ∀ (fuel off depth : Nat) (r : Name × Nat), getDomainInto buf fuel off depth = .ok r →
      ∀ fuel' depth', fuel ≤ fuel' → depth' ≤ depth → getDomainInto buf fuel' off depth' = .ok r := by
  intro fuel
  induction fuel with
  | zero => intro off depth r h; simp [getDomainInto] at h
  | succ f ih =>
    intro off depth r h fuel' depth' hf hd
    obtain ⟨f', rfl⟩ : ∃ f', fuel' = f' + 1 := ⟨fuel' - 1, by omega⟩
    rw [getDomainInto_succ] at h ⊢
    cases hb : buf[off]? with
    | none => simp [hb] at h
    | some p =>
      simp only [hb] at h ⊢
      by_cases hp0 : p = 0
      · simpa [hp0] using h
      · simp only [hp0, if_false] at h ⊢
        by_cases hp64 : p < 64
        · simp only [hp64, if_true] at h ⊢
          by_cases hlen : off + 1 + p ≤ buf.length
          · simp only [hlen, if_true] at h ⊢
            cases hr : getDomainInto buf f (off + 1 + p) depth with
            | error e => simp [hr] at h
            | ok v =>
              rw [ih _ _ _ hr f' depth' (by omega) hd]
              simpa [hr] using h
          · simp [hlen] at h
        · simp only [hp64, if_false] at h ⊢
          by_cases hp192 : p ≥ 192
          · simp only [hp192, if_true] at h ⊢
            by_cases hdep : depth > Generated.Dns.pointerDepthLimit
            · simp [hdep] at h
            · have hdep' : ¬ depth' > Generated.Dns.pointerDepthLimit := by omega
              simp only [hdep, hdep', if_false] at h ⊢
              cases hlo : buf[off + 1]? with
              | none => simp [hlo] at h
              | some lo =>
                simp only [hlo] at h ⊢
                cases hr : getDomainInto buf f ((p - 192) * 256 + lo) (depth + 1) with
                | error e => simp [hr] at h
                | ok v =>
                  rw [ih _ _ _ hr f' (depth' + 1) (by omega) (by omega)]
                  simpa [hr] using h
          · simp [hp192] at h

theorem getElem?_append_left' (buf ext : Bytes) (i : Nat) (b : Nat) (h : buf[i]? = some b) :
    (buf ++ ext)[i]? = some b := by
  have hi : i < buf.length := by
    by_cases hi : i < buf.length
    · exact hi
    · rw [List.getElem?_eq_none (by omega)] at h; cases h
  rw [List.getElem?_append_left hi]; exact h

/-- decoding only looks at the octets it visits: appending does not change a successful decode -/
theorem getDomainInto_append (buf ext : Bytes) :
    ∀ (fuel off depth : Nat) (r : Name × Nat), getDomainInto buf fuel off depth = .ok r →
      getDomainInto (buf ++ ext) fuel off depth = .ok r := by
  intro fuel
  induction fuel with
  | zero => intro off depth r h; simp [getDomainInto] at h
  | succ f ih =>
    intro off depth r h
    rw [getDomainInto_succ] at h ⊢
    cases hb : buf[off]? with
    | none => simp [hb] at h
    | some p =>
      rw [getElem?_append_left' buf ext off p hb]
      simp only [hb] at h ⊢
      by_cases hp0 : p = 0
      · simpa [hp0] using h
      · simp only [hp0, if_false] at h ⊢
        by_cases hp64 : p < 64
        · simp only [hp64, if_true] at h ⊢
          by_cases hlen : off + 1 + p ≤ buf.length
          · have hlen' : off + 1 + p ≤ (buf ++ ext).length := by simp; omega
            simp only [hlen, hlen', if_true] at h ⊢
            cases hr : getDomainInto buf f (off + 1 + p) depth with
            | error e => simp [hr] at h
            | ok v =>
              rw [ih _ _ _ hr]
              have : List.take p (List.drop (off + 1) (buf ++ ext)) = List.take p (List.drop (off + 1) buf) := by
                rw [List.drop_append_of_le_length (by omega), List.take_append_of_le_length (by simp only [List.length_drop]; omega)]
              rw [this]
              simpa [hr] using h
          · simp [hlen] at h
        · simp only [hp64, if_false] at h ⊢
          by_cases hp192 : p ≥ 192
          · simp only [hp192, if_true] at h ⊢
            by_cases hdep : depth > Generated.Dns.pointerDepthLimit
            · simp [hdep] at h
            · simp only [hdep, if_false] at h ⊢
              cases hlo : buf[off + 1]? with
              | none => simp [hlo] at h
              | some lo =>
                rw [getElem?_append_left' buf ext (off + 1) lo hlo]
                simp only [hlo] at h ⊢
                cases hr : getDomainInto buf f ((p - 192) * 256 + lo) (depth + 1) with
                | error e => simp [hr] at h
                | ok v =>
                  rw [ih _ _ _ hr]
                  simpa [hr] using h
          · simp [hp192] at h

/-- `Dec buf off s k o`: the name at `off` decodes to `s` using at most `k` pointer jumps, and the
    stream continues at `o` -/
def Dec (buf : Bytes) (off : Nat) (s : Name) (k o : Nat) : Prop :=
  k ≤ limit ∧ getDomainInto buf (s.length + k + 1) off (limit + 1 - k) = .ok (s, o)

theorem Dec.append {buf off s k o} (h : Dec buf off s k o) (ext : Bytes) : Dec (buf ++ ext) off s k o :=
  ⟨h.1, getDomainInto_append buf ext _ _ _ _ h.2⟩

theorem Dec.mono {buf off s k o} (h : Dec buf off s k o) {k' : Nat} (hk : k ≤ k') (hk' : k' ≤ limit) :
    Dec buf off s k' o :=
  ⟨hk', getDomainInto_mono buf _ _ _ _ h.2 _ _ (by omega) (by omega)⟩

theorem Dec.zero {buf : Bytes} {off : Nat} (h : buf[off]? = some 0) (k : Nat) (hk : k ≤ limit) :
    Dec buf off [] k (off + 1) := by
  refine ⟨hk, ?_⟩
  show getDomainInto buf (0 + k + 1) off _ = _
  rw [getDomainInto_succ]; simp [h]

theorem Dec.label {buf : Bytes} {off : Nat} {l : Label} {rest : Name} {k o : Nat}
    (hl : 1 ≤ l.length ∧ l.length ≤ 63) (hb : buf.drop off = l.length :: (l ++ buf.drop (off + 1 + l.length)))
    (hlen : off + 1 + l.length ≤ buf.length)
    (h : Dec buf (off + 1 + l.length) rest k o) : Dec buf off (l :: rest) k o := by
  refine ⟨h.1, ?_⟩
  have hoff : buf[off]? = some l.length := by
    have := congrArg List.head? hb
    simpa [List.head?_drop] using this
  have hfuel : (l :: rest).length + k + 1 = (rest.length + k + 1) + 1 := by simp; omega
  rw [hfuel, getDomainInto_succ]
  simp only [hoff]
  have h0 : ¬ l.length = 0 := by omega
  have h64 : l.length < 64 := by omega
  simp only [h0, if_false, h64, if_true, hlen, h.2]
  have : List.take l.length (List.drop (off + 1) buf) = l := by
    have hd : buf.drop (off + 1) = l ++ buf.drop (off + 1 + l.length) := by
      have := congrArg List.tail hb
      simpa [List.tail_drop] using this
    rw [hd]; simp
  rw [this]

theorem Dec.pointer {buf : Bytes} {off target : Nat} {s : Name} {k o : Nat}
    (h0 : buf[off]? = some (192 + target / 256)) (h1 : buf[off + 1]? = some (target % 256))
    (ht : target / 256 < 64) (h : Dec buf target s k o) (hk : k + 1 ≤ limit) :
    Dec buf off s (k + 1) (off + 2) := by
  refine ⟨hk, ?_⟩
  have hfuel : s.length + (k + 1) + 1 = (s.length + k + 1) + 1 := by omega
  rw [hfuel, getDomainInto_succ]
  simp only [h0]
  have e0 : ¬ (192 + target / 256 = 0) := by omega
  have e1 : ¬ (192 + target / 256 < 64) := by omega
  have e2 : 192 + target / 256 ≥ 192 := by omega
  have e3 : ¬ (limit + 1 - (k + 1) > Generated.Dns.pointerDepthLimit) := by unfold limit at *; omega
  simp only [e0, e1, e2, e3, if_false, if_true, h1]
  have et : (192 + target / 256 - 192) * 256 + target % 256 = target := by omega
  have ed : limit + 1 - (k + 1) + 1 = limit + 1 - k := by omega
  rw [et, ed, h.2]

/-- the reader the message decoder uses, from a `Dec` fact -/
theorem getDomainInto_of_dec {buf off s k o} (h : Dec buf off s k o) (hs : s.length ≤ limit) :
    getDomainInto buf (nameFuel buf) off 1 = .ok (s, o) := by
  unfold nameFuel
  apply getDomainInto_mono buf _ _ _ _ h.2
  · have := h.1
    unfold limit at *
    have h1 : s.length + k + 1 ≤ 2 * (Generated.Dns.pointerDepthLimit + 2) := by omega
    have h2 : 2 * (Generated.Dns.pointerDepthLimit + 2) ≤ (buf.length + 2) * (Generated.Dns.pointerDepthLimit + 2) :=
      Nat.mul_le_mul_right _ (by omega)
    omega
  · have := h.1; omega

/-- the reader the message decoder uses, from a `Dec` fact -/
theorem getDomain_of_dec {buf off s k o} (h : Dec buf off s k o) (hs : s.length ≤ limit)
    (hw : wireLen s ≤ Generated.Dns.nameOctetLimit) :
    getDomain buf off = .ok (s, o) := by
  unfold getDomain
  rw [getDomainInto_of_dec h hs]
  simp only [show ¬ wireLen s > Generated.Dns.nameOctetLimit by omega, if_false]

end Erbium.DnsWire

namespace Erbium.DnsWire

/-- a successful decode starts inside the buffer -/
theorem Dec.lt_length {buf off s k o} (h : Dec buf off s k o) : off < buf.length := by
  have := h.2
  rw [getDomainInto_succ] at this
  by_cases hlt : off < buf.length
  · exact hlt
  · rw [List.getElem?_eq_none (by omega)] at this; simp at this

end Erbium.DnsWire
