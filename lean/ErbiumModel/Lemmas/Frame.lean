import ErbiumModel.Model.Frame
namespace Erbium.Frame

theorem fold_le (s : Nat) (h : s < 2^32) : fold s ≤ 0xffff := by
  unfold fold fold1; simp only; split <;> (try split) <;> omega
theorem fold_mod (s : Nat) (_h : s < 2^32) : fold s % 65535 = s % 65535 := by
  unfold fold fold1; simp only; split <;> (try split) <;> omega
theorem fold_pos (s : Nat) (h : s < 2^32) (hs : 0 < s) : 0 < fold s := by
  unfold fold fold1; simp only; split <;> (try split) <;> omega

/-- inserting the computed checksum makes the total fold to 0xffff, i.e. the receiver's check passes -/
theorem verifies (S : Nat) (h : S + 0xffff < 2^32) : fold (S + finishNetsum S) = 0xffff := by
  have h1 := fold_le S (by omega)
  have h2 := fold_mod S (by omega)
  have hS' : S + finishNetsum S < 2^32 := by unfold finishNetsum; omega
  have h3 := fold_le _ hS'
  have h4 := fold_mod _ hS'
  have h5 : 0 < S + finishNetsum S := by
    unfold finishNetsum
    by_cases hz : S = 0
    · subst hz; simp [fold]
    · omega
  have h6 := fold_pos _ hS' h5
  unfold finishNetsum at *
  omega

theorem finishNetsum_lt (S : Nat) : finishNetsum S < 65536 := by unfold finishNetsum; omega

theorem sumWords_append_even (xs ys : List Nat) (h : xs.length % 2 = 0) :
    sumWords (xs ++ ys) = sumWords xs + sumWords ys := by
  induction xs using sumWords.induct with
  | case1 => simp [sumWords]
  | case2 a => simp at h
  | case3 a b rest ih =>
    simp only [List.cons_append, sumWords]
    rw [ih (by simp at h; omega)]; omega

theorem sumWords_le (xs : List Nat) (h : ∀ b ∈ xs, b < 256) : sumWords xs ≤ 65535 * ((xs.length + 1) / 2) := by
  induction xs using sumWords.induct with
  | case1 => simp [sumWords]
  | case2 a => have := h a (by simp); simp [sumWords]; omega
  | case3 a b rest ih =>
    have ha := h a (by simp)
    have hb := h b (by simp)
    have := ih (fun x hx => h x (by simp [hx]))
    simp only [sumWords, List.length_cons]
    omega

theorem sumWords_be16 (x : Nat) (h : x < 65536) : sumWords (be16 x) = x := by
  unfold be16; simp only [sumWords]; omega

end Erbium.Frame

namespace Erbium.Frame

theorem be16_length (x : Nat) : (be16 x).length = 2 := rfl

theorem csum_insert (A B : List Nat) (hA : A.length % 2 = 0)
    (hS : sumWords (A ++ [0, 0] ++ B) + 0xffff < 2^32) :
    fold (sumWords (A ++ be16 (finishNetsum (sumWords (A ++ [0, 0] ++ B))) ++ B)) = 0xffff := by
  have e0 : sumWords (A ++ [0, 0] ++ B) = sumWords A + sumWords B := by
    rw [List.append_assoc, sumWords_append_even A _ hA, sumWords_append_even [0, 0] B rfl]
    simp [sumWords]
  have e1 : ∀ ck, ck < 65536 → sumWords (A ++ be16 ck ++ B) = sumWords A + sumWords B + ck := by
    intro ck hck
    rw [List.append_assoc, sumWords_append_even A _ hA, sumWords_append_even (be16 ck) B (by simp [be16_length]),
        sumWords_be16 ck hck]; omega
  rw [e1 _ (finishNetsum_lt _), e0]
  rw [e0] at hS
  exact verifies _ hS

structure WfU (u : Udp4) : Prop where
  src : u.src.length = 4 ∧ ∀ b ∈ u.src, b < 256
  dst : u.dst.length = 4 ∧ ∀ b ∈ u.dst, b < 256
  smac : u.smac.length = 6
  dmac : u.dmac.length = 6
  sport : u.sport < 65536
  dport : u.dport < 65536
  payload : u.payload.length ≤ 65507 ∧ ∀ b ∈ u.payload, b < 256

theorem be16_lt (x : Nat) : ∀ b ∈ be16 x, b < 256 := by
  intro b hb; unfold be16 at hb; simp at hb; omega

theorem ip_checksum_verifies (u : Udp4) (h : WfU u) : fold (sumWords (ipHeader u)) = 0xffff := by
  have hb : ∀ b ∈ ([0x45, 0] ++ be16 (ipTotalLen u) ++ [0, 0, 0, 0, 1, 17]) ++ [0, 0] ++ (u.src ++ u.dst), b < 256 := by
    intro b hb
    simp only [List.mem_append] at hb
    rcases hb with ((((hb | hb) | hb) | hb) | (hb | hb))
    · simp at hb; omega
    · exact be16_lt _ b hb
    · simp at hb; omega
    · simp at hb; omega
    · exact h.src.2 b hb
    · exact h.dst.2 b hb
  have hl := sumWords_le _ hb
  have hlen : (([0x45, 0] ++ be16 (ipTotalLen u) ++ [0, 0, 0, 0, 1, 17]) ++ [0, 0] ++ (u.src ++ u.dst)).length = 20 := by
    simp [be16_length, h.src.1, h.dst.1]
  rw [hlen] at hl
  have := csum_insert ([0x45, 0] ++ be16 (ipTotalLen u) ++ [0, 0, 0, 0, 1, 17]) (u.src ++ u.dst)
    (by simp [be16_length]) (by omega)
  unfold ipHeader ipCsum ipHeader0 partialNetsum
  simpa [List.append_assoc] using this

theorem udp_checksum_verifies (u : Udp4) (h : WfU u) :
    fold (sumWords (pseudo u ++ udpHeader u ++ u.payload)) = 0xffff := by
  let A := pseudo u ++ (be16 u.sport ++ be16 u.dport ++ be16 (udpLen u))
  have hA : A.length % 2 = 0 := by
    simp [A, pseudo, be16_length, h.src.1, h.dst.1]
  have hAlen : A.length = 18 := by simp [A, pseudo, be16_length, h.src.1, h.dst.1]
  have hb : ∀ b ∈ A ++ [0, 0] ++ u.payload, b < 256 := by
    intro b hb
    simp only [A, pseudo, List.mem_append] at hb
    rcases hb with (((((hb | hb) | hb) | hb) | ((hb | hb) | hb)) | hb) | hb
    · exact h.src.2 b hb
    · exact h.dst.2 b hb
    · simp at hb; omega
    · exact be16_lt _ b hb
    · exact be16_lt _ b hb
    · exact be16_lt _ b hb
    · exact be16_lt _ b hb
    · simp at hb; omega
    · exact h.payload.2 b hb
  have hl := sumWords_le _ hb
  have hlen : (A ++ [0, 0] ++ u.payload).length = 20 + u.payload.length := by
    simp [hAlen]; omega
  rw [hlen] at hl
  have hp := h.payload.1
  have := csum_insert A u.payload hA (by omega)
  have e : udpCsum u = finishNetsum (sumWords (A ++ [0, 0] ++ u.payload)) := by
    unfold udpCsum partialNetsum udpHeader0
    have hps : (pseudo u).length % 2 = 0 := by simp [pseudo, be16_length, h.src.1, h.dst.1]
    have h8 : (be16 u.sport ++ be16 u.dport ++ be16 (udpLen u) ++ [0, 0]).length % 2 = 0 := by
      simp [be16_length]
    congr 1
    simp only [A]
    rw [List.append_assoc (pseudo u ++ _), List.append_assoc (pseudo u),
        sumWords_append_even (pseudo u) _ hps]
    rw [show be16 u.sport ++ be16 u.dport ++ be16 (udpLen u) ++ ([0, 0] ++ u.payload)
          = (be16 u.sport ++ be16 u.dport ++ be16 (udpLen u) ++ [0, 0]) ++ u.payload by simp]
    rw [sumWords_append_even _ u.payload h8]
    omega
  unfold udpHeader
  rw [e]
  simpa [A, List.append_assoc] using this

end Erbium.Frame
