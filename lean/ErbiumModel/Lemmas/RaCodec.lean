import ErbiumModel.Spec.RaRfc
/-! Round trips between the router-advertisement serialiser (model of `icmppkt::serialise`) and the decoder written
    from the RFCs (`Spec/RaRfc.lean`) — the lemmas behind C17's general statement. -/
namespace Erbium.RaCodec
open Erbium.Radv Erbium.RaRfc

theorem be_snoc (l : Bytes) (d : Nat) : be (l ++ [d]) = be l * 256 + d := by
  simp [be, List.foldl_append]

theorem foldl_init (b : Bytes) : ∀ init : Nat,
    b.foldl (fun acc x => acc * 256 + x) init = init * 256 ^ b.length + b.foldl (fun acc x => acc * 256 + x) 0 := by
  induction b with
  | nil => intro init; simp
  | cons d ds ih =>
    intro init
    simp only [List.foldl_cons, List.length_cons]
    rw [ih (init * 256 + d), ih (0 * 256 + d), Nat.pow_succ]
    simp only [Nat.zero_mul, Nat.zero_add, Nat.add_mul, Nat.mul_assoc, Nat.add_assoc, Nat.mul_comm (256 ^ ds.length) 256]

theorem be_append (a b : Bytes) : be (a ++ b) = be a * 256 ^ b.length + be b := by
  unfold be
  rw [List.foldl_append, foldl_init]

/-- the `k` big-endian octets of `x` -/
def digits (k x : Nat) : Bytes := (List.range k).map fun i => x / 256 ^ (k - 1 - i) % 256

theorem digits_succ (k x : Nat) : digits (k + 1) x = digits k (x / 256) ++ [x % 256] := by
  unfold digits
  rw [List.range_succ, List.map_append]
  congr 1
  · apply List.map_congr_left
    intro i hi
    have hi' : i < k := List.mem_range.mp hi
    have e : k + 1 - 1 - i = (k - 1 - i) + 1 := by omega
    rw [e, Nat.pow_succ, Nat.mul_comm, ← Nat.div_div_eq_div_mul]
  · simp

theorem be_digits : ∀ (k x : Nat), be (digits k x) = x % 256 ^ k
  | 0, x => by simp [digits, be, Nat.mod_one]
  | k + 1, x => by
    rw [digits_succ, be_snoc, be_digits k (x / 256), Nat.pow_succ, Nat.mul_comm (256 ^ k) 256, Nat.mod_mul]
    omega

theorem digits_length (k x : Nat) : (digits k x).length = k := by simp [digits]

theorem u128_digits (x : Nat) : u128 x = digits 16 x := rfl
theorem be_u128 (x : Nat) (h : x < 2 ^ 128) : be (u128 x) = x := by
  rw [u128_digits, be_digits]
  have : (256 : Nat) ^ 16 = 2 ^ 128 := by decide
  rw [this]; exact Nat.mod_eq_of_lt h

theorem be_u16 (x : Nat) (h : x < 65536) : be (u16 x) = x := by
  simp only [be, u16, List.foldl]; omega
theorem be_u32 (x : Nat) (h : x < 4294967296) : be (u32 x) = x := by
  simp only [be, u32, List.foldl]; omega


/-- one step of the option walk: an option `ty :: l :: body` whose body fills its `l` units is decoded and the walk
    continues behind it -/
theorem decodeOpts_step (fuel ty l : Nat) (body tail : Bytes) (acc : List Opt) (v : Opt)
    (hl : l ≠ 0) (hb : body.length = l * 8 - 2) (hd : decodeOpt ty body = some v) :
    decodeOpts (fuel + 1) (ty :: l :: (body ++ tail)) acc = decodeOpts fuel tail (acc ++ [v]) := by
  conv => lhs; unfold decodeOpts
  have h1 : ¬ (l = 0 ∨ (body ++ tail).length < l * 8 - 2) := by
    simp only [List.length_append]; omega
  simp only [h1, if_false]
  have h2 : (body ++ tail).take (l * 8 - 2) = body := by rw [← hb]; simp
  have h3 : (body ++ tail).drop (l * 8 - 2) = tail := by rw [← hb]; simp
  rw [h2, h3, hd]

/-- what the RFC decoder is expected to read for one option of the advertisement (`none`: nothing is sent) -/
def specOpt : NdOpt → Option Opt
  | .sourceLL mac => some (.sourceLL mac)
  | .mtu m => some (.mtu m)
  | .prefixInfo p => some (.prefixInfo p.len p.onlink p.autonomous (min p.valid 0xffffffff) (min p.preferred 0xffffffff)
      (maskPrefix p.addr p.len))
  | .rdnss lt servers => if servers.isEmpty then none else some (.rdnss (min lt 0xffffffff) servers)
  | .dnssl lt domains => if domains.isEmpty then none else some (.dnssl (min lt 0xffffffff) (domains.map RaRfc.splitDots))
  | .pref64 lt len pfx => (plc len).map fun _ => .pref64 (min (lt / 8) 8191 * 8) len (maskPrefix pfx len)
  | .captivePortal url => some (.captivePortal url)

/-- an option as it leaves the serialiser: nothing, or type, length in units of eight and a body that fills them and
    that the RFC decoder reads as `v` -/
def Framed (o : NdOpt) : Prop :=
  match specOpt o with
  | none => serOpt o = []
  | some v => ∃ ty l body, serOpt o = ty :: l :: body ∧ l ≠ 0 ∧ body.length = l * 8 - 2 ∧ decodeOpt ty body = some v

theorem framed_sourceLL (mac : Bytes) (h : mac.length = 6) : Framed (.sourceLL mac) := by
  refine ⟨1, 1, mac, ?_, by decide, by rw [h], ?_⟩
  · simp [serOpt, h]
  · simp [decodeOpt]

theorem framed_mtu (m : Nat) (h : m < 4294967296) : Framed (.mtu m) := by
  refine ⟨5, 1, [0, 0] ++ u32 m, by simp [serOpt], by decide, by simp [u32], ?_⟩
  have : be (([0, 0] ++ u32 m).drop 2) = m := by simpa using be_u32 m h
  simp [decodeOpt, u32] at this ⊢
  exact this

theorem maskPrefix_lt (addr len : Nat) (h : addr < 2 ^ 128) : maskPrefix addr len < 2 ^ 128 := by
  unfold maskPrefix
  exact Nat.lt_of_le_of_lt (Nat.div_mul_le_self _ _) h

theorem maskPrefix_mod (addr len : Nat) : maskPrefix addr len % 2 ^ (128 - min len 128) = 0 := by
  unfold maskPrefix; exact Nat.mul_mod_left _ _

theorem flags_decode (a b : Bool) :
    ((if a then 128 else 0) + (if b then 64 else 0)) % 64 = 0 ∧
    (decide (((if a then 128 else 0) + (if b then 64 else 0)) / 128 % 2 = 1) = a) ∧
    (decide (((if a then 128 else 0) + (if b then 64 else 0)) / 64 % 2 = 1) = b) := by
  cases a <;> cases b <;> decide


theorem u128_length (x : Nat) : (u128 x).length = 16 := by rw [u128_digits, digits_length]

theorem framed_prefixInfo (p : Prefix) (hlen : p.len ≤ 128) (haddr : p.addr < 2 ^ 128) : Framed (.prefixInfo p) := by
  have hm := be_u128 _ (maskPrefix_lt p.addr p.len haddr)
  have hmod := maskPrefix_mod p.addr p.len
  rw [Nat.min_eq_left hlen] at hmod
  have hf := flags_decode p.onlink p.autonomous
  have hv := be_u32 (clamp p.valid 0xffffffff) (by unfold clamp; omega)
  have hp := be_u32 (clamp p.preferred 0xffffffff) (by unfold clamp; omega)
  have h16 := u128_length (maskPrefix p.addr p.len)
  refine ⟨3, 4, [p.len % 256, (if p.onlink then 128 else 0) + (if p.autonomous then 64 else 0)] ++
    u32 (clamp p.valid 0xffffffff) ++ u32 (clamp p.preferred 0xffffffff) ++ [0, 0, 0, 0] ++ u128 (maskPrefix p.addr p.len),
    by simp [serOpt], by decide, by simp [u32, h16], ?_⟩
  have hl256 : p.len % 256 = p.len := by omega
  unfold decodeOpt
  simp only [show (3 : Nat) ≠ 1 by decide, show (3 : Nat) ≠ 5 by decide, if_false, if_true]
  have hlen30 : ([p.len % 256, (if p.onlink then 128 else 0) + (if p.autonomous then 64 else 0)] ++
    u32 (clamp p.valid 0xffffffff) ++ u32 (clamp p.preferred 0xffffffff) ++ [0, 0, 0, 0] ++ u128 (maskPrefix p.addr p.len)).length = 30 := by
    simp [u32, h16]
  have e1 : (([p.len % 256, (if p.onlink then 128 else 0) + (if p.autonomous then 64 else 0)] ++
    u32 (clamp p.valid 0xffffffff) ++ u32 (clamp p.preferred 0xffffffff) ++ [0, 0, 0, 0] ++ u128 (maskPrefix p.addr p.len)).drop 14).take 16
      = u128 (maskPrefix p.addr p.len) := by
    simp [u32, ← h16]
  have e2 : (([p.len % 256, (if p.onlink then 128 else 0) + (if p.autonomous then 64 else 0)] ++
    u32 (clamp p.valid 0xffffffff) ++ u32 (clamp p.preferred 0xffffffff) ++ [0, 0, 0, 0] ++ u128 (maskPrefix p.addr p.len)).drop 2).take 4
      = u32 (clamp p.valid 0xffffffff) := by simp [u32]
  have e3 : (([p.len % 256, (if p.onlink then 128 else 0) + (if p.autonomous then 64 else 0)] ++
    u32 (clamp p.valid 0xffffffff) ++ u32 (clamp p.preferred 0xffffffff) ++ [0, 0, 0, 0] ++ u128 (maskPrefix p.addr p.len)).drop 6).take 4
      = u32 (clamp p.preferred 0xffffffff) := by simp [u32]
  have e4 : (([p.len % 256, (if p.onlink then 128 else 0) + (if p.autonomous then 64 else 0)] ++
    u32 (clamp p.valid 0xffffffff) ++ u32 (clamp p.preferred 0xffffffff) ++ [0, 0, 0, 0] ++ u128 (maskPrefix p.addr p.len)).drop 10).take 4
      = [0, 0, 0, 0] := by simp [u32]
  have e5 : ([p.len % 256, (if p.onlink then 128 else 0) + (if p.autonomous then 64 else 0)] ++
    u32 (clamp p.valid 0xffffffff) ++ u32 (clamp p.preferred 0xffffffff) ++ [0, 0, 0, 0] ++ u128 (maskPrefix p.addr p.len)).getD 0 0
      = p.len := by simp [hl256]
  have e6 : ([p.len % 256, (if p.onlink then 128 else 0) + (if p.autonomous then 64 else 0)] ++
    u32 (clamp p.valid 0xffffffff) ++ u32 (clamp p.preferred 0xffffffff) ++ [0, 0, 0, 0] ++ u128 (maskPrefix p.addr p.len)).getD 1 0
      = (if p.onlink then 128 else 0) + (if p.autonomous then 64 else 0) := by simp
  rw [hlen30]
  simp only [ne_eq, not_true_eq_false, if_false, e1, e2, e3, e4, e5, e6, hm, hv, hp, hmod, hf.1, hf.2.1, hf.2.2,
    show ¬ p.len > 128 by omega, false_or, or_self]
  simp [specOpt, clamp]


theorem flatMap_u128_length (l : List Nat) : (l.flatMap u128).length = 16 * l.length := by
  induction l with
  | nil => rfl
  | cons a as ih => simp only [List.flatMap_cons, List.length_append, u128_length, ih, List.length_cons]; omega

/-- reading sixteen-octet addresses back out of their concatenation -/
theorem chunks_u128 : ∀ (l : List Nat) (pre : Bytes), (∀ s ∈ l, s < 2 ^ 128) →
    (List.range l.length).map (fun i => be (((pre ++ l.flatMap u128).drop (pre.length + 16 * i)).take 16)) = l
  | [], _, _ => by simp
  | a :: as, pre, h => by
    have ih := chunks_u128 as (pre ++ u128 a) (fun s hs => h s (by simp [hs]))
    rw [List.length_cons, List.range_succ_eq_map, List.map_cons, List.map_map]
    congr 1
    · simp only [Nat.mul_zero, Nat.add_zero, List.flatMap_cons]
      rw [List.drop_left' rfl, List.take_left' (u128_length a)]
      exact be_u128 a (h a (by simp))
    · refine Eq.trans ?_ ih
      apply List.map_congr_left
      intro i _
      simp only [Function.comp, List.flatMap_cons, List.length_append, u128_length, List.append_assoc]
      have : pre.length + 16 * (i + 1) = pre.length + 16 + 16 * i := by omega
      rw [this]

theorem chunks_nil {α : Type} (n fuel : Nat) : chunks n fuel ([] : List α) = [] := by
  cases fuel <;> simp [chunks]

/-- a list no longer than the chunk size is one chunk -/
theorem chunks_single {α : Type} (n : Nat) (l : List α) (h0 : 0 < l.length) (hn : l.length ≤ n) :
    chunks n l.length l = [l] := by
  obtain ⟨f, hf⟩ : ∃ f, l.length = f + 1 := ⟨l.length - 1, by omega⟩
  rw [hf]
  have hne : l.isEmpty = false := by
    cases l with
    | nil => simp at h0
    | cons a as => rfl
  simp only [chunks, hne, Bool.false_eq_true, if_false]
  rw [List.take_of_length_le hn, List.drop_of_length_le hn, chunks_nil]

theorem serOpt_rdnss (lt : Nat) (servers : List Nat) (h0 : 0 < servers.length) (hn : servers.length ≤ 127) :
    serOpt (.rdnss lt servers) = rdnssOpt lt servers := by
  have hne : servers.isEmpty = false := by
    cases servers with
    | nil => simp at h0
    | cons a as => rfl
  have hc : Generated.Ra.rdnssChunk = 127 := by decide
  simp only [serOpt, hne, Bool.false_eq_true, if_false, hc, show ¬ (127 = 0) by decide]
  rw [chunks_single 127 servers h0 hn]
  simp

theorem framed_rdnss (lt : Nat) (servers : List Nat) (hn : servers.length ≤ 127) (hs : ∀ s ∈ servers, s < 2 ^ 128) :
    Framed (.rdnss lt servers) := by
  unfold Framed specOpt
  by_cases he : servers.isEmpty = true
  · simp only [he, if_true]; simp [serOpt, he]
  · simp only [he, Bool.false_eq_true, if_false]
    have hpos : 0 < servers.length := by
      cases servers with
      | nil => simp at he
      | cons a as => simp
    have hfl := flatMap_u128_length servers
    have hlt := be_u32 (clamp lt 0xffffffff) (by unfold clamp; omega)
    refine ⟨25, (1 + servers.length * 2) % 256, [0, 0] ++ u32 (clamp lt 0xffffffff) ++ servers.flatMap u128,
      by rw [serOpt_rdnss lt servers hpos hn]; simp [rdnssOpt], by omega, by simp [u32, hfl]; omega, ?_⟩
    have hblen : ([0, 0] ++ u32 (clamp lt 0xffffffff) ++ servers.flatMap u128).length = 6 + 16 * servers.length := by
      simp [u32, hfl]; omega
    have ch := chunks_u128 servers ([0, 0] ++ u32 (clamp lt 0xffffffff)) hs
    have hpre : ([0, 0] ++ u32 (clamp lt 0xffffffff)).length = 6 := by simp [u32]
    rw [hpre] at ch
    unfold decodeOpt
    simp only [show (25 : Nat) ≠ 1 by decide, show (25 : Nat) ≠ 5 by decide, show (25 : Nat) ≠ 3 by decide, if_false, if_true, hblen]
    have c1 : ¬ (6 + 16 * servers.length < 22 ∨ (6 + 16 * servers.length - 6) % 16 ≠ 0 ∨
        ([0, 0] ++ u32 (clamp lt 0xffffffff) ++ servers.flatMap u128).take 2 ≠ [0, 0]) := by
      simp [u32]; omega
    simp only [c1, if_false]
    have e1 : (([0, 0] ++ u32 (clamp lt 0xffffffff) ++ servers.flatMap u128).drop 2).take 4 = u32 (clamp lt 0xffffffff) := by
      simp [u32]
    have e2 : (6 + 16 * servers.length - 6) / 16 = servers.length := by omega
    rw [e1, e2, hlt, ch]
    simp [clamp]


theorem plc_spec {len c : Nat} (h : plc len = some c) : c < 8 ∧ plcLen c = some len ∧ 32 ≤ len ∧ len ≤ 96 := by
  unfold plc at h
  split at h
  · rename_i e; simp only [Option.some.injEq] at h; subst h; subst e; decide
  split at h
  · rename_i e; simp only [Option.some.injEq] at h; subst h; subst e; decide
  split at h
  · rename_i e; simp only [Option.some.injEq] at h; subst h; subst e; decide
  split at h
  · rename_i e; simp only [Option.some.injEq] at h; subst h; subst e; decide
  split at h
  · rename_i e; simp only [Option.some.injEq] at h; subst h; subst e; decide
  split at h
  · rename_i e; simp only [Option.some.injEq] at h; subst h; subst e; decide
  · cases h

theorem digits_split4 (m : Nat) :
    digits 16 m = digits 12 (m / 4294967296) ++ [m / 16777216 % 256, m / 65536 % 256, m / 256 % 256, m % 256] := by
  rw [digits_succ 15, digits_succ 14, digits_succ 13, digits_succ 12]
  simp only [List.append_assoc, List.cons_append, List.nil_append, Nat.div_div_eq_div_mul]

theorem maskPrefix_low32 (pfx len : Nat) (h : len ≤ 96) : maskPrefix pfx len % 4294967296 = 0 := by
  unfold maskPrefix
  have hmin : min len 128 = len := by omega
  rw [hmin]
  have e : 128 - len = 32 + (96 - len) := by omega
  rw [e, Nat.pow_add, ← Nat.mul_assoc, Nat.mul_comm _ (2 ^ 32), Nat.mul_assoc]
  exact Nat.mul_mod_right _ _

theorem framed_pref64 (lt len pfx : Nat) (hp : pfx < 2 ^ 128) : Framed (.pref64 lt len pfx) := by
  unfold Framed specOpt
  cases hc : plc len with
  | none => simp [serOpt, hc]
  | some c =>
    show match Option.map (fun _ => Opt.pref64 (min (lt / 8) 8191 * 8) len (maskPrefix pfx len)) (plc len) with
      | none => serOpt (NdOpt.pref64 lt len pfx) = []
      | some v => ∃ ty l body, serOpt (NdOpt.pref64 lt len pfx) = ty :: l :: body ∧ l ≠ 0 ∧ body.length = l * 8 - 2 ∧
          decodeOpt ty body = some v
    rw [hc]
    simp only [Option.map_some]
    obtain ⟨hc8, hplc, h32, h96⟩ := plc_spec hc
    have hm := maskPrefix_lt pfx len hp
    have hlow := maskPrefix_low32 pfx len h96
    have hmod := maskPrefix_mod pfx len
    rw [Nat.min_eq_left (by omega : len ≤ 128)] at hmod
    have hV : clamp (lt / 8) 8191 * 8 + c < 65536 := by unfold clamp; omega
    have htake : (u128 (maskPrefix pfx len)).take 12 = digits 12 (maskPrefix pfx len / 4294967296) := by
      rw [u128_digits, digits_split4, List.take_left' (digits_length _ _)]
    have hbe : be (digits 12 (maskPrefix pfx len / 4294967296)) * 2 ^ 32 = maskPrefix pfx len := by
      rw [be_digits]
      have h1 : maskPrefix pfx len / 4294967296 < 256 ^ 12 := by
        have : (256 : Nat) ^ 12 = 79228162514264337593543950336 := by decide
        have h2 : (2 : Nat) ^ 128 = 79228162514264337593543950336 * 4294967296 := by decide
        rw [this]; rw [h2] at hm
        exact Nat.div_lt_of_lt_mul (by rw [Nat.mul_comm]; exact hm)
      rw [Nat.mod_eq_of_lt h1]
      have : (2 : Nat) ^ 32 = 4294967296 := by decide
      rw [this]
      have := Nat.div_add_mod (maskPrefix pfx len) 4294967296
      omega
    refine ⟨38, 2, u16 (clamp (lt / 8) 8191 * 8 + c) ++ (u128 (maskPrefix pfx len)).take 12,
      by simp [serOpt, hc], by decide, by rw [htake]; simp [u16, digits_length], ?_⟩
    unfold decodeOpt
    simp only [show (38 : Nat) ≠ 1 by decide, show (38 : Nat) ≠ 5 by decide, show (38 : Nat) ≠ 3 by decide,
      show (38 : Nat) ≠ 25 by decide, show (38 : Nat) ≠ 31 by decide, if_false, if_true]
    have hl : (u16 (clamp (lt / 8) 8191 * 8 + c) ++ (u128 (maskPrefix pfx len)).take 12).length = 14 := by
      rw [htake]; simp [u16, digits_length]
    have e1 : (u16 (clamp (lt / 8) 8191 * 8 + c) ++ (u128 (maskPrefix pfx len)).take 12).take 2 = u16 (clamp (lt / 8) 8191 * 8 + c) := by
      simp [u16]
    have e2 : (u16 (clamp (lt / 8) 8191 * 8 + c) ++ (u128 (maskPrefix pfx len)).take 12).drop 2 = digits 12 (maskPrefix pfx len / 4294967296) := by
      rw [htake]; simp [u16]
    rw [hl]
    simp only [ne_eq, not_true_eq_false, if_false, e1, e2, be_u16 _ hV]
    have hv8 : (clamp (lt / 8) 8191 * 8 + c) % 8 = c := by omega
    have hv88 : (clamp (lt / 8) 8191 * 8 + c) / 8 * 8 = clamp (lt / 8) 8191 * 8 := by omega
    rw [hv8, hplc]
    simp only [hbe, hmod, not_true_eq_false, if_false, hv88]
    simp [clamp]


theorem takeWhile_nonzero (url : Bytes) (k : Nat) (h : ∀ b ∈ url, b ≠ 0) :
    (url ++ List.replicate k 0).takeWhile (· != 0) = url := by
  induction url with
  | nil =>
    cases k with
    | zero => rfl
    | succ k => simp [List.replicate_succ]
  | cons a as ih =>
    have ha : a ≠ 0 := h a (by simp)
    simp only [List.cons_append, List.takeWhile_cons, bne_iff_ne, ne_eq, ha, not_false_eq_true, if_true]
    rw [ih (fun b hb => h b (by simp [hb]))]

theorem framed_captivePortal (url : Bytes) (hz : ∀ b ∈ url, b ≠ 0) (hlen : url.length ≤ 2030) :
    Framed (.captivePortal url) := by
  unfold Framed specOpt
  simp only
  have hb : padTo8 url 2 = url ++ List.replicate ((8 - (url.length + 2) % 8) % 8) 0 := rfl
  have hbl : (padTo8 url 2).length = url.length + (8 - (url.length + 2) % 8) % 8 := by rw [hb]; simp
  have hnul : hasNul url = false := by
    unfold hasNul
    simp only [List.any_eq_false, beq_iff_eq]
    exact fun b hb' => hz b hb'
  have hfit : decide (1 + (padTo8 url 2).length / 8 ≥ 256) = false := by
    rw [hbl]; simp only [decide_eq_false_iff_not]; omega
  refine ⟨37, (1 + (padTo8 url 2).length / 8) % 256, padTo8 url 2, by simp [serOpt, hnul, hfit], by rw [hbl]; omega, by rw [hbl]; omega, ?_⟩
  unfold decodeOpt
  simp only [show (37 : Nat) ≠ 1 by decide, show (37 : Nat) ≠ 5 by decide, show (37 : Nat) ≠ 3 by decide,
    show (37 : Nat) ≠ 25 by decide, show (37 : Nat) ≠ 31 by decide, show (37 : Nat) ≠ 38 by decide, if_false, if_true]
  rw [hb, takeWhile_nonzero url _ hz, List.drop_left' rfl]
  simp


/-! ### DNSSL (RFC 8106 §5.2): domain names as label sequences -/

theorem rfc_splitDots_ne_nil (d : Bytes) : RaRfc.splitDots d ≠ [] := by
  induction d with
  | nil => simp [RaRfc.splitDots]
  | cons b d ih =>
    unfold RaRfc.splitDots at ih ⊢
    simp only [List.foldr_cons]
    split
    · simp
    · split <;> simp

theorem rfc_splitDots_dot (d : Bytes) : RaRfc.splitDots (46 :: d) = [] :: RaRfc.splitDots d := by
  simp [RaRfc.splitDots]

theorem rfc_splitDots_other (b : Nat) (d : Bytes) (h t) (hb : b ≠ 46) (hs : RaRfc.splitDots d = h :: t) :
    RaRfc.splitDots (b :: d) = (b :: h) :: t := by
  unfold RaRfc.splitDots at hs ⊢
  simp only [List.foldr_cons, hb, if_false, hs]

def prependHead (cur : Bytes) : List Bytes → List Bytes
  | [] => [cur]
  | h :: t => (cur ++ h) :: t

theorem split_foldl (d : Bytes) : ∀ (cur : Bytes) (acc : List Bytes),
    (d.foldl (fun (st : Bytes × List Bytes) b => if b = 46 then ([], st.2 ++ [st.1]) else (st.1 ++ [b], st.2)) (cur, acc)).2 ++
    [(d.foldl (fun (st : Bytes × List Bytes) b => if b = 46 then ([], st.2 ++ [st.1]) else (st.1 ++ [b], st.2)) (cur, acc)).1] =
    acc ++ prependHead cur (RaRfc.splitDots d) := by
  induction d with
  | nil => intro cur acc; simp [RaRfc.splitDots, prependHead]
  | cons b d ih =>
    intro cur acc
    simp only [List.foldl_cons]
    have hne := rfc_splitDots_ne_nil d
    by_cases hb : b = 46
    · subst hb
      simp only [if_true]
      rw [ih [] (acc ++ [cur]), rfc_splitDots_dot]
      cases hs : RaRfc.splitDots d with
      | nil => exact absurd hs hne
      | cons h t => simp [prependHead]
    · simp only [hb, if_false]
      rw [ih (cur ++ [b]) acc]
      cases hs : RaRfc.splitDots d with
      | nil => exact absurd hs hne
      | cons h t =>
        rw [rfc_splitDots_other b d h t hb hs]
        simp [prependHead]

/-- the serialiser's and the specification's ways of splitting a domain at the dots agree -/
theorem splitDots_eq (d : Bytes) : Radv.splitDots d = RaRfc.splitDots d := by
  have := split_foldl d [] []
  unfold Radv.splitDots
  have hne := rfc_splitDots_ne_nil d
  cases hs : RaRfc.splitDots d with
  | nil => exact absurd hs hne
  | cons h t =>
    rw [hs] at this
    simp only [prependHead, List.nil_append] at this
    exact this

/-- a domain the option can carry: every label has 1..63 octets -/
def DomainOK (d : Bytes) : Prop := ∀ l ∈ RaRfc.splitDots d, 1 ≤ l.length ∧ l.length ≤ 63

/-- the labels of one name, then its terminating zero, are read as one more name -/
theorem dnsslNames_labels : ∀ (ls : List Bytes) (fuel : Nat) (rest : Bytes) (cur : List Bytes) (acc : List (List Bytes)),
    (∀ l ∈ ls, 1 ≤ l.length ∧ l.length ≤ 63) → cur ++ ls ≠ [] → ls.length + 1 ≤ fuel →
    dnsslNames fuel (ls.flatMap (fun l => (l.length % 256) :: l) ++ 0 :: rest) cur acc =
    dnsslNames (fuel - (ls.length + 1)) rest [] (acc ++ [cur ++ ls])
  | [], fuel, rest, cur, acc, _, hne, hf => by
    obtain ⟨f, rfl⟩ : ∃ f, fuel = f + 1 := ⟨fuel - 1, by omega⟩
    simp only [List.flatMap_nil, List.nil_append, List.append_nil, List.length_nil, Nat.zero_add, Nat.add_sub_cancel]
    conv => lhs; unfold dnsslNames
    have : cur.isEmpty = false := by
      cases cur with
      | nil => simp at hne
      | cons a as => rfl
    simp only [this, Bool.false_eq_true, if_false]
  | l :: ls, fuel, rest, cur, acc, hl, _, hf => by
    obtain ⟨f, rfl⟩ : ∃ f, fuel = f + 1 := ⟨fuel - 1, by simp at hf; omega⟩
    have h1 := hl l (by simp)
    have hmod : l.length % 256 = l.length := by omega
    simp only [List.flatMap_cons, List.cons_append, List.append_assoc, hmod]
    conv => lhs; unfold dnsslNames
    have hnz : l.length ≠ 0 := by omega
    cases hll : l.length with
    | zero => exact absurd hll hnz
    | succ n =>
      simp only
      have c1 : ¬ ((n + 1 > 63) = true ∨ (l ++ (ls.flatMap (fun l => (l.length % 256) :: l) ++ 0 :: rest)).length < n + 1) := by
        simp only [List.length_append, hll]; simp; omega
      have c1' : ((decide (n + 1 > 63) || decide ((l ++ (ls.flatMap (fun l => (l.length % 256) :: l) ++ 0 :: rest)).length < n + 1)) = false) := by
        simp only [List.length_append, hll]; simp; omega
      simp only [c1', Bool.false_eq_true, if_false]
      have e1 : (l ++ (ls.flatMap (fun l => (l.length % 256) :: l) ++ 0 :: rest)).drop (n + 1) =
          ls.flatMap (fun l => (l.length % 256) :: l) ++ 0 :: rest := by rw [← hll]; simp
      have e2 : (l ++ (ls.flatMap (fun l => (l.length % 256) :: l) ++ 0 :: rest)).take (n + 1) = l := by rw [← hll]; simp
      rw [e1, e2]
      have ih := dnsslNames_labels ls f rest (cur ++ [l]) acc (fun x hx => hl x (by simp [hx])) (by simp)
        (by simp only [List.length_cons] at hf; omega)
      rw [ih]
      simp only [List.length_cons, List.append_assoc, List.singleton_append]
      congr 1
      omega


theorem labels_length_le (ls : List Bytes) : ls.length ≤ (ls.flatMap (fun l => (l.length % 256) :: l)).length := by
  induction ls with
  | nil => simp
  | cons l ls ih => simp only [List.flatMap_cons, List.length_append, List.length_cons]; omega

theorem encodeDomain_eq (d : Bytes) :
    encodeDomain d = (RaRfc.splitDots d).flatMap (fun l => (l.length % 256) :: l) ++ [0] := by
  unfold encodeDomain; rw [splitDots_eq]

theorem dnsslNames_pad (fuel : Nat) (pad : Bytes) (acc : List (List Bytes)) (hp : ∀ b ∈ pad, b = 0) (hf : 1 ≤ fuel) :
    dnsslNames fuel pad [] acc = some acc := by
  obtain ⟨f, rfl⟩ : ∃ f, fuel = f + 1 := ⟨fuel - 1, by omega⟩
  unfold dnsslNames
  cases pad with
  | nil => simp
  | cons b rest =>
    have hb : b = 0 := hp b (by simp)
    subst hb
    have : rest.all (· == 0) = true := by
      simp only [List.all_eq_true, beq_iff_eq]
      exact fun x hx => hp x (by simp [hx])
    simp [this]

/-- the names of the option, then zero padding, are read as the list of names -/
theorem dnsslNames_domains : ∀ (ds : List Bytes) (fuel : Nat) (pad : Bytes) (acc : List (List Bytes)),
    (∀ d ∈ ds, DomainOK d) → (∀ b ∈ pad, b = 0) → (ds.flatMap encodeDomain).length + 1 ≤ fuel →
    dnsslNames fuel (ds.flatMap encodeDomain ++ pad) [] acc = some (acc ++ ds.map RaRfc.splitDots)
  | [], fuel, pad, acc, _, hp, hf => by
    simp only [List.flatMap_nil, List.nil_append, List.map_nil, List.append_nil]
    exact dnsslNames_pad fuel pad acc hp (by omega)
  | d :: ds, fuel, pad, acc, hd, hp, hf => by
    have hdok := hd d (by simp)
    have hne := rfc_splitDots_ne_nil d
    simp only [List.flatMap_cons, List.length_append] at hf
    have hlen : (RaRfc.splitDots d).length + 1 ≤ (encodeDomain d).length := by
      rw [encodeDomain_eq]; simp only [List.length_append, List.length_singleton]
      have := labels_length_le (RaRfc.splitDots d); omega
    have e : (d :: ds).flatMap encodeDomain ++ pad =
        (RaRfc.splitDots d).flatMap (fun l => (l.length % 256) :: l) ++ 0 :: (ds.flatMap encodeDomain ++ pad) := by
      simp only [List.flatMap_cons, encodeDomain_eq d, List.append_assoc, List.cons_append, List.nil_append]
    rw [e, dnsslNames_labels (RaRfc.splitDots d) fuel _ [] acc hdok (by simpa using hne) (by omega)]
    rw [dnsslNames_domains ds _ pad _ (fun x hx => hd x (by simp [hx])) hp (by omega)]
    simp

theorem framed_dnssl (lt : Nat) (domains : List Bytes) (hd : ∀ d ∈ domains, DomainOK d)
    (hsz : (domains.flatMap encodeDomain).length ≤ 2024) : Framed (.dnssl lt domains) := by
  unfold Framed specOpt
  by_cases he : domains.isEmpty = true
  · simp only [he, if_true]; simp [serOpt, he]
  · simp only [he, Bool.false_eq_true, if_false]
    have hb : padTo8 (domains.flatMap encodeDomain) 0 =
        domains.flatMap encodeDomain ++ List.replicate ((8 - ((domains.flatMap encodeDomain).length + 0) % 8) % 8) 0 := rfl
    have hbl : (padTo8 (domains.flatMap encodeDomain) 0).length =
        (domains.flatMap encodeDomain).length + (8 - ((domains.flatMap encodeDomain).length + 0) % 8) % 8 := by rw [hb]; simp
    have hpos : 1 ≤ (domains.flatMap encodeDomain).length := by
      cases domains with
      | nil => simp at he
      | cons d ds =>
        simp only [List.flatMap_cons, List.length_append]
        have : 1 ≤ (encodeDomain d).length := by rw [encodeDomain_eq]; simp
        omega
    have hlt := be_u32 (clamp lt 0xffffffff) (by unfold clamp; omega)
    have hfit : decide (1 + (padTo8 (domains.flatMap encodeDomain) 0).length / 8 ≥ 256) = false := by
      rw [hbl]; simp only [decide_eq_false_iff_not]; omega
    refine ⟨31, (1 + (padTo8 (domains.flatMap encodeDomain) 0).length / 8) % 256,
      [0, 0] ++ u32 (clamp lt 0xffffffff) ++ padTo8 (domains.flatMap encodeDomain) 0,
      by simp [serOpt, he, hfit], by rw [hbl]; omega, by simp only [List.length_append, hbl, u32, List.length_cons, List.length_nil]; omega, ?_⟩
    unfold decodeOpt
    simp only [show (31 : Nat) ≠ 1 by decide, show (31 : Nat) ≠ 5 by decide, show (31 : Nat) ≠ 3 by decide,
      show (31 : Nat) ≠ 25 by decide, if_false, if_true]
    have hlen : ([0, 0] ++ u32 (clamp lt 0xffffffff) ++ padTo8 (domains.flatMap encodeDomain) 0).length =
        6 + (padTo8 (domains.flatMap encodeDomain) 0).length := by simp [u32]; omega
    have c1 : ¬ (([0, 0] ++ u32 (clamp lt 0xffffffff) ++ padTo8 (domains.flatMap encodeDomain) 0).length < 14 ∨
        ([0, 0] ++ u32 (clamp lt 0xffffffff) ++ padTo8 (domains.flatMap encodeDomain) 0).take 2 ≠ [0, 0]) := by
      rw [not_or]
      exact ⟨by rw [hlen, hbl]; omega, by simp [u32]⟩
    simp only [c1, if_false]
    have e1 : ([0, 0] ++ u32 (clamp lt 0xffffffff) ++ padTo8 (domains.flatMap encodeDomain) 0).drop 6 =
        padTo8 (domains.flatMap encodeDomain) 0 := by simp [u32]
    have e2 : (([0, 0] ++ u32 (clamp lt 0xffffffff) ++ padTo8 (domains.flatMap encodeDomain) 0).drop 2).take 4 =
        u32 (clamp lt 0xffffffff) := by simp [u32]
    rw [e1, e2, hlt, hlen, hb]
    rw [dnsslNames_domains domains _ _ [] hd (by intro b hb'; exact (List.mem_replicate.mp hb').2) (by simp only [List.length_append]; omega)]
    have hne : (domains.map RaRfc.splitDots).isEmpty = false := by
      cases domains with
      | nil => simp at he
      | cons d ds => rfl
    simp [hne, clamp]


/-! ### the whole message -/

/-- what an option must satisfy for the wire format to be able to carry it -/
def OptOK : NdOpt → Prop
  | .sourceLL mac => mac.length = 6
  | .mtu m => m < 4294967296
  | .prefixInfo p => p.len ≤ 128 ∧ p.addr < 2 ^ 128
  | .rdnss _ servers => servers.length ≤ 127 ∧ ∀ s ∈ servers, s < 2 ^ 128
  | .dnssl _ domains => (∀ d ∈ domains, DomainOK d) ∧ (domains.flatMap encodeDomain).length ≤ 2024
  | .pref64 _ _ pfx => pfx < 2 ^ 128
  | .captivePortal url => (∀ b ∈ url, b ≠ 0) ∧ url.length ≤ 2030

theorem framed_of_ok : ∀ (o : NdOpt), OptOK o → Framed o
  | .sourceLL mac, h => framed_sourceLL mac h
  | .mtu m, h => framed_mtu m h
  | .prefixInfo p, h => framed_prefixInfo p h.1 h.2
  | .rdnss lt servers, h => framed_rdnss lt servers h.1 h.2
  | .dnssl lt domains, h => framed_dnssl lt domains h.1 h.2
  | .pref64 lt len pfx, h => framed_pref64 lt len pfx h
  | .captivePortal url, h => framed_captivePortal url h.1 h.2

theorem framed_length {o : NdOpt} (h : Framed o) : (serOpt o).length % 8 = 0 := by
  unfold Framed at h
  split at h
  · rw [h]; rfl
  · obtain ⟨ty, l, body, hs, hl, hb, _⟩ := h
    rw [hs]; simp only [List.length_cons, hb]; omega

/-- the option walk over everything the serialiser wrote -/
theorem decodeOpts_all : ∀ (opts : List NdOpt) (fuel : Nat) (acc : List Opt), (∀ o ∈ opts, Framed o) →
    (opts.flatMap serOpt).length + 1 ≤ fuel →
    decodeOpts fuel (opts.flatMap serOpt) acc = some (acc ++ opts.filterMap specOpt)
  | [], fuel, acc, _, hf => by
    obtain ⟨f, rfl⟩ : ∃ f, fuel = f + 1 := ⟨fuel - 1, by omega⟩
    simp [decodeOpts]
  | o :: opts, fuel, acc, h, hf => by
    have ho := h o (by simp)
    have ih := fun fuel' acc' hf' => decodeOpts_all opts fuel' acc' (fun x hx => h x (by simp [hx])) hf'
    simp only [List.flatMap_cons, List.length_append] at hf
    unfold Framed at ho
    cases hs : specOpt o with
    | none =>
      rw [hs] at ho
      simp only at ho
      simp only [List.flatMap_cons, ho, List.nil_append, List.filterMap_cons, hs]
      rw [ho] at hf
      exact ih fuel acc (by simpa using hf)
    | some v =>
      rw [hs] at ho
      obtain ⟨ty, l, body, hser, hl, hb, hd⟩ := ho
      obtain ⟨f, rfl⟩ : ∃ f, fuel = f + 1 := ⟨fuel - 1, by omega⟩
      simp only [List.flatMap_cons, hser, List.cons_append, List.filterMap_cons, hs]
      rw [decodeOpts_step f ty l body _ acc v hl hb hd]
      rw [ih f (acc ++ [v]) (by rw [hser] at hf; simp only [List.length_cons] at hf; omega)]
      simp

/-- what the RFC decoder is expected to read for a whole advertisement -/
def specRa (a : Advert) : Ra :=
  { hopLimit := a.hopLimit, managed := a.managed, other := a.other, lifetime := min a.lifetime 65535,
    reachableMs := min (a.reachable * 1000) 0xffffffff, retransMs := min (a.retrans * 1000) 0xffffffff,
    options := a.options.filterMap specOpt }

/-- **serialise, then decode by the RFCs**: every advertisement whose hop limit fits an octet and whose options the wire
    format can carry is read back as exactly its values (clamped where a field is too narrow, never wrapped) -/
theorem decode_serialise (a : Advert) (hh : a.hopLimit < 256) (ho : ∀ o ∈ a.options, OptOK o) :
    decode (serialise a) = some (specRa a) := by
  have hfr : ∀ o ∈ a.options, Framed o := fun o h => framed_of_ok o (ho o h)
  have hl8 : (a.options.flatMap serOpt).length % 8 = 0 := by
    have : ∀ (l : List NdOpt), (∀ o ∈ l, Framed o) → (l.flatMap serOpt).length % 8 = 0 := by
      intro l
      induction l with
      | nil => intro _; rfl
      | cons x xs ih =>
        intro h
        have h1 := framed_length (h x (by simp))
        have h2 := ih (fun o ho => h o (by simp [ho]))
        simp only [List.flatMap_cons, List.length_append]; omega
    exact this _ hfr
  have hf := flags_decode a.managed a.other
  have hlife := be_u16 (clamp a.lifetime 65535) (by unfold clamp; omega)
  have hreach := be_u32 (clamp (a.reachable * 1000) 0xffffffff) (by unfold clamp; omega)
  have hretr := be_u32 (clamp (a.retrans * 1000) 0xffffffff) (by unfold clamp; omega)
  have hser : serialise a = [134, 0, 0, 0, a.hopLimit % 256, (if a.managed then 128 else 0) + (if a.other then 64 else 0)] ++
      u16 (clamp a.lifetime 65535) ++ u32 (clamp (a.reachable * 1000) 0xffffffff) ++ u32 (clamp (a.retrans * 1000) 0xffffffff) ++
      a.options.flatMap serOpt := rfl
  have hlen : (serialise a).length = 16 + (a.options.flatMap serOpt).length := by
    rw [hser]; simp [u16, u32]; omega
  have hdrop : (serialise a).drop 16 = a.options.flatMap serOpt := by rw [hser]; simp [u16, u32]
  have g0 : (serialise a).getD 0 0 = 134 := by rw [hser]; simp
  have g1 : (serialise a).getD 1 0 = 0 := by rw [hser]; simp
  have g4 : (serialise a).getD 4 0 = a.hopLimit := by rw [hser]; simp; omega
  have g5 : (serialise a).getD 5 0 = (if a.managed then 128 else 0) + (if a.other then 64 else 0) := by rw [hser]; simp
  have t6 : ((serialise a).drop 6).take 2 = u16 (clamp a.lifetime 65535) := by rw [hser]; simp [u16, u32]
  have t8 : ((serialise a).drop 8).take 4 = u32 (clamp (a.reachable * 1000) 0xffffffff) := by rw [hser]; simp [u16, u32]
  have t12 : ((serialise a).drop 12).take 4 = u32 (clamp (a.retrans * 1000) 0xffffffff) := by rw [hser]; simp [u16, u32]
  unfold decode
  have c1 : ¬ ((serialise a).length < 16 ∨ (serialise a).length % 8 ≠ 0) := by rw [hlen]; omega
  have c2 : ¬ ((serialise a).getD 0 0 ≠ 134 ∨ (serialise a).getD 1 0 ≠ 0) := by rw [g0, g1]; simp
  simp only [c1, c2, if_false, g5, hf.1, ne_eq, not_true_eq_false, hdrop]
  rw [decodeOpts_all a.options _ [] hfr (by rw [hlen]; omega)]
  simp only [List.nil_append, g4, t6, t8, t12, hlife, hreach, hretr, hf.2.1, hf.2.2]
  simp [specRa, clamp]


/-! ### the builder against the documented values -/

theorem maskPrefix_eq (addr len : Nat) (h : len ≤ 128) : maskPrefix addr len = addr / 2 ^ (128 - len) * 2 ^ (128 - len) := by
  unfold maskPrefix; rw [Nat.min_eq_left h]

theorem seg_prefixes (ps : List Prefix) (h : ∀ p ∈ ps, p.len ≤ 128) :
    (ps.map NdOpt.prefixInfo).filterMap specOpt =
    ps.map fun p => Opt.prefixInfo p.len p.onlink p.autonomous (min p.valid 0xffffffff) (min p.preferred 0xffffffff)
      (p.addr / 2 ^ (128 - p.len) * 2 ^ (128 - p.len)) := by
  induction ps with
  | nil => rfl
  | cons p ps ih =>
    simp only [List.map_cons, List.filterMap_cons, specOpt]
    rw [ih (fun x hx => h x (by simp [hx])), maskPrefix_eq _ _ (h p (by simp))]

theorem seg_rdnss (ov : Option (List Nat)) (lt : Nat) :
    (match ov with | some v => [NdOpt.rdnss lt v] | none => []).filterMap specOpt =
    (match ov with | some (s :: ss) => [Opt.rdnss (min lt 0xffffffff) (s :: ss)] | _ => []) := by
  cases ov with
  | none => rfl
  | some v => cases v <;> simp [specOpt]

theorem seg_dnssl (ov : Option (List Bytes)) (lt : Nat) :
    (match ov with | some v => [NdOpt.dnssl lt v] | none => []).filterMap specOpt =
    (match ov with | some (d :: ds) => [Opt.dnssl (min lt 0xffffffff) ((d :: ds).map RaRfc.splitDots)] | _ => []) := by
  cases ov with
  | none => rfl
  | some v => cases v <;> simp [specOpt]

theorem plc_none {l : Nat} (h : plc l = none) : l ≠ 96 ∧ l ≠ 64 ∧ l ≠ 56 ∧ l ≠ 48 ∧ l ≠ 40 ∧ l ≠ 32 := by
  unfold plc at h
  split at h; · cases h
  split at h; · cases h
  split at h; · cases h
  split at h; · cases h
  split at h; · cases h
  split at h; · cases h
  exact ⟨by assumption, by assumption, by assumption, by assumption, by assumption, by assumption⟩

theorem plc_some_mem {l c : Nat} (h : plc l = some c) : l = 96 ∨ l = 64 ∨ l = 56 ∨ l = 48 ∨ l = 40 ∨ l = 32 := by
  unfold plc at h
  split at h; · left; assumption
  split at h; · right; left; assumption
  split at h; · right; right; left; assumption
  split at h; · right; right; right; left; assumption
  split at h; · right; right; right; right; left; assumption
  split at h; · right; right; right; right; right; assumption
  cases h

theorem seg_pref64 (lt p l : Nat) :
    [NdOpt.pref64 lt l p].filterMap specOpt =
    (if [32, 40, 48, 56, 64, 96].contains l then [Opt.pref64 (min (lt / 8 * 8) 65528) l (p / 2 ^ (128 - l) * 2 ^ (128 - l))] else []) := by
  cases hc : plc l with
  | none =>
    obtain ⟨h1, h2, h3, h4, h5, h6⟩ := plc_none hc
    simp [specOpt, hc, h1, h2, h3, h4, h5, h6]
  | some c =>
    have hl := (plc_spec hc).2.2
    have hmem := plc_some_mem hc
    have hcont : [32, 40, 48, 56, 64, 96].contains l = true := by
      rcases hmem with h | h | h | h | h | h <;> subst h <;> decide
    have hv : min (lt / 8) 8191 * 8 = min (lt / 8 * 8) 65528 := by omega
    simp only [List.filterMap_cons, specOpt, hc, Option.map_some, List.filterMap_nil, hcont, if_true,
      maskPrefix_eq _ _ (by omega : l ≤ 128), hv]

theorem ltOf_eq (t : Tri Nat) : t.alwaysUnwrapOr (3 * maxRtrAdvInterval) = (match t with | .value v => v | _ => 1800) := by
  cases t <;> rfl

/-- **the builder produces what the manual documents**: for every configuration, the values the RFC decoder is
    expected to read from the built advertisement are the documented ones (top-level settings as defaults, `null`
    suppressing an option, `$self6` replaced, empty lists sending nothing) -/
theorem app_congr {α : Type} {a a' b b' : List α} (h1 : a = a') (h2 : b = b') : a ++ b = a' ++ b' := by rw [h1, h2]

theorem specRa_build (top : Top) (i : Intf) (ll : Option Bytes) (mtu : Option Nat) (self6 dl : Nat)
    (hp : ∀ p ∈ i.prefixes, p.len ≤ 128) :
    specRa (build top i ll mtu self6 dl) = expected top i ll mtu self6 dl := by
  unfold specRa build expected
  simp only [List.filterMap_append]
  rw [Ra.mk.injEq]
  refine ⟨rfl, rfl, rfl, ?_, rfl, rfl, ?_⟩
  · cases i.lifetime <;> rfl
  · refine app_congr (app_congr (app_congr (app_congr (app_congr (app_congr ?_ ?_) ?_) ?_) ?_) ?_) ?_
    · cases ll <;> rfl
    · cases mtu <;> rfl
    · exact seg_prefixes _ hp
    · have hlt : i.rdnssLifetime.alwaysUnwrapOr (3 * maxRtrAdvInterval) = (match i.rdnssLifetime with | .value v => v | _ => 1800) := by
        cases i.rdnssLifetime <;> rfl
      cases i.rdnss with
      | dontSet => rfl
      | notSpecified =>
        simp only [Tri.unwrapOr]
        generalize (List.map (fun ip => if ip = 0 then self6 else ip) top.dnsServers6) = v
        cases v with
        | nil => rfl
        | cons a as => cases i.rdnssLifetime <;> simp [specOpt, Tri.alwaysUnwrapOr, maxRtrAdvInterval]
      | value v =>
        simp only [Tri.unwrapOr]
        cases v with
        | nil => rfl
        | cons a as => cases i.rdnssLifetime <;> simp [specOpt, Tri.alwaysUnwrapOr, maxRtrAdvInterval]
    · cases i.dnssl with
      | dontSet => rfl
      | notSpecified =>
        simp only [Tri.unwrapOr]
        cases top.dnsSearch with
        | nil => rfl
        | cons a as => cases i.dnsslLifetime <;> simp [specOpt, Tri.alwaysUnwrapOr, maxRtrAdvInterval]
      | value v =>
        simp only [Tri.unwrapOr]
        cases v with
        | nil => rfl
        | cons a as => cases i.dnsslLifetime <;> simp [specOpt, Tri.alwaysUnwrapOr, maxRtrAdvInterval]
    · cases i.pref64 with
      | none => rfl
      | some v => obtain ⟨lt, p, l⟩ := v; exact seg_pref64 lt p l
    · cases i.captivePortal <;> simp only [Tri.orOpt] <;> cases top.captivePortal <;> rfl


/-- what a configuration (with the interface's link-layer address, MTU and own address) must satisfy for the wire
    format to be able to carry it; everything else is clamped -/
structure CfgOK (top : Top) (i : Intf) (ll : Option Bytes) (mtu : Option Nat) (self6 : Nat) : Prop where
  hop : i.hoplimit < 256
  ll : ∀ m, ll = some m → m.length = 6
  mtu : ∀ m, mtu = some m → m < 4294967296
  prefixes : ∀ p ∈ i.prefixes, p.len ≤ 128 ∧ p.addr < 2 ^ 128
  servers : ∀ v, i.rdnss.unwrapOr (top.dnsServers6.map fun ip => if ip = 0 then self6 else ip) = some v →
    v.length ≤ 127 ∧ ∀ s ∈ v, s < 2 ^ 128
  domains : ∀ v, i.dnssl.unwrapOr top.dnsSearch = some v →
    (∀ d ∈ v, DomainOK d) ∧ (v.flatMap encodeDomain).length ≤ 2024
  pref64 : ∀ lt p l, i.pref64 = some (lt, p, l) → p < 2 ^ 128
  url : ∀ u, i.captivePortal.orOpt top.captivePortal = some u → (∀ b ∈ u, b ≠ 0) ∧ u.length ≤ 2030

theorem cfgok_options {top : Top} {i : Intf} {ll : Option Bytes} {mtu : Option Nat} {self6 : Nat}
    (h : CfgOK top i ll mtu self6) (dl : Nat) : ∀ o ∈ (build top i ll mtu self6 dl).options, OptOK o := by
  intro o ho
  unfold build at ho
  simp only [List.mem_append] at ho
  rcases ho with (((((ho | ho) | ho) | ho) | ho) | ho) | ho
  · cases hll : ll with
    | none => rw [hll] at ho; cases ho
    | some m =>
      rw [hll] at ho
      simp only [List.mem_singleton] at ho; subst ho
      exact h.ll m hll
  · cases hm : mtu with
    | none => rw [hm] at ho; cases ho
    | some m =>
      rw [hm] at ho
      simp only [List.mem_singleton] at ho; subst ho
      exact h.mtu m hm
  · obtain ⟨p, hp, rfl⟩ := List.mem_map.mp ho
    exact h.prefixes p hp
  · cases hs : i.rdnss.unwrapOr (top.dnsServers6.map fun ip => if ip = 0 then self6 else ip) with
    | none => rw [hs] at ho; cases ho
    | some v =>
      rw [hs] at ho
      simp only [List.mem_singleton] at ho; subst ho
      exact h.servers v hs
  · cases hs : i.dnssl.unwrapOr top.dnsSearch with
    | none => rw [hs] at ho; cases ho
    | some v =>
      rw [hs] at ho
      simp only [List.mem_singleton] at ho; subst ho
      exact h.domains v hs
  · cases hs : i.pref64 with
    | none => rw [hs] at ho; cases ho
    | some v =>
      obtain ⟨lt, p, l⟩ := v
      rw [hs] at ho
      simp only [List.mem_singleton] at ho; subst ho
      exact h.pref64 lt p l hs
  · cases hs : i.captivePortal.orOpt top.captivePortal with
    | none => rw [hs] at ho; cases ho
    | some u =>
      rw [hs] at ho
      simp only [List.mem_singleton] at ho; subst ho
      exact h.url u hs


/-! ### option lengths never wrap, whatever the configuration -/

/-- nothing, or an option whose length octet is its true length in units of eight -/
def WellFramed (b : Bytes) : Prop := b = [] ∨ ∃ ty l body, b = ty :: l :: body ∧ l ≠ 0 ∧ l < 256 ∧ body.length + 2 = l * 8

theorem chunks_bounds {α : Type} (n : Nat) (hn : 1 ≤ n) : ∀ (fuel : Nat) (l : List α), ∀ c ∈ chunks n fuel l, 1 ≤ c.length ∧ c.length ≤ n := by
  intro fuel
  induction fuel with
  | zero => intro l c hc; simp [chunks] at hc
  | succ fuel ih =>
    intro l c hc
    unfold chunks at hc
    split at hc
    · cases hc
    · rename_i hne
      rcases List.mem_cons.mp hc with rfl | hc
      · have : 0 < l.length := by
          cases l with
          | nil => simp at hne
          | cons a as => simp
        simp only [List.length_take]; omega
      · exact ih _ c hc

theorem rdnssOpt_wellFramed (lt : Nat) (c : List Nat) (h1 : 1 ≤ c.length) (h2 : c.length ≤ 127) : WellFramed (rdnssOpt lt c) := by
  right
  refine ⟨25, (1 + c.length * 2) % 256, [0, 0] ++ u32 (clamp lt 0xffffffff) ++ c.flatMap u128, by simp [rdnssOpt], by omega, by omega, ?_⟩
  simp only [List.length_append, flatMap_u128_length, u32, List.length_cons, List.length_nil]; omega

/-- **RDNSS**: any number of servers is sent as a sequence of options that each state their true length -/
theorem rdnss_never_wraps (lt : Nat) (servers : List Nat) :
    ∃ parts : List Bytes, serOpt (.rdnss lt servers) = parts.flatten ∧ ∀ p ∈ parts, WellFramed p := by
  have hc : Generated.Ra.rdnssChunk = 127 := by decide
  by_cases he : servers.isEmpty = true
  · exact ⟨[], by simp [serOpt, he], by intro p hp; cases hp⟩
  · refine ⟨(chunks 127 servers.length servers).map (rdnssOpt lt), ?_, ?_⟩
    · simp only [serOpt, he, Bool.false_eq_true, if_false, hc, show ¬ (127 = 0) by decide, List.flatMap_def]
    · intro p hp
      obtain ⟨c, hcm, rfl⟩ := List.mem_map.mp hp
      have := chunks_bounds 127 (by decide) _ _ c hcm
      exact rdnssOpt_wellFramed lt c this.1 this.2

/-- **DNSSL**: any list of domains is sent with its true length, or not at all -/
theorem dnssl_never_wraps (lt : Nat) (domains : List Bytes) : WellFramed (serOpt (.dnssl lt domains)) := by
  have hc : Generated.Ra.dnsslLengthChecked = true := by decide
  simp only [serOpt, hc, Bool.true_and]
  split
  · left; rfl
  · split
    · left; rfl
    · rename_i hfit
      simp only [decide_eq_true_eq] at hfit
      right
      have h8 : ((padTo8 (domains.flatMap encodeDomain) 0).length + 0) % 8 = 0 := by
        unfold padTo8; simp only [List.length_append, List.length_replicate]; omega
      refine ⟨31, (1 + (padTo8 (domains.flatMap encodeDomain) 0).length / 8) % 256,
        [0, 0] ++ u32 (clamp lt 0xffffffff) ++ padTo8 (domains.flatMap encodeDomain) 0, by simp, by omega, by omega, ?_⟩
      simp only [List.length_append, u32, List.length_cons, List.length_nil]; omega

/-- **captive portal**: any URL is sent with its true length, or not at all -/
theorem captive_never_wraps (url : Bytes) : WellFramed (serOpt (.captivePortal url)) := by
  have hc : Generated.Ra.captiveLengthChecked = true := by decide
  simp only [serOpt, hc, Bool.true_and]
  split
  · left; rfl
  · rename_i hfit
    simp only [Bool.or_eq_true, decide_eq_true_eq, not_or] at hfit
    right
    have h8 : ((padTo8 url 2).length + 2) % 8 = 0 := by
      unfold padTo8; simp only [List.length_append, List.length_replicate]; omega
    exact ⟨37, (1 + (padTo8 url 2).length / 8) % 256, padTo8 url 2, by simp, by omega, by omega, by omega⟩

end Erbium.RaCodec
