import ErbiumModel.Lemmas.DhcpWire
/-! # The DHCP encoder writes octets

The model computes over `Nat`; the implementation writes `u8`. Wherever the implementation narrows
(`len as u8` for an option length, header fields) a value ≥ 256 would wrap silently. This file
shows no such value is ever written: every element of `serialise m` is < 256 whenever the message's
own octets are — in particular every option *length* octet, for option values of any length. -/
namespace Erbium.DhcpWire

def Octets (l : List Nat) : Prop := ∀ b ∈ l, b < 256

theorem Octets.append {a b : List Nat} (ha : Octets a) (hb : Octets b) : Octets (a ++ b) := by
  intro x hx
  rcases List.mem_append.mp hx with h | h
  · exact ha x h
  · exact hb x h

theorem Octets.take {a : List Nat} (ha : Octets a) (n : Nat) : Octets (a.take n) :=
  fun x hx => ha x (List.mem_of_mem_take hx)

theorem Octets.drop {a : List Nat} (ha : Octets a) (n : Nat) : Octets (a.drop n) :=
  fun x hx => ha x (List.mem_of_mem_drop hx)

theorem serChunks_octets (c : Nat) (hc : c < 256) (v : List Nat) (hv : Octets v) : Octets (serChunks c v) := by
  fun_induction serChunks c v with
  | case1 v hle hem => intro b hb; simp at hb
  | case2 v hle hne =>
    intro b hb
    simp only [List.mem_cons] at hb
    rcases hb with rfl | rfl | hb
    · exact hc
    · omega
    · exact hv b hb
  | case3 v hgt ih =>
    intro b hb
    simp only [List.cons_append, List.mem_cons, List.mem_append] at hb
    rcases hb with rfl | rfl | hb | hb
    · exact hc
    · omega
    · exact hv.take 255 b hb
    · exact ih (hv.drop 255) b hb

theorem serOption_octets (c : Nat) (hc : c < 256) (v : List Nat) (hv : Octets v) : Octets (serOption c v) := by
  unfold serOption
  split
  · intro b hb; simp only [List.mem_cons, List.not_mem_nil, or_false] at hb; rcases hb with rfl | rfl <;> omega
  · exact serChunks_octets c hc v hv

theorem serOptions_octets (o : Opts) (h : ∀ e ∈ o, e.1 < 256 ∧ Octets e.2) : Octets (serOptions o) := by
  unfold serOptions
  apply Octets.append
  · intro b hb
    obtain ⟨e, he, hbe⟩ := List.mem_flatMap.mp hb
    exact serOption_octets e.1 (h e he).1 e.2 (h e he).2 b hbe
  · intro b hb; simp at hb; omega

theorem serFixed_octets (v : List Nat) (l : Nat) (hv : Octets v) : Octets (serFixed v l) := by
  unfold serFixed
  apply Octets.take
  apply Octets.append hv
  intro b hb
  have := List.eq_of_mem_replicate hb
  omega

theorem ser32_octets (x : Nat) : Octets (ser32 x) := by
  intro b hb; unfold ser32 at hb; simp only [List.mem_cons, List.not_mem_nil, or_false] at hb; omega

theorem ser16_octets (x : Nat) : Octets (ser16 x) := by
  intro b hb; unfold ser16 at hb; simp only [List.mem_cons, List.not_mem_nil, or_false] at hb; omega

/-- **Nothing wraps**: every element the encoder writes is an octet — header fields, the fixed-width
    fields, and for option values of *any* length every code and every length octet (the encoder
    splits at 255, so `len as u8` never sees 256 or more). -/
theorem serialise_octets (m : Dhcp) (hch : Octets m.chaddr) (hsn : Octets m.sname) (hfi : Octets m.file)
    (hopt : ∀ e ∈ m.options, e.1 < 256 ∧ Octets e.2) : Octets (serialise m) := by
  unfold serialise
  refine Octets.append (Octets.append (Octets.append (Octets.append (Octets.append (Octets.append
    (Octets.append (Octets.append (Octets.append (Octets.append (Octets.append (Octets.append ?_ (ser32_octets _))
    (ser16_octets _)) (ser16_octets _)) (ser32_octets _)) (ser32_octets _)) (ser32_octets _)) (ser32_octets _))
    (serFixed_octets _ _ hch)) (serFixed_octets _ _ hsn)) (serFixed_octets _ _ hfi)) ?_) (serOptions_octets _ hopt)
  · intro b hb; simp only [List.mem_cons, List.not_mem_nil, or_false] at hb; omega
  · intro b hb; simp only [magic, List.mem_cons, List.not_mem_nil, or_false] at hb; omega

end Erbium.DhcpWire
