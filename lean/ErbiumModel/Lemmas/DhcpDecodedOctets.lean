import ErbiumModel.Lemmas.DhcpDecoded
import ErbiumModel.Lemmas.DhcpOctets
/-! Decoded messages consist of octets of the input, so `serialise_octets` applies to every message
    the decoder yields: the re-encoding of any accepted packet is an octet string. -/
namespace Erbium.DhcpWire

def OptsOctets (o : Opts) : Prop := ∀ e ∈ o, e.1 < 256 ∧ Octets e.2

theorem optAppend_octets (m : Opts) (c : Nat) (v : List Nat) (hm : OptsOctets m) (hc : c < 256) (hv : Octets v) :
    OptsOctets (optAppend m c v) := by
  induction m with
  | nil => intro e he; simp only [optAppend, List.mem_singleton] at he; subst he; exact ⟨hc, hv⟩
  | cons x xs ih =>
    obtain ⟨k, w⟩ := x
    have hx := hm (k, w) (by simp)
    have hxs : OptsOctets xs := fun e he => hm e (by simp [he])
    unfold optAppend
    split
    · intro e he
      simp only [List.mem_cons] at he
      rcases he with rfl | he
      · exact ⟨hx.1, hx.2.append hv⟩
      · exact hxs e he
    · intro e he
      simp only [List.mem_cons] at he
      rcases he with rfl | he
      · exact hx
      · exact ih hxs e he

theorem parseOptions_octets (buf : List Nat) (m o : Opts) (h : parseOptions buf m = .ok o) (hb : Octets buf)
    (hm : OptsOctets m) : OptsOctets o := by
  fun_induction parseOptions buf m with
  | case1 m => simp at h
  | case2 m t ih => exact ih h (fun b hb' => hb b (by simp [hb'])) hm
  | case3 m t _ => simp only [Except.ok.injEq] at h; subst h; exact hm
  | case4 m c hc h255 => simp at h
  | case5 m c hc h255 l t' hl ih =>
    have ht : Octets t' := fun b hb' => hb b (by simp [hb'])
    exact ih h (ht.drop l) (optAppend_octets m c _ hm (hb c (by simp)) (ht.take l))
  | case6 m c hc h255 l t' hl => simp at h

theorem nullTerminated_octets (v : List Nat) (hv : Octets v) : Octets (nullTerminated v) :=
  fun b hb => hv b ((List.takeWhile_sublist _).subset hb)

/-- every message decoded from an octet string consists of octets -/
theorem parse_octets (pkt : List Nat) (hb : Octets pkt) (m : Dhcp) (h : parse pkt = .ok m) :
    Octets m.chaddr ∧ Octets m.sname ∧ Octets m.file ∧ OptsOctets m.options := by
  unfold parse at h
  split at h
  · rename_i op htype hlen hops x0 x1 x2 x3 s0 s1 f0 f1 c0 c1 c2 c3 y0 y1 y2 y3 i0 i1 i2 i3 g0 g1 g2 g3 rest
    have hr : Octets rest := by
      intro b hbm
      apply hb
      show b ∈ [op, htype, hlen, hops, x0, x1, x2, x3, s0, s1, f0, f1, c0, c1, c2, c3,
        y0, y1, y2, y3, i0, i1, i2, i3, g0, g1, g2, g3] ++ rest
      exact List.mem_append_right _ hbm
    simp only at h
    split at h
    · simp at h
    split at h
    · simp at h
    split at h
    · simp at h
    split at h
    · simp at h
    split at h
    · rename_i m0 m1 m2 m3 rest' hrest
      split at h
      · simp at h
      split at h
      · simp at h
      · rename_i opts hopts
        simp only [Except.ok.injEq] at h
        subst h
        have hr' : Octets rest' := by
          have : Octets (m0 :: m1 :: m2 :: m3 :: rest') := by
            rw [← hrest]; exact ((hr.drop 16).drop 64).drop 128
          intro b hb'; exact this b (by simp [hb'])
        exact ⟨(hr.take 16).take _, nullTerminated_octets _ ((hr.drop 16).take 64),
          nullTerminated_octets _ (((hr.drop 16).drop 64).take 128),
          parseOptions_octets _ _ _ hopts hr' (fun e he => by simp at he)⟩
    · simp at h
  · simp at h

/-- the re-encoding of any accepted packet is an octet string (nothing narrowed with loss on the
    decode → encode path either) -/
theorem reencode_octets (pkt : List Nat) (hb : Octets pkt) (m : Dhcp) (h : parse pkt = .ok m) :
    Octets (serialise m) := by
  obtain ⟨h1, h2, h3, h4⟩ := parse_octets pkt hb m h
  exact serialise_octets m h1 h2 h3 h4

end Erbium.DhcpWire
