import ErbiumModel.Lemmas.DnsTree
/-! Compression never lengthens a name: what `push_compressed_domain` writes is at most the name written in full. -/
namespace Erbium.DnsWire

/-- octets of the labels with their length octets (the name in full, without the root) -/
def nameOctets : List Label → Nat
  | [] => 0
  | l :: rest => l.length + 1 + nameOctets rest

theorem nameOctets_append (a b : List Label) : nameOctets (a ++ b) = nameOctets a + nameOctets b := by
  induction a with
  | nil => simp [nameOctets]
  | cons l ls ih => simp only [List.cons_append, nameOctets, ih]; omega

theorem nameOctets_reverse (a : List Label) : nameOctets a.reverse = nameOctets a := by
  induction a with
  | nil => rfl
  | cons l ls ih => simp only [List.reverse_cons, nameOctets_append, ih, nameOctets]; omega

theorem wireLen_eq (d : Name) : wireLen d = nameOctets d + 1 := by
  induction d with
  | nil => rfl
  | cons l ls ih => simp only [wireLen, nameOctets, ih]; omega

theorem pointerBytes_len {d : Nat} {b : Bytes} (h : pointerBytes d = some b) : b.length = 2 := by
  unfold pointerBytes at h
  split at h
  · cases h
  · simp only [Option.some.injEq] at h; subst h; rfl

theorem pushLabel_len {l : Label} {b : Bytes} (h : pushLabel l = some b) : b.length = l.length + 1 := by
  unfold pushLabel at h
  split at h
  · cases h
  · simp only [Option.some.injEq] at h; subst h; simp

theorem pushPrefixR_len (rl : List Label) (hrl : WfName rl) :
    ∀ (node : Option Tree) (off : Nat) (bytes : Bytes) (ret node' : Option Tree),
      pushPrefixR rl node off = some (bytes, ret, node') → bytes.length ≤ nameOctets rl := by
  induction rl with
  | nil => intro node off bytes ret node' h; simp [pushPrefixR] at h
  | cons label rest ih =>
    intro node off bytes ret node' h
    have hl : WfLabel label := hrl label (by simp)
    have hrest : WfName rest := fun x hx => hrl x (by simp [hx])
    unfold WfLabel at hl
    cases rest with
    | nil =>
      simp only [pushPrefixR] at h
      cases hc : findChild node label with
      | none =>
        simp only [hc, Option.map_eq_some_iff] at h
        obtain ⟨b, hb, heq⟩ := h
        simp only [Prod.mk.injEq] at heq
        obtain ⟨rfl, _, _⟩ := heq
        simp only [nameOctets, pushLabel_len hb]; omega
      | some ic =>
        obtain ⟨i, c⟩ := ic
        simp only [hc, Option.map_eq_some_iff] at h
        obtain ⟨b, hb, heq⟩ := h
        simp only [Prod.mk.injEq] at heq
        obtain ⟨rfl, _, _⟩ := heq
        simp only [nameOctets, pointerBytes_len hb]; omega
    | cons l2 rest' =>
      unfold pushPrefixR at h
      simp only at h
      cases hrec : pushPrefixR (l2 :: rest') (Option.map (fun x => x.2) (findChild node label)) off with
      | none => simp [hrec] at h
      | some res =>
        obtain ⟨bytes0, ret0, child'⟩ := res
        simp only [hrec] at h
        have h0 := ih hrest _ _ _ _ _ hrec
        cases ret0 with
        | none =>
          cases hc : findChild node label with
          | none => simp [hc] at h
          | some ic =>
            obtain ⟨i, c0⟩ := ic
            simp only [hc, Option.some.injEq, Prod.mk.injEq] at h
            obtain ⟨rfl, _, _⟩ := h
            simp only [nameOctets] at h0 ⊢; omega
        | some r =>
          cases hc : findChild node label with
          | none =>
            simp only [hc, Option.map_eq_some_iff] at h
            obtain ⟨b, hb, heq⟩ := h
            simp only [Prod.mk.injEq] at heq
            obtain ⟨rfl, _, _⟩ := heq
            simp only [nameOctets, List.length_append, pushLabel_len hb] at h0 ⊢; omega
          | some ic =>
            obtain ⟨i, c0⟩ := ic
            simp only [hc] at h
            split at h
            · cases h
            · simp only [Option.map_eq_some_iff] at h
              obtain ⟨b, hb, heq⟩ := h
              simp only [Prod.mk.injEq] at heq
              obtain ⟨rfl, _, _⟩ := heq
              simp only [nameOctets, List.length_append, pointerBytes_len hb] at h0 ⊢; omega

/-- **compression never lengthens a name** -/
theorem pushName_len (d : Name) (hd : WfName d) (t : Tree) (off : Nat) (bytes : Bytes) (t' : Tree)
    (h : pushName d t off = some (bytes, t')) : bytes.length ≤ wireLen d := by
  unfold pushName at h
  by_cases hemp : d.isEmpty = true
  · simp only [hemp, if_true, Option.some.injEq, Prod.mk.injEq] at h
    obtain ⟨rfl, _⟩ := h
    have : d = [] := by simpa using hemp
    subst this; simp [wireLen]
  · simp only [hemp, Bool.false_eq_true, if_false] at h
    have hrl : WfName d.reverse := fun l hl => hd l (List.mem_reverse.mp hl)
    cases hp : pushPrefixR d.reverse (some t) off with
    | none => simp [hp] at h
    | some res =>
      obtain ⟨bytes0, ret, node'⟩ := res
      have h0 := pushPrefixR_len d.reverse hrl _ _ _ _ _ hp
      rw [nameOctets_reverse] at h0
      simp only [hp] at h
      cases ret with
      | none =>
        simp only [Option.some.injEq, Prod.mk.injEq] at h
        obtain ⟨rfl, _⟩ := h
        rw [wireLen_eq]; omega
      | some r =>
        simp only [Option.some.injEq, Prod.mk.injEq] at h
        obtain ⟨rfl, _⟩ := h
        rw [wireLen_eq]; simp only [List.length_append, List.length_singleton]; omega

end Erbium.DnsWire
