import ErbiumModel.Model.DnsRelay
import ErbiumModel.Lemmas.DnsTruncated
import ErbiumModel.Lemmas.DnsDecoded
/-! The reply `create_in_reply` assembles from a decoded query and a decoded upstream reply is inside the domain
    of the wire theorems (C03 end to end, without a well-formedness hypothesis on the assembled reply). -/
namespace Erbium.DnsRelay
open Erbium.DnsWire

/-- the message as a reader sees it: an EDNS record is always written with a version, 0 when the message does
    not say (`edns_ver.unwrap_or(0)`) — erbium's replies to queries without EDNS are of that kind -/
def asSent (p : Pkt) : Pkt := { p with ednsVer := some (p.ednsVer.getD 0) }

theorem additionalOf_asSent (p : Pkt) : additionalOf (asSent p) = additionalOf p := by
  unfold additionalOf asSent
  cases p.edns <;> rfl

theorem serialise_asSent (p : Pkt) (size : Nat) : serialiseWithSize (asSent p) size = serialiseWithSize p size := by
  unfold serialiseWithSize
  rw [additionalOf_asSent]
  rfl

theorem addEdns_ok (q : Pkt) (ip ck : Bytes) (hip : ip.length < 65536) (hck : ck.length + 8 < 65536) :
    OptsOK (addEdns q ip ck) := by
  unfold addEdns
  intro e he
  simp only [List.mem_append] at he
  rcases he with he | he
  · split at he
    · simp only [List.mem_singleton] at he; subst he; exact ⟨by show (3 : Nat) < 65536; decide, hip⟩
    · cases he
  · split at he
    · split at he
      · simp only [List.mem_singleton] at he; subst he
        refine ⟨by show (10 : Nat) < 65536; decide, ?_⟩
        simp only [List.length_append, List.length_take]; omega
      · cases he
    · cases he

/-- **the assembled reply is a message the wire theorems speak about** -/
theorem createInReply_wf {q r : Pkt} (hq : WfPkt q) (hr : WfPkt r) (had : r.additional.length + 1 < 65536)
    (ip ck : Bytes) (hip : ip.length < 65536) (hck : ck.length + 8 < 65536) :
    WfPkt (asSent (createInReply q r ip ck)) where
  qid := hq.qid
  opcode := by show (0 : Nat) < 16; decide
  rcode := hr.rcode
  qtype := hq.qtype
  qclass := hq.qclass
  qname := hq.qname
  an := hr.an
  ns := by
    have h : Generated.Dns.replyAuthorityFromUpstreamAuthority = true := by decide
    show ∀ rr ∈ (if Generated.Dns.replyAuthorityFromUpstreamAuthority then r.nameserver else r.answer), RROK rr
    rw [if_pos h]; exact hr.ns
  ad := hr.ad
  anN := hr.anN
  nsN := by
    have h : Generated.Dns.replyAuthorityFromUpstreamAuthority = true := by decide
    show (if Generated.Dns.replyAuthorityFromUpstreamAuthority then r.nameserver else r.answer).length < 65536
    rw [if_pos h]; exact hr.nsN
  adN := by
    show (r.additional ++ [_]).length < 65536
    simp only [List.length_append, List.length_singleton]; exact had
  bufsize := ⟨by show 512 ≤ 4096; decide, by show 4096 < 65536; decide⟩
  edns := Or.inl ⟨_, rfl, addEdns_ok q ip ck hip hck, by
    show some ((q.ednsVer.map (fun _ => 0)).getD 0) = some 0
    cases q.ednsVer <;> rfl⟩

end Erbium.DnsRelay
