import ErbiumModel.Lemmas.DhcpWire
/-! # Everything the DHCP decoder accepts is well formed

`parse_serialise` needs `Wf m`. This file shows that hypothesis is met by *every* message the
decoder yields from an octet string, so the round trip also holds in the other direction
(decode, encode, decode) with no hypothesis beyond "the input is a list of octets". -/
namespace Erbium.DhcpWire

theorem optAppend_keys (m : Opts) (c : Nat) (v : List Nat) :
    (optAppend m c v).map (·.1) = if c ∈ m.map (·.1) then m.map (·.1) else m.map (·.1) ++ [c] := by
  induction m with
  | nil => simp [optAppend]
  | cons e es ih =>
    obtain ⟨k, w⟩ := e
    by_cases hk : k = c
    · subst hk; simp [optAppend]
    · have hk' : ¬ c = k := fun h => hk h.symm
      simp only [optAppend, hk, if_false, List.map_cons, ih, List.mem_cons, hk', false_or]
      split <;> simp

theorem optAppend_wf (m : Opts) (c : Nat) (v : List Nat) (h : OptsWf m) (h0 : c ≠ 0) (h255 : c ≠ 255) :
    OptsWf (optAppend m c v) := by
  refine ⟨?_, ?_⟩
  · rw [optAppend_keys]
    split
    · exact h.1
    · rename_i hc
      exact List.nodup_append.mpr ⟨h.1, by simp, by
        intro a ha b hb
        simp only [List.mem_singleton] at hb
        subst hb
        intro hab; subst hab; exact hc ha⟩
  · intro e he
    have hmem : e.1 ∈ (optAppend m c v).map (·.1) := List.mem_map_of_mem he
    rw [optAppend_keys] at hmem
    split at hmem
    · obtain ⟨e', he', heq⟩ := List.mem_map.mp hmem
      rw [← heq]; exact h.2 e' he'
    · rcases List.mem_append.mp hmem with hm | hm
      · obtain ⟨e', he', heq⟩ := List.mem_map.mp hm
        rw [← heq]; exact h.2 e' he'
      · simp only [List.mem_singleton] at hm
        rw [hm]; exact ⟨h0, h255⟩

theorem parseOptions_wf (buf : List Nat) (m o : Opts) (h : parseOptions buf m = .ok o) (hm : OptsWf m) :
    OptsWf o := by
  fun_induction parseOptions buf m with
  | case1 m => simp at h
  | case2 m t ih => exact ih h hm
  | case3 m t _ => simp only [Except.ok.injEq] at h; subst h; exact hm
  | case4 m c hc h255 => simp at h
  | case5 m c hc h255 l t' hl ih => exact ih h (optAppend_wf m c _ hm hc h255)
  | case6 m c hc h255 l t' hl => simp at h

theorem nullTerminated_ok (v : List Nat) : (nullTerminated v).length ≤ v.length ∧ ∀ b ∈ nullTerminated v, b ≠ 0 := by
  refine ⟨(List.takeWhile_sublist _).length_le, ?_⟩
  intro b hb
  have := List.all_eq_true.mp (List.all_takeWhile (l := v) (p := (· != 0))) b hb
  simpa using this

theorem be32_lt (a b c d : Nat) (ha : a < 256) (hb : b < 256) (hc : c < 256) (hd : d < 256) :
    be32 a b c d < 2 ^ 32 := by unfold be32; omega

theorem be16_lt (a b : Nat) (ha : a < 256) (hb : b < 256) : be16 a b < 65536 := by unfold be16; omega

/-- **Decoder output is well formed**: for every list of octets the decoder accepts, the decoded
    message satisfies `Wf` — header fields in range, `hlen` equal to the hardware-address length
    (≤ 16), `sname`/`file` free of NULs and within their fields, option codes distinct and never
    0 or 255. -/
theorem parse_wf (pkt : List Nat) (hb : ∀ b ∈ pkt, b < 256) (m : Dhcp) (h : parse pkt = .ok m) : Wf m := by
  unfold parse at h
  split at h
  · rename_i op htype hlen hops x0 x1 x2 x3 s0 s1 f0 f1 c0 c1 c2 c3 y0 y1 y2 y3 i0 i1 i2 i3 g0 g1 g2 g3 rest
    have B : ∀ b, b ∈ [op, htype, hlen, hops, x0, x1, x2, x3, s0, s1, f0, f1, c0, c1, c2, c3,
        y0, y1, y2, y3, i0, i1, i2, i3, g0, g1, g2, g3] → b < 256 := by
      intro b hbm
      apply hb
      show b ∈ [op, htype, hlen, hops, x0, x1, x2, x3, s0, s1, f0, f1, c0, c1, c2, c3,
        y0, y1, y2, y3, i0, i1, i2, i3, g0, g1, g2, g3] ++ rest
      exact List.mem_append_left _ hbm
    simp only at h
    split at h
    · simp at h
    rename_i h16
    split at h
    · simp at h
    rename_i hh
    split at h
    · simp at h
    split at h
    · simp at h
    split at h
    · split at h
      · simp at h
      split at h
      · simp at h
      · rename_i opts hopts
        simp only [Except.ok.injEq] at h
        subst h
        have hw := parseOptions_wf _ _ _ hopts ⟨by simp, by simp⟩
        have n1 := nullTerminated_ok (List.take 64 (List.drop 16 rest))
        have n2 := nullTerminated_ok (List.take 128 (List.drop 64 (List.drop 16 rest)))
        exact {
          op := B op (by simp), htype := B htype (by simp)
          hlen := by simp only [List.length_take]; omega
          chaddr := by simp only [List.length_take]; omega
          hops := B hops (by simp)
          xid := be32_lt _ _ _ _ (B x0 (by simp)) (B x1 (by simp)) (B x2 (by simp)) (B x3 (by simp))
          secs := be16_lt _ _ (B s0 (by simp)) (B s1 (by simp))
          flags := be16_lt _ _ (B f0 (by simp)) (B f1 (by simp))
          ciaddr := be32_lt _ _ _ _ (B c0 (by simp)) (B c1 (by simp)) (B c2 (by simp)) (B c3 (by simp))
          yiaddr := be32_lt _ _ _ _ (B y0 (by simp)) (B y1 (by simp)) (B y2 (by simp)) (B y3 (by simp))
          siaddr := be32_lt _ _ _ _ (B i0 (by simp)) (B i1 (by simp)) (B i2 (by simp)) (B i3 (by simp))
          giaddr := be32_lt _ _ _ _ (B g0 (by simp)) (B g1 (by simp)) (B g2 (by simp)) (B g3 (by simp))
          sname := ⟨by have := n1.1; simp only [List.length_take] at this; show (nullTerminated _).length ≤ 64; omega, n1.2⟩
          file := ⟨by have := n2.1; simp only [List.length_take] at this; show (nullTerminated _).length ≤ 128; omega, n2.2⟩
          options := hw }
    · simp at h
  · simp at h

/-- decode, encode, decode: every accepted octet string re-encodes to something that decodes to
    the same message. -/
theorem parse_serialise_parse (pkt : List Nat) (hb : ∀ b ∈ pkt, b < 256) (m : Dhcp) (h : parse pkt = .ok m) :
    parse (serialise m) = .ok m :=
  parse_serialise m (parse_wf pkt hb m h)

end Erbium.DhcpWire
