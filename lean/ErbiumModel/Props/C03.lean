import ErbiumModel.Model.DnsRelay
import ErbiumModel.Lemmas.DnsMessage
import ErbiumModel.Lemmas.DnsTruncated
import ErbiumModel.Lemmas.DnsReply
/-! # C03 — DNS answers relayed to clients are faithful to what the upstream server said -/
namespace Erbium.Props.C03
open Erbium Erbium.DnsWire Erbium.DnsRelay

/-- **C03 (fresh reply).** For every query `q` and upstream reply `r` the reply sent to the client
    carries the client's id and question, is a response, and has the upstream's response code,
    answer, authority and additional sections — same records, same order, nothing added, dropped
    or moved. -/
theorem C03_relay_faithful (q r : Pkt) (ip ck : Bytes) :
    let c := createInReply q r ip ck
    c.qid = q.qid ∧ c.qdomain = q.qdomain ∧ c.qclass = q.qclass ∧ c.qtype = q.qtype ∧ c.qr = true ∧
    c.rcode = r.rcode ∧ c.answer = r.answer ∧ c.nameserver = r.nameserver ∧ c.additional = r.additional := by
  have h : Generated.Dns.replyAuthorityFromUpstreamAuthority = true := by decide
  simp [createInReply, h]

/-- the struct literal of `create_in_reply` in the source has the expected source for each field -/
theorem C03_reply_fields_from_expected_sources :
    Generated.Dns.replyQidFromQuery = true ∧ Generated.Dns.replyIsResponse = true ∧
    Generated.Dns.replyRcodeFromUpstream = true ∧ Generated.Dns.replyQuestionFromQuery = true ∧
    Generated.Dns.replyAnswerFromUpstreamAnswer = true ∧ Generated.Dns.replyAuthorityFromUpstreamAuthority = true ∧
    Generated.Dns.replyAdditionalFromUpstreamAdditional = true := by decide

/-- **C03 (cached reply).** A reply served from the cache at age `d` seconds differs from the
    upstream's only in TTLs, each reduced by exactly `d` (and `d` never exceeds any of them, C06). -/
theorem C03_cached_reply_only_ttls_change (q r : Pkt) (d : Nat) (ip ck : Bytes) :
    let c := createInReply q (decTtls r d) ip ck
    c.rcode = r.rcode ∧
    c.answer = r.answer.map (fun x => { x with ttl := x.ttl - d }) ∧
    c.nameserver = r.nameserver.map (fun x => { x with ttl := x.ttl - d }) ∧
    c.additional = r.additional.map (fun x => { x with ttl := x.ttl - d }) ∧
    c.answer.length = r.answer.length ∧ c.nameserver.length = r.nameserver.length ∧
    c.additional.length = r.additional.length := by
  have h : Generated.Dns.replyAuthorityFromUpstreamAuthority = true := by decide
  simp [createInReply, decTtls, h]

/-- the upstream query carries the client's question (and nothing of the client's records) -/
theorem C03_upstream_query_carries_question (id : Nat) (q : Pkt) :
    let o := createOutQuery id q
    o.qid = id ∧ o.qdomain = q.qdomain ∧ o.qclass = q.qclass ∧ o.qtype = q.qtype ∧ o.qr = false ∧ o.rd = true ∧
    o.answer = [] ∧ o.nameserver = [] ∧ o.additional = [] := by
  simp [createOutQuery]

example : (createInReply
    { qid := 7, rd := true, tc := false, aa := false, qr := false, opcode := 0, cd := false, ad := false, ra := false, rcode := 0,
      bufsize := 1232, ednsVer := some 0, ednsDo := false, qdomain := [[97]], qclass := 1, qtype := 1, answer := [],
      nameserver := [], additional := [], edns := some [] }
    { qid := 99, rd := true, tc := false, aa := false, qr := true, opcode := 0, cd := false, ad := false, ra := true, rcode := 3,
      bufsize := 512, ednsVer := none, ednsDo := false, qdomain := [[97]], qclass := 1, qtype := 1, answer := [],
      nameserver := [⟨[], 1, 6, 60, .soa [[110]] [[114]] 1 2 3 4 5⟩], additional := [], edns := none } [] []).nameserver.length = 1 := by
  decide

/-- **C03 (on the wire).** What the client decodes from the bytes it receives is the reply that was assembled:
    whenever the reply to `q` built from the upstream's `r` is of the decoder's shape and is written completely,
    decoding the wire gives back that reply — so, with `C03_relay_faithful`, the client's own id and question and the
    upstream's rcode and three sections, record for record, compressed names included. -/
theorem C03_wire_faithful (q r : Pkt) (ip ck : Bytes) (size : Nat) (wire : Bytes)
    (hw : WfPkt (createInReply q r ip ck)) (hc : Complete (createInReply q r ip ck) size wire) (hsz : wire.length < 65536) :
    ∃ c, parse wire = .ok c ∧ c.qid = q.qid ∧ c.qdomain = q.qdomain ∧ c.qtype = q.qtype ∧ c.qclass = q.qclass ∧
      c.rcode = r.rcode ∧ c.answer = r.answer ∧ c.nameserver = r.nameserver ∧ c.additional = r.additional := by
  have hf := C03_relay_faithful q r ip ck
  simp only at hf
  exact ⟨_, message_roundtrip _ hw size wire hc hsz, hf.1, hf.2.1, hf.2.2.2.1, hf.2.2.1, hf.2.2.2.2.2.1, hf.2.2.2.2.2.2.1,
    hf.2.2.2.2.2.2.2.1, hf.2.2.2.2.2.2.2.2⟩

/-- **C03 (on the wire, every reply).** Whatever the serialiser returns for the assembled reply — complete or cut to
    the client's limit — the client decodes a message with its own id and question and the upstream's low rcode
    bits, whose three sections are *prefixes* of the upstream's sections: no record is invented, altered, reordered
    or moved to another section, and records are missing only from the end, only with TC set; without TC the client
    decodes exactly the assembled reply. -/
theorem C03_every_reply_faithful (q r : Pkt) (ip ck : Bytes) (size : Nat) (hs : 512 ≤ size) (wire : Bytes)
    (hw : WfPkt (createInReply q r ip ck)) (h : serialiseWithSize (createInReply q r ip ck) size = some wire)
    (hsz : wire.length < 65536) :
    ∃ c, parse wire = .ok c ∧ c.qid = q.qid ∧ c.qdomain = q.qdomain ∧ c.qtype = q.qtype ∧ c.qclass = q.qclass ∧
      c.rcode % 16 = r.rcode % 16 ∧ c.answer <+: r.answer ∧ c.nameserver <+: r.nameserver ∧ c.additional <+: r.additional ∧
      (c.tc = false → c = createInReply q r ip ck) := by
  have hf := C03_relay_faithful q r ip ck
  simp only at hf
  obtain ⟨f1, f2, f3, f4, f5, f6, f7, f8, f9⟩ := hf
  rcases serialise_cases _ hw size hs wire h with hc | ⟨ka, kn, kd, _, hc⟩
  · refine ⟨_, message_roundtrip _ hw size wire hc hsz, f1, f2, f4, f3, by rw [f6], ?_, ?_, ?_, fun _ => rfl⟩
    · rw [f7]; exact List.prefix_refl _
    · rw [f8]; exact List.prefix_refl _
    · rw [f9]; exact List.prefix_refl _
  · refine ⟨_, message_roundtrip _ (truncated_wf hw ka kn kd) size wire hc hsz, f1, f2, f4, f3, ?_, ?_, ?_, ?_, ?_⟩
    · show (createInReply q r ip ck).rcode % 16 % 16 = r.rcode % 16
      rw [f6, Nat.mod_mod]
    · show (createInReply q r ip ck).answer.take ka <+: r.answer
      rw [f7]; exact List.take_prefix _ _
    · show (createInReply q r ip ck).nameserver.take kn <+: r.nameserver
      rw [f8]; exact List.take_prefix _ _
    · show (createInReply q r ip ck).additional.take kd <+: r.additional
      rw [f9]; exact List.take_prefix _ _
    · intro htc; exact absurd htc (by show ¬ (true = false); decide)

/-- **C03 (end to end, octets to octets).** Let `bq` and `br` be any strings of octets that the decoder accepts as the
    client's query `q` and the upstream's reply `r` (`r` with fewer than 65535 additional records — it arrived in at
    most 65535 octets), and let the receiving address as text and the server cookie be of any length a 16-bit option
    length can carry. Whatever the serialiser returns for `create_in_reply(q, r)` at any limit ≥ 512, within 65535
    octets, the client decodes: its own id and question, a response, the upstream's low rcode bits, and three
    sections that are prefixes of the upstream's — nothing invented, altered, reordered or moved; records missing
    only from the end and only with TC set; without TC, exactly the assembled reply (as sent: EDNS version 0).
    No well-formedness hypothesis remains: it is proved for everything the decoder returns. -/
theorem C03_end_to_end (bq br : Bytes) (hbq : Octets bq) (hbr : Octets br) (q r : Pkt)
    (hq : parse bq = .ok q) (hr : parse br = .ok r) (had : r.additional.length + 1 < 65536)
    (ip ck : Bytes) (hip : ip.length < 65536) (hck : ck.length + 8 < 65536)
    (size : Nat) (hs : 512 ≤ size) (wire : Bytes)
    (h : serialiseWithSize (createInReply q r ip ck) size = some wire) (hsz : wire.length < 65536) :
    ∃ c, parse wire = .ok c ∧ c.qid = q.qid ∧ c.qdomain = q.qdomain ∧ c.qtype = q.qtype ∧ c.qclass = q.qclass ∧
      c.qr = true ∧ c.rcode % 16 = r.rcode % 16 ∧
      c.answer <+: r.answer ∧ c.nameserver <+: r.nameserver ∧ c.additional <+: r.additional ∧
      (c.tc = false → c = asSent (createInReply q r ip ck)) := by
  have hwq := (parse_wf hbq hq).1
  have hwr := (parse_wf hbr hr).1
  have hw := createInReply_wf hwq hwr had ip ck hip hck
  have h' : serialiseWithSize (asSent (createInReply q r ip ck)) size = some wire := by rw [serialise_asSent]; exact h
  have hf := C03_relay_faithful q r ip ck
  simp only at hf
  obtain ⟨f1, f2, f3, f4, f5, f6, f7, f8, f9⟩ := hf
  rcases serialise_cases _ hw size hs wire h' with hc | ⟨ka, kn, kd, _, hc⟩
  · refine ⟨_, message_roundtrip _ hw size wire hc hsz, f1, f2, f4, f3, f5, by rw [← f6]; rfl, ?_, ?_, ?_, fun _ => rfl⟩
    · show (createInReply q r ip ck).answer <+: r.answer
      rw [f7]; exact List.prefix_refl _
    · show (createInReply q r ip ck).nameserver <+: r.nameserver
      rw [f8]; exact List.prefix_refl _
    · show (createInReply q r ip ck).additional <+: r.additional
      rw [f9]; exact List.prefix_refl _
  · refine ⟨_, message_roundtrip _ (truncated_wf hw ka kn kd) size wire hc hsz, f1, f2, f4, f3, f5, ?_, ?_, ?_, ?_, ?_⟩
    · show (createInReply q r ip ck).rcode % 16 % 16 = r.rcode % 16
      rw [f6, Nat.mod_mod]
    · show (createInReply q r ip ck).answer.take ka <+: r.answer
      rw [f7]; exact List.take_prefix _ _
    · show (createInReply q r ip ck).nameserver.take kn <+: r.nameserver
      rw [f8]; exact List.take_prefix _ _
    · show (createInReply q r ip ck).additional.take kd <+: r.additional
      rw [f9]; exact List.take_prefix _ _
    · intro htc; exact absurd htc (by show ¬ (true = false); decide)

end Erbium.Props.C03
