import ErbiumModel.Model.DnsCache
import ErbiumModel.Generated.Dns
/-! # C06 — the DNS cache never serves data past its TTL and never makes TTLs grow -/
namespace Erbium.Props.C06
open Erbium Erbium.DnsCache

theorem foldl_min_le (l : List Nat) (t : Nat) : l.foldl min t ≤ t ∧ ∀ x ∈ l, l.foldl min t ≤ x := by
  induction l generalizing t with
  | nil => simp
  | cons a as ih =>
    simp only [List.foldl_cons]
    have h := ih (min t a)
    refine ⟨Nat.le_trans h.1 (Nat.min_le_left _ _), ?_⟩
    intro x hx
    rcases List.mem_cons.mp hx with rfl | hx
    · exact Nat.le_trans h.1 (Nat.min_le_right _ _)
    · exact h.2 x hx

/-- the lifetime is a lower bound of every TTL in the reply (all three sections) -/
theorem getExpiry_le (r : Reply) : ∀ t ∈ allTtls r, getExpiry r ≤ t := by
  unfold getExpiry
  cases h : allTtls r with
  | nil => intro t ht; cases ht
  | cons a as =>
    intro t ht
    have := foldl_min_le as a
    rcases List.mem_cons.mp ht with rfl | ht
    · exact this.1
    · exact this.2 t ht

theorem decAll_ok (d : Nat) (l : List Nat) (h : ∀ t ∈ l, d ≤ t) : decAll d l = some (l.map (· - d)) := by
  induction l with
  | nil => rfl
  | cons a as ih =>
    have ha := h a (by simp)
    have := ih (fun t ht => h t (by simp [ht]))
    unfold decAll at *
    simp [List.mapM_cons, decTtl, ha, this]

/-- invariant of every reachable cache: one entry per key, each with positive lifetime equal to
    the smallest TTL of its reply, born in the past -/
def Inv (s : State) : Prop :=
  ∀ e ∈ s.cache, e.lifetime = getExpiry e.reply * ns ∧ getExpiry e.reply > 0 ∧ e.birth ≤ s.now

theorem inv_step (s : State) (op : Op) (h : Inv s) : Inv (step s op) := by
  cases op with
  | resolve k r =>
    intro e he
    simp only [step, resolve] at he
    split at he
    · rename_i hpos
      rcases List.mem_cons.mp he with rfl | he
      · exact ⟨rfl, hpos, Nat.le_refl _⟩
      · exact h e (List.mem_filter.mp he).1
    · exact h e he
  | expire =>
    intro e he
    simp only [step, expire] at he
    exact h e (List.mem_filter.mp he).1
  | tick n =>
    intro e he
    have := h e he
    exact ⟨this.1, this.2.1, by simp only [step]; omega⟩

theorem inv_run (s : State) (ops : List Op) (h : Inv s) : Inv (runOps s ops) := by
  induction ops generalizing s with
  | nil => exact h
  | cons op ops ih => exact ih (step s op) (inv_step s op h)

theorem inv_init (now : Nat) : Inv { cache := [], now := now } := by intro e he; cases he

/-- **C06.** After any history of resolutions (any replies, any TTLs in any section), expiry
    runs and clock advances from an empty cache, a lookup that is served from the cache
    * comes from an entry stored under exactly the queried key (name, type, DO, CD),
    * at an age `d` not exceeding the smallest TTL of the reply it holds,
    * with every TTL equal to the original minus the whole seconds elapsed, which is computed
      without underflow — so TTLs never grow, never go below zero and never wrap;
    and it never panics. -/
theorem C06_served_within_ttl (ops : List Op) (t0 : Nat) (k : Key) (r : Reply)
    (hl : lookup (runOps { cache := [], now := t0 } ops).cache k (runOps { cache := [], now := t0 } ops).now = .hit r) :
    ∃ e ∈ (runOps { cache := [], now := t0 } ops).cache,
      e.key = k ∧
      (runOps { cache := [], now := t0 } ops).now - e.birth ≤ getExpiry e.reply * ns ∧
      (∀ t ∈ allTtls e.reply, ((runOps { cache := [], now := t0 } ops).now - e.birth) / ns ≤ t) ∧
      r = { answer := e.reply.answer.map (· - ((runOps { cache := [], now := t0 } ops).now - e.birth) / ns),
            authority := e.reply.authority.map (· - ((runOps { cache := [], now := t0 } ops).now - e.birth) / ns),
            additional := e.reply.additional.map (· - ((runOps { cache := [], now := t0 } ops).now - e.birth) / ns) } := by
  generalize hs : runOps { cache := [], now := t0 } ops = s at *
  have hinv : Inv s := hs ▸ inv_run _ ops (inv_init t0)
  unfold lookup at hl
  cases hf : find s.cache k with
  | none => simp [hf] at hl
  | some e =>
    simp only [hf] at hl
    have hmem : e ∈ s.cache := List.mem_of_find?_eq_some hf
    have hkey : e.key = k := by simpa using List.find?_some hf
    obtain ⟨hlife, _, hbirth⟩ := hinv e hmem
    split at hl
    · rename_i hlive
      have hage : s.now - e.birth ≤ getExpiry e.reply * ns := by omega
      have hsec : (s.now - e.birth) / ns ≤ getExpiry e.reply := by
        apply Nat.div_le_of_le_mul; rw [Nat.mul_comm]; exact hage
      have hall : ∀ t ∈ allTtls e.reply, (s.now - e.birth) / ns ≤ t :=
        fun t ht => Nat.le_trans hsec (getExpiry_le e.reply t ht)
      have ha := decAll_ok ((s.now - e.birth) / ns) e.reply.answer (fun t ht => hall t (by simp [allTtls, ht]))
      have hn := decAll_ok ((s.now - e.birth) / ns) e.reply.authority (fun t ht => hall t (by simp [allTtls, ht]))
      have hd := decAll_ok ((s.now - e.birth) / ns) e.reply.additional (fun t ht => hall t (by simp [allTtls, ht]))
      refine ⟨e, hmem, hkey, hage, hall, ?_⟩
      simp only [cloneWithTtlDecrement, ha, hn, hd] at hl
      simp at hl
      exact hl.symm
    · cases hl

/-- the TTL subtraction can never overflow in a reachable cache -/
theorem C06_never_panics (ops : List Op) (t0 : Nat) (k : Key) :
    lookup (runOps { cache := [], now := t0 } ops).cache k (runOps { cache := [], now := t0 } ops).now ≠ .panic := by
  generalize hs : runOps { cache := [], now := t0 } ops = s
  have hinv : Inv s := hs ▸ inv_run _ ops (inv_init t0)
  unfold lookup
  cases hf : find s.cache k with
  | none => simp
  | some e =>
    simp only
    have hmem : e ∈ s.cache := List.mem_of_find?_eq_some hf
    obtain ⟨hlife, _, hbirth⟩ := hinv e hmem
    split
    · rename_i hlive
      have hage : s.now - e.birth ≤ getExpiry e.reply * ns := by omega
      have hsec : (s.now - e.birth) / ns ≤ getExpiry e.reply := by
        apply Nat.div_le_of_le_mul; rw [Nat.mul_comm]; exact hage
      have hall : ∀ t ∈ allTtls e.reply, (s.now - e.birth) / ns ≤ t :=
        fun t ht => Nat.le_trans hsec (getExpiry_le e.reply t ht)
      have ha := decAll_ok ((s.now - e.birth) / ns) e.reply.answer (fun t ht => hall t (by simp [allTtls, ht]))
      have hn := decAll_ok ((s.now - e.birth) / ns) e.reply.authority (fun t ht => hall t (by simp [allTtls, ht]))
      have hd := decAll_ok ((s.now - e.birth) / ns) e.reply.additional (fun t ht => hall t (by simp [allTtls, ht]))
      simp [cloneWithTtlDecrement, ha, hn, hd]
    · simp

/-- **C06 (expiry).** Once more than the smallest TTL has elapsed since a reply was stored, a
    lookup of that key misses (and `handle_query` then resolves upstream again). -/
theorem C06_miss_after_ttl (c : Cache) (k : Key) (e : Entry) (now : Nat)
    (hf : find c k = some e) (hlate : now > e.birth + e.lifetime) : lookup c k now = .miss := by
  unfold lookup
  simp only [hf]
  have : ¬ (e.birth + e.lifetime ≥ now) := by omega
  simp [this]

/-- replies whose smallest TTL is 0 (or that carry no record at all) are never stored -/
theorem C06_zero_ttl_not_cached (c : Cache) (k : Key) (r : Reply) (now : Nat) (h : getExpiry r = 0) :
    resolve c k r now = c := by
  simp [resolve, h]

/-- a stored reply replaces the previous entry of exactly that key and touches no other key -/
theorem C06_store_touches_one_key (c : Cache) (k k' : Key) (r : Reply) (now : Nat) (h : k' ≠ k) :
    find (resolve c k r now) k' = find c k' := by
  unfold resolve
  split
  · unfold find
    have hk : ((k == k') = false) := by simp; exact fun hh => h hh.symm
    simp only [List.find?_cons, hk]
    induction c with
    | nil => rfl
    | cons e es ih =>
      by_cases he : e.key = k
      · have h1 : (e.key != k) = false := by simp [he]
        have h2 : (e.key == k') = false := by simp [he]; exact fun hh => h hh.symm
        simp [List.filter_cons, h1, List.find?_cons, h2, ih]
      · have h1 : (e.key != k) = true := by simp [he]
        simp only [List.filter_cons, h1, if_true, List.find?_cons]
        split <;> simp_all
  · rfl

/-! Non-vacuity: a reply with TTLs (300, 60 | 120 | 3600) is served at age 59.5 s with TTLs
    reduced by 59 and missed at 60.000000001 s. -/
def exK : Key := { qname := [[119, 119, 119], [120]], qtype := 1, edo := false, cd := false }
def exR : Reply := { answer := [300, 60], authority := [120], additional := [3600] }
example : lookup (runOps ⟨[], 0⟩ [.resolve exK exR, .tick 59500000000]).cache exK 59500000000
    = .hit { answer := [241, 1], authority := [61], additional := [3541] } := by decide
example : lookup (runOps ⟨[], 0⟩ [.resolve exK exR, .tick 60000000001]).cache exK 60000000001 = .miss := by decide

/-- **C06 (the key).** On the real query path an entry is stored and looked up under the query's own name, type,
    DNSSEC-OK and checking-disabled bits — the `CacheKey` literal in `CacheHandler::handle_query` takes each field from
    the field of the same meaning, and the key has no other field (extracted; the store/lookup theorems above are about
    that key). -/
theorem C06_key_is_name_type_do_cd : Generated.Dns.cacheKeyFromQuery = true := by decide

end Erbium.Props.C06
