import ErbiumModel.Model.Bucket
import ErbiumModel.Generated.Dns
/-! # C16 — REFUSED replies are rate-bounded per source, yet quiet clients still get one -/
namespace Erbium.Props.C16
open Erbium Erbium.Bucket Erbium.Generated.Dns

def bar (t1 e : Nat) := max e (t1 - window)

theorem check_iff (e now c : Nat) :
    check e now c = true ↔ cap e now ≤ now ∧ c ≤ (now - cap e now) * tokensPerSecond := by
  simp [check]

theorem step_bound (t1 e now cost : Nat) (h1 : t1 ≤ now) :
    let r := step e now cost
    r.1 + tokensPerSecond * bar t1 e ≤ tokensPerSecond * bar t1 r.2 ∧ bar t1 r.2 ≤ max (bar t1 e) now := by
  by_cases hc : check e now cost = true
  · have h := (check_iff e now cost).mp hc
    simp only [step, hc, if_true]
    simp only [bar, deplete, cap, window, maxTokens, tokensPerSecond] at *
    omega
  · simp only [step, hc, Bool.false_eq_true, if_false]
    simp only [bar, window, maxTokens, tokensPerSecond] at *
    omega

theorem run_bound (t1 t2 e : Nat) (ops : List (Nat × Nat))
    (hops : ∀ o ∈ ops, t1 ≤ o.1 ∧ o.1 ≤ t2) :
    (run e ops).1 + tokensPerSecond * bar t1 e ≤ tokensPerSecond * bar t1 (run e ops).2 ∧
    bar t1 (run e ops).2 ≤ max (bar t1 e) t2 := by
  induction ops generalizing e with
  | nil => simp [run]; omega
  | cons o ops ih =>
    obtain ⟨now, cost⟩ := o
    simp only [run]
    have ho := hops (now, cost) (by simp)
    have hs := step_bound t1 e now cost ho.1
    have hi := ih (step e now cost).2 (fun o h => hops o (by simp [h]))
    simp only at hs ho
    simp only [tokensPerSecond] at *
    omega

/-- **C16 (bounded).** For every arrival sequence (any number of queries, any costs) at one bucket
    within `[t1, t2]`, the granted volume is at most the burst `MAX_TOKENS` plus
    `TOKENS_PER_SECOND · (t2 − t1)`, provided the bucket was not in the future (`e ≤ t2`). -/
theorem C16_bucket_bounded (t1 t2 e : Nat) (ops : List (Nat × Nat)) (h12 : t1 ≤ t2) (he : e ≤ t2)
    (hops : ∀ o ∈ ops, t1 ≤ o.1 ∧ o.1 ≤ t2) :
    (run e ops).1 ≤ maxTokens + tokensPerSecond * (t2 - t1) := by
  have := run_bound t1 t2 e ops hops
  simp only [bar, window, maxTokens, tokensPerSecond] at *
  omega

/-- a grant never moves the bucket's "last empty" time beyond the present -/
theorem step_le_now (e now cost : Nat) (he : e ≤ now) : (step e now cost).2 ≤ now := by
  by_cases hc : check e now cost = true
  · have h := (check_iff e now cost).mp hc
    simp only [step, hc, if_true]
    simp only [deplete, cap, window, maxTokens, tokensPerSecond] at *
    omega
  · simp only [step, hc, Bool.false_eq_true, if_false]; exact he

/-- **C16 (quiet clients are served).** If nothing was charged to the bucket for at least the
    refill period, any cost up to the capacity is granted — in particular the minimum charge of a
    REFUSED reply (`costFloor ≤ MAX_TOKENS`, checked against the constants in the source). -/
theorem C16_quiet_client_served (e now cost : Nat) (hidle : e + window ≤ now) (hc : cost ≤ maxTokens) :
    check e now cost = true := by
  rw [check_iff]
  simp only [cap, window, maxTokens, tokensPerSecond] at *
  omega

theorem C16_floor_fits_capacity : costFloor ≤ maxTokens := by decide

/-- the charge covers every reply that is not smaller than its query (no amplification unpaid) -/
theorem C16_cost_covers_reply (replyLen queryLen : Nat) (h : queryLen ≤ replyLen) :
    replyLen ≤ cost replyLen queryLen := by
  unfold cost; omega

/-- the limiter charges exactly one of the source's two buckets or refuses and changes nothing;
    hence per source the bound is twice the per-bucket bound -/
theorem C16_limiter_charges_one (s : Nat × Nat) (now c : Nat) :
    let r := limiterStep s now c
    (r.1 = true ∧ ((r.2 = (deplete s.1 now c, s.2) ∧ check s.1 now c = true) ∨
                    (r.2 = (s.1, deplete s.2 now c) ∧ check s.2 now c = true))) ∨
    (r.1 = false ∧ r.2 = s) := by
  unfold limiterStep
  by_cases h1 : check s.1 now c = true
  · simp [h1]
  · by_cases h2 : check s.2 now c = true
    · simp [h1, h2]
    · simp [h1, h2]

/-- only REFUSED replies are ever withheld, and a good cookie exempts before any charge
    (shape of `should_ratelimit`, regenerated from the source) -/
theorem C16_only_refused_and_good_cookie_exempt :
    ratelimitOnlyRefused = true ∧ goodCookieExempt = true := by decide

/-! ### cookies: HMAC is an uninterpreted function -/
section Cookies
variable (H : List Nat → List Nat → List Nat)   -- HMAC-SHA256 key message

/-- the server cookie this server issues in the key period of `key` -/
def issued (key client sip cip : List Nat) : List Nat := H key (client ++ sip ++ cip)

/-- `validate_cookie_keys`: Good iff the server part equals the HMAC under the current key, or
    failing that under the previous key -/
def good (cur prev client server sip cip : List Nat) : Bool :=
  server == issued H cur client sip cip || server == issued H prev client sip cip

/-- **C16 (cookies).** A server cookie exempts exactly when it is the cookie this server issued
    for that same client cookie, client address and server address in the current or the previous
    key period. -/
theorem C16_cookie_exempt_iff (cur prev client server sip cip : List Nat) :
    good H cur prev client server sip cip = true ↔
      server = issued H cur client sip cip ∨ server = issued H prev client sip cip := by
  simp [good]

/-- under collision resistance (HMAC injective in its message for the keys in use), a cookie
    issued for one (client cookie, server address, client address) does not exempt another one
    of the same shape -/
theorem C16_cookie_not_transferable (cur prev client client' sip sip' cip cip' : List Nat)
    (hinj : ∀ k ∈ [cur, prev], ∀ k' ∈ [cur, prev], ∀ m m', H k m = H k' m' → m = m')
    (hshape : client.length = client'.length ∧ sip.length = sip'.length)
    (hne : (client, sip, cip) ≠ (client', sip', cip')) (k : List Nat) (hk : k ∈ [cur, prev]) :
    good H cur prev client' (issued H k client sip cip) sip' cip' = false := by
  have key : ∀ k', k' ∈ [cur, prev] → issued H k client sip cip ≠ issued H k' client' sip' cip' := by
    intro k' hk' heq
    have := hinj k hk k' hk' _ _ heq
    have h1 : client = client' ∧ sip ++ cip = sip' ++ cip' := by
      rw [List.append_assoc, List.append_assoc] at this
      exact List.append_inj this hshape.1
    have h2 := List.append_inj h1.2 hshape.2
    exact hne (by rw [h1.1, h2.1, h2.2])
  have h1 := key cur (by simp)
  have h2 := key prev (by simp)
  simp [good, h1, h2]

/-- after two rotations neither key of the old period is in use: an old cookie is accepted only
    if it collides with a cookie of the new periods -/
theorem C16_cookie_expires_after_two_rotations (k0 k1 k2 client sip cip : List Nat)
    (hfresh : issued H k0 client sip cip ≠ issued H k2 client sip cip ∧
              issued H k0 client sip cip ≠ issued H k1 client sip cip) :
    good H k2 k1 client (issued H k0 client sip cip) sip cip = false := by
  simp [good, hfresh.1, hfresh.2]

end Cookies

/-! Non-vacuity -/
example : (run 0 [(1000, 200), (1000, 200), (1001, 200), (1100, 200)]).1 ≤ maxTokens + tokensPerSecond * (1100 - 1000) := by decide

/-- **C16 (no default key).** `CookieKeys::new` rotates the all-zero default keys twice, so from the first query on both
    the current and the previous key are random: a cookie computed under the all-zero key (which anyone can compute,
    for any claimed address) is never accepted, also not before the first scheduled rotation (extracted). -/
theorem C16_no_default_cookie_key : Generated.Dns.cookieKeyRotationsAtStart = 2 := by decide

end Erbium.Props.C16
