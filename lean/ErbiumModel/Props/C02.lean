import ErbiumModel.Model.AddrSets
import ErbiumModel.Lemmas.Pool
/-! # C02 — DHCP leases exactly the addresses the configuration grants that client -/
namespace Erbium.Props.C02
open Erbium Erbium.AddrSets Erbium.Pool

theorem mem_hosts (net n k x : Nat) :
    x ∈ (((List.range (n - k)).filter (· ≥ 1)).map (net + ·)) ↔ net < x ∧ x + k < net + n := by
  simp only [List.mem_map, List.mem_filter, List.mem_range, decide_eq_true_eq]
  constructor
  · rintro ⟨o, ⟨h1, h2⟩, rfl⟩; omega
  · intro h; exact ⟨x - net, ⟨by omega, by omega⟩, by omega⟩

/-- **C02 (`apply-subnet`).** Exactly the host addresses: every address strictly between the
    network address and the broadcast address (`net + 2^(32-len) - 1`), for every prefix length. -/
theorem C02_apply_subnet_exact (net len x : Nat) :
    x ∈ subnetHosts net len ↔ net < x ∧ x < net + 2 ^ (32 - len) - 1 := by
  unfold subnetHosts
  have hk : Generated.Dhcp.applySubnetUpperMinus = 1 := by decide
  have hp := Nat.two_pow_pos (32 - len)
  rw [hk, mem_hosts]; omega

/-- **C02 (`apply-range`).** Both ends included. -/
theorem C02_apply_range_exact (s e x : Nat) : x ∈ rangeAddrs s e ↔ s ≤ x ∧ x ≤ e := by
  unfold rangeAddrs
  simp only [List.mem_map, List.mem_range]
  constructor
  · rintro ⟨o, ho, rfl⟩; omega
  · intro h; exact ⟨x - s, by omega, by omega⟩

theorem C02_apply_range_inclusive_in_source : Generated.Dhcp.applyRangeInclusive = true := by decide

/-- **C02 (default pool).** For an `addresses` prefix the pool offered on it is: every host
    address of the subnet except the server's own address on the receiving interface and every
    address used by a configured policy. -/
theorem C02_default_pool_exact (addr len server : Nat) (used : List Nat) (x : Nat) :
    x ∈ defaultPool addr len server used ↔
      (addr &&& Dhcp.netmask len) < x ∧ x < (addr &&& Dhcp.netmask len) + 2 ^ (32 - len) - 1 ∧ x ≠ server ∧ x ∉ used := by
  unfold defaultPool Dhcp.defaultHostOffsets
  have hk : Generated.Dhcp.defaultRangeUpperMinus = 1 := by decide
  have hp := Nat.two_pow_pos (32 - len)
  simp only [List.mem_filter, hk, mem_hosts, Bool.and_eq_true, bne_iff_ne, ne_eq, Bool.not_eq_true',
             List.contains_eq_mem, decide_eq_false_iff_not]
  constructor
  · rintro ⟨⟨h1, h2⟩, h3, h4⟩; exact ⟨h1, by omega, h3, h4⟩
  · rintro ⟨h1, h2, h3, h4⟩; exact ⟨⟨h1, by omega⟩, h3, h4⟩

/-- **C02 (reservations).** An address used by a sub-policy (at any depth) is never in the
    parent's own set: a more specific policy's addresses are reserved for its clients. -/
theorem C02_parent_excludes_descendants (items : Option (List Item)) (subs : List PolicyDesc) (x : Nat)
    (l : List Nat) (hl : (PolicyDesc.mk items subs).addrs = some l) (hx : x ∈ l) : x ∉ usedL subs := by
  unfold PolicyDesc.addrs at hl
  cases items with
  | none => cases hl
  | some is =>
    simp only [Option.some.injEq] at hl
    subst hl
    have := (List.mem_filter.mp hx).2
    simpa using this

/-- a single-address reservation gets that address and no other: its set is `[a]` (unless a
    sub-policy of its own claims it) -/
theorem C02_single_reservation (a : Nat) : (PolicyDesc.mk (some [.address a]) []).addrs = some [a] := by
  simp [PolicyDesc.addrs, Item.expand, usedL]

/-- **C02 (only granted addresses).** Every address `select_address` can return lies in the
    address set passed to it (the set of the innermost matching policy, `apply_policy`). -/
theorem C02_grant_in_pool (s : Store) (now : Nat) (c : Client) (req : Option Nat) (pool : List Nat) (x : Nat) (ty : LType) (d : Nat)
    (hu : Uniq s) (h : Outcome.ok x ty d ∈ allowed s now c req pool) : x ∈ pool :=
  (allowed_sound s now c req pool x ty d hu h).1

/-- **C02 (everything documented can be leased).** On an empty store a client that asks for any
    address of its set is granted exactly that address. -/
theorem C02_every_address_leasable (now : Nat) (c : Client) (pool : List Nat) (x : Nat) (hx : x ∈ pool) :
    allowed [] now c (some x) pool = [.ok x .requested 0] := by
  have h1 : step1 [] now c (some x) pool = [] := by simp [step1, ownCurrent, bests]
  have h2 : step2fall [] c (some x) pool = true := by simp [step2fall, ownAny, bests]
  have h2' : step2hit [] c (some x) pool = [] := by simp [step2hit, ownAny, bests]
  have h3 : step3 [] now (some x) pool = [.ok x .requested 0] := by
    simp [step3, inUse, rowOf, hx]
  simp [allowed, h1, h2, h2', h3]

theorem setOpt_address (r : Dhcp.Resp) (k : Nat) (v : Option Dhcp.Bytes) : (Dhcp.setOpt r k v).address = r.address := rfl
theorem setOptDefault_address (r : Dhcp.Resp) (k : Nat) (v : Dhcp.Bytes) : (Dhcp.setOptDefault r k v).address = r.address := by
  unfold Dhcp.setOptDefault; split <;> rfl

/-- applying a policy's options never touches the address set -/
theorem fold_address (pl : List Nat) (l : List (Nat × Option Dhcp.Bytes)) (acc : Dhcp.Resp) :
    (l.foldl (fun acc (kv : Nat × Option Dhcp.Bytes) => if pl.contains kv.1 then Dhcp.setOpt acc kv.1 kv.2 else acc) acc).address = acc.address := by
  induction l generalizing acc with
  | nil => rfl
  | cons e es ih => simp only [List.foldl_cons]; rw [ih]; split <;> rfl

/-- **C02 (override).** A matching policy that carries an address set replaces whatever set the
    outer policies had assigned (and its own sub-policies may replace it again). -/
theorem C02_policy_sets_its_addresses (req : Dhcp.Req) (ma : Bool) (mc : Option Dhcp.Bytes) (ms : Option (Nat × Nat))
    (mo ao : List (Nat × Option Dhcp.Bytes)) (own : List Nat) (r r' : Dhcp.Resp)
    (h : Dhcp.applyPolicy req (.mk ma mc ms mo (some own) ao []) r = some r') : r'.address = some own := by
  unfold Dhcp.applyPolicy at h
  simp only [Dhcp.applyPolicies] at h
  have key : ∀ (b : Bool) (X : Dhcp.Resp), (if (!b) = true then none else some X) = some r' → X = r' := by
    intro b X hb; cases b <;> simp at hb; exact hb
  have hX : ∀ X : Dhcp.Resp, X.address = some own →
      (match ms with
        | some s =>
          if (Dhcp.paramList req).contains 28 = true then
            Dhcp.setOptDefault (if (Dhcp.paramList req).contains 1 = true then Dhcp.setOptDefault X 1 (Dhcp.ser32 (Dhcp.netmask s.snd)) else X)
              28 (Dhcp.ser32 (Dhcp.subnetBroadcast s))
          else if (Dhcp.paramList req).contains 1 = true then Dhcp.setOptDefault X 1 (Dhcp.ser32 (Dhcp.netmask s.snd)) else X
        | none => X).address = some own := by
    intro X hXa
    cases ms with
    | none => exact hXa
    | some s => simp only; split <;> split <;> simp only [setOptDefault_address, hXa]
  have hf := fold_address (Dhcp.paramList req) ao { options := r.options, address := some own }
  split at h <;> (have := key _ _ h; subst this; exact hX _ hf)

example : subnetHosts 0xc0000208 29 = [0xc0000209, 0xc000020a, 0xc000020b, 0xc000020c, 0xc000020d, 0xc000020e] := by decide

end Erbium.Props.C02
