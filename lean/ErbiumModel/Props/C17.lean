import ErbiumModel.Model.Radv
import ErbiumModel.Spec.RaRfc
import ErbiumModel.Lemmas.RaCodec
/-! # C17 — router advertisements carry exactly the configured values in RFC format -/
namespace Erbium.Props.C17
open Erbium Erbium.Radv

theorem padTo8_length (b : Bytes) (hdr : Nat) : ((padTo8 b hdr).length + hdr) % 8 = 0 := by
  unfold padTo8
  simp only [List.length_append, List.length_replicate]
  omega

theorem u32_length (x : Nat) : (u32 x).length = 4 := rfl
theorem u16_length (x : Nat) : (u16 x).length = 2 := rfl
theorem u128_length (x : Nat) : (u128 x).length = 16 := by simp [u128]

theorem flatMap_length_mod8 {α} (l : List α) (f : α → Bytes) (h : ∀ x ∈ l, (f x).length % 8 = 0) :
    (l.flatMap f).length % 8 = 0 := by
  induction l with
  | nil => rfl
  | cons a as ih =>
    simp only [List.flatMap_cons, List.length_append]
    have := h a (by simp)
    have := ih (fun x hx => h x (by simp [hx]))
    omega

/-- every option is a whole number of 8-octet units (the link-layer option for a 6-octet MAC) -/
theorem serOpt_length (o : NdOpt) (hll : ∀ mac, o = .sourceLL mac → mac.length = 6) : (serOpt o).length % 8 = 0 := by
  cases o with
  | sourceLL mac => have := hll mac rfl; simp [serOpt, this]
  | mtu m => simp [serOpt, u32_length]
  | prefixInfo p => simp [serOpt, u32_length, u128_length]
  | rdnss lt servers =>
    have hone : ∀ c : List Nat, (rdnssOpt lt c).length % 8 = 0 := by
      intro c
      have : (c.flatMap u128).length % 8 = 0 := flatMap_length_mod8 _ _ (fun x _ => by simp [u128_length])
      simp only [rdnssOpt, List.length_append, List.length_cons, List.length_nil, u32_length]; omega
    simp only [serOpt]
    split
    · rfl
    · split
      · exact hone servers
      · exact flatMap_length_mod8 _ _ (fun c _ => hone c)
  | dnssl lt domains =>
    simp only [serOpt]
    split
    · rfl
    · split
      · rfl
      · have := padTo8_length (domains.flatMap encodeDomain) 0
        simp only [List.length_append, List.length_cons, List.length_nil, u32_length]; omega
  | pref64 lt len pfx =>
    simp only [serOpt]
    cases plc len with
    | none => rfl
    | some c => simp [u16_length, u128_length]
  | captivePortal url =>
    have := padTo8_length url 2
    simp only [serOpt]
    split
    · rfl
    · simp only [List.length_append, List.length_cons, List.length_nil]; omega

/-- **C17 (lengths).** The message length and every option length are multiples of 8 octets. -/
theorem C17_length_multiple_of_8 (a : Advert) (hll : ∀ o ∈ a.options, ∀ mac, o = .sourceLL mac → mac.length = 6) :
    (serialise a).length % 8 = 0 ∧ ∀ o ∈ a.options, (serOpt o).length % 8 = 0 := by
  have hopt : ∀ o ∈ a.options, (serOpt o).length % 8 = 0 := fun o ho => serOpt_length o (hll o ho)
  refine ⟨?_, hopt⟩
  have := flatMap_length_mod8 a.options serOpt hopt
  simp only [serialise, List.length_append, List.length_cons, List.length_nil, u16_length, u32_length]
  omega

/-- the link-layer option the builder adds always has a 6-octet address -/
theorem build_ll_is_mac (top : Top) (i : Intf) (mac : Bytes) (hmac : mac.length = 6) (mtu : Option Nat) (s d : Nat) :
    ∀ o ∈ (build top i (some mac) mtu s d).options, ∀ m, o = .sourceLL m → m.length = 6 := by
  intro o ho m hm
  subst hm
  simp only [build, List.mem_append, List.mem_map] at ho
  rcases ho with ((((((h | h) | h) | h) | h) | h) | h)
  · simp at h; subst h; exact hmac
  · cases mtu <;> simp at h
  · obtain ⟨_, _, h⟩ := h; cases h
  · split at h <;> simp at h
  · split at h <;> simp at h
  · split at h <;> simp at h
  · split at h <;> simp at h

def be (b : Bytes) : Nat := RaRfc.be b

/-- **C17 (never wrapped).** The header fields on the wire are the configured values, or the
    field's maximum when the value does not fit — for every lifetime / timer value. -/
theorem C17_header_fields_clamped (a : Advert) :
    let w := serialise a
    be ((w.drop 6).take 2) = min a.lifetime 65535 ∧
    be ((w.drop 8).take 4) = min (a.reachable * 1000) 0xffffffff ∧
    be ((w.drop 12).take 4) = min (a.retrans * 1000) 0xffffffff ∧
    w.getD 4 0 = a.hopLimit % 256 ∧
    w.getD 5 0 = (if a.managed then 128 else 0) + (if a.other then 64 else 0) := by
  simp only [serialise, u16, u32, clamp, be, RaRfc.be]
  refine ⟨?_, ?_, ?_, ?_, ?_⟩
  · simp [List.foldl]; omega
  · simp [List.foldl]
    generalize hx : min (a.reachable * 1000) 4294967295 = x
    have : x ≤ 4294967295 := by omega
    omega
  · simp [List.foldl]
    generalize hx : min (a.retrans * 1000) 4294967295 = x
    have : x ≤ 4294967295 := by omega
    omega
  · simp
  · simp

/-- **C17 (reserved bits of a prefix).** The bits of an advertised prefix beyond its length are zero. -/
theorem C17_prefix_host_bits_zero (addr len : Nat) : maskPrefix addr len % 2 ^ (128 - min len 128) = 0 := by
  unfold maskPrefix; exact Nat.mul_mod_left _ _

/-- **C17 (PREF64).** The prefix length code is the table of RFC 8781 §4 (read back by the
    specification's decoder), lengths without a code produce no option, and the scaled lifetime
    never exceeds its 13 bits. -/
theorem C17_pref64_code (len : Nat) :
    (∀ c, plc len = some c → RaRfc.plcLen c = some len ∧ c < 8) ∧
    (plc len = none ↔ len ∉ [32, 40, 48, 56, 64, 96]) ∧
    (∀ lt, clamp (lt / 8) 8191 * 8 ≤ 65528 ∧ clamp (lt / 8) 8191 * 8 ≤ lt) := by
  refine ⟨?_, ?_, ?_⟩
  · intro c h
    unfold plc at h
    split at h; · cases h; subst_vars; decide
    split at h; · cases h; subst_vars; decide
    split at h; · cases h; subst_vars; decide
    split at h; · cases h; subst_vars; decide
    split at h; · cases h; subst_vars; decide
    split at h; · cases h; subst_vars; decide
    cases h
  · unfold plc
    constructor
    · intro h
      split at h; · cases h
      split at h; · cases h
      split at h; · cases h
      split at h; · cases h
      split at h; · cases h
      split at h; · cases h
      simp; omega
    · intro h
      simp at h
      simp [h]
  · intro lt; unfold clamp; omega

/-- **C17 (defaults and `null`).** Interface settings fall back to the top-level ones when not
    specified, `null` suppresses the option, and `$self6` is replaced by the interface address. -/
theorem C17_fallbacks (top : Top) (i : Intf) (ll : Option Bytes) (mtu : Option Nat) (self6 d : Nat) :
    (build top i ll mtu self6 d).lifetime = (match i.lifetime with | .value v => v | _ => d) ∧
    (i.rdnss = .dontSet → ∀ lt s, NdOpt.rdnss lt s ∉ (build top i ll mtu self6 d).options) ∧
    (i.rdnss = .notSpecified →
      NdOpt.rdnss (i.rdnssLifetime.alwaysUnwrapOr 1800) (top.dnsServers6.map fun ip => if ip = 0 then self6 else ip)
        ∈ (build top i ll mtu self6 d).options) ∧
    (∀ v, i.rdnss = .value v → NdOpt.rdnss (i.rdnssLifetime.alwaysUnwrapOr 1800) v ∈ (build top i ll mtu self6 d).options) ∧
    (i.captivePortal = .dontSet → ∀ u, NdOpt.captivePortal u ∉ (build top i ll mtu self6 d).options) ∧
    (∀ u, i.captivePortal = .notSpecified → top.captivePortal = some u →
      NdOpt.captivePortal u ∈ (build top i ll mtu self6 d).options) := by
  refine ⟨?_, ?_, ?_, ?_, ?_, ?_⟩
  · cases h : i.lifetime <;> simp [build, Tri.alwaysUnwrapOr, h]
  · intro h lt s
    simp only [build, h, Tri.unwrapOr, List.mem_append, List.mem_map, not_or]
    refine ⟨⟨⟨⟨⟨⟨?_, ?_⟩, ?_⟩, ?_⟩, ?_⟩, ?_⟩, ?_⟩
    · cases ll <;> simp
    · cases mtu <;> simp
    · rintro ⟨_, _, h⟩; cases h
    · simp
    · split <;> simp
    · split <;> simp
    · split <;> simp
  · intro h
    simp [build, h, Tri.unwrapOr, maxRtrAdvInterval]
  · intro v h
    simp [build, h, Tri.unwrapOr, maxRtrAdvInterval]
  · intro h u
    simp only [build, h, Tri.orOpt, List.mem_append, List.mem_map, not_or]
    refine ⟨⟨⟨⟨⟨⟨?_, ?_⟩, ?_⟩, ?_⟩, ?_⟩, ?_⟩, ?_⟩
    · cases ll <;> simp
    · cases mtu <;> simp
    · rintro ⟨_, _, h⟩; cases h
    · split <;> simp
    · split <;> simp
    · split <;> simp
    · simp
  · intro u h hu
    simp [build, h, hu, Tri.orOpt]

/-! Non-vacuity / RFC decoding of a concrete advertisement (a test, labelled as such): lifetime
    86400 s is sent as 65535, the /64 prefix written with host bits is sent masked, NAT64 /64 has
    code 1, and the RFC decoder reads back exactly the expected values. -/
def exTop : Top := { dnsServers6 := [0], dnsSearch := [[108, 97, 110]], captivePortal := none }
def exIntf : Intf :=
  { hoplimit := 64, managed := false, other := true, lifetime := .value 86400, reachable := 0, retrans := 0,
    prefixes := [{ addr := 0x20010db8000000010000000000000001, len := 64, onlink := true, autonomous := true, valid := 2592000, preferred := 604800 }],
    rdnssLifetime := .notSpecified, rdnss := .notSpecified, dnsslLifetime := .notSpecified, dnssl := .notSpecified,
    captivePortal := .dontSet, pref64 := some (600, 0x0064ff9b000000000000000000000000, 64) }
example : RaRfc.decode (serialise (build exTop exIntf (some [2, 0, 0, 0, 0, 1]) (some 1500) 0xfe800000000000000000000000000001 1800))
    = some (RaRfc.expected exTop exIntf (some [2, 0, 0, 0, 0, 1]) (some 1500) 0xfe800000000000000000000000000001 1800) := by
  decide +kernel

open Erbium.RaCodec in
/-- **C17 (the general statement).** For every top-level and interface configuration, link-layer address, MTU, own
    address and default lifetime that the wire format can carry (`CfgOK`: hop limit below 256, a 6-octet link-layer
    address, prefix lengths ≤ 128 and 128-bit addresses, at most 127 DNS servers, search domains whose labels have
    1..63 octets and fit one option, a captive-portal URL without NUL that fits one option) — and for *any* lifetimes,
    reachable/retransmit times, flags, number of prefixes, NAT64 prefix length — the advertisement the builder makes,
    serialised, is decoded by the decoder written from RFC 4861/8106/8781/8910 to **exactly the documented values**
    (`RaRfc.expected`: top-level settings as defaults, `null` suppressing an option, `$self6` replaced, values too
    large for their field clamped, prefix bits beyond the length zero). -/
theorem C17_decode_is_documented (top : Top) (i : Intf) (ll : Option Bytes) (mtu : Option Nat) (self6 dl : Nat)
    (h : CfgOK top i ll mtu self6) :
    RaRfc.decode (serialise (build top i ll mtu self6 dl)) = some (RaRfc.expected top i ll mtu self6 dl) := by
  rw [decode_serialise _ h.hop (cfgok_options h dl), specRa_build _ _ _ _ _ _ (fun p hp => (h.prefixes p hp).1)]

open Erbium.RaCodec in
/-- **C17 (never silently wrapped), for every configuration whatsoever** — any number of DNS servers, any list of
    search domains, any URL: the RDNSS addresses are sent as a sequence of options (127 addresses each at most), the
    DNSSL and the captive-portal option are sent whole or not at all (with a warning), and every option that is sent
    states its true length in its length octet. (`WellFramed b`: `b` is empty or `type :: l :: body` with
    `0 < l < 256` and `|body| + 2 = 8·l`.) Depends on the three narrowing sites of the serialiser being the checked
    ones (`Generated.Ra.*`, extracted). -/
theorem C17_option_lengths_never_wrap (lt : Nat) (servers : List Nat) (domains : List Bytes) (url : Bytes) :
    (∃ parts : List Bytes, serOpt (.rdnss lt servers) = parts.flatten ∧ ∀ p ∈ parts, WellFramed p) ∧
    WellFramed (serOpt (.dnssl lt domains)) ∧ WellFramed (serOpt (.captivePortal url)) :=
  ⟨rdnss_never_wraps lt servers, dnssl_never_wraps lt domains, captive_never_wraps url⟩

open Erbium.RaCodec in
/-- the same for any advertisement, however it was built: serialise, then decode by the RFCs, gives its values -/
theorem C17_decode_serialise (a : Advert) (hh : a.hopLimit < 256) (ho : ∀ o ∈ a.options, OptOK o) :
    RaRfc.decode (serialise a) = some (specRa a) := decode_serialise a hh ho

open Erbium.RaCodec in
/-- the example configuration below meets the hypotheses of the general statement -/
example : CfgOK exTop exIntf (some [2, 0, 0, 0, 0, 1]) (some 1500) 0xfe800000000000000000000000000001 where
  hop := by decide
  ll := by intro m hm; cases hm; rfl
  mtu := by intro m hm; cases hm; decide
  prefixes := by decide
  servers := by
    intro v hv
    have : v = [0xfe800000000000000000000000000001] := by
      simp [exIntf, exTop, Tri.unwrapOr] at hv; exact hv.symm
    subst this; decide
  domains := by
    intro v hv
    have : v = [[108, 97, 110]] := by simp [exIntf, exTop, Tri.unwrapOr] at hv; exact hv.symm
    subst this
    refine ⟨?_, by decide⟩
    intro d hd; simp at hd; subst hd
    unfold DomainOK; decide
  pref64 := by intro lt p l h; simp [exIntf] at h; obtain ⟨_, rfl, _⟩ := h; decide
  url := by intro u h; simp [exIntf, Tri.orOpt] at h

end Erbium.Props.C17
