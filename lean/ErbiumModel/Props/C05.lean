import ErbiumModel.Lemmas.Icmp6
import ErbiumModel.Lemmas.Lldp
import ErbiumModel.Lemmas.DhcpSafe
import ErbiumModel.Lemmas.DnsSafe
import ErbiumModel.Props.C13
/-!
# C05 — no packet or frame can crash a handler

Every decoder is modelled over `Safe.Out`, where each Rust operation that can panic — a slice or
index expression, `unwrap`/`expect`, an arithmetic result that does not fit its type (debug build),
an over-wide shift, the `panic!` arm of `get_dns` — is a primitive that yields `.panic` exactly when
the Rust operation would.  The guards in front of those primitives are regenerated from the source
(`Generated/Pkt.lean`); loops run on fuel and *panic* when it runs out, so each theorem below is at
once "no panic", "no overflow", "no out-of-bounds" and "the loop terminates within this bound",
for **every** byte string.
-/
namespace Erbium.Props.C05
open Erbium.Safe

/-- the bounds-checked cursor (`pktparser::Buffer`): every reading method, on every cursor state the
    decoders can reach (`off ≤ len`), neither panics nor leaves the data -/
theorem C05_cursor_contract (b : Cursor.Buf) (n : Nat) (h : b.WF) :
    NoPanic b.getU8 ∧ NoPanic b.peekU8 ∧ NoPanic (b.getBytes n) ∧ NoPanic (b.getBuffer n) ∧ NoPanic b.getBe16 ∧
    NoPanic b.getBe32 ∧ NoPanic b.getIpv4 ∧ NoPanic b.getTlv ∧ NoPanic b.remaining ∧ NoPanic (b.skip n) ∧
    NoPanic (b.getDomains (b.data.length - b.off + 1) []) :=
  ⟨(Cursor.getU8_spec b).noPanic, (Cursor.peekU8_spec b).noPanic, (Cursor.getBytes_spec b n).noPanic,
   (Cursor.getBuffer_spec b n).noPanic, (Cursor.getBe16_spec b).noPanic, (Cursor.getBe32_spec b).noPanic,
   (Cursor.getIpv4_spec b).noPanic, (Cursor.getTlv_spec b).noPanic, (Cursor.remaining_spec b h).noPanic,
   (Cursor.skip_spec b n).noPanic, (Cursor.getDomains_spec _ b [] h (by omega)).noPanic⟩

/-- ICMPv6 (router solicitations and advertisements with all their ND options) -/
theorem C05_icmp6_never_panics (pkt : List Nat) : NoPanic (Icmp6.parse pkt) := (Icmp6.parse_spec pkt).noPanic

/-- LLDP: the receive path (header skip + PDU decoder) on frames of any length, 0 included -/
theorem C05_lldp_never_panics (frame : List Nat) : NoPanic (Lldp.decodeFrame frame) := (Lldp.decodeFrame_spec frame).noPanic

/-- DHCP packets -/
theorem C05_dhcp_parse_never_panics (pkt : List Nat) : NoPanic (DhcpSafe.parse pkt) := (DhcpSafe.parse_spec pkt).noPanic

/-- every typed option decoder run by `log_options`, on every option value -/
theorem C05_dhcp_option_decoders_never_panic (ty : String) (v : List Nat) (hb : DhcpSafe.Bytes v) :
    NoPanic (DhcpSafe.decode ty v) := (DhcpSafe.decode_spec ty v hb).noPanic

/-- the hardware-address slicing of the reply path accepts addresses of any length -/
theorem C05_chaddr_of_any_length (mac : List Nat) : NoPanic (DhcpSafe.toArray mac) := (DhcpSafe.toArray_spec mac).noPanic

/-- a classless-route option with any prefix-length octet (0..255 and beyond) -/
theorem C05_route_prefix_of_any_length (addr len : Nat) : NoPanic (DhcpSafe.subnetNew addr len) :=
  (DhcpSafe.subnetNew_spec addr len).noPanic

/-- DNS messages (queries and upstream replies alike go through `get_dns`), EDNS options included -/
theorem C05_dns_parse_never_panics (buf : List Nat) (hb : DnsSafe.IsBytes buf) : NoPanic (DnsSafe.parse buf) :=
  (DnsSafe.parse_spec hb).noPanic

/-- the name reader terminates: following compression pointers is bounded by the depth limit of the
    source and each level by the message length — the fuel `(len + 2) * (limit + 2)` is never used up,
    wherever in 0..16383 a pointer leads (inside the message or beyond it) -/
theorem C05_dns_name_reader_terminates (buf : List Nat) (off : Nat) :
    NoPanic (DnsSafe.getDomain { buf, off }) := (DnsSafe.getDomain_spec (buf := buf) _ rfl).noPanic

/-- the EDNS option accessors used by the handlers (cookie, extended error) on payloads of any length -/
theorem C05_edns_accessors_never_panic (data : List Nat) :
    NoPanic (DnsSafe.getCookie data) ∧ NoPanic (DnsSafe.getEde data) :=
  ⟨(DnsSafe.getCookie_spec data).noPanic, (DnsSafe.getEde_spec data).noPanic⟩

/-- the decoders are functions of their input alone: nothing a hostile packet did can influence how
    the next packet is decoded (statelessness is by construction of the model and is what the
    correspondence suites check by interleaving hostile and valid inputs); for the one stateful
    handler, a refused DHCP packet leaves the lease store untouched (C13) -/
theorem C05_next_request_unaffected {cfg req ids st st'} (h : Erbium.Dhcp.Handles cfg req ids st none st') : st' = st :=
  Erbium.Props.C13.C13_no_reply_no_change h

/-! non-vacuity: concrete hostile inputs exercise the guarded branches (reported error, no panic) -/
def isErr {α : Type} : Out α → Bool
  | .err _ => true
  | _ => false
def isOkNone {α : Type} : Out (Option α) → Bool
  | .ok none => true
  | _ => false

example : isErr (Icmp6.parse [133, 0, 0, 0, 0, 0, 0, 0, 1, 0]) = true := by decide          -- zero-length option
example : isErr (Lldp.decodeFrame []) = true := by decide                                     -- empty frame
example : isOkNone (DhcpSafe.toArray [1, 2, 3]) = true := by decide                           -- 3-octet chaddr
example : isErr (DhcpSafe.subnetNew 0 64) = true := by decide                                 -- "/64" IPv4 route
example : isOkNone (DnsSafe.getCookie [1, 2, 3]) = true := by decide
example : isErr (Lldp.parseMgmt (Cursor.Buf.new [0, 1, 2])) = true := by decide               -- management address length 0
-- and the primitives do panic when a guard is missing: the unguarded slice of a 3-octet chaddr
example : (match slice "mac[0..6]" [1, 2, 3] 0 6 with | .panic _ => true | _ => false) = true := by decide

end Erbium.Props.C05
