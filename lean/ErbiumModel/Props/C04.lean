import ErbiumModel.Model.DnsRelay
import ErbiumModel.Lemmas.DnsMessage
import ErbiumModel.Lemmas.DnsTruncated
import ErbiumModel.Lemmas.DnsReply
import ErbiumModel.Lemmas.DnsSize
/-! # C04 — every DNS response is well-formed and respects the transport's size limit -/
namespace Erbium.Props.C04
open Erbium Erbium.DnsWire Erbium.DnsRelay

/-- a section never grows the buffer beyond `size`, whatever the records are -/
theorem pushSection_le (size : Nat) (rrs : List RR) (buf : Bytes) (t : Tree) (n : Nat)
    (h : buf.length ≤ size) {buf' t' n' tr} (hs : pushSection size rrs buf t n = some (buf', t', n', tr)) :
    buf'.length ≤ size ∧ buf.length ≤ buf'.length := by
  induction rrs generalizing buf t n with
  | nil => simp [pushSection] at hs; obtain ⟨rfl, _, _, _⟩ := hs; exact ⟨h, Nat.le_refl _⟩
  | cons rr rest ih =>
    simp only [pushSection] at hs
    cases hp : pushRR rr t buf.length with
    | none => simp [hp] at hs
    | some r =>
      obtain ⟨b, t1⟩ := r
      simp only [hp] at hs
      split at hs
      · simp at hs; obtain ⟨rfl, _, _, _⟩ := hs; exact ⟨h, Nat.le_refl _⟩
      · rename_i hfit
        have := ih (buf ++ b) t1 (n + 1) (by omega) hs
        exact ⟨this.1, by simp at this; omega⟩

/-- the number of records a section reports is the number it appended, and it reports
    truncation exactly when it stopped early -/
theorem pushSection_count (size : Nat) (rrs : List RR) (buf : Bytes) (t : Tree) (n : Nat)
    {buf' t' n' tr} (hs : pushSection size rrs buf t n = some (buf', t', n', tr)) :
    n ≤ n' ∧ n' - n ≤ rrs.length ∧ (tr = false → n' - n = rrs.length) ∧ (tr = true → n' - n < rrs.length) := by
  induction rrs generalizing buf t n with
  | nil => simp [pushSection] at hs; obtain ⟨_, _, rfl, rfl⟩ := hs; simp
  | cons rr rest ih =>
    simp only [pushSection] at hs
    cases hp : pushRR rr t buf.length with
    | none => simp [hp] at hs
    | some r =>
      obtain ⟨b, t1⟩ := r
      simp only [hp] at hs
      split at hs
      · simp at hs; obtain ⟨_, _, rfl, rfl⟩ := hs; simp
      · have := ih (buf ++ b) t1 (n + 1) hs
        simp only [List.length_cons]
        refine ⟨by omega, by omega, ?_, ?_⟩
        · intro h; have := this.2.2.1 h; omega
        · intro h; have := this.2.2.2 h; omega

theorem splice_length (buf ins : Bytes) (a b : Nat) (hab : b = a + ins.length) (hb : b ≤ buf.length) :
    (splice buf (a, b) ins).length = buf.length := by
  unfold splice
  simp only [List.length_append, List.length_take, List.length_drop]
  omega

theorem u16_length (x : Nat) : (u16 x).length = 2 := rfl

/-- **C04 (size limit).** Whatever the message and whatever limit ≥ 512 the transport passes,
    if the header and question fit, the serialised response is never longer than the limit —
    also after the section counts have been rewritten for truncation. -/
theorem C04_never_exceeds_limit (p : Pkt) (size : Nat) (w : Bytes)
    (hs : serialiseWithSize p size = some w)
    (hq : ∀ qb t0, pushName p.qdomain root 12 = some (qb, t0) → 12 + qb.length + 4 ≤ size) :
    w.length ≤ size := by
  unfold serialiseWithSize at hs
  split at hs; · cases hs
  split at hs; · cases hs
  simp only at hs
  have hhdr : (hdrOf p).length = 12 := by simp [hdrOf, u16]
  simp only [hhdr] at hs
  cases hn : pushName p.qdomain root 12 with
  | none => simp [hn] at hs
  | some r0 =>
    obtain ⟨qb, t0⟩ := r0
    have hq0 := hq qb t0 hn
    simp only [hn] at hs
    generalize hb0 : (hdrOf p ++ qb ++ u16 p.qtype ++ u16 p.qclass : Bytes) = buf0 at hs
    have hl0 : buf0.length ≤ size ∧ 12 ≤ buf0.length := by
      rw [← hb0]; simp only [List.length_append, u16_length, hhdr]; omega
    cases h1 : pushSection size p.answer buf0 t0 0 with
    | none => simp [h1] at hs
    | some r1 =>
      obtain ⟨buf1, t1, an, tr1⟩ := r1
      have l1 := pushSection_le size _ _ _ _ hl0.1 h1
      simp only [h1] at hs
      generalize hsec2 : (if tr1 = true then some (buf1, t1, 0, true) else pushSection size p.nameserver buf1 t1 0) = s2 at hs
      cases s2 with
      | none => simp at hs
      | some r2 =>
        obtain ⟨buf2, t2, nsn, tr2⟩ := r2
        have l2 : buf2.length ≤ size ∧ buf1.length ≤ buf2.length := by
          split at hsec2
          · simp at hsec2; obtain ⟨rfl, _, _, _⟩ := hsec2; exact ⟨l1.1, Nat.le_refl _⟩
          · exact pushSection_le size _ _ _ _ l1.1 hsec2
        simp only at hs
        generalize hsec3 : (if tr2 = true then some (buf2, t2, 0, true) else pushSection size _ buf2 t2 0) = s3 at hs
        cases s3 with
        | none => simp at hs
        | some r3 =>
          obtain ⟨buf3, t3, adn, tr3⟩ := r3
          have l3 : buf3.length ≤ size ∧ buf2.length ≤ buf3.length := by
            split at hsec3
            · simp at hsec3; obtain ⟨rfl, _, _, _⟩ := hsec3; exact ⟨l2.1, Nat.le_refl _⟩
            · exact pushSection_le size _ _ _ _ l2.1 hsec3
          simp only at hs
          split at hs
          · simp only [Option.some.injEq] at hs
            subst hs
            have hr : Generated.Dns.spliceRanges = [(6, 8), (8, 10), (10, 12)] := by decide
            simp only [hr, List.getD_cons_zero, List.getD_cons_succ]
            have hlen : (buf3.set 2 (buf3.getD 2 0 ||| 2)).length = buf3.length := by simp
            rw [splice_length _ _ 10 12 (by simp [u16_length]) (by
                  rw [splice_length _ _ 8 10 (by simp [u16_length]) (by
                    rw [splice_length _ _ 6 8 (by simp [u16_length]) (by rw [hlen]; omega), hlen]; omega),
                    splice_length _ _ 6 8 (by simp [u16_length]) (by rw [hlen]; omega), hlen]; omega),
                splice_length _ _ 8 10 (by simp [u16_length]) (by
                  rw [splice_length _ _ 6 8 (by simp [u16_length]) (by rw [hlen]; omega), hlen]; omega),
                splice_length _ _ 6 8 (by simp [u16_length]) (by rw [hlen]; omega), hlen]
            exact l3.1
          · simp only [Option.some.injEq] at hs
            subst hs; exact l3.1

/-- **C04 (transports).** UDP hands the serialiser `max(512, advertised)`, TCP hands it 65535 —
    the call sites in `run_udp` / `run_tcp` regenerated from the source. -/
theorem C04_transport_limits :
    Generated.Dns.udpLimitedToAdvertised = true ∧ Generated.Dns.tcpComplete = true ∧
    Generated.Dns.prepareFloor = 512 ∧ (∀ q : Pkt, udpLimit q = max q.bufsize 512) ∧ tcpLimit = 65535 := by
  refine ⟨by decide, by decide, by decide, ?_, rfl⟩
  intro q; simp [udpLimit, Generated.Dns.prepareFloor]

/-- the advertised size the decoder reports is never below 512 (`max(class of OPT, 512)`), so a
    UDP response to a client that advertised nothing is limited to 512 octets -/
theorem C04_udp_limit_at_least_512 (q : Pkt) : 512 ≤ udpLimit q := by
  simp [udpLimit, Generated.Dns.prepareFloor]; omega

/-- the ranges used to rewrite the section counts are the counts' own two-octet fields -/
theorem C04_counts_rewritten_in_place : Generated.Dns.spliceRanges = [(6, 8), (8, 10), (10, 12)] := by decide

/-- **C04 (a complete response parses, and its counts are its contents).** A response of the decoder's shape that is
    written completely decodes to itself: it parses as a DNS message, and the header counts the decoder followed were
    exactly the numbers of records present in each section. -/
theorem C04_complete_response_decodes_to_itself (p : Pkt) (hw : WfPkt p) (size : Nat) (wire : Bytes) (hs : 512 ≤ size)
    (hc : Complete p size wire) (hsz : wire.length < 65536) :
    serialiseWithSize p size = some wire ∧ parse wire = .ok p :=
  ⟨complete_serialise p size wire hs hw.rcode hc, message_roundtrip p hw size wire hc hsz⟩

/-- **C04 (every response).** Whatever `serialise_with_size` returns for a message of the decoder's shape, at any
    limit ≥ 512 and within 65535 octets, parses — either to the message itself, or to the message cut at a record
    boundary (`truncated`: the first `ka`, `kn`, `kd` records of the sections, TC set, EDNS record gone), where
    `CutAt` says records are omitted only from the end: inside the answers (then no authority and no additional
    records follow), inside the authority section (answers complete) or inside the additional section (both
    complete). The header counts the decoder followed are the numbers of records present. -/
theorem C04_every_response_decodes (p : Pkt) (hw : WfPkt p) (size : Nat) (hs : 512 ≤ size) (wire : Bytes)
    (h : serialiseWithSize p size = some wire) (hsz : wire.length < 65536) :
    parse wire = .ok p ∨ ∃ ka kn kd, CutAt p ka kn kd ∧ parse wire = .ok (truncated p ka kn kd) := by
  rcases serialise_cases p hw size hs wire h with hc | ⟨ka, kn, kd, hcut, hc⟩
  · exact Or.inl (message_roundtrip p hw size wire hc hsz)
  · exact Or.inr ⟨ka, kn, kd, hcut, message_roundtrip _ (truncated_wf hw ka kn kd) size wire hc hsz⟩

/-- **C04 (TC exactly when records were omitted).** A response that was cut carries TC; a response that was not
    carries the TC bit of the message it was built from. -/
theorem C04_tc_iff_truncated (p : Pkt) (ka kn kd : Nat) : (truncated p ka kn kd).tc = true := rfl

/-- **C04 (complete whenever it fits).** If the complete encoding of a message — obtained under any limit — is no
    longer than the limit in force (65535 on TCP), the response at that limit is that complete encoding. -/
theorem C04_complete_whenever_it_fits (p : Pkt) (hw : WfPkt p) (size size2 : Nat) (wire : Bytes) (hs : 512 ≤ size2)
    (hc : Complete p size wire) (hfit : wire.length ≤ size2) : serialiseWithSize p size2 = some wire :=
  complete_serialise p size2 wire hs hw.rcode (complete_fits hc hfit)

/-- the header and question of a message with a decoder-accepted name fit every limit ≥ 512 (a name is at most 255
    octets and compression never lengthens it) -/
theorem question_fits (p : Pkt) (hn : NameOK p.qdomain) (size : Nat) (hs : 512 ≤ size) :
    ∀ qb t0, pushName p.qdomain root 12 = some (qb, t0) → 12 + qb.length + 4 ≤ size := by
  intro qb t0 h
  have h1 := pushName_len _ hn.1 _ _ _ _ h
  have h2 := hn.2.2
  have h3 : Generated.Dns.nameOctetLimit = 255 := by decide
  omega

/-- the reply assembled from decoded messages meets the encoder's preconditions -/
theorem reply_enc {bq br : Bytes} (hbq : Octets bq) (hbr : Octets br) {q r : Pkt}
    (hq : parse bq = .ok q) (hr : parse br = .ok r) (ip ck : Bytes) : PktEnc (createInReply q r ip ck) := by
  have hwq := (parse_wf hbq hq).1
  have hwr := parse_wf hbr hr
  have e := pktenc_of_wf hwr.1 hwr.2
  have h : Generated.Dns.replyAuthorityFromUpstreamAuthority = true := by decide
  exact { rcode := e.rcode, qname := hwq.qname.1, an := e.an, ad := e.ad,
          ns := by
            show ∀ rr ∈ (if Generated.Dns.replyAuthorityFromUpstreamAuthority then r.nameserver else r.answer), RREnc rr
            rw [if_pos h]; exact e.ns }

/-- **C04 (end to end, any transport limit).** For any strings of octets the decoder accepts as the query `q` and
    the upstream reply `r`, and any limit between 512 and 65535 (UDP: `max(advertised, 512)`; TCP: 65535):
    the response **exists** (the encoder does not panic), is **no longer than the limit**, and **parses** — to the
    assembled reply as sent, or to that reply cut at a record boundary from the end with TC set, its header counts
    being the numbers of records present. -/
theorem C04_end_to_end (bq br : Bytes) (hbq : Octets bq) (hbr : Octets br) (q r : Pkt)
    (hq : parse bq = .ok q) (hr : parse br = .ok r) (had : r.additional.length + 1 < 65536)
    (ip ck : Bytes) (hip : ip.length < 65536) (hck : ck.length + 8 < 65536)
    (size : Nat) (hs : 512 ≤ size) (hs2 : size < 65536) :
    ∃ wire, serialiseWithSize (createInReply q r ip ck) size = some wire ∧ wire.length ≤ size ∧
      (parse wire = .ok (asSent (createInReply q r ip ck)) ∨
       ∃ ka kn kd, CutAt (asSent (createInReply q r ip ck)) ka kn kd ∧
         parse wire = .ok (truncated (asSent (createInReply q r ip ck)) ka kn kd)) := by
  obtain ⟨wire, h⟩ := serialise_total (by decide) _ (reply_enc hbq hbr hq hr ip ck) size hs
  have hwq := (parse_wf hbq hq).1
  have hwr := (parse_wf hbr hr).1
  have hw := createInReply_wf hwq hwr had ip ck hip hck
  have hlen : wire.length ≤ size :=
    C04_never_exceeds_limit _ size wire h (question_fits _ (by exact hwq.qname) size hs)
  have h' : serialiseWithSize (asSent (createInReply q r ip ck)) size = some wire := by rw [serialise_asSent]; exact h
  exact ⟨wire, h, hlen, C04_every_response_decodes _ hw size hs wire h' (by omega)⟩

/-- the UDP limit of a decoded query is within the range `C04_end_to_end` covers, and it is `max(advertised, 512)` -/
theorem C04_udp_limit_in_range (bq : Bytes) (hbq : Octets bq) (q : Pkt) (hq : parse bq = .ok q) :
    512 ≤ udpLimit q ∧ udpLimit q < 65536 ∧ udpLimit q = max q.bufsize 512 := by
  have hw := (parse_wf hbq hq).1
  have := hw.bufsize
  have hp : Generated.Dns.prepareFloor = 512 := by decide
  unfold udpLimit
  rw [hp]
  refine ⟨Nat.le_max_right _ _, ?_, rfl⟩
  rw [Nat.max_def]; split <;> omega

/-! Non-vacuity: a response with forty address records does not fit 512 octets; what is returned is cut inside
    the answer section and decodes to the message cut there (evaluated by the kernel on the executable model). -/
def exBig : Pkt :=
  { qid := 9, rd := true, tc := false, aa := false, qr := true, opcode := 0, cd := false, ad := false, ra := true, rcode := 0,
    bufsize := 1232, ednsVer := some 0, ednsDo := false, qdomain := [[101, 120], [99]], qclass := 1, qtype := 28,
    answer := List.replicate 40 { domain := [[101, 120], [99]], cls := 1, rrtype := 28, ttl := 60,
                                  rdata := .other (List.replicate 16 7) },
    nameserver := [{ domain := [[99]], cls := 1, rrtype := 2, ttl := 60, rdata := .ns [[110], [99]] }],
    additional := [], edns := some [] }
example : (match serialiseWithSize exBig 512 with
    | some w => decide (w.length ≤ 512) &&
        (match parse w with
         | .ok q => decide (q = truncated exBig q.answer.length 0 0) && decide (q.answer.length < 40) && q.tc
         | .error _ => false)
    | none => false) = true := by decide +kernel

end Erbium.Props.C04
