import ErbiumModel.Lemmas.Pool
import ErbiumModel.Generated.Dhcp
import ErbiumModel.Props.C13
/-! # C10 — lease times are bounded and never outlive the server's own record -/
namespace Erbium.Props.C10
open Erbium Erbium.Pool

/-- **C10 (bounds).** Whatever duration a selection step proposes (any renewal rhythm: `3·(now −
    start)`, `2·(expiry − start)`, or 0 for a fresh address), the advertised lease lies within the
    configured bounds. -/
theorem C10_bounds (d lo hi : Nat) (h : lo ≤ hi) : lo ≤ clamp d lo hi ∧ clamp d lo hi ≤ hi := by
  unfold clamp; omega

/-- the defaults extracted from the source are 5 minutes and 24 hours and are consistent -/
theorem C10_default_bounds :
    Generated.Dhcp.defaultMinLease = 300 ∧ Generated.Dhcp.defaultMaxLease = 86400 ∧
    Generated.Dhcp.defaultMinLease ≤ Generated.Dhcp.defaultMaxLease := by decide

/-- **C10 (record).** The row written for a grant starts at the (second) clock read, which is not
    before the request was received, lasts exactly the advertised time and therefore does not
    expire before `t + L`; no other row is touched. -/
theorem C10_record (st : State) (c : Client) (x now' L : Nat) (opts : List Nat) (hnow : st.now ≤ now') :
    ∃ r, rowOf (grant st c x now' L opts).rows x = some r ∧ r.client = c ∧
      r.expiry - r.start = L ∧ st.now ≤ r.start ∧ r.expiry ≥ st.now + L ∧
      (grant st c x now' L opts).belief c x = some r.expiry := by
  refine ⟨grantRow c x now' L opts, ?_, rfl, ?_, hnow, ?_, ?_⟩
  · simp [grant, rowOf_put, grantRow]
  · simp [grantRow]
  · simp [grantRow]; omega
  · simp [grant, grantRow]

/-- the `as u32` casts of `start` and `expiry` are exact until 2106 (`now' + hi < 2^32`) -/
theorem C10_no_wrap (now' L hi : Nat) (hL : L ≤ hi) (h : now' + hi < 2 ^ 32) :
    now' % 2 ^ 32 = now' ∧ (now' + L) % 2 ^ 32 = now' + L := by
  constructor <;> apply Nat.mod_eq_of_lt <;> omega

/-- **C10 (renewal rhythm).** In every reachable state every stored row satisfies
    `start ≤ expiry` (so the `u32` subtraction of step 2 never underflows), for every history. -/
theorem C10_start_le_expiry {st} (h : Reach st) : ∀ r ∈ st.rows, r.start ≤ r.expiry := by
  induction h with
  | init now => intro r hr; cases hr
  | tick n _ ih => exact ih
  | grant c req pool x ty d now' lo hi opts _ _ _ ih =>
    intro r hr
    simp only [grant, put] at hr
    rcases List.mem_cons.mp hr with rfl | hr
    · simp [grantRow]
    · exact ih r (List.mem_filter.mp hr).1
  | restart _ ih => exact ih

/-- **C10 (present).** Every OFFER and every ACK produced by `handle_pkt` carries option 51 with
    the granted lease time, within the default bounds, equal to the recorded duration. -/
theorem C10_offer_and_ack_carry_lease_time {cfg req ids st r st'}
    (h : Dhcp.Handles cfg req ids st (some r) st') :
    ∃ L, Dhcp.lookupOpt r.options 51 = some (Dhcp.ser32 (L % 2 ^ 32)) ∧
      Generated.Dhcp.defaultMinLease ≤ L ∧ L ≤ Generated.Dhcp.defaultMaxLease ∧
      ∃ row, rowOf st'.rows r.yiaddr = some row ∧ row.expiry - row.start = L :=
  C13.C10_reply_has_lease_time h

example : clamp 0 300 86400 = 300 ∧ clamp 900 300 86400 = 900 ∧ clamp (3 * 40000) 300 86400 = 86400 := by decide

/-- **C10 (bounds, with the rule that an existing lease is never shortened).** The duration `allocate_address`
    records and advertises — the clamped duration, raised to what is left of the lease the client already has for the
    address, capped by the maximum in force — lies within the bounds, whatever was left. -/
theorem C10_lease_bounds (d lo hi rem : Nat) (h : lo ≤ hi) :
    lo ≤ leaseFor d lo hi rem ∧ leaseFor d lo hi rem ≤ hi := by
  unfold leaseFor clamp; omega

/-- **C10/C01 (what was acknowledged is not undercut).** If what is left of the client's lease is within the maximum
    in force (always, unless the configured maximum was lowered meanwhile), the new record ends no earlier than the
    old one: a later reply to the same client — an offer it need not take up, an early renewal — never moves the
    end of its lease earlier. -/
theorem C10_never_shortens (d lo hi rem : Nat) (h : rem ≤ hi) : rem ≤ leaseFor d lo hi rem := by
  unfold leaseFor clamp; omega

/-- in store terms: after the grant the row of the address ends no earlier than the client's previous row did -/
theorem C10_record_end_monotone (s : Store) (c : Client) (x now' d lo hi : Nat) (opts : List Nat) (r : Row)
    (hr : rowOf s x = some r) (hc : r.client = c) (hrem : r.expiry - now' ≤ hi) (hnow : now' ≤ r.expiry) :
    r.expiry ≤ (grantRow c x now' (leaseFor d lo hi (remainingOf s c x now')) opts).expiry := by
  have hrm : remainingOf s c x now' = r.expiry - now' := by
    unfold remainingOf; rw [hr]; simp [hc]
  have := C10_never_shortens d lo hi (r.expiry - now') hrem
  rw [hrm]; simp only [grantRow]; omega

example : leaseFor 0 300 86400 600 = 600 ∧ leaseFor 0 300 86400 0 = 300 ∧ leaseFor 900 300 86400 100 = 900 ∧
    leaseFor 0 300 86400 100000 = 86400 := by decide

end Erbium.Props.C10
