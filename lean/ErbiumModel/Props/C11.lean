import ErbiumModel.Lemmas.Policy
import ErbiumModel.Props.C13
/-!
# C11 — DHCP policies select and override options exactly as the manual describes

`Spec/PolicyDoc.lean` is erbium.conf(5) written as a specification (which policies apply, the chain
of applied policies, "the innermost mention wins", `null` unsets, parameter-list gating, defaults).
`Model/DhcpServer.lean` follows `dhcp/mod.rs` (recursive `apply_policy` mutating a three-state
response) and is tied to the code by the `dhcp` correspondence suite.  The theorems below show that
the two agree for **every** policy forest, top-level configuration and request.
-/
namespace Erbium.Props.C11
open Erbium Erbium.Dhcp Erbium.PolicyDoc
open Erbium.Props.C13 (lookup_toOptions_setOpt_same lookup_toOptions_setOpt_ne)

/-- what is sent for `k` is the value in the three-state table (`null` = nothing) -/
def Rel (r : Resp) : Prop := ∀ k, lookupOpt (toOptions r) k = (ropt r k).bind id

theorem find_filter_self (l : List (Nat × Option Bytes)) (k : Nat) :
    List.find? (fun x => x.1 == k) (List.filterMap keepSome (l.filter (fun e => e.1 != k))) = none := by
  induction l with
  | nil => rfl
  | cons e es ih =>
    obtain ⟨a, b⟩ := e
    by_cases ha : a = k
    · have h1 : ((a, b).1 != k) = false := by simp [ha]
      rw [List.filter_cons, if_neg (by simp [h1])]; exact ih
    · have h1 : ((a, b).1 != k) = true := by simp [ha]
      rw [List.filter_cons, if_pos h1, List.filterMap_cons]
      cases b with
      | none => simpa [keepSome] using ih
      | some bb =>
        have h2 : (a == k) = false := by simp [ha]
        simp only [keepSome, Option.map_some, List.find?_cons, h2]
        exact ih

theorem rel_empty : Rel {} := by intro k; rfl

theorem rel_setOpt {r : Resp} (h : Rel r) (k : Nat) (v : Option Bytes) : Rel (setOpt r k v) := by
  intro k'
  rw [ropt_setOpt]
  by_cases hk : k' = k
  · subst hk
    simp only [if_true, Option.bind_some, id]
    cases v with
    | some vv => exact lookup_toOptions_setOpt_same r k' vv
    | none =>
      unfold lookupOpt toOptions setOpt
      simp only [List.filterMap_cons, keepSome, Option.map_none]
      rw [find_filter_self]; rfl
  · simp only [hk, if_false]
    rw [lookup_toOptions_setOpt_ne r k k' v hk]
    exact h k'

theorem rel_setOptDefault {r : Resp} (h : Rel r) (k : Nat) (v : Bytes) : Rel (setOptDefault r k v) := by
  unfold setOptDefault
  split
  · exact h
  · exact rel_setOpt h k (some v)

theorem rel_withAddress {r : Resp} (h : Rel r) (e : Option (List Nat)) : Rel (withAddress e r) := by
  cases e <;> exact h

theorem rel_foldl (pl : List Nat) (l : List (Nat × Option Bytes)) {r : Resp} (h : Rel r) :
    Rel (l.foldl (fun acc x => match x with | (k, v) => if pl.contains k then setOpt acc k v else acc) r) := by
  induction l generalizing r with
  | nil => exact h
  | cons e es ih =>
    obtain ⟨k, v⟩ := e
    simp only [List.foldl_cons]
    apply ih
    split
    · exact rel_setOpt h k v
    · exact h

theorem rel_withSubnetDefaults (pl : List Nat) (ms : Option (Nat × Nat)) {r : Resp} (h : Rel r) :
    Rel (withSubnetDefaults pl ms r) := by
  unfold withSubnetDefaults
  cases ms with
  | none => exact h
  | some s =>
    simp only
    split <;> split <;> first | exact h | exact rel_setOptDefault h _ _ | exact rel_setOptDefault (rel_setOptDefault h _ _) _ _

theorem rel_apply (req : Req) :
    (∀ ps r, Rel r → Rel (applyPolicies req ps r).1) ∧
    (∀ p r, Rel r → ∀ r', applyPolicy req p r = some r' → Rel r') := by
  apply checkPolicies.mutual_induct
    (motive_1 := fun ps => ∀ r, Rel r → Rel (applyPolicies req ps r).1)
    (motive_2 := fun p => ∀ r, Rel r → ∀ r', applyPolicy req p r = some r' → Rel r')
  · intro a b c d e f s ih r hr r' h
    rw [applyPolicy_unfold] at h
    split at h
    · cases h
    · cases h
      exact rel_withSubnetDefaults _ _ (ih _ (rel_foldl _ _ (rel_withAddress hr e)))
  · intro r hr; rw [applyPolicies_nil]; exact hr
  · intro p ps ihp ihps r hr
    rw [applyPolicies_cons]
    cases hp : applyPolicy req p r with
    | some r' => exact ihp r hr r' hp
    | none => exact ihps r hr

/-- the response the plan hands to the pool step -/
def planResp (cfg : Cfg) (req : Req) : Resp :=
  let r0 : Resp := setOpt (setOpt {} 53 (some [2])) 54 (some (ser32 req.serverip))
  (applyPolicies req (mapValuesL (implResolve req) cfg.policies) (applyPolicies req [buildDefault cfg req] r0).1).1

/-- the code resolves `$self4` in applied values the way the manual says (flag regenerated from `apply_policy`) -/
theorem implResolve_eq (req : Req) : implResolve req = resolveSelf req := by
  funext k v
  simp [implResolve, Generated.Dhcp.policySelf4Resolved]

/-- `planResp` is the response the handler's plan carries -/
theorem plan_resp {cfg : Cfg} {req : Req} {ids : List Nat} {c : Bytes} {rq : Option Nat} {pool : List Nat} {resp : Resp} {isReq : Bool}
    (h : plan cfg req ids = .alloc c rq pool resp isReq) : resp = planResp cfg req := by
  have hgo : ∀ b, plan.go cfg req b = .alloc c rq pool resp isReq → resp = planResp cfg req := by
    intro b hb
    unfold plan.go at hb
    simp only at hb
    split at hb
    · cases hb
    · split at hb
      · cases hb
      · cases hb; rfl
  unfold plan at h
  split at h
  · split at h
    · simp only at h
      split at h
      · split at h
        · cases h
        · exact hgo _ h
      · exact hgo _ h
    · cases h
  · cases h

/-- **C11 (refinement).** The three-state table `dhcp/mod.rs` ends up with is the documented one. -/
theorem C11_table_as_documented (cfg : Cfg) (req : Req) (k : Nat) :
    ropt (planResp cfg req) k = docTable cfg req k := by
  unfold planResp docTable
  simp only
  rw [((apply_refines req).1 _ _).2 k, implResolve_eq]
  congr 1
  funext k'
  rw [((apply_refines req).1 [buildDefault cfg req] _).2 k']
  congr 1
  funext k''
  rw [ropt_setOpt, ropt_setOpt]
  by_cases h54 : k'' = 54
  · simp [h54]
  · by_cases h53 : k'' = 53
    · simp [h53]
    · simp [h54, h53, ropt]

/-- … and what is sent is what that table holds (`null` = not sent) -/
theorem C11_sent_as_documented (cfg : Cfg) (req : Req) (k : Nat) :
    lookupOpt (toOptions (planResp cfg req)) k = docSent cfg req k := by
  have hrel : Rel (planResp cfg req) := by
    unfold planResp
    exact (rel_apply req).1 _ _ ((rel_apply req).1 _ _ (rel_setOpt (rel_setOpt rel_empty _ _) _ _))
  rw [hrel k, C11_table_as_documented]; rfl

/-- the options of the reply on the wire, apart from message type, server identifier and lease time
    (which the reply builder sets itself), are the documented ones -/
theorem C11_reply_options_as_documented (cfg : Cfg) (req : Req) (isReq : Bool) (x L k : Nat)
    (h53 : k ≠ 53) (h54 : k ≠ 54) (h51 : k ≠ 51) :
    lookupOpt (reply req (planResp cfg req) isReq x L).options k = docSent cfg req k := by
  rw [← C11_sent_as_documented]
  unfold reply
  simp only
  split <;> split <;> simp only [lookup_toOptions_setOpt_ne _ _ _ _ h51, lookup_toOptions_setOpt_ne _ _ _ _ h54,
    lookup_toOptions_setOpt_ne _ _ _ _ h53]

/-! ### the clauses of the statement, read off the documented table -/

/-- "sibling policies are tried in order and the first whose conditions all hold is applied" -/
theorem C11_first_matching_sibling (req : Req) (p : Policy) (ps : List Policy) :
    (applies req p = true → chainIn req (p :: ps) = chainOf req p) ∧
    (applies req p = false → chainIn req (p :: ps) = chainIn req ps) := by
  rw [chainIn_cons]
  constructor <;> intro h <;> simp [h]

/-- "a policy without conditions applies only if one of its sub-policies does" — and one with
    conditions applies exactly when all of them hold -/
theorem C11_conditions (req : Req) (p : Policy) :
    applies req p = if hasConds p then condsHold req p else anyApplies req p.subs := by
  obtain ⟨a, b, c, d, e, f, s⟩ := p
  conv => lhs; unfold applies
  rfl

/-- "an option is only sent if the client asked for it in its parameter request list" -/
theorem C11_only_requested_options (cfg : Cfg) (req : Req) (k : Nat) (hk : (paramList req).contains k = false)
    (h53 : k ≠ 53) (h54 : k ≠ 54) : docSent cfg req k = none := by
  have hk' : k ∉ paramList req := by simpa using hk
  unfold docSent docTable
  simp [tableAfter, hk', h53, h54]

/-- "options of outer policies are applied first and inner policies override them; `null` removes
    an inherited or default value": whatever the defaults and the outer policies say, the innermost
    configured policy of the chain that mentions `k` decides — its value is sent, its `null` sends nothing -/
theorem C11_innermost_mention_decides (cfg : Cfg) (req : Req) (k : Nat) (v : Option Bytes)
    (hk : (paramList req).contains k = true)
    (hv : chainValue (chainIn req (mapValuesL (resolveSelf req) cfg.policies)) k = some v) :
    docSent cfg req k = v := by
  have hk' : k ∈ paramList req := by simpa using hk
  unfold docSent docTable
  simp [tableAfter, hk', hv]

/-- "top-level defaults … apply unless overridden": when no configured policy of the chain mentions
    `k`, the table is the one of the built-in base policy (plus the matched subnet's netmask/broadcast) -/
theorem C11_defaults_unless_overridden (cfg : Cfg) (req : Req) (k : Nat)
    (hk : (paramList req).contains k = true)
    (hv : chainValue (chainIn req (mapValuesL (resolveSelf req) cfg.policies)) k = none)
    (hd : ∃ v, tableAfter (paramList req)
            (fun k => if k == 54 then some (some (ser32 req.serverip)) else if k == 53 then some (some [2]) else none)
            (chainIn req [buildDefault cfg req]) k = some v) :
    docTable cfg req k = tableAfter (paramList req)
            (fun k => if k == 54 then some (some (ser32 req.serverip)) else if k == 53 then some (some [2]) else none)
            (chainIn req [buildDefault cfg req]) k := by
  obtain ⟨v, hv'⟩ := hd
  unfold docTable
  simp only
  rw [tableAfter]
  simp only [hk, Bool.not_true, Bool.false_eq_true, if_false, hv, orr_none, hv', orr_some]

/-- the DNS servers of the base policy: the top-level list with `$self4` replaced by the receiving address -/
theorem C11_default_dns_servers (cfg : Cfg) (req : Req) :
    mention (buildDefault cfg req) 6 = some (some (defaultDns cfg req)) ∧
    mention (buildDefault cfg req) 119 = some (some cfg.dnsSearch) ∧
    mention (buildDefault cfg req) 114 = some cfg.captivePortal := by
  unfold mention buildDefault
  simp [Policy.applyOther]

/-! non-vacuity: a nested forest where the inner policy unsets what the outer one set -/
def exInner : Policy := .mk false (some [0, 0, 0x5e, 0, 0x53, 1]) none [] none [(15, none)] []
def exOther : Policy := .mk false none none [(60, some [77])] none [(15, some [98])] []
def exOuter : Policy := .mk false none (some (0xc0000200, 24)) [] (some [0xc0000205]) [(15, some [97]), (42, some [1, 2, 3, 4])] [exOther, exInner]
def exCfg : Cfg := { dnsServers := [none], policies := [exOuter] }
def exPkt (chaddr : List Nat) (opts : DhcpWire.Opts) : DhcpWire.Dhcp :=
  { op := 1, htype := 1, hlen := 6, hops := 0, xid := 1, secs := 0, flags := 0, ciaddr := 0, yiaddr := 0, siaddr := 0, giaddr := 0,
    chaddr, sname := [], file := [], options := opts }
def exReq (chaddr : List Nat) (opts : DhcpWire.Opts) : Req := { pkt := exPkt chaddr opts, serverip := 0xc0000201 }

-- the reserved host: inner `null` removes the domain name, the outer NTP server stays, netmask of the matched subnet, DNS = receiving address
example : docSent exCfg (exReq [0, 0, 0x5e, 0, 0x53, 1] [(55, [15, 42, 1, 6])]) 15 = none := by decide
example : docSent exCfg (exReq [0, 0, 0x5e, 0, 0x53, 1] [(55, [15, 42, 1, 6])]) 42 = some [1, 2, 3, 4] := by decide
example : docSent exCfg (exReq [0, 0, 0x5e, 0, 0x53, 1] [(55, [15, 42, 1, 6])]) 1 = some [255, 255, 255, 0] := by decide
example : docSent exCfg (exReq [0, 0, 0x5e, 0, 0x53, 1] [(55, [15, 42, 1, 6])]) 6 = some [192, 0, 2, 1] := by decide
-- a client matching the first sibling (class-id 77) gets that sibling's value even though the second would also apply
example : docSent exCfg (exReq [0, 0, 0x5e, 0, 0x53, 1] [(55, [15]), (60, [77])]) 15 = some [98] := by decide
-- `$self4` in a policy value is the receiving address
example : docSent { policies := [.mk false none (some (0xc0000200, 24)) [] (some [1]) [(3, some [0, 0, 0, 0]), (12, some [0, 0, 0, 0])] []] }
    (exReq [2, 0, 0, 0, 0, 9] [(55, [3, 12])]) 3 = some [192, 0, 2, 1] := by decide
example : docSent { policies := [.mk false none (some (0xc0000200, 24)) [] (some [1]) [(3, some [0, 0, 0, 0]), (12, some [0, 0, 0, 0])] []] }
    (exReq [2, 0, 0, 0, 0, 9] [(55, [3, 12])]) 12 = some [0, 0, 0, 0] := by decide
-- another host: no sub-policy applies, the outer value stands; not asked for = not sent
example : docSent exCfg (exReq [2, 0, 0, 0, 0, 9] [(55, [15])]) 15 = some [97] := by decide
example : docSent exCfg (exReq [2, 0, 0, 0, 0, 9] [(55, [15])]) 42 = none := by decide

end Erbium.Props.C11
