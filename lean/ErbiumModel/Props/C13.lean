import ErbiumModel.Model.DhcpServer
import ErbiumModel.Lemmas.Pool
/-! # C13 — only DHCP messages meant for this server are answered or change lease state -/
namespace Erbium.Props.C13
open Erbium Erbium.Dhcp Erbium.Pool

theorem lookup_toOptions_setOpt_same (r : Resp) (k : Nat) (v : Bytes) :
    lookupOpt (toOptions (setOpt r k (some v))) k = some v := by
  simp [lookupOpt, toOptions, setOpt, keepSome]

theorem find_filter_ne (l : List (Nat × Option Bytes)) (k k' : Nat) (h : k' ≠ k) :
    List.find? (fun x => x.1 == k') (List.filterMap keepSome (l.filter (fun e => e.1 != k)))
    = List.find? (fun x => x.1 == k') (List.filterMap keepSome l) := by
  induction l with
  | nil => rfl
  | cons e es ih =>
    obtain ⟨a, b⟩ := e
    by_cases ha : a = k
    · subst ha
      have h1 : ((a, b).1 != a) = false := by simp
      rw [List.filter_cons, if_neg (by simp [h1]), ih, List.filterMap_cons]
      cases b with
      | none => simp [keepSome]
      | some bb =>
        have h2 : (a == k') = false := by simp; exact fun hh => h hh.symm
        simp [keepSome, List.find?_cons, h2]
    · have h1 : ((a, b).1 != k) = true := by simp [ha]
      rw [List.filter_cons, if_pos h1, List.filterMap_cons, List.filterMap_cons]
      cases b with
      | none => simpa [keepSome] using ih
      | some bb =>
        simp only [keepSome, Option.map_some, List.find?_cons]
        split
        · rfl
        · exact ih

theorem lookup_toOptions_setOpt_ne (r : Resp) (k k' : Nat) (v : Option Bytes) (h : k' ≠ k) :
    lookupOpt (toOptions (setOpt r k v)) k' = lookupOpt (toOptions r) k' := by
  unfold lookupOpt toOptions setOpt
  simp only [List.filterMap_cons]
  cases v with
  | none => simp only [keepSome, Option.map_none]; rw [← find_filter_ne r.options k k' h]
  | some vv =>
    have h2 : (k == k') = false := by simp; exact fun hh => h hh.symm
    simp only [keepSome, Option.map_some, List.find?_cons, h2]
    rw [← find_filter_ne r.options k k' h]

/-- the plan says "allocate" only for DISCOVER, or for REQUEST naming no server or one of ours -/
theorem plan_alloc {cfg req ids c rq pool resp isReq} (h : plan cfg req ids = .alloc c rq pool resp isReq) :
    (lookupOpt req.pkt.options 53 = some [1] ∧ isReq = false) ∨
    (lookupOpt req.pkt.options 53 = some [3] ∧ isReq = true ∧
      (optIp req.pkt.options 54 = none ∨ ∃ si, optIp req.pkt.options 54 = some si ∧ si ∈ ids)) := by
  unfold plan at h
  split at h
  · rename_i t ht
    split at h
    · rename_i htt
      have hgo : ∀ b, plan.go cfg req b = .alloc c rq pool resp isReq → isReq = b := by
        intro b hb
        unfold plan.go at hb
        simp only at hb
        split at hb
        · cases hb
        · split at hb
          · cases hb
          · cases hb; rfl
      rcases htt with rfl | rfl
      · left
        simp only [show ((1:Nat) == 3) = false by decide, Bool.false_eq_true, if_false] at h
        exact ⟨ht, hgo false h⟩
      · right
        simp only [show ((3:Nat) == 3) = true by decide, if_true] at h
        cases hsi : optIp req.pkt.options 54 with
        | none =>
          simp only [hsi] at h
          exact ⟨ht, hgo true h, Or.inl rfl⟩
        | some si =>
          simp only [hsi] at h
          split at h
          · cases h
          · rename_i hc
            refine ⟨ht, hgo true h, Or.inr ⟨si, rfl, ?_⟩⟩
            simpa using hc
    · cases h
  · cases h

/-- **C13 (1).** A reply is produced only for a DISCOVER, or for a REQUEST that names no server
    or names an address this server has identified itself with. -/
theorem C13_replied_only_for_this_server {cfg req ids st r st'}
    (h : Handles cfg req ids st (some r) st') :
    lookupOpt req.pkt.options 53 = some [1] ∨
    (lookupOpt req.pkt.options 53 = some [3] ∧
      (optIp req.pkt.options 54 = none ∨ ∃ si, optIp req.pkt.options 54 = some si ∧ si ∈ ids)) := by
  cases h with
  | grant c rq pool resp isReq x ty d now' blob hp _ _ =>
    rcases plan_alloc hp with ⟨h1, _⟩ | ⟨h1, _, h3⟩
    · exact Or.inl h1
    · exact Or.inr ⟨h1, h3⟩

/-- **C13 (2).** No reply ⇒ every stored lease is exactly as it was (RELEASE, DECLINE, INFORM,
    unknown types, no type, a REQUEST for another server, no matching policy, no pool, exhaustion). -/
theorem C13_no_reply_no_change {cfg req ids st st'} (h : Handles cfg req ids st none st') : st' = st := by
  cases h <;> rfl

/-- **C13 (3).** A reply only ever touches the lease row of the address it assigns. -/
theorem C13_only_own_row {cfg req ids st r st'} (h : Handles cfg req ids st (some r) st') :
    ∀ y, y ≠ r.yiaddr → rowOf st'.rows y = rowOf st.rows y := by
  cases h with
  | grant c rq pool resp isReq x ty d now' blob _ _ _ =>
    intro y hy
    simp only [reply] at hy
    simp [Pool.grant, rowOf_put, grantRow, hy]

/-- **C13 (4).** Every reply echoes the request's transaction id, hardware address, relay address
    and flags, and carries a server identifier naming this server. -/
theorem C13_reply_echoes {cfg req ids st r st'} (h : Handles cfg req ids st (some r) st') :
    r.xid = req.pkt.xid ∧ r.chaddr = req.pkt.chaddr ∧ r.giaddr = req.pkt.giaddr ∧ r.flags = req.pkt.flags ∧
    ∃ sid, lookupOpt r.options 54 = some (ser32 sid) ∧ (sid = req.serverip ∨ sid ∈ ids) := by
  cases h with
  | grant c rq pool resp isReq x ty d now' blob hp _ _ =>
    refine ⟨rfl, rfl, rfl, rfl, ?_⟩
    have h54 : ∀ (r0 : Resp) (sid L : Nat),
        lookupOpt (toOptions (if isReq || Generated.Dhcp.offerHasLeaseTime = true
          then setOpt (setOpt r0 54 (some (ser32 sid))) 51 (some (ser32 L))
          else setOpt r0 54 (some (ser32 sid)))) 54 = some (ser32 sid) := by
      intro r0 sid L
      split
      · rw [lookup_toOptions_setOpt_ne _ 51 54 _ (by decide), lookup_toOptions_setOpt_same]
      · rw [lookup_toOptions_setOpt_same]
    rcases plan_alloc hp with ⟨_, rfl⟩ | ⟨_, rfl, h3⟩
    · refine ⟨req.serverip, ?_, Or.inl rfl⟩
      simp only [reply, Bool.false_eq_true, if_false]
      exact h54 _ _ _
    · rcases h3 with hn | ⟨si, hs, hi⟩
      · refine ⟨req.serverip, ?_, Or.inl rfl⟩
        simp only [reply, if_true, hn, Option.getD_none]
        exact h54 _ _ _
      · refine ⟨si, ?_, Or.inr hi⟩
        simp only [reply, if_true, hs, Option.getD_some]
        exact h54 _ _ _

/-- **C10 (lease time present).** Every OFFER and ACK carries option 51 with the granted lease,
    which lies within the default bounds. -/
theorem C10_reply_has_lease_time {cfg req ids st r st'} (h : Handles cfg req ids st (some r) st') :
    ∃ L, lookupOpt r.options 51 = some (ser32 (L % 2 ^ 32)) ∧
      Generated.Dhcp.defaultMinLease ≤ L ∧ L ≤ Generated.Dhcp.defaultMaxLease ∧
      ∃ row, rowOf st'.rows r.yiaddr = some row ∧ row.expiry - row.start = L := by
  cases h with
  | grant c rq pool resp isReq x ty d now' blob hp _ _ =>
    refine ⟨leaseFor d Generated.Dhcp.defaultMinLease Generated.Dhcp.defaultMaxLease (remainingOf st.rows c x now'), ?_, ?_, ?_, ?_⟩
    · have : (isReq || Generated.Dhcp.offerHasLeaseTime) = true := by
        have : Generated.Dhcp.offerHasLeaseTime = true := by decide
        simp [this]
      simp only [reply, this, if_true]
      exact lookup_toOptions_setOpt_same _ _ _
    · unfold leaseFor clamp; simp [Generated.Dhcp.defaultMinLease, Generated.Dhcp.defaultMaxLease]; omega
    · unfold leaseFor clamp; simp [Generated.Dhcp.defaultMaxLease]; omega
    · refine ⟨grantRow c x now' (leaseFor d Generated.Dhcp.defaultMinLease Generated.Dhcp.defaultMaxLease (remainingOf st.rows c x now')) blob, ?_, ?_⟩
      · simp [reply, Pool.grant, rowOf_put, grantRow]
      · simp [grantRow]

/-- the dispatch of `handle_pkt` in the source has the shape the model assumes -/
theorem C13_dispatch_shape : Generated.Dhcp.dispatchOk = true := by decide

/-! Non-vacuity: a DISCOVER on a /29 is planned as an allocation; a RELEASE is refused. -/
def exCfg : Cfg := { addresses := [(0xc0000200, 29)] }
def exReq (t : Nat) : Req :=
  { pkt := { op := 1, htype := 1, hlen := 6, hops := 0, xid := 7, secs := 0, flags := 0, ciaddr := 0,
             yiaddr := 0, siaddr := 0, giaddr := 0, chaddr := [0, 0, 0x5e, 0, 0x53, 0], sname := [], file := [],
             options := [(53, [t])] },
    serverip := 0xc0000201 }
example : (match plan exCfg (exReq 1) [] with
    | .alloc _ _ pool _ false => pool == [0xc0000202, 0xc0000203, 0xc0000204, 0xc0000205, 0xc0000206]
    | _ => false) = true := by decide
example : (match plan exCfg (exReq 7) [] with
    | .err (.unknownMessageType 7) => true
    | _ => false) = true := by decide

end Erbium.Props.C13
