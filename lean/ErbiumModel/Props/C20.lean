import ErbiumModel.Lemmas.Pool
/-! # C20 — the lease listing and the lease gauges report the lease store truthfully -/
namespace Erbium.Props.C20
open Erbium Erbium.Pool Erbium.Generated.Pool

theorem sum_indicator (s : Store) (p : Row → Bool) :
    (s.map fun r => if p r then 1 else 0).sum = s.countP p := by
  induction s with
  | nil => rfl
  | cons r rs ih =>
    simp only [List.map_cons, List.sum_cons, List.countP_cons, ih]
    by_cases h : p r <;> simp [h]; omega

theorem sqlSum_getD (l : List Nat) : (sqlSum l).getD 0 = l.sum := by
  unfold sqlSum
  cases l <;> simp

/-- **C20 (gauges).** For every store — including the empty one — the query returns
    (number of leases whose expiry lies in the future, number whose expiry has passed), in the
    order (active, expired) in which the caller publishes them. -/
theorem C20_gauges (s : Store) (now : Nat) :
    metrics s now = some (s.countP (fun r => decide (r.expiry > now)),
                          s.countP (fun r => decide (r.expiry ≤ now))) ∧
    metricsLabelsActiveExpired = true := by
  refine ⟨?_, by decide⟩
  unfold metrics
  simp only [metricsCoalesce, if_true, sqlSum_getD]
  rw [sum_indicator s (fun r => metricsFirstCmp.eval r.expiry now),
      sum_indicator s (fun r => metricsSecondCmp.eval r.expiry now)]
  rfl

/-- every lease is counted exactly once -/
theorem C20_gauges_partition (s : Store) (now : Nat) :
    s.countP (fun r => decide (r.expiry > now)) + s.countP (fun r => decide (r.expiry ≤ now)) = s.length := by
  induction s with
  | nil => rfl
  | cons r rs ih =>
    rw [List.countP_cons, List.countP_cons, List.length_cons]
    by_cases h : r.expiry > now
    · have h2 : ¬ r.expiry ≤ now := by omega
      simp only [h, h2, decide_true, decide_false, if_true, Bool.false_eq_true, if_false]; omega
    · have h2 : r.expiry ≤ now := by omega
      simp only [h, h2, decide_true, decide_false, if_true, Bool.false_eq_true, if_false]; omega

example : metrics [] 5 = some (0, 0) := by decide
example : metrics [⟨1, [1], 0, 10, []⟩, ⟨2, [2], 0, 5, []⟩, ⟨3, [3], 0, 4, []⟩] 5 = some (1, 2) := by decide

end Erbium.Props.C20
