import ErbiumModel.Lemmas.Pool
import ErbiumModel.Lemmas.LeaseJson
/-! # C20 — the lease listing and the lease gauges report the lease store truthfully -/
namespace Erbium.Props.C20
open Erbium Erbium.Pool Erbium.Generated.Pool

theorem sum_indicator (s : Store) (p : Row → Bool) :
    (s.map fun r => if p r then 1 else 0).sum = s.countP p := by
  induction s with
  | nil => rfl
  | cons r rs ih =>
    simp only [List.map_cons, List.sum_cons, List.countP_cons, ih]
    by_cases h : p r <;> simp [h]; omega

theorem sqlSum_getD (l : List Nat) : (sqlSum l).getD 0 = l.sum := by
  unfold sqlSum
  cases l <;> simp

/-- **C20 (gauges).** For every store — including the empty one — the query returns
    (number of leases whose expiry lies in the future, number whose expiry has passed), in the
    order (active, expired) in which the caller publishes them. -/
theorem C20_gauges (s : Store) (now : Nat) :
    metrics s now = some (s.countP (fun r => decide (r.expiry > now)),
                          s.countP (fun r => decide (r.expiry ≤ now))) ∧
    metricsLabelsActiveExpired = true := by
  refine ⟨?_, by decide⟩
  unfold metrics
  simp only [metricsCoalesce, if_true, sqlSum_getD]
  rw [sum_indicator s (fun r => metricsFirstCmp.eval r.expiry now),
      sum_indicator s (fun r => metricsSecondCmp.eval r.expiry now)]
  rfl

/-- every lease is counted exactly once -/
theorem C20_gauges_partition (s : Store) (now : Nat) :
    s.countP (fun r => decide (r.expiry > now)) + s.countP (fun r => decide (r.expiry ≤ now)) = s.length := by
  induction s with
  | nil => rfl
  | cons r rs ih =>
    rw [List.countP_cons, List.countP_cons, List.length_cons]
    by_cases h : r.expiry > now
    · have h2 : ¬ r.expiry ≤ now := by omega
      simp only [h, h2, decide_true, decide_false, if_true, Bool.false_eq_true, if_false]; omega
    · have h2 : r.expiry ≤ now := by omega
      simp only [h, h2, decide_true, decide_false, if_true, Bool.false_eq_true, if_false]; omega

example : metrics [] 5 = some (0, 0) := by decide
example : metrics [⟨1, [1], 0, 10, []⟩, ⟨2, [2], 0, 5, []⟩, ⟨3, [3], 0, 4, []⟩] 5 = some (1, 2) := by decide

open Erbium.LeaseReport Erbium.Spec.Json in
/-- **C20 (the listing).** For every list of stored leases the body of `leases.json` is a JSON document in the sense
    of RFC 8259 (`Spec/Json.lean`: the grammar as a relation between texts and values) and it denotes
    `{"leases": [e₁, …, eₙ]}` with exactly one object per lease, in order, each carrying that lease's address,
    client identifier, start, expiry and — when the stored options have one — host name, **whatever characters the
    host name contains** (quotation marks, reverse solidus and control characters are escaped so that the text
    denotes exactly them). -/
theorem C20_listing_denotes_store (rows : List LRow) : Denotes (render rows) (listingV rows) := render_denotes rows

open Erbium.LeaseReport Erbium.Spec.Json in
/-- exactly one entry per lease -/
theorem C20_one_entry_per_lease (rows : List LRow) :
    listingV rows = .obj [("leases".toList, .arr (rows.map rowV))] ∧ (rows.map rowV).length = rows.length :=
  ⟨rfl, List.length_map _⟩

open Erbium.LeaseReport Erbium.Spec.Json in
/-- `json_string` alone: the text between the quotation marks denotes exactly the characters given — for every string -/
theorem C20_host_name_any_characters (h : List Char) : StrBody (jsonStringBody h) h := jsonStringBody_spec h

open Erbium.LeaseReport Erbium.Spec.Json in
/-- … and **only** them: the string grammar is unambiguous, so whatever a conforming reader takes the host-name text
    to denote, it is the stored host name (an injection through the host name cannot make the entry say anything else) -/
theorem C20_host_name_read_back_exactly (h s : List Char) (hs : StrBody (jsonStringBody h) s) : s = h :=
  strBody_unique hs (jsonStringBody_spec h)

open Erbium.LeaseReport Erbium.Spec.Json in
/-- numbers are written without loss: the digits are a JSON integer (no leading zero, no sign) whose value is the
    number, so two different start or expiry times never print alike -/
theorem C20_numbers_exact (a b : Nat) (h : dec a = dec b) : a = b := by
  have ha := (dec_spec a).1.2.2.2
  have hb := (dec_spec b).1.2.2.2
  rw [h] at ha; omega

open Erbium.LeaseReport in
/-- non-vacuity: a lease whose host name holds a quotation mark, a reverse solidus, a bell and a non-ASCII letter -/
example : render [{ ip := 3232235777, client := [1, 171], start := 5, expire := 3605, host := some ['a', '"', '\\', Char.ofNat 7, 'é'] }] =
    "{ \"leases\" : [\n { \"ip\": \"192.168.1.1\", \"client_id\": \"01:ab\", \"start\": 5, \"expire\": 3605, \"host-name\": \"a\\\"\\\\\\u0007é\" }\n]}\n".toList := by
  decide +kernel

end Erbium.Props.C20
