import ErbiumModel.Lemmas.Pool
import ErbiumModel.Generated.Dhcp
/-! # C01 — DHCP never leases one address to two clients at the same time -/
namespace Erbium.Props.C01
open Erbium Erbium.Pool Erbium.Generated.Pool

/-- "an unexpired belief is backed by the row": the invariant of the lease store -/
def Inv (st : State) : Prop :=
  Uniq st.rows ∧
  ∀ a x E, st.belief a x = some E → E > st.now →
    ∃ r, rowOf st.rows x = some r ∧ r.client = a ∧ r.expiry = E

/-- `holds a x` and `holds b x` at the current instant for two different clients -/
def Safe (st : State) : Prop :=
  ∀ a b x Ea Eb, a ≠ b → st.belief a x = some Ea → st.belief b x = some Eb →
    ¬ (Ea > st.now ∧ Eb > st.now)

theorem Inv.safe {st} (h : Inv st) : Safe st := by
  intro a b x Ea Eb hab ha hb ⟨h1, h2⟩
  obtain ⟨r, hr, hc, _⟩ := h.2 a x Ea ha h1
  obtain ⟨r', hr', hc', _⟩ := h.2 b x Eb hb h2
  rw [hr] at hr'; cases hr'; exact hab (hc ▸ hc')

theorem inv_tick {st n} (h : Inv st) : Inv (tick st n) := by
  refine ⟨h.1, ?_⟩
  intro a x E hb hE
  exact h.2 a x E hb (by simp [tick] at hE; omega)

/-- a row that is "not in use" under the comparison the source uses has no unexpired belief -/
theorem notInUse_expired {s : Store} {now x : Nat} {r : Row} (hr : rowOf s x = some r) :
    (inUse requestedInUseCmp s now x = false → ¬ r.expiry > now) ∧
    (inUse newInUseCmp s now x = false → ¬ r.expiry > now) := by
  constructor <;> intro h <;>
    simp [inUse, hr, requestedInUseCmp, newInUseCmp, Cmp.eval] at h <;> omega

/-- one step: any allowed choice of address, any pool, any lease length, second clock read later -/
theorem inv_grant {st c x ty d now' L req pool opts}
    (h : Inv st) (hx : Outcome.ok x ty d ∈ allowed st.rows st.now c req pool) (hnow : st.now ≤ now') :
    Inv (grant st c x now' L opts) := by
  have hs := allowed_sound st.rows st.now c req pool x ty d h.1 hx
  refine ⟨uniq_put h.1, ?_⟩
  intro a y E hb hE
  simp only [grant] at hb hE ⊢
  rw [rowOf_put]
  by_cases hy : y = x
  · subst hy
    simp only [grantRow, if_true]
    by_cases ha : a = c
    · subst ha; simp at hb; exact ⟨_, rfl, rfl, hb⟩
    · -- another client's unexpired belief on the granted address: impossible
      simp [ha] at hb
      obtain ⟨r, hr, hc, he⟩ := h.2 a y E hb (by omega)
      rcases hs.2 with ⟨r', hr', hc'⟩ | ⟨hfree, _⟩ | ⟨hfree, _⟩
      · rw [hr] at hr'; cases hr'; exact absurd (hc.symm.trans hc') ha
      · exact absurd (by omega) ((notInUse_expired hr).1 hfree)
      · exact absurd (by omega) ((notInUse_expired hr).2 hfree)
  · simp [hy, grantRow] at hb ⊢
    exact h.2 a y E hb (by omega)

theorem reach_inv {st} (h : Reach st) : Inv st := by
  induction h with
  | init now => exact ⟨uniq_nil, by intro a x E hb; simp at hb⟩
  | tick n _ ih => exact inv_tick ih
  | grant c req pool x ty d now' lo hi opts _ hx hnow ih => exact inv_grant ih hx hnow
  | restart _ ih => exact ih

/-- **C01.** In every state reachable by any finite history of DISCOVER/REQUEST grants (any
    clients, any requested address, any pool per message, any lease bounds), clock advances and
    restarts, and at every instant `t` from that state on until the next event, no address is held
    (told to a client, recorded expiry `> t`) by two different clients. -/
theorem C01_no_double_lease {st} (h : Reach st) (a b : Client) (x t Ea Eb : Nat) (hab : a ≠ b)
    (ht : st.now ≤ t) (ha : st.belief a x = some Ea) (hb : st.belief b x = some Eb) :
    ¬ (Ea > t ∧ Eb > t) := by
  intro ⟨h1, h2⟩
  exact (reach_inv h).safe a b x Ea Eb hab ha hb ⟨by omega, by omega⟩

/-- every reply's belief is backed by the stored row (what `holds` refers to) -/
theorem C01_belief_backed {st} (h : Reach st) (a : Client) (x E : Nat)
    (hb : st.belief a x = some E) (hE : E > st.now) :
    ∃ r, rowOf st.rows x = some r ∧ r.client = a ∧ r.expiry = E :=
  (reach_inv h).2 a x E hb hE

/-- single row per address (`INSERT OR REPLACE` on the primary key) in every reachable state -/
theorem C01_one_row_per_address {st} (h : Reach st) : Uniq st.rows := (reach_inv h).1

/-! Non-vacuity: a reachable state in which two clients hold two different addresses, and in
    which the second client asked for the first client's address. -/
def ex0 : State := { rows := [], now := 1000, belief := fun _ _ => none }
example : Outcome.ok 5 .newAddress 0 ∈ allowed ex0.rows ex0.now [1] none [5, 6] := by decide
example : Outcome.ok 6 .newAddress 0 ∈
    allowed (grant ex0 [1] 5 1000 300 []).rows 1000 [2] (some 5) [5, 6] := by decide
example : Reach (grant (grant ex0 [1] 5 1000 (clamp 0 300 86400) []) [2] 6 1000 (clamp 0 300 86400) []) :=
  Reach.grant [2] (some 5) [5, 6] 6 .newAddress 0 1000 300 86400 [] 
    (Reach.grant [1] none [5, 6] 5 .newAddress 0 1000 300 86400 [] (Reach.init 1000) (by decide) (Nat.le_refl _))
    (by decide) (Nat.le_refl _)

/-- **C01 (one packet at a time — the model's atomic step is the code's).** The histories the theorems quantify over
    interleave *whole* packet handlings. That is what the code does: `handle_pkt` is an ordinary (non-`async`) function
    taking the pool by exclusive reference, called with the guard of the pool's mutex, so no other task can touch the
    lease table between the reads and the write of one handling (Rust's borrow rules, extracted shape). -/
theorem C01_one_packet_at_a_time : Generated.Dhcp.handlePktExclusive = true := by decide

end Erbium.Props.C01
