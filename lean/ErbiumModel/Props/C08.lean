import ErbiumModel.Lemmas.Acl
import ErbiumModel.Generated.Acl
/-! # C08 — ACLs are enforced, first match wins, on DNS recursion and all HTTP endpoints -/
namespace Erbium.Props.C08
open Erbium Erbium.Acl

/-- the written prefix, host bits ignored: the top `len` bits agree -/
def inPrefix (w addr len ip : Nat) : Prop := ip / 2 ^ (w - len) = addr / 2 ^ (w - len)

/-- **C08 (subnet, IPv4).** For every prefix length 0..32 and *every* written address (host bits
    set or not), an IPv4 client matches exactly when it lies inside the written prefix. -/
theorem C08_subnet_v4 (addr len ip : Nat) (hl : len ≤ 32) (ha : addr < 2 ^ 32) (hi : ip < 2 ^ 32) :
    (Prefix.p4 addr len).contains (.v4 ip) = true ↔ inPrefix 32 addr len ip := by
  simp [Prefix.contains, containsW_iff 32 addr len ip hl ha hi, inPrefix]

/-- **C08 (subnet, IPv6).** -/
theorem C08_subnet_v6 (addr len ip : Nat) (hl : len ≤ 128) (ha : addr < 2 ^ 128) (hi : ip < 2 ^ 128) :
    (Prefix.p6 addr len).contains (.v6 ip) = true ↔ inPrefix 128 addr len ip := by
  simp [Prefix.contains, containsW_iff 128 addr len ip hl ha hi, inPrefix]

/-- **C08 (IPv4-mapped client).** An IPv4 client seen as `::ffff:a.b.c.d` matches an IPv4 prefix
    exactly when `a.b.c.d` lies inside it; any other IPv6 address never matches an IPv4 prefix. -/
theorem C08_mapped_client (addr len ip4 : Nat) (hl : len ≤ 32) (ha : addr < 2 ^ 32) (hi : ip4 < 2 ^ 32) :
    (Prefix.p4 addr len).contains (.v6 (mappedBase + ip4)) = true ↔ inPrefix 32 addr len ip4 := by
  have h1 : (mappedBase + ip4) / 2 ^ 32 = 0xffff := by unfold mappedBase; omega
  have h2 : (mappedBase + ip4) % 2 ^ 32 = ip4 := by unfold mappedBase; omega
  simp [Prefix.contains, h1, h2, containsW_iff 32 addr len ip4 hl ha hi, inPrefix]

theorem C08_unmapped_v6_never_matches_v4 (addr len ip : Nat) (h : ip / 2 ^ 32 ≠ 0xffff) :
    (Prefix.p4 addr len).contains (.v6 ip) = false := by
  simp [Prefix.contains, h]

/-- a unix-socket client never matches a subnet condition -/
theorem C08_unix_matches_no_subnet (p : Prefix) : p.contains .unix = false := by
  cases p <;> rfl

/-- **C08 (first match wins).** If no earlier rule matches the client, the first rule that does
    decides: granted iff that rule has the permission, otherwise "not authorised" — whatever the
    later rules say. -/
theorem C08_first_match_decides (pre post : List Rule) (r : Rule) (p : Permission) (a : Addr) (perm : Perm)
    (hpre : ∀ q ∈ pre, q.check a = none) (hr : r.check a = some p) :
    requirePermission (pre ++ r :: post) a perm = if p.has perm then .ok else .notAuthorised := by
  unfold requirePermission
  have : (pre ++ r :: post).findSome? (fun r => r.check a) = some p := by
    rw [List.findSome?_append]
    have hn : pre.findSome? (fun r => r.check a) = none := by
      rw [List.findSome?_eq_none_iff]; exact hpre
    simp [hn, List.findSome?_cons, hr]
  rw [this]

/-- a client matching no rule is refused ("not authenticated") -/
theorem C08_no_match_refused (acl : List Rule) (a : Addr) (perm : Perm)
    (h : ∀ q ∈ acl, q.check a = none) : requirePermission acl a perm = .notAuthenticated := by
  unfold requirePermission
  have : acl.findSome? (fun r => r.check a) = none := by
    rw [List.findSome?_eq_none_iff]; exact h
  rw [this]

/-- granted ⇔ some rule matches, it is the first one that does, and it has the permission -/
theorem C08_granted_iff (acl : List Rule) (a : Addr) (perm : Perm) :
    requirePermission acl a perm = .ok ↔
      ∃ pre r post p, acl = pre ++ r :: post ∧ (∀ q ∈ pre, q.check a = none) ∧ r.check a = some p ∧ p.has perm = true := by
  constructor
  · intro h
    unfold requirePermission at h
    cases hf : acl.findSome? (fun r => r.check a) with
    | none => simp [hf] at h
    | some p =>
      simp only [hf] at h
      obtain ⟨pre, r, post, hacl, hr, hpre⟩ := List.findSome?_eq_some_iff.mp hf
      refine ⟨pre, r, post, p, hacl, ?_, hr, ?_⟩
      · intro q hq; exact hpre q hq
      · by_cases hp : p.has perm = true
        · exact hp
        · simp [hp] at h
  · rintro ⟨pre, r, post, p, rfl, hpre, hr, hp⟩
    rw [C08_first_match_decides pre post r p a perm hpre hr]; simp [hp]

/-- a rule's conditions are a conjunction: subnet list (any member) AND unix flag -/
theorem C08_rule_conditions (r : Rule) (a : Addr) :
    (r.check a).isSome = true ↔
      (∀ ss, r.subnet = some ss → ∃ s ∈ ss, s.contains a = true) ∧
      (∀ u, r.unix = some u → (a = .unix ↔ u = true)) := by
  unfold Rule.check
  cases hs : r.subnet <;> cases hu : r.unix <;> simp
  · rename_i u; cases u <;> simp
  · rename_i ss u; cases u <;> simp <;> grind

/-- **C08 (HTTP).** Every arm of the HTTP router serves its content only behind the permission the
    documentation assigns to that path (table regenerated from `serve_request` on every run). -/
theorem C08_http_arms_guarded :
    Generated.Acl.httpArms =
      [("GET", "/", some .http), ("GET", "/metrics", some .httpMetrics),
       ("GET", "/api/v1/leases.json", some .httpLeases), ("*", "*", some .httpLeases)] := by
  decide

/-- **C08 (DNS).** The DNS entry point checks dns-recursion first and returns on refusal, so a
    refused query reaches neither the router, the cache nor an upstream server. -/
theorem C08_dns_acl_before_everything : Generated.Acl.dnsAclFirst = true := by decide

/-! Non-vacuity -/
example : (Prefix.p4 0xc0000201 24).contains (.v4 0xc00002fe) = true := by decide
example : (Prefix.p4 0xc0000201 24).contains (.v6 (mappedBase + 0xc00002fe)) = true := by decide
example : requirePermission
    [⟨some [.p4 0x0a000000 8], none, ⟨false, true, false, false⟩⟩, ⟨none, none, ⟨true, true, true, true⟩⟩]
    (.v4 0x0a010203) .dnsRecursion = .notAuthorised := by decide

end Erbium.Props.C08
