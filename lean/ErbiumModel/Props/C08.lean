import ErbiumModel.Lemmas.Acl
import ErbiumModel.Generated.Acl
/-! # C08 — ACLs are enforced, first match wins, on DNS recursion and all HTTP endpoints -/
namespace Erbium.Props.C08
open Erbium Erbium.Acl

/-- the written prefix, host bits ignored: the top `len` bits agree -/
def inPrefix (w addr len ip : Nat) : Prop := ip / 2 ^ (w - len) = addr / 2 ^ (w - len)

/-- **C08 (subnet, IPv4).** For every prefix length 0..32 and *every* written address (host bits
    set or not), an IPv4 client matches exactly when it lies inside the written prefix. -/
theorem C08_subnet_v4 (addr len ip : Nat) (hl : len ≤ 32) (ha : addr < 2 ^ 32) (hi : ip < 2 ^ 32) :
    (Prefix.p4 addr len).contains (.v4 ip) = true ↔ inPrefix 32 addr len ip := by
  simp [Prefix.contains, containsW_iff 32 addr len ip hl ha hi, inPrefix]

/-- **C08 (subnet, IPv6).** -/
theorem C08_subnet_v6 (addr len ip : Nat) (hl : len ≤ 128) (ha : addr < 2 ^ 128) (hi : ip < 2 ^ 128) :
    (Prefix.p6 addr len).contains (.v6 ip) = true ↔ inPrefix 128 addr len ip := by
  simp [Prefix.contains, containsW_iff 128 addr len ip hl ha hi, inPrefix]

/-- **C08 (IPv4-mapped client).** An IPv4 client seen as `::ffff:a.b.c.d` matches an IPv4 prefix
    exactly when `a.b.c.d` lies inside it; any other IPv6 address never matches an IPv4 prefix. -/
theorem C08_mapped_client (addr len ip4 : Nat) (hl : len ≤ 32) (ha : addr < 2 ^ 32) (hi : ip4 < 2 ^ 32) :
    (Prefix.p4 addr len).contains (.v6 (mappedBase + ip4)) = true ↔ inPrefix 32 addr len ip4 := by
  have h1 : (mappedBase + ip4) / 2 ^ 32 = 0xffff := by unfold mappedBase; omega
  have h2 : (mappedBase + ip4) % 2 ^ 32 = ip4 := by unfold mappedBase; omega
  simp [Prefix.contains, h1, h2, containsW_iff 32 addr len ip4 hl ha hi, inPrefix]

theorem C08_unmapped_v6_never_matches_v4 (addr len ip : Nat) (h : ip / 2 ^ 32 ≠ 0xffff) :
    (Prefix.p4 addr len).contains (.v6 ip) = false := by
  simp [Prefix.contains, h]

/-- a unix-socket client never matches a subnet condition -/
theorem C08_unix_matches_no_subnet (p : Prefix) : p.contains .unix = false := by
  cases p <;> rfl

/-- **C08 (first match wins).** If no earlier rule matches the client, the first rule that does
    decides: granted iff that rule has the permission, otherwise "not authorised" — whatever the
    later rules say. -/
theorem C08_first_match_decides (pre post : List Rule) (r : Rule) (p : Permission) (a : Addr) (perm : Perm)
    (hpre : ∀ q ∈ pre, q.check a = none) (hr : r.check a = some p) :
    requirePermission (pre ++ r :: post) a perm = if p.has perm then .ok else .notAuthorised := by
  unfold requirePermission
  have : (pre ++ r :: post).findSome? (fun r => r.check a) = some p := by
    rw [List.findSome?_append]
    have hn : pre.findSome? (fun r => r.check a) = none := by
      rw [List.findSome?_eq_none_iff]; exact hpre
    simp [hn, List.findSome?_cons, hr]
  rw [this]

/-- a client matching no rule is refused ("not authenticated") -/
theorem C08_no_match_refused (acl : List Rule) (a : Addr) (perm : Perm)
    (h : ∀ q ∈ acl, q.check a = none) : requirePermission acl a perm = .notAuthenticated := by
  unfold requirePermission
  have : acl.findSome? (fun r => r.check a) = none := by
    rw [List.findSome?_eq_none_iff]; exact h
  rw [this]

/-- granted ⇔ some rule matches, it is the first one that does, and it has the permission -/
theorem C08_granted_iff (acl : List Rule) (a : Addr) (perm : Perm) :
    requirePermission acl a perm = .ok ↔
      ∃ pre r post p, acl = pre ++ r :: post ∧ (∀ q ∈ pre, q.check a = none) ∧ r.check a = some p ∧ p.has perm = true := by
  constructor
  · intro h
    unfold requirePermission at h
    cases hf : acl.findSome? (fun r => r.check a) with
    | none => simp [hf] at h
    | some p =>
      simp only [hf] at h
      obtain ⟨pre, r, post, hacl, hr, hpre⟩ := List.findSome?_eq_some_iff.mp hf
      refine ⟨pre, r, post, p, hacl, ?_, hr, ?_⟩
      · intro q hq; exact hpre q hq
      · by_cases hp : p.has perm = true
        · exact hp
        · simp [hp] at h
  · rintro ⟨pre, r, post, p, rfl, hpre, hr, hp⟩
    rw [C08_first_match_decides pre post r p a perm hpre hr]; simp [hp]

/-- a rule's conditions are a conjunction: subnet list (any member) AND unix flag -/
theorem C08_rule_conditions (r : Rule) (a : Addr) :
    (r.check a).isSome = true ↔
      (∀ ss, r.subnet = some ss → ∃ s ∈ ss, s.contains a = true) ∧
      (∀ u, r.unix = some u → (a = .unix ↔ u = true)) := by
  unfold Rule.check
  cases hs : r.subnet <;> cases hu : r.unix <;> simp
  · rename_i u; cases u <;> simp
  · rename_i ss u; cases u <;> simp <;> grind

/-- **C08 (HTTP).** Every arm of the HTTP router serves its content only behind the permission the
    documentation assigns to that path (table regenerated from `serve_request` on every run). -/
theorem C08_http_arms_guarded :
    Generated.Acl.httpArms =
      [("GET", "/", some .http), ("GET", "/metrics", some .httpMetrics),
       ("GET", "/api/v1/leases.json", some .httpLeases), ("*", "*", some .httpLeases)] := by
  decide

/-- **C08 (DNS).** The DNS entry point checks dns-recursion first and returns on refusal, so a
    refused query reaches neither the router, the cache nor an upstream server. -/
theorem C08_dns_acl_before_everything : Generated.Acl.dnsAclFirst = true := by decide

/-! Non-vacuity -/
example : (Prefix.p4 0xc0000201 24).contains (.v4 0xc00002fe) = true := by decide
example : (Prefix.p4 0xc0000201 24).contains (.v6 (mappedBase + 0xc00002fe)) = true := by decide
example : requirePermission
    [⟨some [.p4 0x0a000000 8], none, ⟨false, true, false, false⟩⟩, ⟨none, none, ⟨true, true, true, true⟩⟩]
    (.v4 0x0a010203) .dnsRecursion = .notAuthorised := by decide

/-- the network of a 128-bit prefix: the written address with its low `128 - len` bits cleared -/
theorem net128 (addr len : Nat) (hl : len ≤ 128) (ha : addr < 2 ^ 128) :
    addr &&& netmask 128 len = addr / 2 ^ (128 - len) * 2 ^ (128 - len) := by
  rw [netmask_eq 128 len hl, and_himask]
  congr 1
  apply Nat.mod_eq_of_lt
  have hp : 2 ^ 128 = 2 ^ (128 - len) * 2 ^ len := by rw [← Nat.pow_add]; congr 1; omega
  apply Nat.div_lt_of_lt_mul
  rw [← hp]; exact ha

/-- **The subtraction `prefixlen - 96` in `Prefix6::contains(Ipv4Addr)` cannot underflow**: the
    network only has the `::ffff:a.b.c.d` shape when the prefix is at least 96 bits long (a shorter
    mask clears bit 32, the lowest of the sixteen one-bits). -/
theorem C08_mapped_prefix_no_underflow (addr len : Nat) (hl : len ≤ 128) (ha : addr < 2 ^ 128)
    (h : (addr &&& netmask 128 len) / 2 ^ 32 = 0xffff) : 96 ≤ len := by
  rw [net128 addr len hl ha] at h
  by_cases hlen : 96 ≤ len
  · exact hlen
  · exfalso
    -- 128 - len ≥ 33: the network is a multiple of 2^33, so network / 2^32 is even
    have hk : 128 - len = 33 + (95 - len) := by omega
    rw [hk, Nat.pow_add, ← Nat.mul_assoc] at h
    have h33 : (2:Nat) ^ 33 = 2 ^ 32 * 2 := by decide
    generalize addr / (2 ^ 33 * 2 ^ (95 - len)) = q at h
    generalize (2:Nat) ^ (95 - len) = r at h
    rw [h33] at h
    have : q * (2 ^ 32 * 2) * r / 2 ^ 32 = q * r * 2 := by
      have : q * (2 ^ 32 * 2) * r = (q * r * 2) * 2 ^ 32 := by
        simp only [Nat.mul_assoc, Nat.mul_comm, Nat.mul_left_comm]
      rw [this, Nat.mul_div_cancel _ (Nat.two_pow_pos 32)]
    rw [this] at h
    omega

/-- **C08 (IPv4 client against a mapped IPv6 prefix).** A rule written `::ffff:a.b.c.d/(96+n)` matches
    an IPv4 client exactly when the client lies inside `a.b.c.d/n`. -/
theorem C08_mapped_prefix (a4 n ip : Nat) (hn : n ≤ 32) (ha : a4 < 2 ^ 32) (hi : ip < 2 ^ 32) :
    (Prefix.p6 (mappedBase + a4) (96 + n)).contains (.v4 ip) = true ↔ inPrefix 32 a4 n ip := by
  have hl : 96 + n ≤ 128 := by omega
  have haddr : mappedBase + a4 < 2 ^ 128 := by unfold mappedBase; omega
  have hk : 128 - (96 + n) = 32 - n := by omega
  simp only [Prefix.contains]
  rw [net128 _ _ hl haddr, hk]
  -- the network is ::ffff:(a4 with its low 32-n bits cleared)
  have hsplit : (2:Nat) ^ 32 = 2 ^ (32 - n) * 2 ^ n := by rw [← Nat.pow_add]; congr 1; omega
  have hpos : 0 < 2 ^ (32 - n) := Nat.two_pow_pos _
  have hdiv : (mappedBase + a4) / 2 ^ (32 - n) = 0xffff * 2 ^ n + a4 / 2 ^ (32 - n) := by
    unfold mappedBase
    rw [hsplit, show 0xffff * (2 ^ (32 - n) * 2 ^ n) + a4 = a4 + 2 ^ (32 - n) * (0xffff * 2 ^ n) by
      rw [Nat.add_comm, Nat.mul_left_comm]]
    rw [Nat.add_mul_div_left _ _ hpos]; omega
  rw [hdiv, Nat.add_mul]
  have hm : 0xffff * 2 ^ n * 2 ^ (32 - n) = 0xffff * 2 ^ 32 := by
    rw [Nat.mul_assoc, ← Nat.pow_add]; congr 2; omega
  rw [hm]
  have hlow : a4 / 2 ^ (32 - n) * 2 ^ (32 - n) < 2 ^ 32 := by
    have := Nat.div_mul_le_self a4 (2 ^ (32 - n)); omega
  have h1 : (0xffff * 2 ^ 32 + a4 / 2 ^ (32 - n) * 2 ^ (32 - n)) / 2 ^ 32 = 0xffff := by omega
  have h2 : (0xffff * 2 ^ 32 + a4 / 2 ^ (32 - n) * 2 ^ (32 - n)) % 2 ^ 32 = a4 / 2 ^ (32 - n) * 2 ^ (32 - n) := by omega
  simp only [h1, if_true, h2, show 96 + n - 96 = n by omega]
  rw [containsW_iff 32 _ n ip hn hlow hi]
  simp only [decide_eq_true_eq, inPrefix]
  rw [Nat.mul_div_cancel _ hpos]


end Erbium.Props.C08
