import ErbiumModel.Lemmas.DhcpWire
import ErbiumModel.Lemmas.DhcpDecoded
import ErbiumModel.Lemmas.DhcpOctets
import ErbiumModel.Lemmas.DhcpDecodedOctets
import ErbiumModel.Lemmas.Frame
import ErbiumModel.Lemmas.FrameValid
import ErbiumModel.Generated.Dhcp
import ErbiumModel.Lemmas.Enum
/-! # C12 — DHCP replies on the wire are valid frames decoding to the computed reply

Property theorems only (helper lemmas live in `Lemmas/`). -/
namespace Erbium.Props.C12
open Erbium

/-- The broadcast test of the model, over the mask the *source* uses (regenerated on every run). -/
def broadcastFlag (flags : Nat) : Bool := flags &&& Generated.Dhcp.broadcastMask != 0

/-- destination of a reply as `recvdhcp` chooses it (shape regenerated from the source) -/
def replyDst (flags yiaddr : Nat) : Nat :=
  let pick : Generated.Dhcp.DstExpr → Nat := fun e =>
    match e with
    | .broadcast => 0xffffffff
    | .yiaddr => yiaddr
    | .other => 0
  if Generated.Dhcp.dstCondIsBroadcastFlag && broadcastFlag flags then pick Generated.Dhcp.dstThen
  else pick Generated.Dhcp.dstElse

/-- (a) **Round trip**: every well-formed message — any header values, hardware-address length
    0..16, any option table with distinct codes in 1..254 listed in *any* order (the list order is
    the hash map's iteration order), values of **any** length including 0 and > 255 octets —
    decodes from its encoding to exactly itself. -/
theorem C12_roundtrip (m : DhcpWire.Dhcp) (h : DhcpWire.Wf m) :
    DhcpWire.parse (DhcpWire.serialise m) = .ok m :=
  DhcpWire.parse_serialise m h

/-- (a') the decoder concatenates repeated options (RFC 3396) and skips pad octets -/
theorem C12_repeated_concatenate (c : Nat) (a b rest : List Nat) (m : DhcpWire.Opts)
    (h0 : c ≠ 0) (h255 : c ≠ 255) (ha : a.length < 256) (hb : b.length < 256) :
    DhcpWire.parseOptions (c :: a.length :: (a ++ (0 :: c :: b.length :: (b ++ rest)))) m
      = DhcpWire.parseOptions rest (DhcpWire.optAppend m c (a ++ b)) := by
  have _ := ha; have _ := hb
  rw [DhcpWire.parseOptions_cons_opt c a.length _ m h0 h255 (by simp)]
  simp only [List.drop_left, List.take_left]
  rw [DhcpWire.parseOptions.eq_def]
  simp only [if_true]
  rw [DhcpWire.parseOptions_cons_opt c b.length _ _ h0 h255 (by simp)]
  simp only [List.drop_left, List.take_left]
  rw [DhcpWire.optAppend_optAppend]

/-- (b) **Frame**: layout, lengths, unmodified payload. -/
theorem C12_frame_layout (u : Frame.Udp4) (h : Frame.WfU u) :
    Frame.frame u = (u.dmac ++ u.smac ++ [0x08, 0x00]) ++ Frame.ipHeader u ++ Frame.udpHeader u ++ u.payload
    ∧ (Frame.ethHeader u).length = 14 ∧ (Frame.ipHeader u).length = 20 ∧ (Frame.udpHeader u).length = 8
    ∧ (Frame.frame u).drop 42 = u.payload
    ∧ Frame.ipTotalLen u = 28 + u.payload.length
    ∧ Frame.udpLen u = 8 + u.payload.length := by
  have hp := h.payload.1
  have l1 : (Frame.ethHeader u).length = 14 := by simp [Frame.ethHeader, h.smac, h.dmac]
  have l2 : (Frame.ipHeader u).length = 20 := by simp [Frame.ipHeader, Frame.be16_length, h.src.1, h.dst.1]
  have l3 : (Frame.udpHeader u).length = 8 := by simp [Frame.udpHeader, Frame.be16_length]
  refine ⟨rfl, l1, l2, l3, ?_, ?_, ?_⟩
  · unfold Frame.frame
    rw [List.drop_append_of_le_length (by simp only [List.length_append, l1, l2, l3]; omega)]
    rw [List.drop_eq_nil_of_le (by simp only [List.length_append, l1, l2, l3]; omega)]
    rfl
  · unfold Frame.ipTotalLen; omega
  · unfold Frame.udpLen; omega

/-- (b) the IPv4 header checksum verifies (one's-complement sum of the header is 0xffff) -/
theorem C12_ip_checksum (u : Frame.Udp4) (h : Frame.WfU u) :
    Frame.fold (Frame.sumWords (Frame.ipHeader u)) = 0xffff :=
  Frame.ip_checksum_verifies u h

/-- (b) the UDP checksum verifies over pseudo-header, UDP header and (zero padded) payload -/
theorem C12_udp_checksum (u : Frame.Udp4) (h : Frame.WfU u) :
    Frame.fold (Frame.sumWords (Frame.pseudo u ++ Frame.udpHeader u ++ u.payload)) = 0xffff :=
  Frame.udp_checksum_verifies u h

/-- (b') **valid_frame(build(..)) for every input**: the RFC 791/768 reader of `Spec/FrameRfc.lean` —
    the same function the correspondence check applies to the frames the *implementation* builds —
    accepts the model's frame and reads back exactly the addresses, ports, MACs and payload it was
    built from, with both checksums verifying, for every payload up to 65507 octets. -/
theorem C12_frame_valid (u : Frame.Udp4) (h : Frame.WfU u) :
    Spec.FrameRfc.validFrame u (Frame.frame u) = none :=
  Frame.frame_valid u h

/-- (b'') every element of the frame is an octet (nothing written into the headers exceeds its field) -/
theorem C12_frame_is_octets (u : Frame.Udp4) (h : Frame.WfU u) (hsm : ∀ b ∈ u.smac, b < 256)
    (hdm : ∀ b ∈ u.dmac, b < 256) : ∀ b ∈ Frame.frame u, b < 256 :=
  Frame.frame_octets u h hsm hdm

/-- (c) **Broadcast bit**: for all 65536 flag values the test is the most significant bit. -/
theorem C12_broadcast_iff_msb : ∀ f : Fin 65536, broadcastFlag f.val = decide (f.val ≥ 0x8000) := by
  -- all 65536 values, enumerated by the kernel through binary splitting (`Enum.checkRange`)
  have aux : Enum.checkRange (fun f => broadcastFlag f == decide (f ≥ 0x8000)) 16 0 = true := by
    decide +kernel
  intro f
  have := Enum.forall_lt_two_pow _ 16 aux f.val f.isLt
  simpa using this

/-- (c) the IPv4 destination is the limited broadcast address exactly when the client set the
    broadcast bit, otherwise the assigned address. -/
theorem C12_destination (f : Fin 65536) (yiaddr : Nat) :
    replyDst f.val yiaddr = if f.val ≥ 0x8000 then 0xffffffff else yiaddr := by
  have h := C12_broadcast_iff_msb f
  unfold replyDst
  have c1 : Generated.Dhcp.dstCondIsBroadcastFlag = true := by decide
  have c2 : Generated.Dhcp.dstThen = .broadcast := by decide
  have c3 : Generated.Dhcp.dstElse = .yiaddr := by decide
  simp only [c1, c2, c3, h, Bool.true_and]
  by_cases hf : f.val ≥ 0x8000 <;> simp [hf]


/-- (a2) **The hypothesis of the round trip is what the decoder produces**: every message decoded
    from *any* list of octets is well formed (header fields in range, `hlen` = hardware-address
    length ≤ 16, `sname`/`file` NUL-free and within their fields, option codes distinct and never
    0 or 255). So `Wf` excludes no message the server can ever hold after `dhcppkt::parse`. -/
theorem C12_decoded_wellformed (pkt : List Nat) (hb : ∀ b ∈ pkt, b < 256) (m : DhcpWire.Dhcp)
    (h : DhcpWire.parse pkt = .ok m) : DhcpWire.Wf m :=
  DhcpWire.parse_wf pkt hb m h

/-- (a3) **Decode, encode, decode**, with no well-formedness hypothesis: whatever octet string the
    decoder accepts, re-encoding the result and decoding again gives the same message — nothing a
    client sent is lost or altered by a pass through the codec (relay echo fields, option 82,
    options split over several instances). -/
theorem C12_decode_encode_decode (pkt : List Nat) (hb : ∀ b ∈ pkt, b < 256) (m : DhcpWire.Dhcp)
    (h : DhcpWire.parse pkt = .ok m) : DhcpWire.parse (DhcpWire.serialise m) = .ok m :=
  DhcpWire.parse_serialise_parse pkt hb m h

/-- (a4) **No length octet wraps**: every element the encoder writes is an octet, for option values of
    *any* length — the implementation's `len as u8` (and every other narrowing in `serialise`) never
    sees a value of 256 or more, because long values are split at 255. The model computes over `Nat`,
    so an encoder that wrote `v.length` for a 300-octet value would make this theorem false. -/
theorem C12_encoding_is_octets (m : DhcpWire.Dhcp) (hch : DhcpWire.Octets m.chaddr) (hsn : DhcpWire.Octets m.sname)
    (hfi : DhcpWire.Octets m.file) (hopt : ∀ e ∈ m.options, e.1 < 256 ∧ DhcpWire.Octets e.2) :
    ∀ b ∈ DhcpWire.serialise m, b < 256 :=
  DhcpWire.serialise_octets m hch hsn hfi hopt

/-- (a5) decode → encode writes octets too: for every octet string the decoder accepts, the decoded
    message consists of octets of the input and its re-encoding is an octet string (so the
    hypotheses of `C12_encoding_is_octets` hold of every message the server receives). -/
theorem C12_reencoding_is_octets (pkt : List Nat) (hb : ∀ b ∈ pkt, b < 256) (m : DhcpWire.Dhcp)
    (h : DhcpWire.parse pkt = .ok m) : ∀ b ∈ DhcpWire.serialise m, b < 256 :=
  DhcpWire.reencode_octets pkt hb m h

/-! Non-vacuity: concrete instances of the hypotheses. -/
def exampleMsg : DhcpWire.Dhcp :=
  { op := 2, htype := 1, hlen := 6, hops := 0, xid := 0xdeadbeef, secs := 0,
    flags := 0x8000, ciaddr := 0, yiaddr := 0xc0000205, siaddr := 0, giaddr := 0,
    chaddr := [0, 0, 0x5e, 0, 0x53, 0], sname := [], file := [],
    options := [(53, [5]), (12, []), (43, [1, 2, 3])] }
example : DhcpWire.Wf exampleMsg := by
  constructor <;> simp [exampleMsg, DhcpWire.OptsWf]

def exampleUdp : Frame.Udp4 :=
  { src := [192, 0, 2, 1], sport := 67, smac := [2, 0, 0, 0, 0, 0],
    dst := [255, 255, 255, 255], dport := 68, dmac := [2, 0, 0, 0, 0, 1], payload := [1, 2, 3] }
example : Frame.WfU exampleUdp := by
  constructor <;> simp [exampleUdp] <;> omega

/-- the decoder does accept octet strings: the encoding of `exampleMsg` is one -/
example : DhcpWire.parse (DhcpWire.serialise exampleMsg) = .ok exampleMsg :=
  C12_roundtrip exampleMsg (by constructor <;> simp [exampleMsg, DhcpWire.OptsWf])

example : (∀ e ∈ exampleMsg.options, e.1 < 256 ∧ DhcpWire.Octets e.2) ∧ DhcpWire.Octets exampleMsg.chaddr := by
  simp [exampleMsg, DhcpWire.Octets]

end Erbium.Props.C12
