import ErbiumModel.Model.DnsMux
import ErbiumModel.Lemmas.Cursor
/-!
# C07 — each DNS query gets exactly one reply, its own (the parts that are logic)

What tokio, the kernel and the network do is not modelled; what erbium *decides* is:
which waiter a message arriving on the shared upstream TCP connection is handed to, when a UDP
exchange gives up, and which source address a reply is sent from.  Those three are proved here for
every schedule, loss pattern and address; the end-to-end rig exercises the rest.
-/
namespace Erbium.Props.C07
open Erbium.Safe Erbium.DnsMux

/-! ### the upstream TCP multiplexer, under every interleaving -/

/-- wire ids in flight are pairwise distinct -/
def Uniq (m : Mux) : Prop := (m.table.map (·.wire)).Nodup

theorem freshId_spec (m : Mux) (start fuel : Nat) (id : Nat) (h : freshId m start fuel = some id) :
    inFlight m id = false ∧ id < 65536 := by
  induction fuel generalizing start with
  | zero => simp [freshId] at h
  | succ n ih =>
    unfold freshId at h
    split at h
    · exact ih _ h
    · rename_i hf
      cases h
      exact ⟨by simpa using hf, Nat.mod_lt _ (by decide)⟩

theorem not_inFlight_iff (m : Mux) (id : Nat) : inFlight m id = false ↔ id ∉ m.table.map (·.wire) := by
  unfold inFlight
  simp [List.any_eq_false]

theorem nodup_map_inj {α β : Type} (f : α → β) (l : List α) (h : (l.map f).Nodup) {a b : α} (ha : a ∈ l) (hb : b ∈ l)
    (hf : f a = f b) : a = b := by
  induction l with
  | nil => cases ha
  | cons x xs ih =>
    simp only [List.map_cons, List.nodup_cons, List.mem_map, not_exists, not_and] at h
    rcases List.mem_cons.mp ha with rfl | ha' <;> rcases List.mem_cons.mp hb with rfl | hb'
    · rfl
    · exact absurd hf.symm (h.1 b hb')
    · exact absurd hf (h.1 a ha')
    · exact ih h.2 ha' hb'

/-- **No schedule makes the multiplexer panic** (an id collision picks the next free id) **and ids stay distinct.** -/
theorem step_spec (m : Mux) (ev : Ev) (hu : Uniq m) : Post (step m ev) (fun r => Uniq r.1) := by
  cases ev with
  | submit w qid =>
    simp only [step, Generated.Net.muxFreshId, if_true]
    split
    · rename_i id hid
      have ⟨hnf, _⟩ := freshId_spec m qid 65536 id hid
      simp only [pure_eq, Post, Uniq, List.map_cons, List.nodup_cons]
      exact ⟨(not_inFlight_iff m id).mp hnf, hu⟩
    · simpa [Post] using hu
  | reply id =>
    simp only [step]
    split
    · simp only [pure_eq, Post, Uniq]
      exact List.Nodup.sublist (List.Sublist.map _ List.filter_sublist) hu
    · simpa [Post] using hu
  | garbage => simpa [step, Post] using hu
  | teardown => simp [step, Post, Uniq]

theorem C07_mux_never_panics (m : Mux) (evs : List Ev) (hu : Uniq m) : Post (run m evs) (fun r => Uniq r.1) := by
  induction evs generalizing m with
  | nil => simpa [run, Post] using hu
  | cons e es ih =>
    unfold run
    refine Post.bind (step_spec m e hu) ?_
    rintro ⟨m1, d1⟩ h1
    refine Post.bind (ih m1 h1) ?_
    rintro ⟨m2, d2⟩ h2
    exact h2

/-- what one step delivers, and to whom -/
theorem step_deliveries (m : Mux) (ev : Ev) (m' : Mux) (ds : List (Nat × Res)) (h : step m ev = .ok (m', ds)) (hu : Uniq m) :
    -- an answer goes to the waiter registered under the id the message carried, restored to the id that waiter chose
    (∀ w id q, (w, Res.answer id q) ∈ ds → ∃ e ∈ m.table, e.wire = id ∧ e.waiter = w ∧ e.orig = q ∧ ev = .reply id) ∧
    -- whoever is served leaves the table: nobody is served twice
    (∀ w r, (w, r) ∈ ds → (∃ e ∈ m.table, e.waiter = w ∧ e ∉ m'.table) ∨ (∃ q, ev = .submit w q ∧ r = .failed ∧ m' = m)) ∧
    -- everybody else stays registered exactly as before
    (∀ e ∈ m.table, e ∈ m'.table ∨ ∃ r, (e.waiter, r) ∈ ds) := by
  cases ev with
  | submit w qid =>
    simp only [step, Generated.Net.muxFreshId, if_true] at h
    split at h
    · cases h
      refine ⟨by simp, by simp, fun e he => Or.inl (List.mem_cons_of_mem _ he)⟩
    · cases h
      refine ⟨by simp, ?_, fun e he => Or.inl he⟩
      intro w' r hm
      simp only [List.mem_singleton, Prod.mk.injEq] at hm
      exact Or.inr ⟨qid, by rw [hm.1], hm.2, rfl⟩
  | reply id =>
    simp only [step] at h
    split at h
    · rename_i e he
      cases h
      have hem := List.mem_of_find?_eq_some he
      have hw : e.wire = id := by simpa using List.find?_some he
      refine ⟨?_, ?_, ?_⟩
      · intro w id' q hm
        simp only [List.mem_singleton, Prod.mk.injEq, Res.answer.injEq] at hm
        obtain ⟨rfl, rfl, rfl⟩ := hm
        exact ⟨e, hem, hw, rfl, rfl, rfl⟩
      · intro w r hm
        simp only [List.mem_singleton, Prod.mk.injEq] at hm
        refine Or.inl ⟨e, hem, hm.1.symm, ?_⟩
        simp [List.mem_filter, hw]
      · intro e' he'
        by_cases hww : e'.wire = id
        · -- same wire id as the served entry: by uniqueness it is that entry
          right
          have : e' = e := by
            have hnd := hu
            unfold Uniq at hnd
            exact nodup_map_inj _ _ hnd he' hem (by rw [hww, hw])
          subst this
          exact ⟨_, List.mem_singleton.mpr rfl⟩
        · left
          simp [List.mem_filter, he', hww]
    · cases h
      exact ⟨by simp, by simp, fun e he => Or.inl he⟩
  | garbage =>
    simp only [step] at h; cases h
    exact ⟨by simp, by simp, fun e he => Or.inl he⟩
  | teardown =>
    simp only [step] at h; cases h
    refine ⟨?_, ?_, ?_⟩
    · intro w id q hm
      simp only [List.mem_map, Prod.mk.injEq] at hm
      obtain ⟨e, _, _, hcontra⟩ := hm
      cases hcontra
    · intro w r hm
      simp only [List.mem_map, Prod.mk.injEq] at hm
      obtain ⟨e, he, hw, _⟩ := hm
      exact Or.inl ⟨e, he, hw, by simp⟩
    · intro e he
      exact Or.inr ⟨.failed, List.mem_map.mpr ⟨e, he, rfl⟩⟩

/-- a tear-down answers every waiting query (with a failure) and leaves nobody behind -/
theorem C07_teardown_serves_everybody (m : Mux) :
    ∃ ds, step m .teardown = .ok ({ table := [] }, ds) ∧ ∀ e ∈ m.table, (e.waiter, Res.failed) ∈ ds := by
  refine ⟨_, rfl, ?_⟩
  intro e he
  exact List.mem_map.mpr ⟨e, he, rfl⟩

/-! ### UDP retransmissions: bounded in number and in time -/

theorem timeouts_length (n t : Nat) (js : List Nat) : (timeouts n t js).length = n := by
  induction n generalizing t js with
  | zero => rfl
  | succ n ih => simp [timeouts, ih]

theorem worst_mono (n : Nat) {t t' : Nat} (h : t ≤ t') : worst n t ≤ worst n t' := by
  induction n generalizing t t' with
  | zero => simp [worst]
  | succ n ih =>
    simp only [worst]
    have : t + t / 2 + (t - 1) ≤ t' + t' / 2 + (t' - 1) := by
      have := Nat.div_le_div_right (c := 2) h
      omega
    have := ih this
    omega

/-- every timeout drawn is positive, so the jitter range `0..timeout` is never empty -/
theorem timeouts_positive (n t : Nat) (js : List Nat) (ht : 0 < t) : ∀ x ∈ timeouts n t js, 0 < x := by
  induction n generalizing t js with
  | zero => simp [timeouts]
  | succ n ih =>
    intro x hx
    simp only [timeouts, List.mem_cons] at hx
    rcases hx with rfl | hx
    · exact ht
    · exact ih (t + t / 2 + js.headD 0) js.tail (by omega) x hx

/-- jitters respect `jitter < timeout` at each step -/
def JittersOk : Nat → Nat → List Nat → Prop
  | 0, _, _ => True
  | n + 1, t, js => js.headD 0 < t ∧ JittersOk n (t + t / 2 + js.headD 0) js.tail

theorem total_le_worst (n t : Nat) (js : List Nat) (hj : JittersOk n t js) : (timeouts n t js).sum ≤ worst n t := by
  induction n generalizing t js with
  | zero => simp [timeouts, worst]
  | succ n ih =>
    simp only [timeouts, worst, List.sum_cons]
    obtain ⟨h1, h2⟩ := hj
    have := ih _ _ h2
    have hm : worst n (t + t / 2 + js.headD 0) ≤ worst n (t + t / 2 + (t - 1)) := worst_mono n (by omega)
    omega

/-- **A silent upstream costs at most `retryLimit + 1` transmissions and 50.734 s of waiting** (then
    `Timeout`, which `dns/mod.rs` turns into SERVFAIL), whatever the jitter and whatever the adaptive
    initial timeout has become (it is clamped to `[MIN, MAX]`). -/
theorem C07_silent_upstream_bounded (t0 : Nat) (js : List Nat) (ht : t0 ≤ Generated.Dns.maxDnsTimeoutMs)
    (hj : JittersOk (transmissions Generated.Dns.retryLimit) t0 js) :
    (timeouts (transmissions Generated.Dns.retryLimit) t0 js).length = Generated.Dns.retryLimit + 1 ∧
    (timeouts (transmissions Generated.Dns.retryLimit) t0 js).sum ≤ 50734 := by
  refine ⟨timeouts_length _ _ _, ?_⟩
  calc (timeouts (transmissions Generated.Dns.retryLimit) t0 js).sum
      ≤ worst (transmissions Generated.Dns.retryLimit) t0 := total_le_worst _ _ _ hj
    _ ≤ worst (transmissions Generated.Dns.retryLimit) Generated.Dns.maxDnsTimeoutMs := worst_mono _ ht
    _ = 50734 := by decide

/-- the adaptive timeout stays within its bounds whatever the measured durations were, and is positive -/
theorem C07_adaptive_timeout_clamped (x : Nat) :
    Generated.Dns.minDnsTimeoutMs ≤ clamp x ∧ clamp x ≤ Generated.Dns.maxDnsTimeoutMs ∧ 0 < clamp x := by
  unfold clamp
  have h1 : Generated.Dns.minDnsTimeoutMs = 300 := rfl
  have h2 : Generated.Dns.maxDnsTimeoutMs = 2000 := rfl
  rw [h1, h2]
  omega

/-- whatever the measurements were, what is *stored* as the next initial timeout is within the bounds
    (so the hypothesis `t0 ≤ MAX` of `C07_silent_upstream_bounded` holds of every exchange) -/
theorem C07_stored_timeout_bounded (computed : Nat) :
    Generated.Dns.minDnsTimeoutMs ≤ storedTimeout computed ∧ storedTimeout computed ≤ Generated.Dns.maxDnsTimeoutMs := by
  unfold storedTimeout
  simp only [Generated.Net.timeoutUpdatesClamped, if_true]
  exact ⟨(C07_adaptive_timeout_clamped computed).1, (C07_adaptive_timeout_clamped computed).2.1⟩

/-- a connection opened at `now` is not torn down by either idle watchdog during its first 120 s, however old the
    timestamps of the connection it replaces -/
theorem C07_fresh_connection_survives (old : Timers) (now t : Nat) (h1 : now ≤ t) (h2 : t < now + 120) :
    watchdogFires (connect now old) t = false := by
  unfold watchdogFires connect
  simp only [Generated.Net.muxConnectResetsTimers, if_true, Generated.Net.muxIdleSeconds]
  simp; omega

/-! ### the source address of the reply -/

/-- **The address handed to `sendmsg` as source is, octet for octet in memory, the address the query
    was sent to** — on little- and big-endian hosts alike. -/
theorem C07_reply_source_image (le : Bool) (a b c d : Nat) (ha : a < 256) (hb : b < 256) (hc : c < 256) (hd : d < 256) :
    memImage le (inAddr le a b c d) = [a, b, c, d] := by
  unfold memImage inAddr
  simp only [Generated.Net.inAddrFromNeBytes, if_true]
  cases le
  · simp only [Bool.false_eq_true, if_false]
    have e1 : (((a * 256 + b) * 256 + c) * 256 + d) / 16777216 % 256 = a := by omega
    have e2 : (((a * 256 + b) * 256 + c) * 256 + d) / 65536 % 256 = b := by omega
    have e3 : (((a * 256 + b) * 256 + c) * 256 + d) / 256 % 256 = c := by omega
    have e4 : (((a * 256 + b) * 256 + c) * 256 + d) % 256 = d := by omega
    rw [e1, e2, e3, e4]
  · simp only [if_true]
    have e1 : (((d * 256 + c) * 256 + b) * 256 + a) / 16777216 % 256 = d := by omega
    have e2 : (((d * 256 + c) * 256 + b) * 256 + a) / 65536 % 256 = c := by omega
    have e3 : (((d * 256 + c) * 256 + b) * 256 + a) / 256 % 256 = b := by omega
    have e4 : (((d * 256 + c) * 256 + b) * 256 + a) % 256 = a := by omega
    rw [e1, e2, e3, e4]
    rfl

/-! non-vacuity -/
-- two queries that drew the same id: the second gets the next free id, each reply goes to its own waiter with its own id back
example : (match run {} [.submit 1 7, .submit 2 7, .reply 8, .reply 7, .reply 7] with
    | .ok (m, ds) => m.table.isEmpty && ds == [(2, .answer 8 7), (1, .answer 7 7)]
    | _ => false) = true := by decide
-- the big-endian fold on a little-endian host is the reversed address (what the code did)
example : memImage true (((127 * 256 + 0) * 256 + 0) * 256 + 1) = [1, 0, 0, 127] := by decide

end Erbium.Props.C07
