import ErbiumModel.Model.DnsRoute
/-! # C15 — DNS routes: longest matching suffix wins, regardless of order and case -/
namespace Erbium.Props.C15
open Erbium Erbium.DnsRoute

/-! ### the specification: label-wise, ASCII case-insensitive suffix -/
def Matches (q s : Name) : Prop := ∃ pre, lowerName q = pre ++ lowerName s

theorem zip_all_eq {a b : List Label} (hl : a.length = b.length) :
    (a.zip b).all (fun (x, y) => labelEq x y) = true ↔ lowerName a = lowerName b := by
  induction a generalizing b with
  | nil => cases b <;> simp_all [lowerName]
  | cons x xs ih =>
    cases b with
    | nil => simp at hl
    | cons y ys =>
      simp only [List.length_cons, Nat.add_right_cancel_iff] at hl
      have := ih hl
      simp only [lowerName] at this
      simp only [List.zip_cons_cons, List.all_cons, Bool.and_eq_true, lowerName, List.map_cons,
                 List.cons.injEq, labelEq, beq_iff_eq]
      simp only [labelEq] at this
      rw [this]

/-- the coded suffix test is the specification -/
theorem endsWith_iff (q s : Name) : endsWith q s = true ↔ Matches q s := by
  unfold endsWith Matches
  constructor
  · intro h
    simp only [Bool.and_eq_true, decide_eq_true_eq] at h
    obtain ⟨hlen, hall⟩ := h
    have hl : (q.drop (q.length - s.length)).length = s.length := by simp only [List.length_drop]; omega
    have := (zip_all_eq hl).mp hall
    refine ⟨lowerName (q.take (q.length - s.length)), ?_⟩
    rw [← this]
    unfold lowerName
    rw [← List.map_append, List.take_append_drop]
  · rintro ⟨pre, hpre⟩
    have hlen : (lowerName q).length = pre.length + (lowerName s).length := by rw [hpre]; simp
    have hq : (lowerName q).length = q.length := by simp [lowerName]
    have hs : (lowerName s).length = s.length := by simp [lowerName]
    have hle : s.length ≤ q.length := by omega
    simp only [Bool.and_eq_true, decide_eq_true_eq]
    refine ⟨hle, ?_⟩
    have hl : (q.drop (q.length - s.length)).length = s.length := by simp only [List.length_drop]; omega
    rw [zip_all_eq hl]
    have hd : lowerName (q.drop (q.length - s.length)) = (lowerName q).drop (q.length - s.length) := by
      simp [lowerName, List.map_drop]
    rw [hd, hpre]
    have : q.length - s.length = pre.length := by omega
    rw [this, List.drop_left]

/-- invariant of the scan over the pairs processed so far -/
def Best (q : Name) (done : List (Nat × Name)) : Option (Nat × Name) → Prop
  | none => ∀ p ∈ done, endsWith q p.2 = false
  | some b => b ∈ done ∧ endsWith q b.2 = true ∧ ∀ p ∈ done, endsWith q p.2 = true → p.2.length ≤ b.2.length

theorem best_step (q : Name) (done : List (Nat × Name)) (best : Option (Nat × Name)) (p : Nat × Name)
    (h : Best q done best) : Best q (done ++ [p]) (stepBest q best p) := by
  unfold stepBest
  by_cases hm : endsWith q p.2 = true
  · simp only [hm, if_true]
    cases best with
    | none =>
      refine ⟨by simp, hm, ?_⟩
      intro p' hp' hm'
      rcases List.mem_append.mp hp' with hp' | hp'
      · have := h p' hp'; rw [this] at hm'; cases hm'
      · simp at hp'; subst hp'; exact Nat.le_refl _
    | some b =>
      obtain ⟨hb, hbm, hmax⟩ := h
      simp only
      by_cases hbt : better b.2 p.2 = true
      · simp only [hbt, if_true]
        have hlen : b.2.length ≤ p.2.length := by
          unfold better at hbt
          simp only [Bool.or_eq_true, decide_eq_true_eq, Bool.and_eq_true, beq_iff_eq] at hbt
          omega
        refine ⟨by simp, hm, ?_⟩
        intro p' hp' hm'
        rcases List.mem_append.mp hp' with hp' | hp'
        · exact Nat.le_trans (hmax p' hp' hm') hlen
        · simp at hp'; subst hp'; exact Nat.le_refl _
      · simp only [hbt, Bool.false_eq_true, if_false]
        have hlen : p.2.length ≤ b.2.length := by
          unfold better at hbt
          simp only [Bool.or_eq_true, decide_eq_true_eq, Bool.and_eq_true, beq_iff_eq, not_or, not_and] at hbt
          omega
        refine ⟨by simp [hb], hbm, ?_⟩
        intro p' hp' hm'
        rcases List.mem_append.mp hp' with hp' | hp'
        · exact hmax p' hp' hm'
        · simp at hp'; subst hp'; exact hlen
  · simp only [hm, Bool.false_eq_true, if_false]
    have hmf : endsWith q p.2 = false := by simpa using hm
    cases best with
    | none =>
      intro p' hp'
      rcases List.mem_append.mp hp' with hp' | hp'
      · exact h p' hp'
      · simp at hp'; subst hp'; exact hmf
    | some b =>
      obtain ⟨hb, hbm, hmax⟩ := h
      refine ⟨by simp [hb], hbm, ?_⟩
      intro p' hp' hm'
      rcases List.mem_append.mp hp' with hp' | hp'
      · exact hmax p' hp' hm'
      · simp at hp'; subst hp'; rw [hmf] at hm'; cases hm'

theorem best_fold (q : Name) (todo done : List (Nat × Name)) (best : Option (Nat × Name))
    (h : Best q done best) : Best q (done ++ todo) (todo.foldl (stepBest q) best) := by
  induction todo generalizing done best with
  | nil => simpa using h
  | cons p ps ih =>
    simp only [List.foldl_cons]
    have := ih (done ++ [p]) _ (best_step q done best p h)
    simpa using this

theorem mem_pairs (table : List Route) (i : Nat) (p : Nat × Name) :
    p ∈ pairs i table ↔ ∃ r, table[p.1 - i]? = some r ∧ i ≤ p.1 ∧ p.2 ∈ r.suffixes := by
  induction table generalizing i with
  | nil => simp [pairs]
  | cons r rs ih =>
    simp only [pairs, List.mem_append, List.mem_map, ih]
    constructor
    · rintro (⟨s, hs, rfl⟩ | ⟨r', hr', hi, hs⟩)
      · exact ⟨r, by simp, Nat.le_refl _, hs⟩
      · refine ⟨r', ?_, by omega, hs⟩
        have : p.1 - i = (p.1 - (i + 1)) + 1 := by omega
        rw [this]; simpa using hr'
    · rintro ⟨r', hr', hi, hs⟩
      by_cases hpi : p.1 = i
      · left
        have : p.1 - i = 0 := by omega
        rw [this] at hr'
        simp at hr'; subst hr'
        exact ⟨p.2, hs, by cases p; simp_all⟩
      · right
        refine ⟨r', ?_, by omega, hs⟩
        have : p.1 - i = (p.1 - (i + 1)) + 1 := by omega
        rw [this] at hr'; simpa using hr'

/-- **C15 (longest suffix wins).** For every route table and query name the selected route owns a
    suffix that the name ends with (whole labels, ASCII case-insensitive), and no suffix of any
    route that the name ends with has more labels; nothing is selected iff no suffix matches. -/
theorem C15_longest_matching_suffix (table : List Route) (q : Name) :
    match select table q with
    | none => ∀ r ∈ table, ∀ s ∈ r.suffixes, ¬ Matches q s
    | some (i, s) =>
      (∃ r, table[i]? = some r ∧ s ∈ r.suffixes) ∧ Matches q s ∧
      ∀ r ∈ table, ∀ s' ∈ r.suffixes, Matches q s' → s'.length ≤ s.length := by
  have hb := best_fold q (pairs 0 table) [] none (by intro p hp; cases hp)
  simp only [List.nil_append] at hb
  have hall : ∀ r ∈ table, ∀ s' ∈ r.suffixes, ∃ i, (i, s') ∈ pairs 0 table := by
    intro r hr s' hs'
    obtain ⟨i, hi⟩ := List.getElem?_of_mem hr
    exact ⟨i, (mem_pairs table 0 (i, s')).mpr ⟨r, by simpa using hi, Nat.zero_le _, hs'⟩⟩
  unfold select
  cases hsel : (pairs 0 table).foldl (stepBest q) none with
  | none =>
    rw [hsel] at hb
    intro r hr s hs hm
    obtain ⟨i, hi⟩ := hall r hr s hs
    have := hb (i, s) hi
    rw [(endsWith_iff q s).mpr hm] at this; cases this
  | some b =>
    obtain ⟨i, s⟩ := b
    rw [hsel] at hb
    obtain ⟨hmem, hm, hmax⟩ := hb
    obtain ⟨r, hr, _, hs⟩ := (mem_pairs table 0 (i, s)).mp hmem
    refine ⟨⟨r, by simpa using hr, hs⟩, (endsWith_iff q s).mp hm, ?_⟩
    intro r' hr' s' hs' hm'
    obtain ⟨i', hi'⟩ := hall r' hr' s' hs'
    exact hmax (i', s') hi' ((endsWith_iff q s').mpr hm')

/-- the action taken is the action of a route owning a longest matching suffix -/
theorem route_action (table : List Route) (q : Name) (rd : Bool) :
    (route table q rd = .servfail ∧ ∀ r ∈ table, ∀ s ∈ r.suffixes, ¬ Matches q s) ∨
    ∃ r ∈ table, ∃ s ∈ r.suffixes, Matches q s ∧
      (∀ r' ∈ table, ∀ s' ∈ r'.suffixes, Matches q s' → s'.length ≤ s.length) ∧
      route table q rd = outcomeOf r.action rd := by
  have h := C15_longest_matching_suffix table q
  unfold route
  cases hsel : select table q with
  | none => rw [hsel] at h; left; exact ⟨rfl, h⟩
  | some b =>
    obtain ⟨i, s⟩ := b
    rw [hsel] at h
    obtain ⟨⟨r, hr, hs⟩, hm, hmax⟩ := h
    right
    refine ⟨r, List.mem_of_getElem? hr, s, hs, hm, hmax, ?_⟩
    simp [hr]

/-- **C15 (order independence).** Two tables that assign the same actions to the same suffixes —
    routes and suffixes written in any order, split or merged differently — give the same outcome
    for every name, provided the longest matching suffixes are not claimed by routes with
    different actions (the one case the statement leaves open). -/
theorem C15_order_independent (t1 t2 : List Route) (q : Name) (rd : Bool)
    (hsame : ∀ a s, (∃ r ∈ t1, r.action = a ∧ s ∈ r.suffixes) ↔ (∃ r ∈ t2, r.action = a ∧ s ∈ r.suffixes))
    (hunamb : ∀ r ∈ t1, ∀ s ∈ r.suffixes, ∀ r' ∈ t1, ∀ s' ∈ r'.suffixes,
      Matches q s → Matches q s' → s.length = s'.length → r.action = r'.action) :
    route t1 q rd = route t2 q rd := by
  rcases route_action t1 q rd with ⟨h1, hn1⟩ | ⟨r1, hr1, s1, hs1, hm1, hmax1, ho1⟩
  · rcases route_action t2 q rd with ⟨h2, _⟩ | ⟨r2, hr2, s2, hs2, hm2, _, _⟩
    · rw [h1, h2]
    · obtain ⟨r, hr, _, hs⟩ := (hsame r2.action s2).mpr ⟨r2, hr2, rfl, hs2⟩
      exact absurd hm2 (hn1 r hr s2 hs)
  · rcases route_action t2 q rd with ⟨_, hn2⟩ | ⟨r2, hr2, s2, hs2, hm2, hmax2, ho2⟩
    · obtain ⟨r, hr, _, hs⟩ := (hsame r1.action s1).mp ⟨r1, hr1, rfl, hs1⟩
      exact absurd hm1 (hn2 r hr s1 hs)
    · -- both selected suffixes are longest matching ones; bring r2's pair into t1
      obtain ⟨r2', hr2', ha2', hs2'⟩ := (hsame r2.action s2).mpr ⟨r2, hr2, rfl, hs2⟩
      obtain ⟨r1', hr1', _, hs1'⟩ := (hsame r1.action s1).mp ⟨r1, hr1, rfl, hs1⟩
      have hl1 : s2.length ≤ s1.length := hmax1 r2' hr2' s2 hs2' hm2
      have hl2 : s1.length ≤ s2.length := hmax2 r1' hr1' s1 hs1' hm1
      have := hunamb r1 hr1 s1 hs1 r2' hr2' s2 hs2' hm1 hm2 (by omega)
      rw [ho1, ho2, this, ha2']

/-- **C15 (case independence).** Changing the ASCII case of any letters of the query name does
    not change the selection. -/
theorem C15_case_independent (table : List Route) (q q' : Name) (h : lowerName q = lowerName q') :
    select table q = select table q' := by
  have he : ∀ s, endsWith q s = endsWith q' s := by
    intro s
    have : (endsWith q s = true) ↔ (endsWith q' s = true) := by
      rw [endsWith_iff, endsWith_iff]; unfold Matches; rw [h]
    cases h1 : endsWith q s <;> cases h2 : endsWith q' s <;> simp_all
  unfold select
  congr 1
  funext best p
  unfold stepBest
  rw [he]

/-- **C15 (actions).** forge-nxdomain ⇒ NXDOMAIN and never upstream; forward ⇒ only that route's
    first server and only with RD; (no route ⇒ SERVFAIL is `route_action`). -/
theorem C15_actions (a : Action) (rd : Bool) :
    (a = .forgeNxDomain → outcomeOf a rd = .nxdomain) ∧
    (∀ servers, a = .forward servers → rd = false → outcomeOf a rd = .refused) ∧
    (∀ s ss, a = .forward (s :: ss) → rd = true → outcomeOf a rd = .upstream s) ∧
    (∀ srv, outcomeOf a rd = .upstream srv → ∃ ss, a = .forward (srv :: ss) ∧ rd = true) := by
  refine ⟨?_, ?_, ?_, ?_⟩
  · rintro rfl; rfl
  · rintro servers rfl rfl; rfl
  · rintro s ss rfl rfl; rfl
  · intro srv h
    cases a with
    | forgeNxDomain => simp [outcomeOf] at h
    | forward servers =>
      cases rd <;> cases servers <;> simp [outcomeOf] at h
      rename_i s ss; subst h; exact ⟨ss, rfl, rfl⟩

/-! Non-vacuity: `INVALID` under a forge-nxdomain route for `invalid`, with a catch-all forward route -/
def exTable : List Route := [⟨[[]], .forward [8]⟩ , ⟨[[[105, 110, 118, 97, 108, 105, 100]]], .forgeNxDomain⟩]
example : route exTable [[120], [73, 78, 86, 65, 76, 73, 68]] true = .nxdomain := by decide
example : route exTable [[120], [99, 111, 109]] true = .upstream 8 := by decide
example : route exTable.reverse [[120], [73, 78, 86, 65, 76, 73, 68]] true = .nxdomain := by decide

end Erbium.Props.C15
