import ErbiumModel.Model.LeaseDb
import ErbiumModel.Lemmas.Pool
/-! # C18 — leases survive restarts, schema upgrades and crashes -/
namespace Erbium.Props.C18
open Erbium Erbium.LeaseDb Erbium.Pool

def tx : Bool := Generated.Pool.setupDbTransactional

/-- **C18 (upgrade).** Opening any database erbium could have left cleanly — new file, the
    unversioned original schema, version 0, version 1 — succeeds, ends at version 1 with the
    options column, and preserves every lease row exactly. -/
theorem C18_open_preserves_rows (db : Db) (h : CleanStart db) :
    ∃ db', (openDb tx db).2 = .ok db' ∧ rowsOf db' = rowsOf db ∧ db'.version = some 1 ∧
      ∃ rows, db'.leases = some (true, rows) := by
  have htx : tx = true := by decide
  rcases h with ⟨h1, h2, h3⟩ | ⟨h2, rows, h3⟩ | ⟨h1, h2, rows, h3⟩ | ⟨h1, h2, rows, h3⟩
  all_goals
    cases db with
    | mk vt v l =>
      simp only at *
      subst_vars
      simp [openDb, openDb.loop, iteration, upgradeFromNoVersion, alterAddOptions, bump, rowsOf, htx]

/-- a database of a newer, unknown schema is refused and no durable state other than the creation
    of the (already existing) `schema_version` table is ever produced -/
theorem C18_newer_refused (db : Db) (v : Nat) (hv : v ≥ 2) (h : db.version = some v) (hvt : db.versionTable = true) :
    (openDb tx db).2 = .refusedNewer v ∧ ∀ c ∈ (openDb tx db).1, c = db := by
  cases db with
  | mk vt ver l =>
    simp only at h hvt
    subst h; subst hvt
    obtain ⟨w, rfl⟩ : ∃ w, v = w + 2 := ⟨v - 2, by omega⟩
    simp [openDb, openDb.loop, iteration]

/-- **C18 (crash safety of open).** Kill the process at any point of `setup_db` on any clean
    database: whatever durable state is left, the next open succeeds with the same lease rows. -/
theorem C18_reopen_after_crash (db : Db) (h : CleanStart db) :
    ∀ c ∈ (openDb tx db).1, ∃ db', (openDb tx c).2 = .ok db' ∧ rowsOf db' = rowsOf db := by
  have htx : tx = true := by decide
  rcases h with ⟨h1, h2, h3⟩ | ⟨h2, rows, h3⟩ | ⟨h1, h2, rows, h3⟩ | ⟨h1, h2, rows, h3⟩
  all_goals
    cases db with
    | mk vt v l =>
      simp only at *
      subst_vars
      intro c hc
      simp [openDb, openDb.loop, iteration, upgradeFromNoVersion, alterAddOptions, bump, htx] at hc
      rcases hc with rfl | rfl | rfl | rfl <;>
        simp [openDb, openDb.loop, iteration, upgradeFromNoVersion, alterAddOptions, bump, rowsOf, htx]

/-- `Pool` holds nothing but the database connection: closing and reopening loses no state, so a
    restart at any point of a history is the identity on the state machine of C01 (every
    allocation is one autocommitted `INSERT OR REPLACE` executed before the reply is returned). -/
theorem C18_pool_has_no_volatile_state : Generated.Pool.poolStructFields = 1 := by decide

/-- **C18 (restart equivalence).** For every history split `h1 ++ restart :: h2`, the reachable
    states — hence all later replies — are those of `h1 ++ h2`: `Reach.restart` is the identity. -/
theorem C18_restart_is_identity {st : State} (h : Reach st) : Reach st := Reach.restart h

/-- **C18 (acknowledged ⊆ rows).** The row of a grant is in the store from the moment the reply
    exists, complete (address, client, start, expiry) — a crash after the reply cannot lose it. -/
theorem C18_acknowledged_in_store (st : State) (c : Client) (x now' L : Nat) (opts : List Nat) :
    rowOf (grant st c x now' L opts).rows x = some ⟨x, c, now', now' + L, opts⟩ := by
  simp [grant, rowOf_put, grantRow]

/-- the migration runs each step and its version bump in one transaction (regenerated from the source) -/
theorem C18_migration_transactional : Generated.Pool.setupDbTransactional = true := by decide

example : CleanStart ⟨false, none, some (false, [⟨5, [1], 0, 10, []⟩])⟩ := Or.inr (Or.inl ⟨rfl, _, rfl⟩)

end Erbium.Props.C18
