import ErbiumModel.Lemmas.DnsTree
/-! # C14 — DNS messages survive decode/encode unchanged, including name compression -/
namespace Erbium.Props.C14
open Erbium Erbium.DnsWire

/-- **C14 (names).** Whatever has been written into the message so far (any sequence of names and
    records, summarised by a valid offsets tree), a name of at most 127 labels of 1..63 octets
    that `push_compressed_domain` writes next — in full, as labels followed by a pointer, or as a
    single pointer — is read back by the decoder as exactly that name, the decoder continues
    right behind it, and the tree stays valid for the longer message. Holds for messages up to
    65535 octets. -/
theorem C14_name_roundtrip (d : Name) (hd : WfName d) (hlen : d.length ≤ 127) (t t' : Tree) (pre bytes : Bytes)
    (h : pushName d t pre.length = some (bytes, t')) (ht : RootOK pre t)
    (hsz : pre.length + bytes.length < 65536) :
    (∀ post, getDomain (pre ++ bytes ++ post) pre.length = .ok (d, pre.length + bytes.length)) ∧
    RootOK (pre ++ bytes) t' :=
  pushName_spec d hd (by unfold limit; simpa [Generated.Dns.pointerDepthLimit] using hlen) t t' pre bytes h ht hsz

/-- the empty tree the serialiser starts from is valid for any buffer -/
theorem C14_initial_tree_valid (buf : Bytes) : RootOK buf root := rootOK_root buf

/-- **C14 (pointers).** Every node a pointer may target has an offset below 16384 that lies
    inside the message written so far (so pointers point backwards), and the two pointer octets
    are `0xC0 | offset >> 8`, `offset & 0xff`. -/
theorem C14_pointer_targets (node : Option Tree) (label : Label) (i : Nat) (c : Tree) (buf : Bytes) (suf : Name)
    (h : findChild node label = some (i, c)) (hv : Valid buf suf node) :
    c.data < 16384 ∧ c.data < buf.length ∧ pointerBytes c.data = some [192 + c.data / 256, c.data % 256] := by
  obtain ⟨n, rfl, hci, _, hcd⟩ := findChild_spec h
  have hok := hv c (List.mem_of_getElem? hci)
  have hp := pointerBytes_ok hcd
  have hl : ptrLimit = 16384 := by decide
  refine ⟨by omega, ?_, hp.1⟩
  rw [Tree.eta c] at hok
  cases hok with
  | mk _ _ _ _ hdec _ =>
    obtain ⟨o, ho⟩ := hdec hcd
    exact ho.lt_length

/-- the decoder's loop guard is the number of labels a name can have (regenerated from the source) -/
theorem C14_depth_limit : Generated.Dns.pointerDepthLimit = 127 ∧ Generated.Dns.pointerLimit = 16384 := by decide

/-! Non-vacuity: `www.example.com` after `example.com` is written as `www` + pointer and decodes back. -/
def ex1 : Name := [[101, 120], [99]]
def ex2 : Name := [[119], [101, 120], [99]]
example : (match pushName ex1 root 12 with
    | some (b1, t1) =>
      match pushName ex2 t1 (12 + b1.length) with
      | some (b2, _) =>
        b2 == [1, 119, 192, 12] &&
        (match getDomain (List.replicate 12 0 ++ b1 ++ b2) (12 + b1.length) with
         | .ok (n, o) => n == ex2 && o == 12 + b1.length + 4
         | .error _ => false)
      | none => false
    | none => false) = true := by decide

end Erbium.Props.C14
