import ErbiumModel.Lemmas.DnsTree
import ErbiumModel.Lemmas.DnsMessage
import ErbiumModel.Lemmas.DnsTotal
import ErbiumModel.Lemmas.DnsDecoded
import ErbiumModel.Props.C04
/-! # C14 — DNS messages survive decode/encode unchanged, including name compression -/
namespace Erbium.Props.C14
open Erbium Erbium.DnsWire

/-- **C14 (names).** Whatever has been written into the message so far (any sequence of names and
    records, summarised by a valid offsets tree), a name of at most 255 octets (RFC 1035; hence at most 127 labels) with labels of 1..63 octets
    that `push_compressed_domain` writes next — in full, as labels followed by a pointer, or as a
    single pointer — is read back by the decoder as exactly that name, the decoder continues
    right behind it, and the tree stays valid for the longer message. Holds for messages up to
    65535 octets. -/
theorem C14_name_roundtrip (d : Name) (hd : WfName d) (hw : wireLen d ≤ 255) (t t' : Tree) (pre bytes : Bytes)
    (h : pushName d t pre.length = some (bytes, t')) (ht : RootOK pre t)
    (hsz : pre.length + bytes.length < 65536) :
    (∀ post, getDomain (pre ++ bytes ++ post) pre.length = .ok (d, pre.length + bytes.length)) ∧
    RootOK (pre ++ bytes) t' :=
  pushName_spec d hd (by have := wireLen_ge hd; unfold limit; simp only [Generated.Dns.pointerDepthLimit]; omega)
    (by simpa [Generated.Dns.nameOctetLimit] using hw) t t' pre bytes h ht hsz

/-- the empty tree the serialiser starts from is valid for any buffer -/
theorem C14_initial_tree_valid (buf : Bytes) : RootOK buf root := rootOK_root buf

/-- **C14 (pointers).** Every node a pointer may target has an offset below 16384 that lies
    inside the message written so far (so pointers point backwards), and the two pointer octets
    are `0xC0 | offset >> 8`, `offset & 0xff`. -/
theorem C14_pointer_targets (node : Option Tree) (label : Label) (i : Nat) (c : Tree) (buf : Bytes) (suf : Name)
    (h : findChild node label = some (i, c)) (hv : Valid buf suf node) :
    c.data < 16384 ∧ c.data < buf.length ∧ pointerBytes c.data = some [192 + c.data / 256, c.data % 256] := by
  obtain ⟨n, rfl, hci, _, hcd⟩ := findChild_spec h
  have hok := hv c (List.mem_of_getElem? hci)
  have hp := pointerBytes_ok hcd
  have hl : ptrLimit = 16384 := by decide
  refine ⟨by omega, ?_, hp.1⟩
  rw [Tree.eta c] at hok
  cases hok with
  | mk _ _ _ _ hdec _ =>
    obtain ⟨o, ho⟩ := hdec hcd
    exact ho.lt_length

/-- the decoder's loop guard is the number of labels a name can have (regenerated from the source) -/
theorem C14_depth_limit : Generated.Dns.pointerDepthLimit = 127 ∧ Generated.Dns.pointerLimit = 16384 := by decide

/-- **C14 (records).** For every record type — names in owner position and inside record data alike,
    each compressed against everything written before — what `push_rr` appends at `off` is read
    back by `get_rr` as the identical record, the decoder continues right behind it and the offsets
    tree stays valid. `RROK` = the record is one the decoder can produce (field widths, data matching
    the type, names of at most 127 labels of 1..63 octets). -/
theorem C14_record_roundtrip (rr : RR) (hok : RROK rr) (t t' : Tree) (buf b : Bytes) (off : Nat)
    (h : pushRR rr t off = some (b, t')) (hat : At buf off b) (ht : RootOK (buf.take off) t)
    (hsz : off + b.length < 65536) :
    getRR buf off = .ok (rr, off + b.length) ∧ RootOK (buf.take (off + b.length)) t' :=
  rr_at rr hok h hat ht hsz

/-- **C14 (sections).** Any list of records written without truncation is read back in order. -/
theorem C14_section_roundtrip (size : Nat) (trunc : Bool) (rrs : List RR) (hok : ∀ rr ∈ rrs, RROK rr)
    (buf : Bytes) (t : Tree) (n : Nat) (buf' : Bytes) (t' : Tree) (n' : Nat)
    (h : pushSection size rrs buf t n = some (buf', t', n', false)) (ht : RootOK buf t) (hsz : buf'.length < 65536) :
    n' = n + rrs.length ∧ (∀ post, getRRs (buf' ++ post) trunc rrs.length buf.length = .ok (rrs, buf'.length)) ∧
    RootOK buf' t' :=
  let r := section_at size trunc rrs hok buf t n buf' t' n' h ht hsz
  ⟨r.2.1, r.2.2.1, r.2.2.2⟩

/-- **C14 (messages).** Every message of the shape the decoder produces (`WfPkt`), when it is written
    completely (no section stopped early) into at most 65535 octets, is decoded back to the
    identical message: header bits, opcode, extended rcode, EDNS version/size/DO/options, question
    and every record of every section. -/
theorem C14_message_roundtrip (p : Pkt) (hw : WfPkt p) (size : Nat) (wire : Bytes) (hs : 512 ≤ size)
    (hc : Complete p size wire) (hsz : wire.length < 65536) :
    serialiseWithSize p size = some wire ∧ parse wire = .ok p :=
  ⟨complete_serialise p size wire hs hw.rcode hc, message_roundtrip p hw size wire hc hsz⟩

/-- **C14 (the encoder is total).** For every message that meets exactly what the encoder asserts
    (`PktEnc`: labels of 1..63 octets, character strings below 256 octets, SOA/OPT data only under their own
    type, opaque data below 65536 octets, rcode below 4096) and every limit ≥ 512, `serialise_with_size`
    returns: no assertion, `unwrap`, `unreachable!` or overflow check below it can fire — for messages of
    any size, also when the octets written pass 64 KiB before truncation (there the recorded offsets
    saturate, `Generated.Dns.offsetSaturates`, so they are never zero and never wrap into pointer range). -/
theorem C14_encode_total (p : Pkt) (hp : PktEnc p) (size : Nat) (hs : 512 ≤ size) :
    ∃ wire, serialiseWithSize p size = some wire :=
  serialise_total (by decide) p hp size hs

/-- an offset a pointer cannot express is never recorded as one it can (beyond 16 KiB and beyond 64 KiB alike) -/
theorem C14_unreachable_offsets_stay_unreachable (off : Nat) (h : Generated.Dns.pointerLimit ≤ off) :
    Generated.Dns.pointerLimit ≤ storeOff off :=
  storeOff_ge (by decide) h (by decide)

/-- **C14 (whatever the decoder accepts).** Every message the decoder returns for a string of octets has the
    shape the round-trip theorem is about (`WfPkt`: names within 255 octets with labels of 1..63, fields within
    their wire width, record data of the variant that belongs to the type, EDNS fields consistent). -/
theorem C14_decoded_is_wellformed (b : Bytes) (hb : Octets b) (m : Pkt) (h : parse b = .ok m) : WfPkt m :=
  (parse_wf hb h).1

/-- **C14 (decode, encode).** Whatever the decoder accepts is written again without a panic, at every limit. -/
theorem C14_decoded_reencodes (b : Bytes) (hb : Octets b) (m : Pkt) (h : parse b = .ok m) (size : Nat) (hs : 512 ≤ size) :
    ∃ wire, serialiseWithSize m size = some wire :=
  let w := parse_wf hb h
  serialise_total (by decide) m (pktenc_of_wf w.1 w.2) size hs

/-- **C14 (decode, encode, decode) — the first quantifier of the property.** For every string of octets `b` the
    decoder accepts as `m`: when `m` is written completely into at most 65535 octets, those octets decode to `m`
    again — identical header bits, extended rcode, EDNS version/size/DO/options, question and records. -/
theorem C14_decoded_roundtrip (b : Bytes) (hb : Octets b) (m : Pkt) (h : parse b = .ok m)
    (size : Nat) (wire : Bytes) (hc : Complete m size wire) (hsz : wire.length < 65536) :
    parse wire = .ok m :=
  message_roundtrip m (parse_wf hb h).1 size wire hc hsz

/-- **C14 (decode, encode, decode — with no hypothesis on the encoding).** For every string of octets `b` the decoder
    accepts as `m` and every limit from 512 to 65535: the re-encoding **exists** (no panic), is **no longer than the
    limit**, and **decodes** — to `m` itself, or (only when `m` does not fit the limit) to `m` cut at a record boundary
    from the end with TC set. -/
theorem C14_decode_encode_decode (b : Bytes) (hb : Octets b) (m : Pkt) (h : parse b = .ok m)
    (size : Nat) (hs : 512 ≤ size) (hs2 : size < 65536) :
    ∃ wire, serialiseWithSize m size = some wire ∧ wire.length ≤ size ∧
      (parse wire = .ok m ∨ ∃ ka kn kd, CutAt m ka kn kd ∧ parse wire = .ok (truncated m ka kn kd)) := by
  have w := parse_wf hb h
  obtain ⟨wire, hw⟩ := serialise_total (by decide) m (pktenc_of_wf w.1 w.2) size hs
  have hlen : wire.length ≤ size :=
    Props.C04.C04_never_exceeds_limit m size wire hw (Props.C04.question_fits m w.1.qname size hs)
  exact ⟨wire, hw, hlen, Props.C04.C04_every_response_decodes m w.1 size hs wire hw (by omega)⟩

/-! Non-vacuity: `www.example.com` after `example.com` is written as `www` + pointer and decodes back. -/
def ex1 : Name := [[101, 120], [99]]
def ex2 : Name := [[119], [101, 120], [99]]
example : (match pushName ex1 root 12 with
    | some (b1, t1) =>
      match pushName ex2 t1 (12 + b1.length) with
      | some (b2, _) =>
        b2 == [1, 119, 192, 12] &&
        (match getDomain (List.replicate 12 0 ++ b1 ++ b2) (12 + b1.length) with
         | .ok (n, o) => n == ex2 && o == 12 + b1.length + 4
         | .error _ => false)
      | none => false
    | none => false) = true := by decide

/-- a complete message with a compressed MX target and an EDNS record: the hypotheses of the message theorem are
    met by a concrete message (checked by evaluation of the executable model) -/
def exPkt : Pkt :=
  { qid := 7, rd := true, tc := false, aa := false, qr := true, opcode := 0, cd := false, ad := false, ra := true, rcode := 0,
    bufsize := 1232, ednsVer := some 0, ednsDo := true, qdomain := ex1, qclass := 1, qtype := 15,
    answer := [{ domain := ex1, cls := 1, rrtype := 15, ttl := 300, rdata := .mx 10 ex2 }],
    nameserver := [], additional := [{ domain := ex2, cls := 1, rrtype := 1, ttl := 60, rdata := .other [192, 0, 2, 1] }],
    edns := some [(10, [1, 2, 3, 4, 5, 6, 7, 8])] }
example : (match serialiseWithSize exPkt 512 with
    | some w => (match parse w with | .ok q => decide (q = exPkt) | .error _ => false)
    | none => false) = true := by decide +kernel

/-- the example message meets the encoder's preconditions -/
example : PktEnc exPkt := by
  refine ⟨by decide, ?_, ?_, ?_, ?_⟩
  · intro l hl; simp [exPkt, ex1] at hl; rcases hl with rfl | rfl <;> simp [WfLabel]
  · intro rr hrr; simp [exPkt] at hrr; subst hrr
    refine ⟨?_, ?_⟩
    · intro l hl; simp [ex1] at hl; rcases hl with rfl | rfl <;> simp [WfLabel]
    · show WfName ex2
      intro l hl; simp [ex2] at hl; rcases hl with rfl | rfl | rfl <;> simp [WfLabel]
  · intro rr hrr; simp [exPkt] at hrr
  · intro rr hrr; simp [exPkt] at hrr; subst hrr
    refine ⟨?_, ?_⟩
    · intro l hl; simp [ex2] at hl; rcases hl with rfl | rfl | rfl <;> simp [WfLabel]
    · show (1 : Nat) ≠ T_OPT ∧ (1 : Nat) ≠ T_SOA ∧ [192, 0, 2, 1].length < 65536
      decide

/-- the decoded-message theorems are not vacuous: the encoding of the example message is a string of octets the
    decoder accepts -/
def exWire : Bytes := (serialiseWithSize exPkt 512).getD []
example : (exWire.all (· < 256) && (match parse exWire with | .ok q => decide (q = exPkt) | .error _ => false)) = true := by
  decide +kernel

end Erbium.Props.C14
