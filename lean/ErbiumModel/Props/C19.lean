import ErbiumModel.Lemmas.ConfigSafe
import ErbiumModel.Lemmas.DhcpSafe
/-!
# C19 — configuration loading is total, accepted configurations are safe to serve

`yaml_rust` turns the text into a YAML tree (trusted, see DESIGN.md); from there every value reaches
one of the typed parsers below.  They are modelled over `Safe.Out` (a panic is a value), with the
guards regenerated from `config.rs`, and proved never to panic **for every YAML value**: wrong types
(whose error message formats the offending type, including an empty array), nulls, numbers out of
range, durations of any text, hardware addresses of any text, prefixes with any length.  What they
accept is bounded (prefix lengths fit the address family, durations fit 64 bits), and those bounds
are what the handlers' arithmetic needs.
-/
namespace Erbium.Props.C19
open Erbium.Safe Erbium.ConfigSafe

/-- the type-name formatter used by every type error, on every value — empty arrays included -/
theorem C19_type_errors_never_panic (y : Yaml) :
    NoPanic (typeToName y) ∧ NoPanic (parseString y) ∧ NoPanic (parseI64 y) ∧ NoPanic (parseBoolean y) ∧
    NoPanic (parseSearchDomain y) :=
  ⟨(typeToName_spec y).noPanic, (parseString_spec y).noPanic, (parseI64_spec y).noPanic, (parseBoolean_spec y).noPanic,
   (parseSearchDomain_spec y).noPanic⟩

/-- numbers: any YAML value is either refused or lies in the range of the target type -/
theorem C19_numbers_in_range (lo hi : Int) (y : Yaml) :
    NoPanic (parseNum lo hi y) ∧ ∀ v, parseNum lo hi y = .ok (some v) → lo ≤ v ∧ v ≤ hi := by
  refine ⟨(parseNum_spec lo hi y).noPanic, ?_⟩
  intro v h
  have := parseNum_spec lo hi y
  rw [h] at this
  exact this v rfl

/-- arrays of anything the element parser handles -/
theorem C19_arrays_never_panic {α : Type} (parser : Yaml → Out (Option α)) (hp : ∀ y, NoPanic (parser y)) (y : Yaml) :
    NoPanic (parseArray parser y) :=
  (parseArray_spec parser (fun y => Post.of_noPanic (hp y)) y).noPanic

/-- durations: every text (units without numbers, digit strings of any length, any characters) and
    every integer gives a value below 2^64 seconds, nothing, or an error -/
theorem C19_durations_total_and_bounded (y : Yaml) :
    NoPanic (parseDuration y) ∧ ∀ v, parseDuration y = .ok (some v) → v < 2 ^ 64 := by
  refine ⟨(parseDuration_spec y).noPanic, ?_⟩
  intro v h
  have := parseDuration_spec y
  rw [h] at this
  exact this v rfl

theorem C19_hwaddr_never_panics (y : Yaml) : NoPanic (parseHwaddr y) := (parseHwaddr_spec y).noPanic

/-- prefixes: any text, any verdict of the address parser; an accepted prefix has a length that fits
    its family -/
theorem C19_prefix_lengths_fit (want : PrefixWant) (s : String) (ip : IpKind) :
    NoPanic (strPrefix want s ip) ∧
    ∀ fam a len, strPrefix want s ip = .ok (fam, a, len) → (fam = 4 ∧ len ≤ 32) ∨ (fam = 6 ∧ len ≤ 128) := by
  refine ⟨(strPrefix_spec want s ip).noPanic, ?_⟩
  intro fam a len h
  have := strPrefix_spec want s ip
  rw [h] at this
  exact this

/-- an accepted IPv4 prefix is safe to serve: the host range of `addresses` (per request, in
    `build_default_config`) and of `apply-subnet` (at load) is computed without shift overflow,
    underflow or 32-bit address overflow, for every length 0..32 and every address -/
theorem C19_accepted_prefix_safe_to_serve (minLen addr len : Nat) (hmin : 1 ≤ minLen) (hlen : len ≤ 32) (ha : addr < 2 ^ 32) :
    NoPanic (hostAddrs minLen (addr - addr % 2 ^ (32 - len)) len) := by
  refine (hostAddrs_spec minLen _ len hlen hmin ?_ (by omega)).noPanic
  have := Nat.div_add_mod addr (2 ^ (32 - len))
  have h2 : addr - addr % 2 ^ (32 - len) = 2 ^ (32 - len) * (addr / 2 ^ (32 - len)) := by omega
  rw [h2]; exact Nat.mul_mod_right _ _

/-- the minimum pool length in the source is at least 1, which is what rules out the `/0` shift -/
theorem C19_min_pool_length_positive :
    1 ≤ Generated.Dhcp.defaultPoolMinLen ∧ 1 ≤ Generated.Dhcp.applySubnetMinLen := by decide

/-- route and subnet prefixes go through `Ipv4Subnet::new`, total on every length octet (C05) -/
theorem C19_route_prefix_total (addr len : Nat) : NoPanic (DhcpSafe.subnetNew addr len) :=
  (DhcpSafe.subnetNew_spec addr len).noPanic

/-! non-vacuity -/
def isErr {α : Type} : Out α → Bool
  | .err _ => true
  | _ => false
example : isErr (parseString (.arr [])) = true := by decide                     -- `lifetime: []`
example : isErr (parseDuration (.str "s")) = true := by decide                  -- unit without a number
example : isErr (parseDuration (.str "99999999999999999999s")) = true := by decide
example : (match hostAddrs 8 0 0 with | .ok none => true | _ => false) = true := by decide   -- `addresses: [0.0.0.0/0]`
example : (match parseDuration (.str "1h 30m") with | .ok (some 5400) => true | _ => false) = true := by decide
-- without the minimum length the /0 shift does panic in the model, as it did in the code
example : (match hostOffsets 0 0 with | .panic _ => true | _ => false) = true := by decide

end Erbium.Props.C19
