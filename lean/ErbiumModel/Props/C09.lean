import ErbiumModel.Lemmas.Pool
import ErbiumModel.Props.C01
/-! # C09 — a client keeps its address; refusal only on exhaustion -/
namespace Erbium.Props.C09
open Erbium Erbium.Pool Erbium.Generated.Pool

/-- `c` holds an unexpired lease on `x` (the stored row; by C01 this is what `c` was told) -/
def heldBy (s : Store) (now : Nat) (c : Client) (x : Nat) : Prop :=
  ∃ r, rowOf s x = some r ∧ r.client = c ∧ r.expiry > now

theorem ownCurrent_iff (r : Row) (now : Nat) : ownCurrentCmp.eval r.expiry now = true ↔ r.expiry > now := by
  simp [ownCurrentCmp, Cmp.eval]

theorem step1_nonempty {s : Store} {now : Nat} {c : Client} {req : Option Nat} {pool : List Nat}
    {x : Nat} (hx : x ∈ pool) (hh : heldBy s now c x) :
    (step1 s now c req pool).isEmpty = false := by
  obtain ⟨r, hr, hc, he⟩ := hh
  have ⟨hm, ha⟩ := rowOf_mem hr
  have hmem : r ∈ (ownCurrent s now c).filter (fun r => pool.contains r.addr) := by
    apply List.mem_filter.mpr
    refine ⟨?_, by simp [ha, hx]⟩
    unfold ownCurrent
    apply List.mem_filter.mpr
    refine ⟨hm, ?_⟩
    simp [hc, (ownCurrent_iff r now).mpr he]
  have hne : (ownCurrent s now c).filter (fun r => pool.contains r.addr) ≠ [] := by
    intro h; rw [h] at hmem; cases hmem
  have := bests_ne_nil req _ hne
  unfold step1
  cases hb : bests req ((ownCurrent s now c).filter (fun r => pool.contains r.addr)) with
  | nil => exact absurd hb this
  | cons a as => simp

/-- **C09 (1).** If the client holds an unexpired lease on some address of the pool it is served
    from, every outcome the server may produce gives it an address it holds in that pool, and the
    one it names if it names one it holds. -/
theorem C09_keeps_address {s : Store} {now : Nat} {c : Client} {req : Option Nat} {pool : List Nat}
    (huniq : Uniq s) (hA : ∃ x ∈ pool, heldBy s now c x) {o : Outcome}
    (ho : o ∈ allowed s now c req pool) :
    ∃ x ty d, o = .ok x ty d ∧ x ∈ pool ∧ heldBy s now c x ∧
      (∀ q, req = some q → q ∈ pool → heldBy s now c q → x = q) := by
  obtain ⟨x0, hx0, hh0⟩ := hA
  have hne := step1_nonempty (req := req) hx0 hh0
  have ho1 : o ∈ step1 s now c req pool := by
    unfold allowed at ho
    simpa [hne] using ho
  have ho1' := ho1
  unfold step1 at ho1
  obtain ⟨r, hr, rfl⟩ := List.mem_map.mp ho1
  obtain ⟨hp, r', hr', hc', he', _⟩ := step1_sound huniq ho1'
  refine ⟨r.addr, .reusing, dur1 now r, rfl, hp, ⟨r', hr', hc', (ownCurrent_iff r' now).mp he'⟩, ?_⟩
  intro q hq hqp hqh
  subst hq
  obtain ⟨rq, hrq, hcq, heq⟩ := hqh
  have ⟨hmq, haq⟩ := rowOf_mem hrq
  apply bests_req hr
  refine ⟨rq, ?_, haq⟩
  apply List.mem_filter.mpr
  refine ⟨?_, by simp [haq, hqp]⟩
  unfold ownCurrent
  apply List.mem_filter.mpr
  exact ⟨hmq, by simp [hcq, (ownCurrent_iff rq now).mpr heq]⟩

/-- **C09 (2).** A request is refused for lack of addresses only when every address of the pool
    is held, unexpired, by some *other* client. -/
theorem C09_refusal_only_when_exhausted {s : Store} {now : Nat} {c : Client} {req : Option Nat}
    {pool : List Nat} (ho : Outcome.noAddress ∈ allowed s now c req pool) :
    ∀ x ∈ pool, ∃ r, rowOf s x = some r ∧ r.client ≠ c ∧ r.expiry > now := by
  intro x hx
  rcases allowed_cases ho with h | ⟨h1, h | ⟨_, h | ⟨_, h⟩⟩⟩
  · unfold step1 at h; obtain ⟨_, _, heq⟩ := List.mem_map.mp h; cases heq
  · unfold step2hit at h; obtain ⟨_, _, heq⟩ := List.mem_map.mp h; cases heq
  · unfold step3 at h
    cases req with
    | none => simp at h
    | some z => simp only at h; split at h <;> simp at h
  · unfold step4 at h
    simp only at h
    split at h
    · rename_i hfree
      have hin : inUse newInUseCmp s now x = true := by
        have : x ∉ pool.filter (fun x => !inUse newInUseCmp s now x) := by
          rw [List.isEmpty_iff.mp hfree]; simp
        simpa [List.mem_filter, hx] using this
      unfold inUse at hin
      cases hr : rowOf s x with
      | none => simp [hr] at hin
      | some r =>
        simp [hr, newInUseCmp, Cmp.eval] at hin
        have hin' : r.expiry > now := by omega
        refine ⟨r, rfl, ?_, hin'⟩
        intro hc
        have := step1_nonempty (req := req) hx ⟨r, hr, hc, hin'⟩
        rw [h1] at this; cases this
    · obtain ⟨_, _, heq⟩ := List.mem_map.mp h; cases heq

/-- steps of *other* clients and the passage of time, while `c`'s lease on `x` stays unexpired -/
inductive Others (c : Client) (x E : Nat) : State → State → Prop
  | refl (st) : Others c x E st st
  | tick {st st'} (n : Nat) : Others c x E st st' → st'.now + n < E → Others c x E st (tick st' n)
  | grant {st st'} (b : Client) (req : Option Nat) (pool : List Nat) (y : Nat) (ty : LType)
      (d now' L : Nat) (opts : List Nat) : Others c x E st st' → b ≠ c →
      Outcome.ok y ty d ∈ allowed st'.rows st'.now b req pool → st'.now ≤ now' → now' < E →
      Others c x E st (Pool.grant st' b y now' L opts)

theorem others_keeps_row {c : Client} {x E : Nat} {st st' : State} (h : Others c x E st st')
    (hu : Uniq st.rows) (hr : ∃ r, rowOf st.rows x = some r ∧ r.client = c ∧ r.expiry = E)
    (hnow : st.now < E) :
    Uniq st'.rows ∧ (∃ r, rowOf st'.rows x = some r ∧ r.client = c ∧ r.expiry = E) ∧ st'.now < E := by
  induction h with
  | refl => exact ⟨hu, hr, hnow⟩
  | tick n _ hlt ih => exact ⟨ih.1, ih.2.1, by simpa [Pool.tick] using hlt⟩
  | grant b req pool y ty d now' L opts _ hbc ho hle hlt ih =>
    obtain ⟨hu', ⟨r, hrx, hrc, hre⟩, hn'⟩ := ih
    have hs := allowed_sound _ _ b req pool y ty d hu' ho
    have hyx : y ≠ x := by
      intro hyx; subst hyx
      rcases hs.2 with ⟨r', hr', hc'⟩ | ⟨hfree, _⟩ | ⟨hfree, _⟩
      · rw [hrx] at hr'; cases hr'; exact hbc (hc'.symm.trans hrc)
      · exact absurd (by omega) ((C01.notInUse_expired hrx).1 hfree)
      · exact absurd (by omega) ((C01.notInUse_expired hrx).2 hfree)
    refine ⟨uniq_put hu', ⟨r, ?_, hrc, hre⟩, hlt⟩
    simp only [Pool.grant]
    rw [rowOf_put]
    simp [grantRow, Ne.symm hyx, hrx]

/-- **C09 (3).** The address acknowledged after an offer is the address that was offered: after a
    grant of `x` to `c` (expiry `E`), whatever other clients do and however much time passes
    before `E`, a request by `c` naming `x`, served from any pool containing `x`, yields `x`. -/
theorem C09_ack_after_offer {c : Client} {x now0 L : Nat} {opts : List Nat} {st0 st' : State}
    (hu : Uniq st0.rows) (hL : 0 < L)
    (h : Others c x (now0 + L) (Pool.grant st0 c x now0 L opts) st')
    {pool : List Nat} (hx : x ∈ pool) {o : Outcome}
    (ho : o ∈ allowed st'.rows st'.now c (some x) pool) :
    ∃ ty d, o = .ok x ty d := by
  have hrow : ∃ r, rowOf (Pool.grant st0 c x now0 L opts).rows x = some r ∧ r.client = c ∧ r.expiry = now0 + L := by
    refine ⟨grantRow c x now0 L opts, ?_, rfl, rfl⟩
    simp [Pool.grant, rowOf_put, grantRow]
  obtain ⟨hu', ⟨r, hr, hc, he⟩, hn⟩ := others_keeps_row h (uniq_put hu) hrow (by simp [Pool.grant]; omega)
  have hheld : heldBy st'.rows st'.now c x := ⟨r, hr, hc, by omega⟩
  obtain ⟨y, ty, d, rfl, _, _, hreq⟩ := C09_keeps_address hu' ⟨x, hx, hheld⟩ ho
  have := hreq x rfl hx hheld
  subst this
  exact ⟨ty, d, rfl⟩

/-! Non-vacuity: a client with two unexpired leases, the longer one outside the pool it is now
    served from (the roaming case), keeps its in-pool address. -/
def exStore : Store := [⟨5, [1], 0, 2000, []⟩, ⟨9, [1], 0, 5000, []⟩]
example : Uniq exStore := by
  intro r hr; simp [exStore] at hr; rcases hr with rfl | rfl <;> decide
example : ∃ x ∈ [5, 6], heldBy exStore 1000 [1] x := ⟨5, by simp, ⟨_, rfl, rfl, by decide⟩⟩
example : allowed exStore 1000 [1] none [5, 6] = [.ok 5 .reusing 3000] := by decide

end Erbium.Props.C09
