import ErbiumModel.Util
import ErbiumModel.Model.Acl
import ErbiumModel.Model.LeaseReport
import ErbiumModel.Judge.Json
/-! Driver glue for the `acl` suite (C08) and the `leasejson` suite (C20). -/
namespace Erbium.Judge.C08
open Erbium Util Erbium.Acl

def parsePrefix (s : String) : Option Prefix :=
  match s.splitOn "/" with
  | [a, l] =>
    match a.splitOn "_" with
    | ["4", x] => do pure (.p4 (← x.toNat?) (← l.toNat?))
    | ["6", x] => do pure (.p6 (← x.toNat?) (← l.toNat?))
    | _ => none
  | _ => none

def parseRule (s : String) : Option Rule :=
  match s.splitOn "!" with
  | [sub, ux, pm] => do
    let subnet ← if sub = "n" then some none else if sub = "-" then some (some []) else ((sub.splitOn ",").mapM parsePrefix).map some
    let unix ← match ux with | "n" => some none | "t" => some (some true) | "f" => some (some false) | _ => none
    let bits := pm.toList
    if bits.length != 4 then none else
    pure { subnet, unix, permission := { dnsRecursion := bits[0]! == '1', http := bits[1]! == '1',
                                         httpMetrics := bits[2]! == '1', httpLeases := bits[3]! == '1' } }
  | _ => none

def parseAddr (s : String) : Option Addr :=
  match s.splitOn "_" with
  | ["4", x] => x.toNat?.map .v4
  | ["6", x] => x.toNat?.map .v6
  | ["unix"] => some .unix
  | _ => none

def parsePerm : String → Option Perm
  | "dns" => some .dnsRecursion | "http" => some .http | "leases" => some .httpLeases | "metrics" => some .httpMetrics
  | _ => none

def showDecision : Decision → String
  | .ok => "ok" | .notAuthenticated => "NotAuthenticated" | .notAuthorised => "NotAuthorised"

/-! specification, written independently of the model: "inside the written prefix" is equality of
    the top `len` bits; first matching rule decides -/
def inPrefixSpec (w addr len ip : Nat) : Bool := ip / 2 ^ (w - len) == addr / 2 ^ (w - len)

def prefixSpec (p : Prefix) (a : Addr) : Bool :=
  match p, a with
  | .p4 addr len, .v4 ip => inPrefixSpec 32 addr len ip
  | .p6 addr len, .v6 ip => inPrefixSpec 128 addr len ip
  | .p4 addr len, .v6 ip => ip / 2 ^ 32 == 0xffff && inPrefixSpec 32 addr len (ip % 2 ^ 32)
  | .p6 addr len, .v4 ip => len ≥ 96 && inPrefixSpec 128 addr len (0xffff * 2 ^ 32 + ip)
  | _, .unix => false

def ruleSpec (r : Rule) (a : Addr) : Bool :=
  (match r.subnet with | some ss => ss.any (prefixSpec · a) | none => true) &&
  (match r.unix with | some u => (a == .unix) == u | none => true)

def decisionSpec (acl : List Rule) (a : Addr) (perm : Perm) : Decision :=
  match acl.find? (ruleSpec · a) with
  | some r => if r.permission.has perm then .ok else .notAuthorised
  | none => .notAuthenticated

/-- `acl rules=<r+r+…|-> client=<a> perm=<p> => ok|NotAuthenticated|NotAuthorised` -/
def judgeAcl (inp obs : List String) : Verdict :=
  match kv inp "rules", (kv inp "client").bind parseAddr, (kv inp "perm").bind parsePerm, obs with
  | some rs, some a, some perm, [o] =>
    if o.startsWith "panic" then { corr := "differ:impl-panic", spec := "unsat:C08.no_panic:require_permission;unsat:C19.accepted_config_safe:acl-panic" } else
    match (if rs = "-" then some [] else (rs.splitOn "+").mapM parseRule) with
    | some rules =>
      let m := showDecision (requirePermission rules a perm)
      let sp := showDecision (decisionSpec rules a perm)
      let cls :=
        if rules.any (fun r => (r.subnet.getD []).any fun p => match p with
            | .p4 addr len => addr % 2 ^ (32 - len) != 0
            | .p6 addr len => addr % 2 ^ (128 - len) != 0) then "prefix-with-host-bits"
        else match a with | .v6 ip => if ip / 2 ^ 32 == 0xffff then "v4-mapped-client" else "other" | _ => "other"
      { corr := agreeIf (m == o) s!"model={m}",
        spec := if sp == o then "sat" else s!"unsat:C08.first_match_decides:{cls}" }
    | none => badInput "acl-rules"
  | _, _, _, _ => badInput "acl"

open Erbium.LeaseReport Erbium.Judge.Json in
/-- `leasejson rows=<…> => rows=<sorted> hosts=<n|cp.cp.…/…> json=<hex>` -/
def judgeLeaseJson (inp obs : List String) : Verdict :=
  let _ := inp
  match kv obs "rows", kv obs "hosts", getHex obs "json" with
  | some rowsS, some hostsS, some jsonBytes =>
    let rowsL := if rowsS = "-" then [] else rowsS.splitOn "/"
    let hostsL := if hostsS = "-" then [] else hostsS.splitOn "/"
    let parsed : Option (List (LRow × List Nat)) := (rowsL.zip hostsL).mapM fun (r, h) =>
      match r.splitOn "," with
      | [ip, c, st, ex, blob] => do
        let host ← if h = "n" then some none else
          (if h = "e" then some (some []) else ((h.splitOn ".").mapM fun (x : String) => x.toNat?.map Char.ofNat).map some)
        pure ({ ip := ← ip.toNat?, client := ← fromHex c, start := ← st.toNat?, expire := ← ex.toNat?, host := host },
              ← fromHex blob)
      | _ => none
    match parsed, String.fromUTF8? (ByteArray.mk (jsonBytes.map (·.toUInt8)).toArray) with
    | some rows, some text =>
      -- the host the harness decoded must be the option-12 bytes the model extracts from the blob
      let hostOk := rows.all fun (r, blob) =>
        match hostBytes blob, r.host with
        | none, none => true
        | some b, some h => if b.all (· < 128) then h == b.map Char.ofNat else true
        | _, _ => false
      let mdl := render (rows.map (·.1))
      let corr := if !hostOk then "differ:host-extraction"
                  else if mdl == text.toList then "agree" else s!"differ:render model={String.ofList mdl}"
      let spec :=
        match parseDoc text.toList with
        | none =>
          let cls := if rows.any (fun (r, _) => (r.host.getD []).any (fun c => c.toNat < 0x20 || c.toNat == 0x7f)) then "control-char-in-host-name"
                     else if rows.any (fun (r, _) => (r.host.getD []).any (fun c => c.toNat > 0x7e)) then "non-ascii-in-host-name" else "other"
          s!"unsat:C20.json_valid:{cls}"
        | some j =>
          match j.field "leases" with
          | some (.arr es) =>
            if es.length != rows.length then "unsat:C20.one_entry_per_lease:count"
            else if (es.zip rows).all (fun (e, (r, _)) =>
              (match e.field "ip" with | some (.str s) => s == ipStr r.ip | _ => false) &&
              (match e.field "client_id" with | some (.str s) => s == clientStr r.client | _ => false) &&
              (match e.field "start" with | some (.num s) => s == dec r.start | _ => false) &&
              (match e.field "expire" with | some (.num s) => s == dec r.expire | _ => false) &&
              (match e.field "host-name", r.host with
               | some (.str s), some h => s == h
               | none, none => true
               | _, _ => false)) then "sat"
            else "unsat:C20.entries_match_rows:field-differs"
          | _ => "unsat:C20.one_entry_per_lease:no-leases-array"
      { corr, spec }
    | none, _ => badInput "leasejson-rows"
    | _, none => { corr := "differ:output-not-utf8", spec := "unsat:C20.json_valid:not-utf8" }
  | _, _, _ => if (obs.headD "").startsWith "panic" then { corr := "differ:impl-panic", spec := "unsat:C05.no_panic:leases_json" } else badInput "leasejson"

end Erbium.Judge.C08
