/-! A strict RFC 8259 validator/parser used as the *oracle* for the lease listing (a second,
    independent reading; not part of any theorem). -/
namespace Erbium.Judge.Json

inductive J where
  | str (s : List Char) | num (s : List Char) | arr (l : List J) | obj (l : List (List Char × J)) | lit (s : String)
deriving Repr

def isWs (c : Char) : Bool := c == ' ' || c == '\n' || c == '\r' || c == '\t'
def skipWs : List Char → List Char
  | c :: t => if isWs c then skipWs t else c :: t
  | [] => []

def hexv (c : Char) : Option Nat :=
  if '0' ≤ c ∧ c ≤ '9' then some (c.toNat - 48) else if 'a' ≤ c ∧ c ≤ 'f' then some (c.toNat - 87)
  else if 'A' ≤ c ∧ c ≤ 'F' then some (c.toNat - 55) else none

partial def parseStr (acc : List Char) : List Char → Option (List Char × List Char)
  | '"' :: t => some (acc.reverse, t)
  | '\\' :: c :: t =>
    if c == '"' || c == '\\' || c == '/' then parseStr (c :: acc) t
    else if c == 'b' then parseStr ('\x08' :: acc) t
    else if c == 'f' then parseStr ('\x0c' :: acc) t
    else if c == 'n' then parseStr ('\n' :: acc) t
    else if c == 'r' then parseStr ('\r' :: acc) t
    else if c == 't' then parseStr ('\t' :: acc) t
    else if c == 'u' then
      match t with
      | a :: b :: c' :: d :: t' =>
        match hexv a, hexv b, hexv c', hexv d with
        | some a, some b, some c', some d => parseStr (Char.ofNat (((a * 16 + b) * 16 + c') * 16 + d) :: acc) t'
        | _, _, _, _ => none
      | _ => none
    else none
  | c :: t => if c.toNat < 0x20 then none else parseStr (c :: acc) t
  | [] => none

def parseNum (s : List Char) : Option (List Char × List Char) :=
  let (neg, s1) := match s with | '-' :: t => (['-'], t) | _ => ([], s)
  let digits := s1.takeWhile Char.isDigit
  let rest := s1.dropWhile Char.isDigit
  if digits.isEmpty then none
  else if digits.length > 1 && digits.head? == some '0' then none
  else
    -- fraction / exponent are legal JSON but never produced by the listing; accept them strictly
    match rest with
    | '.' :: t =>
      let f := t.takeWhile Char.isDigit
      if f.isEmpty then none else some (neg ++ digits ++ ['.'] ++ f, t.dropWhile Char.isDigit)
    | _ => some (neg ++ digits, rest)

partial def parseVal (s : List Char) : Option (J × List Char) :=
  match skipWs s with
  | '"' :: t => (parseStr [] t).map fun (v, r) => (J.str v, r)
  | '[' :: t =>
    match skipWs t with
    | ']' :: r => some (J.arr [], r)
    | _ =>
      let rec elems (acc : List J) (s : List Char) : Option (J × List Char) :=
        match parseVal s with
        | some (v, r) =>
          match skipWs r with
          | ',' :: r' => elems (v :: acc) r'
          | ']' :: r' => some (J.arr (v :: acc).reverse, r')
          | _ => none
        | none => none
      elems [] t
  | '{' :: t =>
    match skipWs t with
    | '}' :: r => some (J.obj [], r)
    | _ =>
      let rec members (acc : List (List Char × J)) (s : List Char) : Option (J × List Char) :=
        match skipWs s with
        | '"' :: s1 =>
          match parseStr [] s1 with
          | some (k, r) =>
            match skipWs r with
            | ':' :: r1 =>
              match parseVal r1 with
              | some (v, r2) =>
                match skipWs r2 with
                | ',' :: r3 => members ((k, v) :: acc) r3
                | '}' :: r3 => some (J.obj ((k, v) :: acc).reverse, r3)
                | _ => none
              | none => none
            | _ => none
          | none => none
        | _ => none
      members [] t
  | 't' :: 'r' :: 'u' :: 'e' :: r => some (J.lit "true", r)
  | 'f' :: 'a' :: 'l' :: 's' :: 'e' :: r => some (J.lit "false", r)
  | 'n' :: 'u' :: 'l' :: 'l' :: r => some (J.lit "null", r)
  | c :: t => if c == '-' || c.isDigit then (parseNum (c :: t)).map fun (v, r) => (J.num v, r) else none
  | [] => none

/-- the whole text is exactly one JSON value -/
def parseDoc (s : List Char) : Option J :=
  match parseVal s with
  | some (v, r) => if (skipWs r).isEmpty then some v else none
  | none => none

def J.field (j : J) (k : String) : Option J :=
  match j with
  | .obj l => (l.find? (fun e => e.1 == k.toList)).map (·.2)
  | _ => none

end Erbium.Judge.Json
