import ErbiumModel.Util
import ErbiumModel.Model.DnsMux
/-! Driver glue for the end-to-end rig (`e2e` suite): C07 and the transport clauses of C04. -/
namespace Erbium.Judge.C07
open Erbium Util

structure Script where
  drop : Nat := 0
  delay : Nat := 0
  big : Bool := false

def parseScript (s : String) : Script :=
  (s.splitOn "-").foldl (fun acc part =>
    if part.startsWith "x" then { acc with drop := ((part.drop 1).toString.toNat?).getD 0 }
    else if part.startsWith "d" && part != "dup" then { acc with delay := ((part.drop 1).toString.toNat?).getD 0 }
    else if part == "big" then { acc with big := true } else acc) {}

/-- the longest a SERVFAIL for a silent upstream may take: the proved bound on the waits plus scheduling slack -/
def silentBoundMs : Nat := 50734 + 3000

def judgeOne (spec obs : String) : List String :=
  match spec.splitOn ":", obs.splitOn ":" with
  | [fam, proto, edns, script], [count, rcode, own, src, len, tc, ms, idq] =>
    let sc := parseScript script
    -- `j`: a UDP query queued right behind an unparseable datagram from the same socket (C05: the next well-formed
    -- request is still answered)
    let udp := proto == "u" || proto == "j"
    let cls := fam ++ proto
    let count := count.toNat?.getD 99
    let len := len.toNat?.getD 0
    let ms := ms.toNat?.getD 0
    -- the upstream never answers a UDP exchange whose first `drop` transmissions are lost when that is all there are
    let silent := udp && sc.drop ≥ DnsMux.transmissions Generated.Dns.retryLimit
    let limit := if udp then max 512 (edns.toNat?.getD 512) else 65535
    (if count == 0 then [s!"unsat:C07.exactly_one_reply:no-reply-{cls}"] else
     if count > 1 then [s!"unsat:C07.exactly_one_reply:{count}-replies-{cls}"] else []) ++
    (if count ≥ 1 then
      (if src != "1" then [s!"unsat:C07.reply_source:{cls}"] else []) ++
      (if idq != "1" then [s!"unsat:C07.own_answer:id-or-question-{cls}"] else []) ++
      (if own == "other" then [s!"unsat:C07.own_answer:someone-elses-answer-{cls}"] else []) ++
      (if silent then
         (if rcode != "2" then [s!"unsat:C07.servfail_when_silent:rcode-{rcode}"] else []) ++
         (if ms > silentBoundMs then ["unsat:C07.servfail_when_silent:later-than-the-bound"] else [])
       else
         (if rcode != "0" || own != "own" then [s!"unsat:C07.own_answer:answer-missing-{cls}-rcode-{rcode}"] else []) ++
         -- an answer that needs `drop` retransmissions arrives once they have gone out: within the proved worst case of
         -- `drop` waits (plus the scripted delay and scheduling slack)
         (if udp && sc.drop ≥ 1 && ms > DnsMux.worst sc.drop Generated.Dns.maxDnsTimeoutMs + sc.delay + 1500
          then [s!"unsat:C07.retransmission_within_bound:after-{sc.drop}-lost"] else [])) ++
      (if len > limit then [s!"unsat:C04.size_limit:e2e-{if udp then "udp" else "tcp"}"] else []) ++
      (if !silent && sc.big then
         -- 60 answers are 1001 octets: complete over TCP and with a large enough EDNS size, truncated (flagged) otherwise
         (if limit ≥ 1001 then (if tc == "1" || len < 1001 then [s!"unsat:C04.tcp_complete:e2e-truncated-although-it-fits-{cls}"] else [])
          else (if tc != "1" then ["unsat:C04.tc_iff_truncated:e2e-udp"] else []))
       else [])
     else [])
  | _, _ => ["unsat:C07.harness:unparsable"]

/-- `e2e wait=<ms> q=<specs> => <per-query observations>` -/
def judge (inp obs : List String) : Verdict :=
  match kv inp "q", obs with
  | some q, [o] =>
    let specs := q.splitOn "," ++ (match kv inp "then" with | some t => t.splitOn "," | none => [])
    let os := o.splitOn ","
    if specs.length != os.length then badInput "e2e-length" else
    let bad := ((specs.zip os).flatMap fun (s, o) => judgeOne s o).eraseDups
    { corr := if bad.isEmpty then "agree" else "differ:" ++ (bad.headD ""),
      spec := if bad.isEmpty then "sat" else ";".intercalate bad }
  | _, _ => badInput "e2e"

end Erbium.Judge.C07
