import ErbiumModel.Util
import ErbiumModel.Model.DnsWire
/-! Driver glue for the DNS wire suites `dnsdec` and `dnsenc` (C14 C04 C05). -/
namespace Erbium.Judge.DnsWire
open Erbium Util Erbium.DnsWire

def showName (n : Name) : String := if n.isEmpty then "-" else ".".intercalate (n.map toHex)
def parseName (s : String) : Option Name := if s = "-" then some [] else (s.splitOn ".").mapM fromHex

def showOpts (o : List (Nat × Bytes)) : String :=
  if o.isEmpty then "e" else ";".intercalate (o.map fun (c, d) => s!"{c}={toHex d}")
def parseOptsS (s : String) : Option (List (Nat × Bytes)) :=
  if s = "e" then some [] else (s.splitOn ";").mapM fun e =>
    match e.splitOn "=" with
    | [c, d] => do pure ((← c.toNat?), (← fromHex d))
    | _ => none

def showRData : RData → String
  | .cname d => s!"C:{showName d}"
  | .mx p d => s!"M:{p}:{showName d}"
  | .ns d => s!"N:{showName d}"
  | .ptr d => s!"P:{showName d}"
  | .soa m r a b c d e => s!"S:{showName m}:{showName r}:{a}:{b}:{c}:{d}:{e}"
  | .opt o => s!"O:{showOpts o}"
  | .afsdb s h => s!"A:{s}:{showName h}"
  | .rp m t => s!"R:{showName m}:{showName t}"
  | .rt p d => s!"T:{p}:{showName d}"
  | .naptr o p f s r d => s!"Y:{o}:{p}:{toHex f}:{toHex s}:{toHex r}:{showName d}"
  | .other x => s!"X:{toHex x}"

def parseRData (s : String) : Option RData :=
  match s.splitOn ":" with
  | ["C", d] => (parseName d).map .cname
  | ["M", p, d] => do pure (.mx (← p.toNat?) (← parseName d))
  | ["N", d] => (parseName d).map .ns
  | ["P", d] => (parseName d).map .ptr
  | ["S", m, r, a, b, c, d, e] => do
    pure (.soa (← parseName m) (← parseName r) (← a.toNat?) (← b.toNat?) (← c.toNat?) (← d.toNat?) (← e.toNat?))
  | ["O", o] => (parseOptsS o).map .opt
  | ["A", s, h] => do pure (.afsdb (← s.toNat?) (← parseName h))
  | ["R", m, t] => do pure (.rp (← parseName m) (← parseName t))
  | ["T", p, d] => do pure (.rt (← p.toNat?) (← parseName d))
  | ["Y", o, p, f, sv, r, d] => do
    pure (.naptr (← o.toNat?) (← p.toNat?) (← fromHex f) (← fromHex sv) (← fromHex r) (← parseName d))
  | ["X", x] => (fromHex x).map .other
  | _ => none

def showRR (r : RR) : String := s!"{showName r.domain}/{r.cls}/{r.rrtype}/{r.ttl}/{showRData r.rdata}"
def parseRR (s : String) : Option RR :=
  match s.splitOn "/" with
  | [d, c, t, ttl, rd] => do
    pure { domain := ← parseName d, cls := ← c.toNat?, rrtype := ← t.toNat?, ttl := ← ttl.toNat?, rdata := ← parseRData rd }
  | _ => none

def showRRs (l : List RR) : String := if l.isEmpty then "-" else "|".intercalate (l.map showRR)
def parseRRs (s : String) : Option (List RR) := if s = "-" then some [] else (s.splitOn "|").mapM parseRR

def bit (b : Bool) : String := if b then "1" else "0"

def dump (p : Pkt) : String :=
  s!"qid={p.qid} fl={bit p.rd}{bit p.tc}{bit p.aa}{bit p.qr}{bit p.cd}{bit p.ad}{bit p.ra}{bit p.ednsDo} op={p.opcode} rc={p.rcode} bs={p.bufsize} " ++
  s!"ev={match p.ednsVer with | some v => toString v | none => "n"} q={showName p.qdomain}/{p.qclass}/{p.qtype} " ++
  s!"an={showRRs p.answer} ns={showRRs p.nameserver} ad={showRRs p.additional} " ++
  s!"ed={match p.edns with | some o => showOpts o | none => "n"}"

def undump (toks : List String) : Option Pkt := do
  let fl := (← kv toks "fl").toList
  if fl.length != 8 then none else
  let b (i : Nat) : Bool := fl.getD i '0' == '1'
  let q ← kv toks "q"
  let (qd, qc, qt) ← match q.splitOn "/" with
    | [d, c, t] => do pure ((← parseName d), (← c.toNat?), (← t.toNat?))
    | _ => none
  let ev ← kv toks "ev"
  let ed ← kv toks "ed"
  pure { qid := ← getNat toks "qid", rd := b 0, tc := b 1, aa := b 2, qr := b 3, cd := b 4, ad := b 5, ra := b 6, ednsDo := b 7,
         opcode := ← getNat toks "op", rcode := ← getNat toks "rc", bufsize := ← getNat toks "bs",
         ednsVer := ← (if ev = "n" then some none else ev.toNat?.map some),
         qdomain := qd, qclass := qc, qtype := qt,
         answer := ← (kv toks "an").bind parseRRs, nameserver := ← (kv toks "ns").bind parseRRs,
         additional := ← (kv toks "ad").bind parseRRs,
         edns := ← (if ed = "n" then some none else (parseOptsS ed).map some) }

def showParse (r : Except DErr Pkt) : String :=
  match r with
  | .ok p => "ok " ++ dump p
  | .error _ => "err"

/-- `dnsdec <hex> => ok <dump> | err | panic:…` -/
def judgeDec (inp obs : List String) : Verdict :=
  match inp with
  | [h] =>
    match fromHex h with
    | some bytes =>
      let o := " ".intercalate obs
      let mdl := showParse (parse bytes)
      { corr := agreeIf (mdl == o) s!"model={mdl}",
        spec := if o.startsWith "panic" then "unsat:C05.no_panic:dns-parse" else "sat" }
    | none => badInput "hex"
  | _ => badInput "dnsdec"

/-! ### independent reading of a wire message (oracle for C04/C14): no shared code with the model's
    decoder beyond byte access -/
partial def skipName (buf : Bytes) (off : Nat) (ptrOk : Nat → Bool) : Option Nat :=
  match buf[off]? with
  | none => none
  | some 0 => some (off + 1)
  | some p =>
    if p < 64 then (if off + 1 + p ≤ buf.length then skipName buf (off + 1 + p) ptrOk else none)
    else if p ≥ 192 then
      match buf[off + 1]? with
      | some lo => if ptrOk ((p - 192) * 256 + lo) && decide ((p - 192) * 256 + lo < off) then some (off + 2) else none
      | none => none
    else none

/-- walks `count` records; returns the offset after them -/
partial def skipRRs (buf : Bytes) (off count : Nat) : Option Nat :=
  if count = 0 then some off else
  match skipName buf off (fun t => t < 16384) with
  | none => none
  | some o =>
    if o + 10 ≤ buf.length then
      let rdlen := buf.getD (o + 8) 0 * 256 + buf.getD (o + 9) 0
      if o + 10 + rdlen ≤ buf.length then skipRRs buf (o + 10 + rdlen) (count - 1) else none
    else none

/-- well-formed: header counts match the records present and the message ends exactly there -/
def wellFormed (buf : Bytes) : Bool :=
  if buf.length < 12 then false else
  let c (i : Nat) := buf.getD i 0 * 256 + buf.getD (i + 1) 0
  if c 4 != 1 then false else
  match skipName buf 12 (fun t => t < 16384) with
  | none => false
  | some o =>
    match skipRRs buf (o + 4) (c 6 + c 8 + c 10) with
    | some e => e == buf.length
    | none => false

/-- a name the decoder can produce: labels of 1..63 octets, at most 255 octets on the wire (RFC 1035 2.3.4) -/
def wfName (n : Name) : Bool := wireLen n ≤ 255 && n.all fun l => 1 ≤ l.length && l.length ≤ 63 && l.all (· < 256)

def rdataNames : RData → List Name
  | .cname d | .ns d | .ptr d | .mx _ d | .rt _ d | .afsdb _ d | .naptr _ _ _ _ _ d => [d]
  | .soa m r .. => [m, r]
  | .rp m t => [m, t]
  | _ => []

def wfRR (r : RR) : Bool :=
  wfName r.domain && r.cls < 65536 && r.rrtype < 65536 && r.ttl < 2 ^ 32 && (rdataNames r.rdata).all wfName &&
  (match r.rdata with
   | .cname _ => r.rrtype == T_CNAME | .ns _ => r.rrtype == T_NS | .ptr _ => r.rrtype == T_PTR
   | .mx p _ => r.rrtype == T_MX && p < 65536 | .rt p _ => r.rrtype == T_RT && p < 65536
   | .afsdb s _ => r.rrtype == T_AFSDB && s < 65536 | .rp .. => r.rrtype == T_RP
   | .soa _ _ a b c d e => r.rrtype == T_SOA && a < 2 ^ 32 && b < 2 ^ 32 && c < 2 ^ 32 && d < 2 ^ 32 && e < 2 ^ 32
   | .naptr o p f s x _ => r.rrtype == T_NAPTR && o < 65536 && p < 65536 && f.length < 256 && s.length < 256 && x.length < 256
   | .opt _ => false
   | .other x => x.length < 65536 && ![T_CNAME, T_NS, T_PTR, T_MX, T_RT, T_AFSDB, T_RP, T_SOA, T_NAPTR, T_OPT].contains r.rrtype)

/-- the messages the round-trip statement is about -/
def wfPkt (p : Pkt) : Bool :=
  p.qid < 65536 && p.opcode < 16 && p.rcode < 4096 && !p.tc && wfName p.qdomain && p.qclass < 65536 && p.qtype < 65536 &&
  p.answer.all wfRR && p.nameserver.all wfRR && p.additional.all wfRR &&
  p.answer.length < 65536 && p.nameserver.length < 65536 && p.additional.length < 65535 &&
  (match p.edns with
   | none => p.ednsVer.isNone && p.bufsize == 512 && !p.ednsDo && p.rcode < 16
   | some o => p.ednsVer == some 0 && 512 ≤ p.bufsize && p.bufsize < 65536 &&
               o.all (fun (c, d) => c < 65536 && d.length < 65536) && (pushOpts o).length < 65536)

/-- `dnsenc size=<n> <dump> => <wirehex> | panic:…` -/
def judgeEnc (inp obs : List String) : Verdict :=
  -- the observation is `<wirehex> back <what the crate's own decoder reads from it>` (or a panic)
  let ownBack : Option String := match obs with
    | _ :: "back" :: rest => some (" ".intercalate rest)
    | _ => none
  match getNat inp "size", undump inp, obs.take 1 with
  | some size, some p, [o] =>
    let mdl := serialiseWithSize p size
    if !wfPkt p then
      { corr := if o.startsWith "panic" then agreeIf mdl.isNone "model-does-not-panic"
                else match fromHex o, mdl with
                  | some w, some m => agreeIf (m == w) s!"model={toHex m}"
                  | _, _ => "differ:model-panics",
        spec := "na" }
    else if o.startsWith "panic" then
      { corr := agreeIf mdl.isNone s!"model-does-not-panic",
        spec := s!"unsat:C14.encode_total:{if (o.splitOn "overflow").length > 1 || (o.splitOn "n.data").length > 1 then "pointer-offset>=0x4000" else "panic"}" }
    else match fromHex o, mdl with
    | some wire, some m =>
      let total := p.answer.length + p.nameserver.length + p.additional.length + (if p.edns.isSome then 1 else 0)
      let c (i : Nat) := wire.getD i 0 * 256 + wire.getD (i + 1) 0
      let present := c 6 + c 8 + c 10
      let tcBit := wire.getD 2 0 / 2 % 2 == 1
      let back := parse wire
      -- expected message after truncation: the first `present` records of the concatenated sections
      let expect : Option Pkt :=
        if present ≥ total then some p else
        let an := p.answer.take present
        let ns := p.nameserver.take (present - an.length)
        let adAll := (match p.edns with | some e => p.additional ++ [optRR p e] | none => p.additional)
        let ad := adAll.take (present - an.length - ns.length)
        let hasOpt := ad.any (·.rrtype == T_OPT)
        some { p with tc := true, answer := an, nameserver := ns, additional := ad.filter (·.rrtype != T_OPT),
                      edns := if hasOpt then p.edns else none,
                      ednsVer := if hasOpt then p.ednsVer else none,
                      bufsize := if hasOpt then p.bufsize else 512,
                      ednsDo := if hasOpt then p.ednsDo else false,
                      rcode := if hasOpt then p.rcode else p.rcode % 16 }
      let spec :=
        (if wire.length > size then [s!"unsat:C04.size_limit:{if present < total then "truncated-still-too-long" else "no-truncation"}"] else []) ++
        (if !wellFormed wire then [s!"unsat:C04.wellformed:{if present < total || tcBit then "truncated" else "complete"}"] else []) ++
        (if !p.tc && (tcBit != decide (present < total)) && wellFormed wire then ["unsat:C04.tc_iff_truncated:tc-bit"] else []) ++
        (match back, expect with
         | .ok b, some e => if wellFormed wire && dump b != dump e then
             (if present < total then ["unsat:C04.truncated_is_prefix:sections-or-counts-differ", "unsat:C14.roundtrip:truncated",
                                       "unsat:C03.wire_faithful:truncated-reply-is-not-a-prefix"]
              else ["unsat:C14.roundtrip:complete", "unsat:C03.wire_faithful:client-decodes-a-different-reply"]) else []
         | .error _, _ => if wellFormed wire then ["unsat:C14.roundtrip:own-decoder-rejects"] else []
         | _, _ => []) ++
        -- the implementation's decoder on the implementation's encoding
        (match ownBack, expect with
         | some b, some e => if wellFormed wire && b != "ok " ++ dump e then
             [s!"unsat:C14.roundtrip:own-decoder-{if b == "err" then "rejects" else "reads-a-different-message"}"] else []
         | _, _ => [])
      { corr := agreeIf (m == wire) s!"model={toHex m}",
        spec := if spec.isEmpty then "sat" else ";".intercalate spec }
    | some _, none => { corr := "differ:model-panics", spec := "na" }
    | none, _ => badInput "wirehex"
  | _, _, _ => badInput "dnsenc"

/-- `dnsrt <hex> => ok <wirehex of the re-encoding> | err | panic:…` — the first quantifier of C14: whatever byte
    string the decoder accepts is written again (limit 65535) into octets that decode to the identical message -/
def judgeRt (inp obs : List String) : Verdict :=
  match inp with
  | [h] =>
    match fromHex h with
    | some bytes =>
      let o := " ".intercalate obs
      match parse bytes with
      | .error _ =>
        { corr := agreeIf (o == "err") "model=err",
          spec := if o.startsWith "panic" then "unsat:C05.no_panic:dns-parse" else "sat" }
      | .ok m =>
        let mw := serialiseWithSize m 65535
        let corr := match mw with
          | some w => agreeIf (o == "ok " ++ toHex w) s!"model=ok {toHex w}"
          | none => agreeIf (o.startsWith "panic") "model-panics"
        let spec :=
          if o.startsWith "panic" then "unsat:C14.encode_total:decoded-message" else
          match obs with
          | ["ok", wh] =>
            match fromHex wh with
            | some w2 =>
              if w2.getD 2 0 / 2 % 2 == 1 && !m.tc then "na"          -- did not fit into 65535 octets
              else match parse w2 with
                | .ok m2 => if dump m2 == dump m then "sat" else "unsat:C14.decoded_roundtrip:decodes-to-a-different-message"
                | .error _ => "unsat:C14.decoded_roundtrip:own-decoder-rejects"
            | none => "na"
          | _ => "na"
        { corr, spec }
    | none => badInput "hex"
  | _ => badInput "dnsrt"

end Erbium.Judge.DnsWire
