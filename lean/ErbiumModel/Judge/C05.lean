import ErbiumModel.Util
import ErbiumModel.Model.Icmp6
import ErbiumModel.Model.Lldp
import ErbiumModel.Model.DhcpSafe
import ErbiumModel.Model.DnsSafe
/-! Driver glue for the hostile-input suites of C05: the panic-aware models against the decoders. -/
namespace Erbium.Judge.C05
open Erbium Util Erbium.Safe

def hx (l : List Nat) : String := if l.isEmpty then "-" else toHex l

def showOut {α : Type} (f : α → String) : Out α → String
  | .ok a => f a
  | .err e => "err:" ++ e
  | .panic s => "model-panic:" ++ s

def b2s (b : Bool) : String := if b then "1" else "0"

def showIcmp : Icmp6.Msg → String
  | .unknown => "ok:unknown"
  | .solicit _ => "ok:rs"
  | .advert a => s!"ok:ra:{a.hopLimit},{b2s a.managed},{b2s a.other},{a.lifetime},{a.reachable},{a.retrans}"

def showTlv : Lldp.Tlv → String
  | .endOfPdu => "E"
  | .chassis st id => s!"C{hx [st]}:{hx id}"
  | .port st id => s!"P{hx [st]}:{hx id}"
  | .ttl n => s!"T{hx [n / 256, n % 256]}"
  | .portDesc s => s!"D{hx s}"
  | .sysName s => s!"N{hx s}"
  | .sysDesc s => s!"S{hx s}"
  | .caps a b => s!"K{a},{b}"
  | .mgmt af addr ns ifn oid => s!"M{af}:{hx addr}:{ns}:{ifn}:{hx oid}"
  | .org oui st v => s!"O{hx oui}:{st}:{hx v}"
  | .unknown ty v => s!"U{hx ([ty * 2, v.length] ++ v)}"

def verdict (suite obs model : String) : Verdict :=
  if obs.startsWith "panic" then { corr := "differ:impl-panic model=" ++ model, spec := s!"unsat:C05.no_panic:{suite}" }
  else { corr := agreeIf (obs == model) ("model=" ++ model), spec := "sat" }

def unhex? (s : String) : Option (List Nat) := if s == "-" then some [] else fromHex s

def judge (suite : String) (inp obs : List String) : Verdict :=
  let o := " ".intercalate obs
  match suite with
  | "icmp6" =>
    match (inp.head?).bind unhex? with
    | some b => verdict suite o (showOut showIcmp (Icmp6.parse b))
    | none => badInput "icmp6"
  | "lldp" =>
    match (inp.head?).bind unhex? with
    | some b => verdict suite o (showOut (fun ts => "ok:" ++ "|".intercalate (ts.map showTlv)) (Lldp.decodeFrame b))
    | none => badInput "lldp"
  | "dhcpacc" =>
    match kv inp "ty", (kv inp "v").bind unhex? with
    | some ty, some v =>
      verdict suite o (showOut (fun r => match r with
        | none => "none"
        | some none => "some"
        | some (some bs) => "some:" ++ hx bs) (DhcpSafe.decode ty v))
    | _, _ => badInput "dhcpacc"
  | "toarr" =>
    match (inp.head?).bind unhex? with
    | some b => verdict suite o (showOut (fun r => match r with | none => "none" | some a => "some:" ++ hx a) (DhcpSafe.toArray b))
    | none => badInput "toarr"
  | "dnssafe" =>
    match (inp.head?).bind unhex? with
    | some b =>
      let m := match DnsSafe.parse b with
        | .ok p => s!"ok:{p.answer.length},{p.nameserver.length},{p.additional.length}"
        | .err _ => "err"
        | .panic s => "model-panic:" ++ s
      verdict suite o m
    | none => badInput "dnssafe"
  | "dhcpsafe" =>
    match (inp.head?).bind unhex? with
    | some b => verdict suite o (showOut (fun h => s!"ok:{h.hlen},{hx h.chaddr}") (DhcpSafe.parse b))
    | none => badInput "dhcpsafe"
  | "ednsacc" =>
    match getNat inp "code", (kv inp "v").bind unhex? with
    | some code, some v =>
      let c := if code == 10 then showOut (fun r => match r with
          | none => "none"
          | some (c, s) => hx c ++ "/" ++ (match s with | some s => hx s | none => "n")) (DnsSafe.getCookie v) else "none"
      let e := if code == 15 then showOut (fun r => match r with
          | none => "none"
          | some (code, _) => toString code) (DnsSafe.getEde v) else "none"
      verdict suite o s!"cookie={c} ede={e}"
    | _, _ => badInput "ednsacc"
  | _ => badInput "c05-suite"

end Erbium.Judge.C05
