import ErbiumModel.Util
import ErbiumModel.Model.DnsRelay
import ErbiumModel.Judge.DnsWire
/-! Driver glue for the `inreply` suite (C03). -/
namespace Erbium.Judge.C03
open Erbium Util Erbium.DnsWire Erbium.DnsRelay Erbium.Judge.DnsWire

def strip (pre : String) (toks : List String) : List String :=
  toks.filterMap fun t => if t.startsWith pre then some ((t.drop pre.length).toString) else none

/-- tokens between `name=[` and the matching `]` -/
def section_ (name : String) (toks : List String) : List String :=
  ((toks.dropWhile (· != name ++ "=[")).drop 1).takeWhile (· != "]")

/-- the server part of a cookie is an HMAC under a random key: compare the client part only -/
def maskCookie (p : Pkt) : Pkt :=
  { p with edns := p.edns.map fun os => os.map fun (c, d) => if c == 10 then (c, d.take 8) else (c, d) }

def judge (inp obs : List String) : Verdict :=
  match undump (strip "Q." inp), undump (strip "R." inp), kv inp "lip" with
  | some q, some r, some lip =>
    if (obs.headD "").startsWith "panic" then { corr := "differ:impl-panic", spec := "unsat:C05.no_panic:create_in_reply" } else
    match undump (section_ "reply" obs), undump (section_ "outq" obs) with
    | some c, some oq =>
      let m := createInReply q r (lip.toList.map Char.toNat) []
      let mo := createOutQuery 4242 q
      let corr := if dump (maskCookie m) != dump (maskCookie c) then s!"differ:reply model={dump m}"
                  else if dump mo != dump oq then s!"differ:outquery model={dump mo}" else "agree"
      let spec :=
        (if c.qid != q.qid then ["unsat:C03.own_id_and_question:id"] else []) ++
        (if showName c.qdomain != showName q.qdomain || c.qclass != q.qclass || c.qtype != q.qtype then ["unsat:C03.own_id_and_question:question"] else []) ++
        (if !c.qr then ["unsat:C03.is_response:qr-clear"] else []) ++
        (if c.rcode != r.rcode then ["unsat:C03.rcode_from_upstream:rcode"] else []) ++
        (if showRRs c.answer != showRRs r.answer then ["unsat:C03.sections_faithful:answer"] else []) ++
        (if showRRs c.nameserver != showRRs r.nameserver then
           [s!"unsat:C03.sections_faithful:authority{if showRRs c.nameserver == showRRs r.answer then "-is-answer" else ""}"] else []) ++
        (if showRRs c.additional != showRRs r.additional then ["unsat:C03.sections_faithful:additional"] else []) ++
        (if showName oq.qdomain != showName q.qdomain || oq.qclass != q.qclass || oq.qtype != q.qtype then ["unsat:C03.upstream_query_carries_question:question"] else [])
      { corr, spec := if spec.isEmpty then "sat" else ";".intercalate spec }
    | _, _ => badInput "inreply-obs"
  | _, _, _ => badInput "inreply"

end Erbium.Judge.C03
