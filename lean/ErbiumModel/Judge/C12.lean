import ErbiumModel.Util
import ErbiumModel.Model.DhcpWire
import ErbiumModel.Model.Frame
import ErbiumModel.Spec.FrameRfc
import ErbiumModel.Generated.Dhcp
/-! Driver glue for the DHCP wire suites (`dhcprt`, `dhcpparse`, `frame`, `bflag`). -/
namespace Erbium.Judge.C12
open Erbium Util DhcpWire

def sortOpts (o : Opts) : Opts := (o.toArray.qsort (fun a b => a.1 < b.1)).toList

def showOpts (o : Opts) : String :=
  if o.isEmpty then "-" else ",".intercalate ((sortOpts o).map fun (c, v) => s!"{c}:{toHex v}")

def parseOptsStr (s : String) : Option Opts :=
  if s = "-" then some [] else
  (s.splitOn ",").mapM fun e =>
    match e.splitOn ":" with
    | [c, v] => do pure ((← c.toNat?), (← fromHex v))
    | _ => none

def dump (m : Dhcp) : String :=
  s!"op={m.op} htype={m.htype} hlen={m.hlen} hops={m.hops} xid={m.xid} secs={m.secs} flags={m.flags} " ++
  s!"ciaddr={m.ciaddr} yiaddr={m.yiaddr} siaddr={m.siaddr} giaddr={m.giaddr} " ++
  s!"chaddr={toHex m.chaddr} sname={toHex m.sname} file={toHex m.file} opts={showOpts m.options}"

def undump (toks : List String) : Option Dhcp := do
  pure { op := ← getNat toks "op", htype := ← getNat toks "htype", hlen := ← getNat toks "hlen",
         hops := ← getNat toks "hops", xid := ← getNat toks "xid", secs := ← getNat toks "secs",
         flags := ← getNat toks "flags", ciaddr := ← getNat toks "ciaddr", yiaddr := ← getNat toks "yiaddr",
         siaddr := ← getNat toks "siaddr", giaddr := ← getNat toks "giaddr",
         chaddr := ← getHex toks "chaddr", sname := ← getHex toks "sname", file := ← getHex toks "file",
         options := ← (kv toks "opts").bind parseOptsStr }

def showErr : PErr → String
  | .truncated => "err:UnexpectedEndOfInput"
  | .wrongMagic => "err:WrongMagic"
  | .invalid => "err:InvalidPacket"

def showParse (r : Except PErr Dhcp) : String :=
  match r with
  | .ok m => "ok " ++ dump m
  | .error e => showErr e

/-- decidable version of `DhcpWire.Wf` used to decide whether the oracle applies -/
def wfB (m : Dhcp) : Bool :=
  m.op < 256 && m.htype < 256 && m.hlen == m.chaddr.length && m.chaddr.length ≤ 16 && m.hops < 256 &&
  m.xid < 2^32 && m.secs < 65536 && m.flags < 65536 && m.ciaddr < 2^32 && m.yiaddr < 2^32 &&
  m.siaddr < 2^32 && m.giaddr < 2^32 && m.sname.length ≤ 64 && m.sname.all (· != 0) &&
  m.file.length ≤ 128 && m.file.all (· != 0) &&
  (m.options.map (·.1)).eraseDups.length == m.options.length &&
  m.options.all (fun e => e.1 != 0 && e.1 != 255 && e.1 < 256)

def reorder (o : Opts) (order : List Nat) : Opts :=
  order.filterMap fun c => (o.find? (·.1 == c))

def sameMsg (a b : Dhcp) : Bool := dump a == dump b

/-- `dhcprt <msg> => order=<codes> wire=<hex> parsed=<...>` -/
def judgeRt (inp obs : List String) : Verdict :=
  match undump inp, (kv obs "order").bind (natList ·), getHex obs "wire" with
  | some m, some order, some wire =>
    let parsedStr := " ".intercalate (obs.dropWhile (fun t => !t.startsWith "parsed="))
    let parsedStr := (parsedStr.drop 7).toString
    let mo := { m with options := reorder m.options order }
    let wireM := serialise mo
    let parsedM := showParse (parse wire)
    let corr :=
      if wireM != wire then s!"differ:serialise model={toHex wireM}"
      else if parsedM != parsedStr then s!"differ:parse model={parsedM}"
      else "agree"
    let spec :=
      if !wfB m then "na"
      else if parsedStr == "ok " ++ dump m then "sat"
      else
        let cls := if m.options.any (fun e => e.2.length > 255) then "option-value>255"
                   else if m.options.any (fun e => e.2.isEmpty) then "zero-length-option" else "other"
        s!"unsat:C12.roundtrip:{cls}"
    { corr, spec }
  | _, _, _ => badInput "dhcprt"

/-- `dhcpparse <hex> => ok <dump> || <decode of the re-encoding> | err:<kind> | panic:<msg>` -/
def judgeParse (inp obs : List String) : Verdict :=
  match inp with
  | [h] =>
    match fromHex h with
    | some bytes =>
      let first := " ".intercalate (obs.takeWhile (· != "||"))
      let again := " ".intercalate ((obs.dropWhile (· != "||")).drop 1)
      let r := parse bytes
      let mdl := showParse r
      let mdlAgain := match r with
        | .ok m => showParse (parse (serialise m))
        | .error _ => ""
      { corr := if mdl != first then s!"differ:model={mdl}"
                else if mdlAgain != again then s!"differ:reencode model={mdlAgain}"
                else "agree",
        spec := if first.startsWith "panic" then "unsat:C05.no_panic:dhcp-parse"
                else if first.startsWith "ok" && again != first then "unsat:C12.decode_encode_decode:reencoded-differs"
                else "sat" }
    | none => badInput "hex"
  | _ => badInput "dhcpparse"

/-! The independent reading of a frame (specification side) is `Spec.FrameRfc.validFrame`;
    `C12_frame_valid` proves the model's frame always passes it. -/
open Spec.FrameRfc in
def judgeFrame (inp obs : List String) : Verdict :=
  match getHex inp "src", getNat inp "sport", getHex inp "smac", getHex inp "dst", getNat inp "dport",
        getHex inp "dmac", getHex inp "payload" with
  | some src, some sport, some smac, some dst, some dport, some dmac, some payload =>
    let u : Frame.Udp4 := { src, sport, smac, dst, dport, dmac, payload }
    match obs with
    | [o] =>
      if o.startsWith "panic" then { corr := "differ:impl-panic", spec := "unsat:C12.frame:panic" } else
      match fromHex o with
      | some f =>
        { corr := agreeIf (Frame.frame u == f) s!"model={toHex (Frame.frame u)}",
          spec := match validFrame u f with
            | none => "sat"
            | some why => s!"unsat:C12.frame:{why}" }
      | none => badInput "framehex"
    | _ => badInput "frame-obs"
  | _, _, _, _, _, _, _ => badInput "frame"

def modelBroadcast (f : Nat) : Bool := f &&& Generated.Dhcp.broadcastMask != 0

def judgeBflag (inp obs : List String) : Verdict :=
  match inp, obs with
  | [fs], [o] =>
    match fs.toNat? with
    | some f =>
      let impl := o == "true"
      { corr := agreeIf (modelBroadcast f == impl) s!"model={modelBroadcast f}",
        spec := if impl == decide (f ≥ 0x8000) then "sat"
                else s!"unsat:C12.broadcast_bit:{if f ≥ 0x8000 then "msb-set-not-broadcast" else "msb-clear-broadcast"}" }
    | none => badInput "bflag"
  | _, _ => badInput "bflag"

end Erbium.Judge.C12
