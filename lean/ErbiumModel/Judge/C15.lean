import ErbiumModel.Util
import ErbiumModel.Model.DnsRoute
/-! Driver glue for the `route` suite (C15). -/
namespace Erbium.Judge.C15
open Erbium Util Erbium.DnsRoute

def parseName (s : String) : Option Name :=
  if s = "-" then some [] else (s.splitOn ".").mapM fromHex

def parseRoute (s : String) : Option Route :=
  match s.splitOn "!" with
  | [k, sfx] => do
    let suffixes ← if sfx = "none" then some [] else (sfx.splitOn ",").mapM parseName
    let action ← if k = "N" then some Action.forgeNxDomain
                 else if k.startsWith "F" then (natList ((k.drop 1).toString)).map Action.forward else none
    pure { suffixes, action }
  | _ => none

def showOutcome : Outcome → String
  | .upstream s => s!"fwd:{s}"
  | .refused => "refused"
  | .nxdomain => "nxdomain"
  | .servfail => "servfail"
  | .panic => "panic"

/-! specification, independent of the scan: among all (action, suffix) pairs whose suffix the
    lower-cased name ends with, those with the most labels decide -/
def specMatches (q s : Name) : Bool :=
  let lq := lowerName q
  let ls := lowerName s
  decide (ls.length ≤ lq.length) && lq.drop (lq.length - ls.length) == ls

def specOutcomes (table : List Route) (q : Name) (rd : Bool) : List Outcome :=
  let ms := table.flatMap fun r => (r.suffixes.filter (specMatches q)).map fun s => (s.length, r.action)
  match ms.map (·.1) |>.foldl max 0, ms with
  | _, [] => [.servfail]
  | best, _ => ((ms.filter (·.1 == best)).map fun (_, a) => outcomeOf a rd).eraseDups

/-- `route cfg=… q=<labels> rd=<0|1> => routes=<dump> res=<…>` -/
def judge (inp obs : List String) : Verdict :=
  match (kv inp "q").bind parseName, kv inp "rd", kv obs "routes", kv obs "res" with
  | some q, some rdS, some routesS, some res =>
    let rd := rdS == "1"
    match (if routesS = "-" then some [] else (routesS.splitOn "+").mapM parseRoute) with
    | some table =>
      let isPanic := res.startsWith "panic"
      let m := showOutcome (route table q rd)
      let corr := if isPanic then agreeIf (m == "panic") s!"model={m}" else agreeIf (m == res) s!"model={m}"
      let allowed := (specOutcomes table q rd).map showOutcome
      -- the table as loaded against the table as written: `kinds=` has one letter per route of the document, `N` for
      -- `type: forge-nxdomain`, `F` otherwise (the dump starts each route with the same letter)
      let gotKinds := String.ofList ((routesS.splitOn "+").filterMap fun r => r.toList.head?)
      let kindSpec := match kv inp "kinds" with
        | some want => if routesS != "-" && want != gotKinds then
            [s!"unsat:C15.route_type_as_configured:{if want.length == gotKinds.length then "forge-or-forward-swapped" else "routes-lost"}"] else []
        | none => []
      let spec0 :=
        if isPanic || allowed.contains "panic" then
          (if isPanic then "unsat:C19.accepted_config_safe:forward-route-without-servers" else "na")
        else if allowed.contains res then "sat"
        else
          let caseOnly := table.any fun r => r.suffixes.any fun s => specMatches q s && !(lowerName s == s && lowerName q == q)
          s!"unsat:C15.longest_suffix_wins:{if caseOnly then "case-differs" else "other"}"
      -- C06, on the whole chain: the same question asked twice in a row (`bits`/`bits2` = CD, AD, DO of the two queries);
      -- the second may be served from the cache (`u2=0`: nothing reached the upstreams) only under the same key
      let keySpec := match kv inp "bits", kv inp "bits2", kv obs "u2", kv obs "res2" with
        | some b, some b2, some u2, some r2 =>
          let cdDiffers := b.toList.head? != b2.toList.head?
          let doDiffers := b.toList.getLast? != b2.toList.getLast?
          if res.startsWith "fwd" && r2 == "fwd" && u2 == "0" && (cdDiffers || doDiffers) then
            [s!"unsat:C06.entry_only_for_same_key:served-across-{if cdDiffers then "checking-disabled" else "dnssec-ok"}"] else []
        | _, _, _, _ => []
      let extra := kindSpec ++ keySpec
      let spec := if extra.isEmpty then spec0 else
        ";".intercalate ((if spec0.startsWith "unsat" then [spec0] else []) ++ extra)
      { corr, spec }
    | none => badInput "route-dump"
  | _, _, _, _ =>
    if obs == ["cfgerr"] then { corr := "agree", spec := "na" }
    else if (obs.headD "").startsWith "panic" then { corr := "differ:impl-panic", spec := "unsat:C05.no_panic:dns-route" }
    else badInput "route"

end Erbium.Judge.C15
