import ErbiumModel.Util
import ErbiumModel.Model.AddrSets
/-! Driver glue for the `dhcpcfg` suite (C02). -/
namespace Erbium.Judge.C02
open Erbium Util Erbium.AddrSets

def parseItem (s : String) : Option Item :=
  if s.startsWith "A" then ((s.drop 1).toString.toNat?).map .address
  else if s.startsWith "R" then
    match ((s.drop 1).toString).splitOn "-" with
    | [a, b] => do pure (.range (← a.toNat?) (← b.toNat?))
    | _ => none
  else if s.startsWith "S" then
    match ((s.drop 1).toString).splitOn "/" with
    | [a, b] => do pure (.subnet (← a.toNat?) (← b.toNat?))
    | _ => none
  else none

structure Node where
  depth : Nat
  items : Option (List Item)

def parseNode (s : String) : Option Node :=
  match s.splitOn "!" with
  | [d, it] => do
    pure { depth := ← d.toNat?, items := ← (if it = "n" then some none else ((it.splitOn ",").mapM parseItem).map some) }
  | _ => none

partial def buildForest (nodes : List Node) (depth : Nat) : List PolicyDesc × List Node :=
  match nodes with
  | [] => ([], [])
  | n :: rest =>
    if n.depth < depth then ([], nodes)
    else
      let (children, rest1) := buildForest rest (depth + 1)
      let (siblings, rest2) := buildForest rest1 depth
      (PolicyDesc.mk n.items children :: siblings, rest2)

def sortU (l : List Nat) : List Nat := (l.toArray.qsort (· < ·)).toList.eraseDups

def showSet (s : Option (List Nat)) : String :=
  match s with
  | none => "n"
  | some l => if l.isEmpty then "-" else ",".intercalate ((sortU l).map toString)

/-! documented sets, written without the model's expansion functions -/
def docItem : Item → List Nat
  | .address a => [a]
  | .range s e => if e < s then [] else (List.range (e - s + 1)).map (· + s)
  | .subnet net len => let size := 2 ^ (32 - len); if size < 3 then [] else (List.range (size - 2)).map (· + net + 1)

mutual
partial def docUsed : PolicyDesc → List Nat
  | .mk items subs => (match items with | some is => is.flatMap docItem | none => []) ++ subs.flatMap docUsed
end

partial def docPreorder : PolicyDesc → List (Option (List Nat))
  | .mk items subs =>
    (match items with
     | some is => some ((is.flatMap docItem).filter fun x => !(subs.flatMap docUsed).contains x)
     | none => none) :: subs.flatMap docPreorder

def parsePrefixes (s : String) : Option (List (Nat × Nat)) :=
  if s = "e" then some [] else (s.splitOn ",").mapM fun p =>
    match p.splitOn "/" with
    | [a, l] => do pure ((← a.toNat?), (← l.toNat?))
    | _ => none

/-- `dhcpcfg cfg=… sip=<n> addrs=<a/l,…|e> pol=<depth!items+…|e> => pol=<sets> def=<sets>` -/
def judge (inp obs : List String) : Verdict :=
  if obs == ["cfgerr"] then { corr := "agree", spec := "na" } else
  if (obs.headD "").startsWith "panic" then { corr := "differ:impl-panic", spec := "unsat:C19.accepted_config_safe:dhcp-config" } else
  match getNat inp "sip", (kv inp "addrs").bind parsePrefixes, kv inp "pol", kv obs "pol", kv obs "def" with
  | some sip, some prefixes, some polS, some implPol, some implDef =>
    match (if polS = "e" then some [] else (polS.splitOn "+").mapM parseNode) with
    | some nodes =>
      let forest := (buildForest nodes 0).1
      let mPol := forest.flatMap (·.preorder)
      let mPolS := if mPol.isEmpty then "e" else "+".intercalate (mPol.map showSet)
      let used := usedL forest
      let prefixes := prefixes.filter fun (_, l) => decide (Generated.Dhcp.defaultPoolMinLen ≤ l)
      let mDef := prefixes.map fun (a, l) => some (defaultPool a l sip used)
      let mDefS := if mDef.isEmpty then "e" else "+".intercalate (mDef.map showSet)
      let dPol := forest.flatMap docPreorder
      let dPolS := if dPol.isEmpty then "e" else "+".intercalate (dPol.map showSet)
      let dUsed := forest.flatMap docUsed
      let dDef := prefixes.map fun (a, l) =>
        let size := 2 ^ (32 - l)
        let net := a / size * size
        some (((if size < 3 then [] else (List.range (size - 2)).map (· + net + 1))).filter fun x => x != sip && !dUsed.contains x)
      let dDefS := if dDef.isEmpty then "e" else "+".intercalate (dDef.map showSet)
      let corr := if mPolS != implPol then s!"differ:policy-sets model={mPolS}" else if mDefS != implDef then s!"differ:default-pools model={mDefS}" else "agree"
      let spec :=
        (if dPolS != implPol then
           let lastHost := nodes.any fun n => (n.items.getD []).any fun it => match it with | .subnet .. => true | _ => false
           [s!"unsat:C02.policy_sets_as_documented:{if lastHost then "apply-subnet" else "other"}"] else []) ++
        (if dDefS != implDef then ["unsat:C02.default_pool_as_documented:addresses-prefix"] else [])
      { corr, spec := if spec.isEmpty then "sat" else ";".intercalate spec }
    | none => badInput "dhcpcfg-desc"
  | _, _, _, _, _ => badInput "dhcpcfg"

end Erbium.Judge.C02
