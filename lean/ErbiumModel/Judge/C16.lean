import ErbiumModel.Util
import ErbiumModel.Model.Bucket
/-! Driver glue for the `bucket` and `ratelimit` suites (C16). -/
namespace Erbium.Judge.C16
open Erbium Util Erbium.Bucket Erbium.Generated.Dns

/-- `bucket ops=c:<cost>@<t>;d:<cost>@<t> => 1;0;-` -/
def judgeBucket (inp obs : List String) : Verdict :=
  match kv inp "ops", obs with
  | some opsS, [o] =>
    if o.startsWith "panic" then { corr := "differ:impl-panic", spec := "unsat:C05.no_panic:bucket" } else
    let ops := opsS.splitOn ";"
    let os := o.splitOn ";"
    if ops.length != os.length then badInput "bucket-length" else
    let (_, bad) := (ops.zip os).foldl (fun (acc : Nat × Option String) (op, ob) =>
      let (e, bad) := acc
      match op.splitOn ":" with
      | [k, rest] =>
        match rest.splitOn "@" with
        | [c, t] =>
          match c.toNat?, t.toNat? with
          | some c, some t =>
            if k == "c" then
              let m := if check e t c then "1" else "0"
              (e, if bad.isNone && m != ob then some s!"check e={e} t={t} c={c} model={m} impl={ob}" else bad)
            else (deplete e t c, bad)
          | _, _ => (e, some "parse")
        | _ => (e, some "parse")
      | _ => (e, some "parse")) (0, none)
    { corr := match bad with | some w => "differ:" ++ w | none => "agree", spec := "sat" }
  | _, _ => badInput "bucket"

structure Issue where
  period : Nat
  client : String
  sip : String
  cip : String

structure RAcc where
  buckets : Nat × Nat := (0, 0)
  period : Nat := 0
  issues : List (Nat × Issue) := []     -- op index ↦ issue
  sent : List (Nat × Nat) := []         -- (time, cost) of charged replies that were sent, oldest last
  lastCharged : Option Nat := none
  corr : Option String := none
  spec : List String := []
  idx : Nat := 0

def windowBound (sent : List (Nat × Nat)) : Bool :=
  -- for every pair of sent events i ≤ j: Σ cost over [i..j] ≤ 2·MAX + 2·RATE·(t_j − t_i)
  let l := sent.reverse   -- oldest first
  (List.range l.length).all fun i =>
    (List.range (l.length - i)).all fun d =>
      let seg := (l.drop i).take (d + 1)
      let t0 := (seg.headD (0, 0)).1
      let t1 := (seg.getLastD (0, 0)).1
      (seg.map (·.2)).sum ≤ 2 * maxTokens + 2 * tokensPerSecond * (t1 - t0)

def stepR (acc : RAcc) (op ob : String) : RAcc :=
  let differ (why : String) (a : RAcc) : RAcc := if a.corr.isSome then a else { a with corr := some s!"op{acc.idx}:{why}" }
  let acc' : RAcc :=
    match op.splitOn ":" with
    | ["i", cip, sip, client] =>
      { acc with issues := (acc.idx, { period := acc.period, client, sip, cip }) :: acc.issues }
    | ["r"] => { acc with period := acc.period + 1 }
    | ["q", t, cip, sip, insize, rlen, rcode, cookie] =>
      match t.toNat?, insize.toNat?, rlen.toNat?, rcode.toNat? with
      | some t, some q, some r, some rc =>
        -- cookie status according to the model's table of issued cookies
        let good : Bool :=
          if cookie.startsWith "g" then
            match ((cookie.drop 1).toString.toNat?).bind (fun i => acc.issues.lookup i) with
            | some is => is.cip == cip && is.sip == sip && is.period + 1 ≥ acc.period
            | none => false
          else false
        let sentImpl := ob == "send"
        if rc != 5 then
          let a := if sentImpl then acc else differ "non-refused-dropped" acc
          if sentImpl then a else { a with spec := a.spec ++ ["unsat:C16.only_refused_limited:non-refused-dropped"] }
        else if good then
          let a := if sentImpl then acc else differ "good-cookie-dropped" acc
          if sentImpl then a else { a with spec := a.spec ++ ["unsat:C16.cookie_exempt:good-cookie-dropped"] }
        else
          let c := cost r q
          let (grant, b') := limiterStep acc.buckets t c
          let a : RAcc := { acc with buckets := b' }
          let a := if grant == sentImpl then a else differ s!"limiter model={grant} cost={c} t={t} buckets={acc.buckets}" { a with buckets := if sentImpl then a.buckets else acc.buckets }
          -- oracle (b): a quiet source is answered
          let quiet := match acc.lastCharged with | none => true | some l => l + window ≤ t
          let a := if quiet && !sentImpl && r ≤ 500 then
                     { a with spec := a.spec ++ [s!"unsat:C16.quiet_client_answered:{if c > maxTokens then "cost-exceeds-capacity" else "other"}"] } else a
          -- a cookie that the model's table says was issued for another address/cookie must not exempt:
          -- it was charged (or dropped), which is what this branch observes; nothing more to check
          let a := if sentImpl then { a with sent := (t, c) :: a.sent, lastCharged := some t } else a
          if windowBound a.sent then a else { a with spec := a.spec ++ ["unsat:C16.bounded:window-exceeded"] }
      | _, _, _, _ => differ "parse" acc
    | _ => differ "parse-op" acc
  { acc' with idx := acc.idx + 1 }

/-- `ratelimit ops=… => <obs;…>` -/
def judgeRatelimit (inp obs : List String) : Verdict :=
  match kv inp "ops", obs with
  | some opsS, [o] =>
    if o.startsWith "panic" then
      { corr := "differ:impl-panic", spec := s!"unsat:C05.no_panic:{if (o.splitOn "dnspkt.rs").length > 1 then "edns-cookie-slice" else "ratelimit"}" } else
    let ops := opsS.splitOn ";"
    let os := o.splitOn ";"
    if ops.length != os.length then badInput "ratelimit-length" else
    let fin := (ops.zip os).foldl (fun acc (op, ob) => stepR acc op ob) {}
    { corr := match fin.corr with | some w => "differ:" ++ w | none => "agree",
      spec := if fin.spec.isEmpty then "sat" else ";".intercalate fin.spec.eraseDups }
  | _, _ => badInput "ratelimit"

end Erbium.Judge.C16
