import ErbiumModel.Util
import ErbiumModel.Model.DnsCache
/-! Driver glue for the `cache` suite (C06). -/
namespace Erbium.Judge.C06
open Erbium Util Erbium.DnsCache

def parseName (s : String) : Option (List (List Nat)) :=
  if s = "-" then some [] else (s.splitOn ".").mapM fromHex

def parseKey (n qt edo cd : String) : Option Key := do
  pure { qname := ← parseName n, qtype := ← qt.toNat?, edo := edo == "1", cd := cd == "1" }

def parseReply (s : String) : Option Reply :=
  match s.splitOn "/" with
  | [a, n, d] => do pure { answer := ← natList a, authority := ← natList n, additional := ← natList d }
  | _ => none

def lower (k : Key) : Key := { k with qname := k.qname.map (·.map fun b => if 65 ≤ b ∧ b ≤ 90 then b + 32 else b) }

structure CAcc where
  s : State := { cache := [], now := 0 }
  /-- oracle bookkeeping from the inputs only: what was last stored under each key, and when -/
  stored : List (Key × Reply × Nat) := []
  corr : Option String := none
  spec : List String := []
  idx : Nat := 0

def showTtls (l : List Nat) : String := showNatList l

def stepC (acc : CAcc) (op ob : String) : CAcc :=
  let differ (why : String) (a : CAcc) : CAcc := if a.corr.isSome then a else { a with corr := some s!"op{acc.idx}:{why}" }
  let acc' : CAcc :=
    match op.splitOn ":" with
    | ["s", n, qt, edo, cd, rep] =>
      match parseKey n qt edo cd, parseReply rep with
      | some k, some r =>
        let a := { acc with s := step acc.s (.resolve k r),
                            stored := if getExpiry r > 0 then (k, r, acc.s.now) :: acc.stored.filter (fun e => e.1 != k) else acc.stored }
        if toString (getExpiry r) == ob then a else differ s!"expiry model={getExpiry r}" a
      | _, _ => differ "parse" acc
    | ["l", n, qt, edo, cd] =>
      match parseKey n qt edo cd with
      | some k =>
        let m := lookup acc.s.cache k acc.s.now
        let mS : String := match m with
          | .miss => "miss"
          | .hit r => s!"hit:{showTtls r.answer}/{showTtls r.authority}/{showTtls r.additional}"
          | .panic => "panic"
        -- oracle: a hit must correspond to a stored reply for the same key, young enough, TTLs reduced by whole seconds
        let spec : List String :=
          if ob.startsWith "hit:" then
            let f := ob.splitOn ":"
            match parseReply (f.getD 1 "") with
            | some served =>
              -- names are case-insensitive; whether the cache folds case is not part of the property, so every stored
              -- reply whose key equals the looked-up key up to case is a candidate: the hit must be one of them, aged
              let cands := acc.stored.filter (fun e => lower e.1 == lower k)
              let judgeOne := fun (e : _ × Reply × Nat) =>
                let r := e.2.1
                let d := acc.s.now - e.2.2
                (if d > getExpiry r * ns then ["unsat:C06.not_past_ttl:served-after-min-ttl"] else []) ++
                (if served.answer == r.answer.map (· - d / ns) && served.authority == r.authority.map (· - d / ns) &&
                    served.additional == r.additional.map (· - d / ns) && (allTtls r).all (fun t => d / ns ≤ t)
                 then [] else
                   [s!"unsat:C06.ttl_is_original_minus_elapsed:{if (allTtls served).zip (allTtls r) |>.any (fun (a, b) => a > b) then "ttl-grew-or-wrapped" else "wrong-decrement"}",
                    -- the same observation read as C03: TTLs are reduced by the time spent in the cache, nothing else
                    "unsat:C03.ttl_reduced_by_time_in_cache_only:cache-hit"])
              if cands.isEmpty then ["unsat:C06.same_key_only:hit-for-key-never-stored"]
              else
                let verdicts := cands.map judgeOne
                -- satisfied by some candidate; otherwise report against the entry stored under exactly this key (or the first)
                if verdicts.any List.isEmpty then []
                else (match acc.stored.find? (fun e => e.1 == k) with
                      | some e => judgeOne e
                      | none => verdicts.headD [])
            | none => ["unsat:C06.harness:unparsable-hit"]
          else if ob == "miss" then []
          else ["unsat:C06.harness:unexpected"]
        let a := { acc with spec := acc.spec ++ spec }
        if ob.startsWith mS then a else differ s!"lookup model={mS}" a
      | none => differ "parse" acc
    | ["e"] =>
      let a := { acc with s := step acc.s .expire }
      if ob == s!"len{a.s.cache.length}" then a else differ s!"expire model=len{a.s.cache.length}" a
    | ["t", n] =>
      match n.toNat? with
      | some n => { acc with s := step acc.s (.tick n) }
      | none => differ "parse" acc
    | _ => differ "parse-op" acc
  { acc' with idx := acc.idx + 1 }

def judge (inp obs : List String) : Verdict :=
  match kv inp "ops", obs with
  | some opsS, [o] =>
    if o.startsWith "panic" then
      { corr := "differ:impl-panic", spec := "unsat:C06.ttl_never_wraps:subtraction-overflow" } else
    let ops := opsS.splitOn ";"
    let os := o.splitOn ";"
    if ops.length != os.length then badInput "cache-length" else
    let fin := (ops.zip os).foldl (fun acc (op, ob) => stepC acc op ob) {}
    { corr := match fin.corr with | some w => "differ:" ++ w | none => "agree",
      spec := if fin.spec.isEmpty then "sat" else ";".intercalate fin.spec.eraseDups }
  | _, _ => badInput "cache"

end Erbium.Judge.C06
