import ErbiumModel.Util
import ErbiumModel.Model.LeaseDb
import ErbiumModel.Judge.Pool
/-! Driver glue for the `leasedb` suite (C18). -/
namespace Erbium.Judge.C18
open Erbium Util Erbium.LeaseDb Erbium.Pool

def parseRows4 (s : String) : Option (List Row) :=
  if s = "-" then some [] else (s.splitOn "/").mapM fun e =>
    match e.splitOn "," with
    | [a, c, st, ex] => do pure { addr := ← a.toNat?, client := ← fromHex c, start := ← st.toNat?, expiry := ← ex.toNat? }
    | _ => none

def startDb (start : String) (rows : List Row) : Option Db :=
  if start == "fresh" then some ⟨false, none, none⟩
  else if start == "unver" then some ⟨false, none, some (false, rows)⟩
  else if start == "v0" then some ⟨true, some 0, some (false, rows)⟩
  else if start == "v1" then some ⟨true, some 1, some (true, rows)⟩
  else if start.startsWith "newer" then ((start.drop 5).toString.toNat?).map fun v => ⟨true, some v, some (true, rows)⟩
  else none

def showRes : OpenResult → String
  | .ok _ => "ok" | .refusedNewer _ => "refused" | .error _ => "err"

def judge (inp obs : List String) : Verdict :=
  match kv inp "start", (kv inp "rows").bind parseRows4, kv inp "crash", kv obs "first", kv obs "second", kv obs "rows", kv obs "unchanged" with
  | some start, some rows, some crash, some _first, some second, some rowsS, some unch =>
    match startDb start rows with
    | some db0 =>
      let tx := Generated.Pool.setupDbTransactional
      -- the durable state after a crash right before the version bump
      let crashed : Db :=
        if crash == "bump" then
          let db := { db0 with versionTable := true }
          match iteration tx db with
          | (mid :: _, _) => mid         -- the upgrade statement committed on its own
          | ([], _) => db                -- upgrade and bump are one transaction: nothing happened
        else db0
      let m := (openDb tx crashed).2
      let implRows := if rowsS == "?" then none else Judge.Pool.parseRows rowsS
      let corr :=
        if showRes m != second then s!"differ:open model={showRes m}"
        else match m, implRows with
          | .ok db', some ir =>
            if Judge.Pool.sortRows (ir.map fun r => { r with options := [] }) == Judge.Pool.sortRows (rowsOf db') then "agree"
            else s!"differ:rows model={Judge.Pool.showRows (rowsOf db')}"
          | .ok _, none => "differ:no-rows"
          | _, _ => "agree"
      let clean := !start.startsWith "newer"
      let spec :=
        if clean then
          (if second != "ok" then [s!"unsat:C18.reopen_after_crash:{if crash == "bump" then "crash-before-version-bump" else "clean-open-fails"}"] else
           match implRows with
           | some ir => if Judge.Pool.sortRows (ir.map fun r => { r with options := [] }) == Judge.Pool.sortRows rows then []
                        else ["unsat:C18.upgrade_preserves_rows:rows-differ"]
           | none => ["unsat:C18.upgrade_preserves_rows:no-rows", "unsat:C20.entries_match_rows:listing-fails-on-upgraded-store"])
        else
          (if second != "refused" then ["unsat:C18.newer_refused:not-refused"] else []) ++
          (if unch != "1" && crash == "none" then ["unsat:C18.newer_refused:file-modified"] else [])
      { corr, spec := if spec.isEmpty then "sat" else ";".intercalate spec }
    | none => badInput "leasedb-start"
  | _, _, _, _, _, _, _ =>
    if (obs.headD "").startsWith "panic" then { corr := "differ:impl-panic", spec := "unsat:C05.no_panic:pool-open" } else badInput "leasedb"

/-- `crashkill ms=<n> n=<n> seed=<n> => open=<ok|err> acks=<n> finished=<0|1> missing=<-|ip~client,…> rows=<…>`:
    a child process killed with SIGKILL during a stream of allocations; the database must open again and hold, for
    every address, the last binding the child had acknowledged (`C18_acknowledged_in_store` says so of the model; here the
    real process, the real file and the real signal are observed) -/
def judgeCrash (_inp obs : List String) : Verdict :=
  match kv obs "open", kv obs "missing" with
  | some "ok", some "-" => { corr := "agree", spec := "sat" }
  | some "ok", some _ => { corr := "agree", spec := "unsat:C18.kill_preserves_acknowledged:acknowledged-lease-not-on-record" }
  | some _, some _ => { corr := "agree", spec := "unsat:C18.reopen_after_kill:database-does-not-open" }
  | _, _ => if (obs.headD "").startsWith "panic" then { corr := "differ:impl-panic", spec := "unsat:C05.no_panic:pool-open" } else badInput "crashkill"

end Erbium.Judge.C18
