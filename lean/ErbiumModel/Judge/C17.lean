import ErbiumModel.Util
import ErbiumModel.Model.Radv
import ErbiumModel.Spec.RaRfc
/-! Driver glue for the `ra` suite (C17). -/
namespace Erbium.Judge.C17
open Erbium Util Erbium.Radv

def parseTri {α} (s : String) (f : String → Option α) : Option (Tri α) :=
  if s = "ns" then some .notSpecified else if s = "ds" then some .dontSet
  else if s.startsWith "v:" then (f ((s.drop 2).toString)).map .value else none

def parsePrefix (s : String) : Option Prefix :=
  match s.splitOn "," with
  | [a, l, ol, au, v, p] => do
    pure { addr := ← a.toNat?, len := ← l.toNat?, onlink := ol == "1", autonomous := au == "1", valid := ← v.toNat?, preferred := ← p.toNat? }
  | _ => none

def hexList (s : String) : Option (List Bytes) := if s = "e" then some [] else (s.splitOn ",").mapM fromHex
def natListE (s : String) : Option (List Nat) := if s = "e" then some [] else (s.splitOn ",").mapM (·.toNat?)

/-- `intf=<hop>~<m>~<o>~<lifetime tri>~<reach>~<retr>~<prefixes p;p|e>~<rdnsslt>~<rdnss>~<dnssllt>~<dnssl>~<cp>~<pref64 lt,p,l|n>` -/
def parseIntf (s : String) : Option Intf :=
  match s.splitOn "~" with
  | [hop, m, o, lt, re, rt, ps, rl, rs, dl, ds, cp, p64] => do
    let prefixes ← if ps = "e" then some [] else (ps.splitOn ";").mapM parsePrefix
    let pref64 ← if p64 = "n" then some none else
      match p64.splitOn "," with
      | [a, b, c] => do pure (some ((← a.toNat?), (← b.toNat?), (← c.toNat?)))
      | _ => none
    pure { hoplimit := ← hop.toNat?, managed := m == "1", other := o == "1", lifetime := ← parseTri lt (·.toNat?),
           reachable := ← re.toNat?, retrans := ← rt.toNat?, prefixes,
           rdnssLifetime := ← parseTri rl (·.toNat?), rdnss := ← parseTri rs natListE,
           dnsslLifetime := ← parseTri dl (·.toNat?), dnssl := ← parseTri ds hexList,
           captivePortal := ← parseTri cp fromHex, pref64 }
  | _ => none

def parseTop (s : String) : Option Top :=
  match s.splitOn "~" with
  | [d6, se, cp] => do
    pure { dnsServers6 := ← natListE d6, dnsSearch := ← hexList se,
           captivePortal := ← (if cp = "n" then some none else (fromHex ((cp.drop 1).toString)).map some) }
  | _ => none

def optKey (o : RaRfc.Opt) : String := toString (repr o)

def sortOpts (l : List RaRfc.Opt) : List String := ((l.map optKey).toArray.qsort (· < ·)).toList

/-- can one option carry the value? (the oracle's own arithmetic: a DNSSL name takes its labels, a length octet each,
    and a terminating zero; the option has 8 octets of header and at most 255 units of eight) -/
def representable : RaRfc.Opt → Bool
  | .dnssl _ ds => (ds.map fun labels => (labels.map (·.length + 1)).sum + 1).sum ≤ 2032
  | .captivePortal url => !url.contains 0 && url.length ≤ 2038
  | _ => true

/-- RDNSS options with the same lifetime read as one list (RFC 8106 §5.1 allows several options) -/
def mergeRdnss (l : List RaRfc.Opt) : List RaRfc.Opt :=
  let rd := l.filterMap fun o => match o with | .rdnss lt s => some (lt, s) | _ => none
  let rest := l.filter fun o => match o with | .rdnss .. => false | _ => true
  match rd with
  | [] => rest
  | (lt, _) :: _ => if rd.all (·.1 == lt) then rest ++ [.rdnss lt (rd.flatMap (·.2))] else l

/-- `ra cfg=<hex yaml> ifn=<n> ll=<hex|n> ifmtu=<n|n> self6=<n> dl=<n> => top=<…> intf=<…> mtu=<n|n> wire=<hex>` -/
def judge (inp obs : List String) : Verdict :=
  if obs == ["cfgerr"] then { corr := "agree", spec := "na" } else
  if (obs.headD "").startsWith "panic" then
    { corr := "differ:impl-panic", spec := s!"unsat:C19.accepted_config_safe:ra-{if ((obs.headD "").splitOn "subtract").length > 1 then "pref64-length<32" else "serialise-panic"};unsat:C17.rejected_or_clamped:panic-instead" } else
  match (kv obs "top").bind parseTop, (kv obs "intf").bind parseIntf, kv obs "mtu", getHex obs "wire", kv inp "ll", getNat inp "self6", getNat inp "dl" with
  | some top, some intf, some mtuS, some wire, some llS, some self6, some dl =>
    let ll := if llS = "n" then none else fromHex llS
    let mtu := if mtuS = "n" then none else mtuS.toNat?
    let m := serialise (build top intf ll mtu self6 dl)
    let exp0 := RaRfc.expected top intf ll mtu self6 dl
    -- a value one option cannot carry may be left out (never wrapped); more than 127 servers come in several options
    let exp := { exp0 with options := mergeRdnss (exp0.options.filter representable) }
    let spec :=
      (if wire.length % 8 != 0 then ["unsat:C17.multiple_of_8:message-length"] else []) ++
      (match RaRfc.decode wire with
       | none =>
         let cls := if intf.pref64.isSome then "pref64" else if (match intf.rdnss with | .value [] => true | _ => false) || (match intf.dnssl with | .value [] => true | _ => false) then "empty-list-option" else
                    if intf.prefixes.any (fun p => p.addr % 2 ^ (128 - min p.len 128) != 0) then "prefix-host-bits" else "other"
         [s!"unsat:C17.rfc_decodable:{cls}"]
       | some d =>
         (if d.hopLimit != exp.hopLimit || d.managed != exp.managed || d.other != exp.other then ["unsat:C17.header:hop-or-flags"] else []) ++
         (if d.lifetime != exp.lifetime then [s!"unsat:C17.router_lifetime:{if exp.lifetime == 65535 then "wrapped" else "differs"}"] else []) ++
         (if d.reachableMs != exp.reachableMs || d.retransMs != exp.retransMs then ["unsat:C17.timers:reachable-retrans"] else []) ++
         (if sortOpts (mergeRdnss d.options) != sortOpts exp.options then
            let bad := (sortOpts exp.options).filter (fun k => !(sortOpts (mergeRdnss d.options)).contains k)
            let kind := match bad.head? with
              | some k => ((k.splitOn " ").getD 0 "?").replace "Erbium.RaRfc.Opt." ""
              | none => "extra-option"
            [s!"unsat:C17.options:{kind}"] else []))
    { corr := agreeIf (m == wire) s!"model={toHex m}", spec := if spec.isEmpty then "sat" else ";".intercalate spec.eraseDups }
  | _, _, _, _, _, _, _ => badInput "ra"

end Erbium.Judge.C17
