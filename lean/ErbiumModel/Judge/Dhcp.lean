import ErbiumModel.Util
import ErbiumModel.Model.DhcpServer
import ErbiumModel.Spec.PolicyDoc
import ErbiumModel.Judge.C12
import ErbiumModel.Judge.Pool
/-! Driver glue for the `dhcp` suite: `dhcp::handle_pkt` on a configuration loaded by the real
    loader. Serves C02 C10 C11 C13. -/
namespace Erbium.Judge.Dhcp
open Erbium Util Erbium.Dhcp Erbium.Pool

def parseOptMap (s : String) : Option (List (Nat × Option Bytes)) :=
  if s = "-" then some [] else
  (s.splitOn ",").mapM fun e =>
    match e.splitOn "=" with
    | [k, v] => do
      let k ← k.toNat?
      if v = "n" then pure (k, none) else pure (k, some (← fromHex v))
    | _ => none

structure Node where
  depth : Nat
  matchAll : Bool
  matchChaddr : Option Bytes
  matchSubnet : Option (Nat × Nat)
  matchOther : List (Nat × Option Bytes)
  applyAddress : Option (List Nat)
  applyOther : List (Nat × Option Bytes)

def parsePrefix (s : String) : Option (Nat × Nat) :=
  match s.splitOn "/" with
  | [a, l] => do pure ((← a.toNat?), (← l.toNat?))
  | _ => none

def parseNode (s : String) : Option Node :=
  match s.splitOn "!" with
  | [d, ma, ch, sn, mo, aa, ao] => do
    pure { depth := ← d.toNat?, matchAll := ma == "1",
           matchChaddr := ← (if ch = "n" then some none else (fromHex ch).map some),
           matchSubnet := ← (if sn = "n" then some none else (parsePrefix sn).map some),
           matchOther := ← parseOptMap mo,
           applyAddress := ← (if aa = "n" then some none else (natList aa).map some),
           applyOther := ← parseOptMap ao }
  | _ => none

/-- rebuild the forest from the pre-order (depth, node) list -/
partial def buildForest (nodes : List Node) (depth : Nat) : List Policy × List Node :=
  match nodes with
  | [] => ([], [])
  | n :: rest =>
    if n.depth < depth then ([], nodes)
    else
      let (children, rest1) := buildForest rest (depth + 1)
      let p := Policy.mk n.matchAll n.matchChaddr n.matchSubnet n.matchOther n.applyAddress n.applyOther children
      let (siblings, rest2) := buildForest rest1 depth
      (p :: siblings, rest2)

def parseCfg (s : String) : Option Cfg := do
  let f := s.splitOn "~"
  let get (k : String) : Option String := f.findSome? fun t => if t.startsWith (k ++ "=") then some ((t.drop (k.length + 1)).toString) else none
  let dnsS ← get "dns"
  let dns ← if dnsS = "-" then some [] else (dnsS.splitOn ",").mapM fun t => if t = "self" then some none else t.toNat?.map some
  let search ← (← get "search") |> fromHex
  let portalS ← get "portal"
  let portal ← if portalS = "n" then some none else (fromHex ((portalS.drop 1).toString)).map some
  let addrsS ← get "addrs"
  let addrs ← if addrsS = "-" then some [] else (addrsS.splitOn ",").mapM parsePrefix
  let polS ← get "pol"
  let nodes ← if polS = "-" then some [] else (polS.splitOn "+").mapM parseNode
  pure { dnsServers := dns, dnsSearch := search, captivePortal := portal, addresses := addrs,
         policies := (buildForest nodes 0).1 }

inductive DOp where
  | pkt (serverip : Nat) (ids : List Nat) (mtu router : Option Nat) (bytes : List Nat)
  | tick (n : Nat)

def parseDOp (s : String) : Option DOp :=
  match s.splitOn ":" with
  | ["p", sip, ids, mtu, router, pk] => do
    pure (.pkt (← sip.toNat?) (← natList ids) (← if mtu = "-" then some none else mtu.toNat?.map some)
          (← if router = "-" then some none else router.toNat?.map some) (← fromHex pk))
  | ["t", n] => n.toNat?.map .tick
  | _ => none

inductive DRes where
  | reply (m : DhcpWire.Dhcp)
  | err (k : String)
  | unparsable
  | none

def parseDObs (s : String) : Option (DRes × Store) :=
  match s.splitOn "@" with
  | [r, rows] => do
    let rows ← Judge.Pool.parseRows rows
    let f := r.splitOn "~"
    let res ← match f with
      | "ok" :: rest => (Judge.C12.undump rest).map DRes.reply
      | ["err", k] => some (DRes.err k)
      | ["unparsable"] => some DRes.unparsable
      | ["-"] => some DRes.none
      | _ => Option.none
    pure (res, rows)
  | _ => Option.none

def showDErr : DErr → String
  | .unknownMessageType _ => "UnknownMessageType"
  | .noLeasesConfigured => "NoLeasesConfigured"
  | .invalidPacket => "ParseError"
  | .poolError k => "PoolError." ++ k
  | .otherServer _ => "OtherServer"
  | .noPolicy => "NoPolicyConfigured"

/-- rows compared modulo the order in which the request's options were serialised into the blob -/
def canonRow (r : Row) : Row :=
  match DhcpWire.parseOptions r.options [] with
  | .ok o => { r with options := (Judge.C12.sortOpts o).flatMap fun (c, v) => c :: v.length :: v }
  | .error _ => r

def canonRows (s : Store) : Store := Judge.Pool.sortRows (s.map canonRow)

structure DAcc where
  rows : Store            -- model rows
  implRows : Store
  now : Nat
  corr : Option String := none
  spec : List String := []
  idx : Nat := 0
  /-- what clients were told in DHCPACKs: (client as RFC 2131 names it — identifier option, else hardware address —,
      address, instant until which it may use it) -/
  acked : List (List Nat × Nat × Nat) := []
  /-- what the latest reply of any kind (DHCPOFFER too) to a client about an address said: the same triple -/
  told : List (List Nat × Nat × Nat) := []

def optsBlob (o : DhcpWire.Opts) : List Nat := DhcpWire.serOptions o

/-- C13/C10 oracle on one packet, implementation observation only -/
def specPkt (before after : Store) (now : Nat) (pkt : DhcpWire.Dhcp) (serverip : Nat) (ids : List Nat)
    (res : DRes) : List String :=
  let mt := lookupOpt pkt.options 53
  let sid := optIp pkt.options 54
  match res with
  | .reply m =>
    let x := m.yiaddr
    (match mt with
     | some [1] => []
     | some [3] => (match sid with
        | some s => if ids.contains s then [] else ["unsat:C13.only_for_this_server:request-for-other-server"]
        | none => [])
     | some [t] => [s!"unsat:C13.only_discover_request:type-{t}"]
     | _ => ["unsat:C13.only_discover_request:no-type"]) ++
    (if m.xid != pkt.xid then ["unsat:C13.echo:xid"] else []) ++
    (if m.chaddr != pkt.chaddr then ["unsat:C13.echo:chaddr"] else []) ++
    (if m.giaddr != pkt.giaddr then ["unsat:C13.echo:giaddr"] else []) ++
    (if m.flags != pkt.flags then ["unsat:C13.echo:flags"] else []) ++
    (match optIp m.options 54 with
     | some s => if s == serverip || ids.contains s then [] else ["unsat:C13.server_identifier:not-this-server"]
     | none => ["unsat:C13.server_identifier:missing"]) ++
    (if Judge.Pool.sortRows (after.filter (·.addr != x)) == Judge.Pool.sortRows (before.filter (·.addr != x)) then []
     else ["unsat:C13.only_own_row:other-row-changed"]) ++
    (match lookupOpt m.options 51 with
     | some [a, b, c, d] =>
       let L := DhcpWire.be32 a b c d
       -- the documented defaults (5 minutes to 24 hours), not the constants of the source
       (if 300 ≤ L && L ≤ 86400 then []
        else ["unsat:C10.bounds:outside-default-bounds"]) ++
       (match rowOf after x with
        | some r =>
          (if r.expiry - r.start != L || r.expiry < r.start then ["unsat:C10.record:duration-differs"] else []) ++
          (if r.start < now then ["unsat:C10.record:start-before-request"] else []) ++
          (if r.expiry < now + L then ["unsat:C10.record:expires-early"] else [])
        | none => ["unsat:C10.record:no-row"])
     | _ => [s!"unsat:C10.lease_time_present:{if mt == some [1] then "offer" else "ack"}-without-option-51"])
  | .err _ =>
    if Judge.Pool.sortRows after == Judge.Pool.sortRows before then [] else ["unsat:C13.no_reply_no_change:error-changed-store"]
  | _ => if Judge.Pool.sortRows after == Judge.Pool.sortRows before then [] else ["unsat:C13.no_reply_no_change:rows-changed"]

def stepD (cfg : Cfg) (acc : DAcc) (op : DOp) (res : DRes) (rowsAfter : Store) : DAcc :=
  let differ (why : String) (a : DAcc) : DAcc :=
    if a.corr.isSome then a else { a with corr := some s!"op{acc.idx}:{why}" }
  let acc' : DAcc := match op with
    | .tick n => { acc with now := acc.now + n }
    | .pkt serverip ids mtu router bytes =>
      match DhcpWire.parse bytes with
      | .error _ => (match res with | .unparsable => acc | _ => differ "model-cannot-parse" acc)
      | .ok pkt =>
        let req : Req := { pkt, serverip, mtu, router }
        let spec := specPkt acc.implRows rowsAfter acc.now pkt serverip ids res
        let acc := { acc with spec := acc.spec ++ spec }
        match plan cfg req ids, res with
        | .err e, .err k => if showDErr e == k then acc else differ s!"error model={showDErr e} impl={k}" acc
        | .err e, .reply _ => differ s!"model-refuses:{showDErr e}" acc
        | .alloc c rq pool _ _, .err k =>
          if k == "PoolError.NoAssignableAddress" && (allowed acc.rows acc.now c rq pool).contains .noAddress then acc
          else differ s!"impl-error:{k} allowed={repr (allowed acc.rows acc.now c rq pool)}" acc
        | .alloc c rq pool resp isReq, .reply m =>
          let x := m.yiaddr
          let blob := optsBlob pkt.options
          -- C02 oracle: the address told to the client lies in the set the configuration assigns to it
          -- (innermost matching policy's set, else the default pools; `C02_policy_sets_its_addresses`)
          let acc := if pool.contains x then acc else { acc with spec := acc.spec ++ ["unsat:C02.yiaddr_in_allowed:outside-assigned-set"] }
          -- C11 oracle: the options of the reply against the manual's chain semantics (`Spec/PolicyDoc.lean`),
          -- evaluated on the implementation's reply; message type, server id and lease time belong to the reply builder
          let acc :=
            let bad := (List.range 255).filterMap fun k =>
              if k == 53 || k == 54 || k == 51 || k == 0 then none else
              let doc := PolicyDoc.docSent cfg req k
              let got := lookupOpt m.options k
              if doc == got then none else
              some (if !(paramList req).contains k then "sent-but-not-requested"
                    else match doc, got with
                      | none, some _ => "sent-but-unset-or-never-set"
                      | some _, none => "documented-value-missing"
                      | _, _ => "wrong-value")
            if bad.isEmpty then acc else { acc with spec := acc.spec ++ (bad.eraseDups.map fun c => s!"unsat:C11.options_as_documented:{c}") }
          -- C09 oracle: a client naming (ciaddr, else option 50) an address it holds unexpired, inside the set assigned
          -- to it, is told that address and no other
          let named := if isReq && pkt.ciaddr != 0 then some pkt.ciaddr else optIp pkt.options 50
          let acc := match named with
            | some a =>
              if pool.contains a && x != a &&
                 acc.implRows.any (fun r => r.addr == a && r.client == clientId pkt && r.expiry > acc.now)
              then { acc with spec := acc.spec ++ ["unsat:C09.keeps_named_own_lease:told-a-different-address"] } else acc
            | none => acc
          -- C01 oracle, on the replies alone: a DHCPACK must not give `x` to this client while another client was told,
          -- in an earlier DHCPACK of this history, that it may use `x` until a later instant
          let toldL := match lookupOpt m.options 51 with
            | some [a, b, c', d] => DhcpWire.be32 a b c' d
            | _ => 0
          let isAck := lookupOpt m.options 53 == some [5]
          let me := clientId pkt
          -- two classes: the holder's latest reply about `x` (of any kind) still runs — a plain double lease —, or the holder
          -- was, after its DHCPACK, sent a reply with a shorter lease that has run out (the record was moved earlier by
          -- an offer the client need not have taken up: the known finding of KNOWN_FINDINGS.txt)
          let holders := acc.acked.filter (fun (c', x', e') => x' == x && c' != me && decide (e' > acc.now))
          let acc := if isAck && !holders.isEmpty then
              let plain := holders.any fun (c', _, _) => acc.told.any (fun (c2, x2, e2) => c2 == c' && x2 == x && decide (e2 > acc.now))
              { acc with spec := acc.spec ++ [s!"unsat:C01.no_double_lease:{if plain then "acked-while-another-client-holds-it" else "holder-was-since-offered-a-shorter-lease"}"] }
            else acc
          let acc := if isAck then { acc with acked := (me, x, acc.now + toldL) :: acc.acked.filter (fun (c', x', _) => !(c' == me && x' == x)) } else acc
          let acc := { acc with told := (me, x, acc.now + toldL) :: acc.told.filter (fun (c', x', _) => !(c' == me && x' == x)) }
          -- candidates: allowed outcomes on x; pick the one reproducing the implementation's table
          let cands := (allowed acc.rows acc.now c rq pool).filterMap fun o =>
            match o with
            | .ok x' _ d => if x' == x then some (leaseFor d Generated.Dhcp.defaultMinLease Generated.Dhcp.defaultMaxLease (remainingOf acc.rows c x acc.now)) else none
            | .noAddress => none
          match cands.find? (fun L => canonRows (put acc.rows (grantRow c x acc.now L blob)) == canonRows rowsAfter) with
          | some L =>
            let expect := reply req resp isReq x L
            let acc := { acc with rows := put acc.rows (grantRow c x acc.now L blob) }
            if Judge.C12.dump expect == Judge.C12.dump m then acc
            else differ s!"reply model={Judge.C12.dump expect}" acc
          | none =>
            differ s!"grant-not-allowed x={x} cands={cands} allowed={repr (allowed acc.rows acc.now c rq pool)}" { acc with rows := rowsAfter }
        | _, _ => differ "bad-result" acc
  let acc' := if canonRows acc'.rows == canonRows rowsAfter then acc'
              else differ s!"rows model={Judge.Pool.showRows acc'.rows} impl={Judge.Pool.showRows rowsAfter}" { acc' with rows := rowsAfter }
  { acc' with implRows := rowsAfter, idx := acc.idx + 1 }

/-- `dhcp t0=<n> cfg=<hex> ops=<…> => cfg=<dump> obs=<…>` | `cfgerr` -/
def judge (inp obs : List String) : Verdict :=
  match getNat inp "t0", kv inp "ops" with
  | some t0, some opsS =>
    match obs with
    | ["cfgerr"] => { corr := "agree", spec := "na" }
    | _ =>
      let o1 := obs.headD ""
      if o1.startsWith "panic" then { corr := "differ:impl-panic", spec := "unsat:C05.no_panic:dhcp-handle_pkt" } else
      match obs.findSome? (fun t => if t.startsWith "cfg=" then some ((t.drop 4).toString) else none),
            obs.findSome? (fun t => if t.startsWith "obs=" then some ((t.drop 4).toString) else none) with
      | some cfgS, some obsS =>
        match parseCfg cfgS, (opsS.splitOn ";").mapM parseDOp, (obsS.splitOn ";").mapM parseDObs with
        | some cfg, some ops, some os =>
          if ops.length != os.length then badInput "dhcp-length" else
          let init : DAcc := { rows := [], implRows := [], now := t0 }
          let fin := (ops.zip os).foldl (fun acc (op, (res, rows)) => stepD cfg acc op res rows) init
          { corr := match fin.corr with | some w => "differ:" ++ w | none => "agree",
            spec := if fin.spec.isEmpty then "sat" else ";".intercalate fin.spec.eraseDups }
        | none, _, _ => badInput "dhcp-cfg-parse"
        | _, none, _ => badInput "dhcp-ops-parse"
        | _, _, none => badInput "dhcp-obs-parse"
      | _, _ => badInput "dhcp-obs"
  | _, _ => badInput "dhcp"

end Erbium.Judge.Dhcp
