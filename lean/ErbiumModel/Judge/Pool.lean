import ErbiumModel.Util
import ErbiumModel.Model.Pool
/-! Driver glue for the `pool` suite: histories of allocate / tick / restart / metrics against
    `dhcp::pool::Pool`. One line = one history; the implementation's observation carries the
    result of every op and the sorted table after it. Serves C01 C09 C10 C13 C18 C20. -/
namespace Erbium.Judge.Pool
open Erbium Util Erbium.Pool

inductive Op where
  | alloc (c : Client) (req : Option Nat) (pool : List Nat) (lo hi : Nat) (opts : List Nat)
  | tick (n : Nat)
  | restart
  | metrics
  | clockStep (n : Nat)
deriving Repr

def parseOp (s : String) : Option Op :=
  match s.splitOn ":" with
  | ["a", c, req, pool, lo, hi, opts] => do
    let c ← fromHex c
    let req ← if req = "-" then some none else (req.toNat?).map some
    let pool ← natList pool
    pure (.alloc c req pool (← lo.toNat?) (← hi.toNat?) (← fromHex opts))
  | ["t", n] => n.toNat?.map .tick
  | ["k", n] => n.toNat?.map .clockStep
  | ["r"] => some .restart
  | ["m"] => some .metrics
  | _ => none

def parseRows (s : String) : Option Store :=
  if s = "-" then some [] else
  (s.splitOn "/").mapM fun e =>
    match e.splitOn "," with
    | [a, c, st, ex, o] => do
      pure { addr := ← a.toNat?, client := ← fromHex c, start := ← st.toNat?, expiry := ← ex.toNat?, options := ← fromHex o }
    | _ => none

def sortRows (s : Store) : Store := (s.toArray.qsort (fun a b => a.addr < b.addr)).toList

def showRows (s : Store) : String :=
  if s.isEmpty then "-" else
  "/".intercalate ((sortRows s).map fun r => s!"{r.addr},{toHex r.client},{r.start},{r.expiry},{toHex r.options}")

def parseType : String → Option LType
  | "NewAddress" => some .newAddress
  | "ReusingLease" => some .reusing
  | "Requested" => some .requested
  | "Revived" => some .revived
  | _ => none

inductive Res where
  | ok (addr : Nat) (ty : LType) (L : Nat)
  | err (kind : String)
  | metrics (a e : Nat)
  | none
deriving Repr

/-- `<result>@<rows>` -/
def parseObsOp (s : String) : Option (Res × Store) :=
  match s.splitOn "@" with
  | [r, rows] => do
    let rows ← parseRows rows
    let res ← match r.splitOn ":" with
      | ["ok", a, ty, l] => do pure (Res.ok (← a.toNat?) (← parseType ty) (← l.toNat?))
      | ["err", k] => some (Res.err k)
      | ["m", a, e] => do pure (Res.metrics (← a.toNat?) (← e.toNat?))
      | ["merr"] => some (Res.err "metrics")
      | ["-"] => some Res.none
      | _ => Option.none
    pure (res, rows)
  | _ => Option.none

structure MState where
  rows : Store
  now : Nat
  step : Nat

/-! ### specification predicates, evaluated on the implementation's observation alone -/

def heldByB (s : Store) (now : Nat) (c : Client) (x : Nat) : Bool :=
  match rowOf s x with
  | some r => r.client == c && decide (r.expiry > now)
  | none => false

structure Beliefs where
  l : List (Client × Nat × Nat)   -- (client, addr, expiry told)

def Beliefs.set (b : Beliefs) (c : Client) (x E : Nat) : Beliefs :=
  ⟨(c, x, E) :: b.l.filter (fun e => !(e.1 == c && e.2.1 == x))⟩

/-- C01: two different clients with unexpired beliefs on one address at instant `now` -/
def Beliefs.conflict (b : Beliefs) (now : Nat) : Option (Nat) :=
  b.l.findSome? fun (c, x, E) =>
    if E > now && b.l.any (fun (c', x', E') => x' == x && c' != c && decide (E' > now)) then some x else none

/-- the client was told (in this history) that it holds `x` until some instant after `now` -/
def Beliefs.holds (b : Beliefs) (now : Nat) (c : Client) (x : Nat) : Bool :=
  b.l.any fun (c', x', E) => c' == c && x' == x && decide (E > now)

def specAlloc (bel : Beliefs) (before after : Store) (now : Nat) (c : Client) (req : Option Nat) (pool : List Nat)
    (lo hi : Nat) (res : Res) : List String :=
  -- what the client holds in this pool: by the server's record, or by what the server told it earlier (on a correct
  -- server the second is contained in the first, `C01_belief_backed`)
  let A := pool.filter fun x => heldByB before now c x || bel.holds now c x
  match res with
  | .ok x _ L =>
    let keep :=
      if !A.isEmpty && !A.contains x then
        let bestOutside := before.any fun r => r.client == c && decide (r.expiry > now) && !pool.contains r.addr
        [s!"unsat:C09.keeps_inpool_lease:{if bestOutside then "unexpired-lease-outside-pool" else "other"}"]
      else match req with
        | some q => if A.contains q && x != q then ["unsat:C09.named_address:holds-requested"] else []
        | none => []
    let inpool := if pool.contains x then [] else ["unsat:C02.in_pool:granted-outside-pool"]
    let bounds := if lo ≤ hi && !(lo ≤ L && L ≤ hi) then [s!"unsat:C10.bounds:{if L < lo then "below-min" else "above-max"}"] else []
    let record := match rowOf after x with
      | some r =>
        (if r.client != c then ["unsat:C10.record:row-not-owned", "unsat:C09.binding_recorded_for_client:row-not-owned",
                                "unsat:C01.belief_backed:row-not-owned"] else []) ++
        (if r.expiry - r.start != L || r.expiry < r.start then ["unsat:C10.record:duration-differs"] else []) ++
        (if r.start < now then ["unsat:C10.record:start-before-request"] else []) ++
        (if r.expiry < now + L then ["unsat:C10.record:expires-early"] else [])
      | none => ["unsat:C10.record:no-row"]
    -- a reply never moves the end of the lease the client already has for the address earlier (as long as what is left
    -- is within the maximum in force: `C10_never_shortens`); read off the two tables alone
    let shorter := match rowOf before x, rowOf after x with
      | some r0, some r1 =>
        if r0.client == c && r1.client == c && r0.expiry > r1.start && r0.expiry - r1.start ≤ hi && r1.expiry < r0.expiry
        then ["unsat:C10.never_shortens:record-ends-earlier", "unsat:C01.acknowledged_not_undercut:record-ends-earlier"] else []
      | _, _ => []
    let others := shorter ++ if (sortRows (after.filter (·.addr != x))) == (sortRows (before.filter (·.addr != x))) then []
                  else ["unsat:C13.only_own_row:other-row-changed"]
    keep ++ inpool ++ bounds ++ record ++ others
  | .err k =>
    let unchanged := if sortRows after == sortRows before then [] else ["unsat:C13.no_reply_no_change:error-changed-store"]
    let refusal :=
      if k == "NoAssignableAddress" then
        match pool.find? (fun x => bel.holds now c x || !(match rowOf before x with
                                      | some r => r.client != c && decide (r.expiry > now)
                                      | none => false)) with
        | some x =>
          let cls := match rowOf before x with
            | none => "free-address"
            | some r => if r.client == c then "own-lease" else if r.expiry == now then "row-expiring-now" else "expired-row"
          [s!"unsat:C09.refusal_only_when_exhausted:{cls}"]
        | none => []
      else [s!"unsat:C09.refusal_only_when_exhausted:error-{k}"]
    unchanged ++ refusal
  | _ => ["unsat:C13.harness:unexpected-result"]

def specMetrics (rows : Store) (now : Nat) (res : Res) : List String :=
  let a := rows.countP (fun r => decide (r.expiry > now))
  let e := rows.countP (fun r => decide (r.expiry ≤ now))
  match res with
  | .metrics a' e' =>
    if a' == a && e' == e then [] else
      [s!"unsat:C20.gauges:{if a' == e && e' == a && a != e then "swapped" else "wrong-count"}"]
  | .err _ => [s!"unsat:C20.gauges:{if rows.isEmpty then "empty-store-error" else "error"}"]
  | _ => ["unsat:C20.gauges:unexpected-result"]

structure Acc where
  m : MState
  implRows : Store
  beliefs : Beliefs
  corr : Option String := none
  spec : List String := []
  idx : Nat := 0

def typeOK (m : MState) (c : Client) (req : Option Nat) (pool : List Nat) (res : Res) : Option Nat :=
  -- raw duration the model associates with the implementation's choice, if the choice is allowed
  match res with
  | .ok x ty _ =>
    (allowed m.rows m.now c req pool).findSome? fun o =>
      match o with
      | .ok x' ty' d => if x' == x && ty' == ty then some d else none
      | .noAddress => none
  | _ => none

def stepAcc (acc : Acc) (op : Op) (res : Res) (rowsAfter : Store) : Acc :=
  let m := acc.m
  let differ (why : String) (a : Acc) : Acc :=
    if a.corr.isSome then a else { a with corr := some s!"op{acc.idx}:{why}" }
  let acc' : Acc := match op with
    | .alloc c req pool lo hi opts =>
      let now := m.now
      let now' := m.now + m.step
      let spec := specAlloc acc.beliefs acc.implRows rowsAfter now c req pool lo hi res
      let (m', corrWhy) : MState × Option String := match res with
        | .ok x _ L =>
          match typeOK m c req pool res with
          | some d =>
            let Lm := leaseFor d lo hi (remainingOf m.rows c x now')
            let rows' := put m.rows (grantRow c x now' Lm opts)
            ({ m with rows := rows', now := m.now + 2 * m.step },
             if Lm != L then some s!"lease model={Lm} impl={L}" else none)
          | none => ({ m with rows := rowsAfter, now := m.now + 2 * m.step },
                     some s!"outcome-not-allowed allowed={repr (allowed m.rows m.now c req pool)}")
        | .err k =>
          let a := allowed m.rows m.now c req pool
          -- an error return reads the clock once (select_address) and writes nothing
          ({ m with now := m.now + m.step },
           if k == "NoAssignableAddress" && a.contains .noAddress then none
           else some s!"error-not-allowed:{k} allowed={repr a}")
        | _ => (m, some "bad-result")
      let beliefs := match res with
        | .ok x _ L => acc.beliefs.set c x (now' + L)
        | _ => acc.beliefs
      let a : Acc := { acc with m := m', beliefs := beliefs, spec := acc.spec ++ spec }
      match corrWhy with
      | some w => differ w a
      | none => a
    | .tick n => { acc with m := { m with now := m.now + n } }
    | .clockStep n => { acc with m := { m with step := n } }
    | .restart => acc
    | .metrics =>
      let spec := specMetrics acc.implRows m.now res
      let mdl := metrics m.rows m.now
      let ok := match res, mdl with
        | .metrics a e, some (a', e') => a == a' && e == e'
        | .err _, none => true
        | _, _ => false
      let a : Acc := { acc with m := { m with now := m.now + m.step }, spec := acc.spec ++ spec }
      if ok then a else differ s!"metrics model={repr mdl}" a
  -- rows must agree after every op; non-alloc ops must leave the table unchanged (C13/C18)
  let acc' := if sortRows acc'.m.rows == sortRows rowsAfter then acc'
              else differ s!"rows model={showRows acc'.m.rows} impl={showRows rowsAfter}" { acc' with m := { acc'.m with rows := rowsAfter } }
  let unchangedSpec := match op with
    | .alloc .. => []
    | .restart => if sortRows rowsAfter == sortRows acc.implRows then [] else ["unsat:C18.restart_preserves:rows-changed"]
    | _ => if sortRows rowsAfter == sortRows acc.implRows then [] else ["unsat:C13.no_reply_no_change:rows-changed"]
  let now2 := acc'.m.now
  let c01 := match acc'.beliefs.conflict now2 with
    | some _ => ["unsat:C01.no_double_lease:two-unexpired-beliefs"]
    | none => []
  { acc' with implRows := rowsAfter, spec := acc'.spec ++ unchangedSpec ++ c01, idx := acc.idx + 1 }

/-- `pool t0=<n> ops=<op;op;…> => <res@rows;res@rows;…>` -/
def judge (inp obs : List String) : Verdict :=
  match getNat inp "t0", kv inp "ops", obs with
  | some t0, some opsS, [obsS] =>
    if obsS.startsWith "panic" then { corr := "differ:impl-panic", spec := "unsat:C05.no_panic:pool" } else
    match (opsS.splitOn ";").mapM parseOp, (obsS.splitOn ";").mapM parseObsOp with
    | some ops, some os =>
      if ops.length != os.length then badInput "pool-length" else
      let init : Acc := { m := { rows := [], now := t0, step := 0 }, implRows := [], beliefs := ⟨[]⟩ }
      let fin := (ops.zip os).foldl (fun acc (op, (res, rows)) => stepAcc acc op res rows) init
      { corr := match fin.corr with | some w => "differ:" ++ w | none => "agree",
        spec := if fin.spec.isEmpty then "sat" else ";".intercalate fin.spec.eraseDups }
    | _, _ => badInput "pool-parse"
  | _, _, _ => badInput "pool"

end Erbium.Judge.Pool
