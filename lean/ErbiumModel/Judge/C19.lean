import ErbiumModel.Util
import ErbiumModel.Model.ConfigSafe
import ErbiumModel.Judge.C05
/-! Driver glue for the configuration suites of C19. -/
namespace Erbium.Judge.C19
open Erbium Util Erbium.Safe Erbium.ConfigSafe

def utf8 (s : String) : List Nat := s.toUTF8.toList.map (·.toNat)

def strOfHex (h : String) : Option String :=
  (Judge.C05.unhex? h).bind fun bs => String.fromUTF8? (ByteArray.mk (bs.map (·.toUInt8)).toArray)

partial def yamlOf (enc : String) : Option Yaml :=
  if enc == "n" then some .null else if enc == "bad" then some .bad else if enc == "h" then some .hash else
  match enc.splitOn ":" with
  | ["i", v] => v.toInt?.map .int
  | ["s", v] => (strOfHex v).map .str
  | ["r", v] => (strOfHex v).map .real
  | ["b", v] => some (.bool (v == "1"))
  | ["a", v] => if v == "e" then some (.arr []) else ((v.splitOn ";").mapM fun x => yamlOf (x.replace "=" ":")).map .arr
  | _ => none

def showOpt {α : Type} (f : α → String) : Out (Option α) → String
  | .ok none => "none"
  | .ok (some a) => "ok:" ++ f a
  | .err _ => "err"
  | .panic s => "model-panic:" ++ s

def ipOf (tag : String) : IpKind :=
  match tag.splitOn ":" with
  | ["4", n] => (n.toNat?.map IpKind.v4).getD .invalid
  | ["6", n] => (n.toNat?.map IpKind.v6).getD .invalid
  | _ => .invalid

def prefixOut (want : PrefixWant) (y : Yaml) (ip : IpKind) : Out (Option (Nat × Nat × Nat)) := do
  match ← parseString y with
  | none => pure none
  | some s => do let r ← strPrefix want s ip; pure (some r)

def hx := Judge.C05.hx

def judgeField (inp obs : List String) : Verdict :=
  let o := " ".intercalate obs
  match kv inp "k", (kv inp "v").bind yamlOf with
  | some k, some y =>
    let ip := ipOf ((kv inp "ip").getD "x")
    let showP := showOpt fun (r : Nat × Nat × Nat) => s!"{r.1}/{r.2.1}/{r.2.2}"
    let m : String := match k with
      | "duration" => showOpt toString (parseDuration y)
      | "prefix" => showP (prefixOut .any y ip)
      | "prefix4" => showP (prefixOut .only4 y ip)
      | "prefix6" => showP (prefixOut .only6 y ip)
      | "hwaddr" => showOpt hx (parseHwaddr y)
      | "u8" => showOpt toString (parseNum 0 255 y)
      | "u16" => showOpt toString (parseNum 0 65535 y)
      | "u32" => showOpt toString (parseNum 0 4294967295 y)
      | "bool" => showOpt (fun b => if b then "1" else "0") (parseBoolean y)
      | "string" => showOpt (fun s => hx (utf8 s)) (parseString y)
      | "search" => showOpt (fun s => hx (utf8 s)) (parseSearchDomain y)
      | "strarray" => showOpt (fun l => ",".intercalate (l.map fun s => hx (utf8 s))) (parseArray parseString y)
      -- socket addresses: the model decides only what `st.get(0..1)` decides (an empty string or one that does not
      -- start with an ASCII character is refused); `*` = the rest is std's / the OS's parser, any verdict but a panic
      | "sockaddr" => (match parseString y with
          | .ok none => "none"
          | .ok (some s) => if s.isEmpty || (s.toList.headD 'a').toNat ≥ 128 then "err" else "*"
          | .err _ => "err"
          | .panic w => "model-panic:" ++ w)
      | "typename" => (match typeToName y with | .ok s => "ok:" ++ hx (utf8 s) | .err _ => "err" | .panic s => "model-panic:" ++ s)
      | _ => "bad-kind"
    if o.startsWith "panic" then { corr := "differ:impl-panic model=" ++ m, spec := s!"unsat:C19.load_total:{k}" }
    else { corr := agreeIf (o == m || m == "*") ("model=" ++ m), spec := "sat" }
  | _, _ => badInput "cfgfield"

/-- `cfgload y=<hex> [expect=ok|err] [src=<label>]`: the oracle is the statement itself (a result, never a panic; examples load) -/
def judgeLoad (inp obs : List String) : Verdict :=
  let o := " ".intercalate obs
  let expect := (kv inp "expect").getD "-"
  let src := (kv inp "src").getD "generated"
  if o.startsWith "panic" then
    let inLoader := (o.splitOn "config.rs").length > 1 && (o.splitOn "dhcp/mod.rs").length == 1
    { corr := "differ:impl-panic", spec := if inLoader then s!"unsat:C19.load_total:{src}" else s!"unsat:C19.accepted_config_safe:{src}" }
  else if expect == "ok" && !(o.startsWith "ok") then
    { corr := "differ:expected-to-load", spec := s!"unsat:C19.examples_load:{src}" }
  else if expect == "err" && o.startsWith "ok" then
    { corr := "differ:expected-to-be-refused", spec := "sat" }
  else { corr := "agree", spec := "sat" }

end Erbium.Judge.C19
