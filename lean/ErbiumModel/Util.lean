/-! Shared helpers for the line protocol between the Rust harness and the Lean driver.
    No proofs here; this file is part of the (trusted) driver glue, not of any theorem. -/
namespace Erbium.Util

def hexDigit (n : Nat) : Char :=
  if n < 10 then Char.ofNat (48 + n) else Char.ofNat (87 + n)

def hexByte (b : Nat) : String :=
  String.ofList [hexDigit (b / 16 % 16), hexDigit (b % 16)]

/-- bytes → lowercase hex, `-` for empty -/
def toHex (bs : List Nat) : String :=
  if bs.isEmpty then "-" else String.join (bs.map hexByte)

def hexVal (c : Char) : Option Nat :=
  if '0' ≤ c ∧ c ≤ '9' then some (c.toNat - 48)
  else if 'a' ≤ c ∧ c ≤ 'f' then some (c.toNat - 87)
  else if 'A' ≤ c ∧ c ≤ 'F' then some (c.toNat - 55)
  else none

def fromHexChars : List Char → Option (List Nat)
  | [] => some []
  | a :: b :: rest => do
    let x ← hexVal a
    let y ← hexVal b
    let r ← fromHexChars rest
    pure ((x * 16 + y) :: r)
  | _ => none

def fromHex (s : String) : Option (List Nat) :=
  if s = "-" then some [] else fromHexChars s.toList

def splitOn (s : String) (sep : String) : List String := s.splitOn sep

def words (s : String) : List String := (s.splitOn " ").filter (· ≠ "")

/-- `k=v` tokens → lookup (the value may itself contain `=`) -/
def kv (toks : List String) (k : String) : Option String :=
  toks.findSome? fun t =>
    if t.startsWith (k ++ "=") then some ((t.drop (k.length + 1)).toString) else none

def natList (s : String) (sep : String := ",") : Option (List Nat) :=
  if s = "-" ∨ s = "" then some [] else (s.splitOn sep).mapM (·.toNat?)

def showNatList (l : List Nat) (sep : String := ",") : String :=
  if l.isEmpty then "-" else sep.intercalate (l.map toString)

end Erbium.Util

namespace Erbium.Util

def getNat (toks : List String) (k : String) : Option Nat := (kv toks k).bind (·.toNat?)
def getHex (toks : List String) (k : String) : Option (List Nat) := (kv toks k).bind fromHex

/-- verdict of one case: correspondence (model vs implementation) and oracle (spec on the
    implementation's observation), reported separately -/
structure Verdict where
  corr : String    -- "agree" | "differ:<detail>"
  spec : String    -- "sat" | "na" | "unsat:<clause>:<class>"

def oneLine (s : String) : String := String.ofList (s.toList.map fun c => if c == '\n' || c == '\r' then ' ' else c)

def Verdict.render (v : Verdict) : String := oneLine (v.corr.replace " | " " / ") ++ " | " ++ oneLine v.spec

def badInput (why : String) : Verdict := { corr := "differ:bad-input:" ++ why, spec := "na" }

def agreeIf (b : Bool) (detail : String) : String := if b then "agree" else "differ:" ++ detail

end Erbium.Util
