import ErbiumModel.Model.Cursor
/-! Panic-aware models of the DHCP side of C05: `dhcppkt::parse` (fixed header, chaddr slicing,
    option loop), the typed option decoders that `log_options` runs over every option of a request,
    `Ipv4Subnet::new` as used by the classless-route decoder, and `dhcp::to_array`. -/
namespace Erbium.DhcpSafe
open Erbium.Safe Erbium.Cursor Erbium.Generated.Pkt

/-! ### dhcppkt::parse -/

/-- `null_terminated`: `v[i]` for `i in 0..v.len()` (always in range), truncate at the first zero -/
def nullTerminated (v : List Nat) : List Nat := v.takeWhile (· != 0)

/-- `parse_options`: `loop { match buf.get_u8() … }` -/
def parseOptions (fuel : Nat) (b : Buf) (acc : List (Nat × List Nat)) : Out (List (Nat × List Nat)) :=
  match fuel with
  | 0 => .panic "fuel:parse_options"
  | fuel + 1 => do
    let (x, b1) ← b.getU8.orErr "UnexpectedEndOfInput"
    if x == 0 then parseOptions fuel b1 acc
    else if x == 255 then pure acc.reverse
    else do
      let (l, b2) ← b1.getU8.orErr "UnexpectedEndOfInput"
      let (v, b3) ← (b2.getBytes l).orErr "UnexpectedEndOfInput"
      parseOptions fuel b3 ((x, v) :: acc)

structure Header where
  op : Nat
  htype : Nat
  hlen : Nat
  chaddr : List Nat
  options : List (Nat × List Nat)      -- in wire order, instances not yet concatenated
deriving Repr

def parse (pkt : List Nat) : Out Header := do
  let b := Buf.new pkt
  let e := "UnexpectedEndOfInput"
  let (op, b) ← b.getU8.orErr e
  let (htype, b) ← b.getU8.orErr e
  let (hlen, b) ← b.getU8.orErr e
  let (_, b) ← b.getU8.orErr e
  let (_, b) ← b.getBe32.orErr e
  let (_, b) ← b.getBe16.orErr e
  let (_, b) ← b.getBe16.orErr e
  let (_, b) ← b.getIpv4.orErr e
  let (_, b) ← b.getIpv4.orErr e
  let (_, b) ← b.getIpv4.orErr e
  let (_, b) ← b.getIpv4.orErr e
  let (chaddr, b) ← (b.getBytes 16).orErr e
  if dhcpHlenChecked && hlen > chaddr.length then .err "InvalidPacket" else do
    let (_, b) ← (b.getBytes 64).orErr e
    let (_, b) ← (b.getBytes 128).orErr e
    let (magic, b) ← b.getBe32.orErr e
    if magic != 0x63825363 then .err "WrongMagic" else do
      let options ← parseOptions (pkt.length + 1) b []
      let ch ← slice "dhcppkt chaddr[0..hlen]" chaddr 0 hlen
      pure { op, htype, hlen, chaddr := ch, options }

/-! ### dhcp::to_array -/

def toArray (mac : List Nat) : Out (Option (List Nat)) :=
  if dhcpToArrayChecked then
    (if mac.length < 6 then pure none else pure (some (mac.take 6)))
  else do
    let s ← slice "dhcp to_array mac[0..6]" mac 0 6
    pure (some s)

/-! ### typed option decoders (`DhcpOptionType::decode`) -/

/-- `Ipv4Subnet::netmask`: `!(0xffff_ffff_u64 >> prefixlen) as u32` -/
def netmask (len : Nat) : Out Nat := do
  let s ← shrU "Ipv4Subnet::netmask 0xffff_ffff_u64 >> prefixlen" 64 (2 ^ 32 - 1) len
  pure ((2 ^ 32 - 1 - s) % 2 ^ 32)

/-- `Ipv4Subnet::new`: `.err` = `Err(InvalidSubnet)` -/
def subnetNew (addr len : Nat) : Out (Nat × Nat) :=
  match subnetPrefixLenMax with
  | some m => if len > m then .err "InvalidSubnet" else do
      let nm ← netmask len
      if addr &&& (2 ^ 32 - 1 - nm) != 0 then .err "InvalidSubnet" else pure (addr, len)
  | none => do
      let nm ← netmask len
      if addr &&& (2 ^ 32 - 1 - nm) != 0 then .err "InvalidSubnet" else pure (addr, len)

def be4 (a b c d : Nat) : Nat := ((a * 256 + b) * 256 + c) * 256 + d

/-- `Vec::<Route>::parse_into` -/
def decodeRoutes (fuel : Nat) (v : List Nat) (acc : List (Nat × Nat × Nat)) : Out (Option (List (Nat × Nat × Nat))) :=
  match fuel with
  | 0 => .panic "fuel:Vec<Route>::parse_into"
  | fuel + 1 =>
    match v with
    | [] => pure (some acc.reverse)
    | len :: a :: b :: c :: d :: rest => do
      match ← (subnetNew (be4 a b c d) len).toOpt with
      | none => pure none
      | some (p, l) =>
        match rest with
        | e :: f :: g :: h :: rest' => decodeRoutes fuel rest' ((p, l, be4 e f g h) :: acc)
        | _ => pure none
    | _ => pure none

/-- `v.iter().fold(0, |acc, &v| (acc << 8) + v)` on a `bits`-wide unsigned integer -/
def foldU (bits : Nat) (v : List Nat) : Out Nat :=
  v.foldlM (fun acc x => fitU "parse_into (acc << 8) + v" bits ((acc * 256) % 2 ^ bits + x)) 0

/-- the same fold on `i32` (two's complement image); the addition overflows when the signed sum exceeds `i32::MAX` -/
def foldI32 (v : List Nat) : Out Nat :=
  v.foldlM (fun acc x =>
    let sh := (acc * 256) % 2 ^ 32
    if sh < 2 ^ 31 ∧ sh + x ≥ 2 ^ 31 then .panic "i32::parse_into (acc << 8) + v" else pure ((sh + x) % 2 ^ 32)) 0

def u32bytes (x : Nat) : List Nat := [x / 16777216 % 256, x / 65536 % 256, x / 256 % 256, x % 256]
def u16bytes (x : Nat) : List Nat := [x / 256 % 256, x % 256]

def decodeIpList : List Nat → List Nat → Option (List Nat)
  | [], acc => some acc.reverse
  | a :: b :: c :: d :: rest, acc => decodeIpList rest (be4 a b c d :: acc)
  | _, _ => none

/-- `DhcpOptionType::decode` followed by `as_bytes` (the observable the harness prints); `none` = decode failed.
    String-like results are reported without their bytes. -/
def decode (ty : String) (v : List Nat) : Out (Option (Option (List Nat))) :=
  match ty with
  | "string" => pure (some none)
  | "unknown" | "hwaddr" => pure (some (some v))
  | "ip" =>
    if v.length != 4 then pure none else do
      let a ← idx "Ipv4Addr::parse_into v[0]" v 0
      let b ← idx "Ipv4Addr::parse_into v[1]" v 1
      let c ← idx "Ipv4Addr::parse_into v[2]" v 2
      let d ← idx "Ipv4Addr::parse_into v[3]" v 3
      pure (some (some [a, b, c, d]))
  | "iplist" => pure ((decodeIpList v []).map fun l => some (l.flatMap u32bytes))
  | "i32" => do let x ← foldI32 v; pure (some (some (u32bytes x)))
  | "u8" | "bool" => if v.length != 1 then pure none else pure (some (some v))
  | "u16" | "sec16" => do let x ← foldU 16 v; pure (some (some (u16bytes x)))
  | "u32" | "sec32" => do let x ← foldU 32 v; pure (some (some (u32bytes x)))
  | "routes" => do
    match ← decodeRoutes (v.length + 1) v [] with
    | none => pure none
    | some rs => pure (some (some (rs.flatMap fun (p, l, nh) => l :: (u32bytes p ++ u32bytes nh))))
  | "domains" => do
    match ← ((Buf.new v).getDomains (v.length + 1) []).toOpt with
    | none => pure none
    | some _ => pure (some none)
  | _ => .err "harness:type"

end Erbium.DhcpSafe
