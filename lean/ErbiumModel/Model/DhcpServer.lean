import ErbiumModel.Model.DhcpWire
import ErbiumModel.Model.Pool
import ErbiumModel.Generated.Dhcp
/-! Executable model of `crates/erbium-core/src/dhcp/mod.rs`: `check_policy`, `check_policies`,
    `apply_policy`, `apply_policies`, the three-state response option table, `build_default_config`,
    `handle_discover`, `handle_request`, `handle_pkt`. The configuration is the *loaded* one
    (`config::Policy` with option values already turned into bytes by `as_bytes`). -/
namespace Erbium.Dhcp
open Erbium.DhcpWire (Dhcp Opts)

abbrev Bytes := List Nat

/-- `config::Policy` -/
inductive Policy where
  | mk (matchAll : Bool) (matchChaddr : Option Bytes) (matchSubnet : Option (Nat × Nat))
       (matchOther : List (Nat × Option Bytes)) (applyAddress : Option (List Nat))
       (applyOther : List (Nat × Option Bytes)) (subs : List Policy)

def Policy.subs : Policy → List Policy | .mk _ _ _ _ _ _ s => s
def Policy.applyAddress : Policy → Option (List Nat) | .mk _ _ _ _ a _ _ => a
def Policy.applyOther : Policy → List (Nat × Option Bytes) | .mk _ _ _ _ _ o _ => o
def Policy.matchSubnet : Policy → Option (Nat × Nat) | .mk _ _ s _ _ _ _ => s

structure Req where
  pkt : Dhcp
  serverip : Nat
  mtu : Option Nat := none
  router : Option Nat := none

def lookupOpt (o : Opts) (k : Nat) : Option Bytes := (o.find? (·.1 == k)).map (·.2)

/-- `Ipv4Subnet::netmask`: `!(0xffff_ffff_u64 >> prefixlen) as u32` (prefixlen ≤ 32 here) -/
def netmask (len : Nat) : Nat := (2 ^ 32 - 1) - (2 ^ 32 - 1) / 2 ^ len
/-- `Ipv4Subnet::contains` -/
def subnetContains (s : Nat × Nat) (ip : Nat) : Bool := (ip &&& netmask s.2) == s.1
def subnetNetwork (s : Nat × Nat) : Nat := s.1 &&& netmask s.2
def subnetBroadcast (s : Nat × Nat) : Nat := subnetNetwork s ||| ((2 ^ 32 - 1) - netmask s.2)

inductive PM where | noMatch | failed | ok deriving DecidableEq, Repr

/-- one `match-<option>` condition of `check_policy` -/
def otherCondHolds (req : Req) (e : Nat × Option Bytes) : Bool :=
  match e.2, lookupOpt req.pkt.options e.1 with
  | none, none => true
  | none, some _ => false
  | some mat, some opt => mat == opt
  | some _, none => false

/-- `check_policy` -/
def checkPolicy (req : Req) : Policy → PM
  | .mk matchAll matchChaddr matchSubnet matchOther _ _ _ =>
    let o0 := if matchAll then PM.ok else PM.noMatch
    match (match matchChaddr with
           | some m => if req.pkt.chaddr != m then none else some PM.ok
           | none => some o0) with
    | none => .failed
    | some o1 =>
      match (match matchSubnet with
             | some s => if !subnetContains s req.serverip then none else some PM.ok
             | none => some o1) with
      | none => .failed
      | some o2 =>
        if matchOther.all (otherCondHolds req)
        then (if matchOther.isEmpty then o2 else .ok)
        else .failed

mutual
/-- `check_policies` -/
def checkPolicies (req : Req) : List Policy → Bool
  | [] => false
  | p :: ps =>
    (match checkPolicy req p with
     | .ok => true
     | .failed => false
     | .noMatch => checkSubs req p) || checkPolicies req ps
def checkSubs (req : Req) : Policy → Bool
  | .mk _ _ _ _ _ _ subs => checkPolicies req subs
end

/-- the response under construction: options are absent / explicitly unset (`none`) / a value -/
structure Resp where
  options : List (Nat × Option Bytes) := []
  address : Option (List Nat) := none

def ropt (r : Resp) (k : Nat) : Option (Option Bytes) := (r.options.find? (·.1 == k)).map (·.2)
/-- `mutate_option` / `set_raw_option` -/
def setOpt (r : Resp) (k : Nat) (v : Option Bytes) : Resp :=
  { r with options := (k, v) :: r.options.filter (·.1 != k) }
/-- `mutate_option_default` -/
def setOptDefault (r : Resp) (k : Nat) (v : Bytes) : Resp :=
  if (ropt r k).isSome then r else setOpt r k (some v)

def ser32 (x : Nat) : Bytes := DhcpWire.ser32 x

/-- the parameter request list (option 55) as a set -/
def paramList (req : Req) : List Nat := (lookupOpt req.pkt.options 55).getD []

mutual
/-- `apply_policy` -/
def applyPolicy (req : Req) : Policy → Resp → Option Resp
  | .mk matchAll matchChaddr matchSubnet matchOther applyAddress applyOther subs, r =>
    let ok := match checkPolicy req (.mk matchAll matchChaddr matchSubnet matchOther applyAddress applyOther subs) with
      | .failed => false
      | .ok => true
      | .noMatch => checkPolicies req subs
    if !ok then none else
    let r := match applyAddress with
      | some a => { r with address := some a }
      | none => r
    let pl := paramList req
    let r := applyOther.foldl (fun acc (k, v) => if pl.contains k then setOpt acc k v else acc) r
    let r := (applyPolicies req subs r).1
    let r := match matchSubnet with
      | some s =>
        let r := if pl.contains 1 then setOptDefault r 1 (ser32 (netmask s.2)) else r
        if pl.contains 28 then setOptDefault r 28 (ser32 (subnetBroadcast s)) else r
      | none => r
    some r
/-- `apply_policies`: the first sibling that applies -/
def applyPolicies (req : Req) : List Policy → Resp → Resp × Bool
  | [], r => (r, false)
  | p :: ps, r =>
    match applyPolicy req p r with
    | some r' => (r', true)
    | none => applyPolicies req ps r
end

mutual
/-- `Policy::get_all_used_addresses` -/
def usedAddresses : Policy → List Nat
  | .mk _ _ _ _ applyAddress _ subs => applyAddress.getD [] ++ usedAddressesL subs
def usedAddressesL : List Policy → List Nat
  | [] => []
  | p :: ps => usedAddresses p ++ usedAddressesL ps
end

/-! `$self4`: an IPv4 address in an option value may be written `$self4` (loaded as 0.0.0.0), meaning the
    address of the interface the request arrived on -/

def resolveGroups (self : Bytes) : Bytes → Bytes
  | a :: b :: c :: d :: rest => (if [a, b, c, d] == [0, 0, 0, 0] then self else [a, b, c, d]) ++ resolveGroups self rest
  | rest => rest

/-- classless routes as `DhcpOptionTypeValue::as_bytes` lays them out: length, four prefix octets, four next-hop octets -/
def resolveRoutes (self : Bytes) : Bytes → Bytes
  | l :: p1 :: p2 :: p3 :: p4 :: a :: b :: c :: d :: rest =>
    [l, p1, p2, p3, p4] ++ (if [a, b, c, d] == [0, 0, 0, 0] then self else [a, b, c, d]) ++ resolveRoutes self rest
  | rest => rest

/-- the value of option `k` with `$self4` replaced, by the type of the option (table regenerated from dhcppkt.rs) -/
def resolveSelf (req : Req) (k : Nat) (v : Bytes) : Bytes :=
  if Generated.Dhcp.ipOptionCodes.contains k then resolveGroups (ser32 req.serverip) v
  else if Generated.Dhcp.routeOptionCodes.contains k then resolveRoutes (ser32 req.serverip) v
  else v

/-- what `apply_policy` does to a value before applying it -/
def implResolve (req : Req) (k : Nat) (v : Bytes) : Bytes :=
  if Generated.Dhcp.policySelf4Resolved then resolveSelf req k v else v

mutual
/-- a policy forest with every applied value passed through `f` (conditions, addresses and structure untouched) -/
def mapValues (f : Nat → Bytes → Bytes) : Policy → Policy
  | .mk a b c d e o subs => .mk a b c d e (o.map fun kv => (kv.1, kv.2.map (f kv.1))) (mapValuesL f subs)
def mapValuesL (f : Nat → Bytes → Bytes) : List Policy → List Policy
  | [] => []
  | p :: ps => mapValues f p :: mapValuesL f ps
end

/-- top-level configuration as `build_default_config` reads it -/
structure Cfg where
  /-- `dns-servers`: `none` = `$self4` (INTERFACE4), `some ip` = an IPv4 literal (IPv6 entries are skipped) -/
  dnsServers : List (Option Nat) := []
  /-- `dns-search` already encoded by `DomainList::as_bytes` -/
  dnsSearch : Bytes := []
  captivePortal : Option Bytes := none
  /-- IPv4 entries of `addresses`: (address as written, prefix length) -/
  addresses : List (Nat × Nat) := []
  policies : List Policy := []

/-- host offsets of a default pool: `1..((1 << (32 - len)) - k)` with `k` from the source -/
def defaultHostOffsets (len : Nat) : List Nat :=
  (List.range ((2 ^ (32 - len)) - Generated.Dhcp.defaultRangeUpperMinus)).filter (· ≥ 1)

/-- the DHCP `dns-servers` default: the top-level list with `$self4` replaced by the receiving address -/
def defaultDns (cfg : Cfg) (req : Req) : Bytes :=
  (cfg.dnsServers.map fun
    | none => ser32 req.serverip
    | some ip => ser32 ip).flatten

/-- `build_default_config` -/
def buildDefault (cfg : Cfg) (req : Req) : Policy :=
  let dns : Bytes := defaultDns cfg req
  let used := usedAddressesL cfg.policies
  let subs := (cfg.addresses.filter fun (_, len) => decide (Generated.Dhcp.defaultPoolMinLen ≤ len)).map fun (addr, len) =>
    let net := addr &&& netmask len
    let pool := ((defaultHostOffsets len).map (net + ·)).filter (fun ip => ip != req.serverip && !used.contains ip)
    let here := subnetContains (net, len) req.serverip
    let extra : List (Nat × Option Bytes) :=
      if here then
        (match req.mtu with | some m => [(26, some (DhcpWire.ser16 (m % 65536)))] | none => []) ++
        (match req.router with | some r => [(3, some (ser32 r))] | none => [])
      else []
    Policy.mk false none (some (net, len)) [] (some pool) extra []
  Policy.mk true none none [] none
    [(6, some dns), (119, some cfg.dnsSearch), (114, cfg.captivePortal)] subs

inductive DErr where
  | unknownMessageType (t : Nat)
  | noLeasesConfigured
  | invalidPacket           -- no message type
  | poolError (k : String)
  | otherServer (ip : Nat)
  | noPolicy
deriving DecidableEq, Repr

def optIp (o : Opts) (k : Nat) : Option Nat :=
  match lookupOpt o k with
  | some [a, b, c, d] => some (DhcpWire.be32 a b c d)
  | _ => none

def clientId (pkt : Dhcp) : Bytes := (lookupOpt pkt.options 61).getD pkt.chaddr

/-- `ResponseOptions::to_options` -/
def keepSome (e : Nat × Option Bytes) : Option (Nat × Bytes) := e.2.map (e.1, ·)
def toOptions (r : Resp) : Opts := r.options.filterMap keepSome

/-- what `handle_discover` / `handle_request` do before touching the pool -/
inductive Plan where
  | err (e : DErr)
  | alloc (client : Bytes) (requested : Option Nat) (pool : List Nat) (resp : Resp) (isRequest : Bool)

def plan (cfg : Cfg) (req : Req) (serverIds : List Nat) : Plan :=
  match lookupOpt req.pkt.options 53 with
  | some [t] =>
    if t = 1 ∨ t = 3 then
      let isRequest := t == 3
      match (if isRequest then optIp req.pkt.options 54 else none) with
      | some si => if !serverIds.contains si then .err (.otherServer si) else go isRequest
      | none => go isRequest
    else .err (.unknownMessageType t)
  | _ => .err .invalidPacket
where
  go (isRequest : Bool) : Plan :=
    let r0 : Resp := setOpt (setOpt {} 53 (some [2])) 54 (some (ser32 req.serverip))
    let (r1, ok1) := applyPolicies req [buildDefault cfg req] r0
    let (r2, ok2) := applyPolicies req (mapValuesL (implResolve req) cfg.policies) r1
    if !ok1 && !ok2 then .err .noPolicy else
    match r2.address with
    | none => .err .noLeasesConfigured
    | some pool =>
      let requested :=
        if isRequest && req.pkt.ciaddr != 0 then some req.pkt.ciaddr else optIp req.pkt.options 50
      .alloc (clientId req.pkt) requested pool r2 isRequest

/-- the reply built once the pool granted `(x, L)` -/
def reply (req : Req) (resp : Resp) (isRequest : Bool) (x L : Nat) : Dhcp :=
  let sid := if isRequest then (optIp req.pkt.options 54).getD req.serverip else req.serverip
  let r := if isRequest then setOpt resp 53 (some [5]) else resp
  let r := setOpt r 54 (some (ser32 sid))
  let r := if isRequest || Generated.Dhcp.offerHasLeaseTime then setOpt r 51 (some (ser32 (L % 2 ^ 32))) else r
  { op := 2, htype := 1, hlen := 6, hops := 0, xid := req.pkt.xid, secs := 0, flags := req.pkt.flags,
    ciaddr := if isRequest then req.pkt.ciaddr else 0, yiaddr := x, siaddr := 0, giaddr := req.pkt.giaddr,
    chaddr := req.pkt.chaddr, sname := [], file := [], options := toOptions r }

end Erbium.Dhcp

namespace Erbium.Dhcp
open Erbium.Pool

/-- One call of `handle_pkt` on a decoded message: the optional reply and the store afterwards.
    (`blob` is the request's option block as stored with the lease; `now'` the second clock read.) -/
inductive Handles (cfg : Cfg) (req : Req) (ids : List Nat) (st : State) : Option DhcpWire.Dhcp → State → Prop
  | refuse (e : DErr) : plan cfg req ids = .err e → Handles cfg req ids st none st
  | exhausted (c rq pool resp isReq) : plan cfg req ids = .alloc c rq pool resp isReq →
      Outcome.noAddress ∈ allowed st.rows st.now c rq pool → Handles cfg req ids st none st
  | grant (c rq pool resp isReq x ty d now' blob) : plan cfg req ids = .alloc c rq pool resp isReq →
      Outcome.ok x ty d ∈ allowed st.rows st.now c rq pool → st.now ≤ now' →
      Handles cfg req ids st
        (some (reply req resp isReq x (leaseFor d Generated.Dhcp.defaultMinLease Generated.Dhcp.defaultMaxLease (remainingOf st.rows c x now'))))
        (Pool.grant st c x now' (leaseFor d Generated.Dhcp.defaultMinLease Generated.Dhcp.defaultMaxLease (remainingOf st.rows c x now')) blob)

end Erbium.Dhcp
