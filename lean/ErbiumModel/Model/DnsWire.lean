import ErbiumModel.Generated.Dns
/-! Executable model of the DNS wire codec: `crates/erbium-core/src/dns/parse.rs`
    (`PktParser::get_dns`, names with compression pointers, typed rdata, OPT folding) and
    `crates/erbium-core/src/dns/dnspkt.rs` (`serialise_with_size`, `push_rr`,
    `push_compressed_domain` / `push_prefix` with the suffix *tree* of offsets, truncation).

    Rust partial operations are explicit: the encoder returns `none` where the code panics
    (`assert!`, `unwrap`, `u8` overflow); the decoder returns `Except`. -/
namespace Erbium.DnsWire

abbrev Bytes := List Nat
abbrev Label := List Nat
abbrev Name := List Label      -- leftmost label first

/-! ## message type -/

inductive RData where
  | cname (d : Name)
  | mx (pref : Nat) (d : Name)
  | ns (d : Name)
  | ptr (d : Name)
  | soa (mname rname : Name) (serial refresh retry expire minimum : Nat)
  | opt (opts : List (Nat × Bytes))
  | afsdb (subtype : Nat) (host : Name)
  | rp (mbox txt : Name)
  | rt (pref : Nat) (d : Name)
  | naptr (order pref : Nat) (flags services regexp : Bytes) (replacement : Name)
  | other (data : Bytes)
deriving DecidableEq, Repr

structure RR where
  domain : Name
  cls : Nat
  rrtype : Nat
  ttl : Nat
  rdata : RData
deriving DecidableEq, Repr

structure Pkt where
  qid : Nat
  rd : Bool
  tc : Bool
  aa : Bool
  qr : Bool
  opcode : Nat
  cd : Bool
  ad : Bool
  ra : Bool
  rcode : Nat
  bufsize : Nat
  ednsVer : Option Nat
  ednsDo : Bool
  qdomain : Name
  qclass : Nat
  qtype : Nat
  answer : List RR
  nameserver : List RR
  additional : List RR
  edns : Option (List (Nat × Bytes))
deriving DecidableEq, Repr

def T_NS := 2
def T_CNAME := 5
def T_SOA := 6
def T_PTR := 12
def T_MX := 15
def T_RP := 17
def T_AFSDB := 18
def T_RT := 21
def T_NAPTR := 35
def T_OPT := 41

/-! ## encoder -/

/-- `DomainTree<u16>`: the suffix tree of offsets -/
inductive Tree where
  | node (label : Label) (data : Nat) (children : List Tree)
deriving Repr

def Tree.label : Tree → Label | .node l _ _ => l
def Tree.data : Tree → Nat | .node _ d _ => d
def Tree.children : Tree → List Tree | .node _ _ c => c
def Tree.withChildren : Tree → List Tree → Tree | .node l d _, c => .node l d c

def root : Tree := .node [114, 111, 111, 116] 0 []     -- `Label("root")`, data 0

def u16 (x : Nat) : Bytes := [x / 256 % 256, x % 256]
def u32 (x : Nat) : Bytes := [x / 16777216 % 256, x / 65536 % 256, x / 256 % 256, x % 256]

/-- `push_label`: asserts `0 < len < 64` -/
def pushLabel (l : Label) : Option Bytes :=
  if l.length = 0 ∨ l.length ≥ 64 then none else some (l.length :: l)

/-- the child `push_prefix` picks: the *last* child with that label (the loop does not break)
    whose offset a compression pointer can express -/
def findChildAux (label : Label) : List Tree → Nat → Option (Nat × Tree) → Option (Nat × Tree)
  | [], _, acc => acc
  | c :: cs, i, acc =>
    findChildAux label cs (i + 1) (if c.label == label && decide (c.data < Generated.Dns.pointerLimit) then some (i, c) else acc)

def findChild (node : Option Tree) (label : Label) : Option (Nat × Tree) :=
  match node with
  | some n => findChildAux label n.children 0 none
  | none => none

/-- `0b1100_0000u8 + (n.data >> 8) as u8` (u8 overflow panics), then the low octet -/
def pointerBytes (data : Nat) : Option Bytes :=
  if data / 256 ≥ 64 then none else some [192 + data / 256, data % 256]

/-- the offset `push_prefix` records for a label it wrote at `off` (a `u16` field): saturating or wrapping,
    whichever the source does (Generated.Dns.offsetSaturates) -/
def storeOff (off : Nat) : Nat :=
  if Generated.Dns.offsetSaturates then min off 65535 else off % 65536

def setChild (node : Option Tree) (i : Nat) (c : Tree) : Option Tree :=
  node.map fun n => n.withChildren (n.children.set i c)

/-- `push_prefix` on the reversed label list (rightmost label first).
    Returns (bytes appended, node created for the caller to attach, the updated `node`). -/
def pushPrefixR : List Label → Option Tree → Nat → Option (Bytes × Option Tree × Option Tree)
  | [], _, _ => none                                     -- assert!(!l.is_empty())
  | [label], node, off =>
    match findChild node label with
    | none => (pushLabel label).map fun b => (b, some (.node label (storeOff off) []), node)
    | some (_, n) => (pointerBytes n.data).map fun b => (b, none, node)
  | label :: rest, node, off =>
    let child := findChild node label
    match pushPrefixR rest (child.map (·.2)) off with
    | none => none
    | some (bytes, ret, child') =>
      match ret, child with
      | none, none => none                               -- unreachable!()
      | none, some (i, _) => some (bytes, none, match child' with
          | some c => setChild node i c
          | none => node)
      | some r, none =>
        (pushLabel label).map fun b => (bytes ++ b, some (.node label (storeOff (off + bytes.length)) [r]), node)
      | some r, some (i, n0) =>
        let n := (child'.getD n0)
        let n' := n.withChildren (n.children ++ [r])
        -- assert!((n.data >> 8) < 64); assert_ne!(n.data, 0)
        if n.data / 256 ≥ 64 ∨ n.data = 0 then none else
        (pointerBytes n.data).map fun b => (bytes ++ b, none, setChild node i n')

/-- `push_compressed_domain(v, d, offsets, base_offset)`; `off` = absolute offset of the output -/
def pushName (d : Name) (offsets : Tree) (off : Nat) : Option (Bytes × Tree) :=
  if d.isEmpty then some ([0], offsets) else
  match pushPrefixR d.reverse (some offsets) off with
  | none => none
  | some (bytes, none, node) => some (bytes, node.getD offsets)
  | some (bytes, some n, node) =>
    let o := node.getD offsets
    some (bytes ++ [0], o.withChildren (o.children ++ [n]))

/-- `push_str`: asserts `len < 256` -/
def pushStr (s : Bytes) : Option Bytes := if s.length ≥ 256 then none else some (s.length :: s)

def pushOpts (opts : List (Nat × Bytes)) : Bytes :=
  opts.flatMap fun (c, d) => u16 (c % 65536) ++ u16 (d.length % 65536) ++ d

/-- the rdata part of `push_rr`; `off` = absolute offset of the first rdata octet (after the length) -/
def pushRData (rr : RR) (offsets : Tree) (off : Nat) : Option (Bytes × Tree) :=
  match rr.rdata with
  | .cname d | .ptr d | .ns d => pushName d offsets off
  | .mx pref d | .rt pref d => (pushName d offsets (off + 2)).map fun (b, t) => (u16 pref ++ b, t)
  | .naptr order pref flags services regexp repl => do
    let f ← pushStr flags
    let s ← pushStr services
    let r ← pushStr regexp
    let hd := u16 order ++ u16 pref ++ f ++ s ++ r
    let (b, t) ← pushName repl offsets (off + hd.length)
    pure (hd ++ b, t)
  | .rp mbox txt => do
    let (b1, t1) ← pushName mbox offsets off
    let (b2, t2) ← pushName txt t1 (off + b1.length)
    pure (b1 ++ b2, t2)
  | .soa mname rname serial refresh retry expire minimum =>
    if rr.rrtype ≠ T_SOA then none else do
    let (b1, t1) ← pushName mname offsets off
    let (b2, t2) ← pushName rname t1 (off + b1.length)
    pure (b1 ++ b2 ++ u32 serial ++ u32 refresh ++ u32 retry ++ u32 expire ++ u32 minimum, t2)
  | .afsdb subtype host => (pushName host offsets (off + 2)).map fun (b, t) => (u16 subtype ++ b, t)
  | .opt o => if rr.rrtype ≠ T_OPT then none else some (pushOpts o, offsets)
  | .other x =>
    if rr.rrtype = T_OPT ∨ rr.rrtype = T_SOA then none
    else if x.length ≥ 65536 then none          -- u16::try_from(x.len()).unwrap()
    else some (x, offsets)

/-- `push_rr`; `off` = absolute offset where the record starts -/
def pushRR (rr : RR) (offsets : Tree) (off : Nat) : Option (Bytes × Tree) := do
  let (nb, t1) ← pushName rr.domain offsets off
  let hd := nb ++ u16 rr.rrtype ++ u16 rr.cls ++ u32 rr.ttl
  let (rb, t2) ← pushRData rr t1 (off + hd.length + 2)
  pure (hd ++ u16 (rb.length % 65536) ++ rb, t2)

def b2n (b : Bool) : Nat := if b then 1 else 0

def optRR (p : Pkt) (edns : List (Nat × Bytes)) : RR :=
  { domain := [], cls := p.bufsize, rrtype := T_OPT,
    ttl := (p.rcode / 16) * 16777216 + (p.ednsVer.getD 0) * 65536 + (if p.ednsDo then 32768 else 0),
    rdata := .opt edns }

/-- one section of `serialise_with_size`: records are appended until one does not fit -/
def pushSection (size : Nat) : List RR → Bytes → Tree → Nat → Option (Bytes × Tree × Nat × Bool)
  | [], buf, t, n => some (buf, t, n, false)
  | rr :: rest, buf, t, n =>
    match pushRR rr t buf.length with
    | none => none
    | some (b, t') =>
      if (buf ++ b).length > size then some (buf, t', n, true)    -- ret.truncate(offset); trunc = true
      else pushSection size rest (buf ++ b) t' (n + 1)

/-- `Vec::splice(a..b, two bytes)` -/
def splice (buf : Bytes) (r : Nat × Nat) (ins : Bytes) : Bytes := buf.take r.1 ++ ins ++ buf.drop r.2

def flag1Of (p : Pkt) : Nat :=
  (b2n p.rd) ||| (if p.tc then 2 else 0) ||| (if p.aa then 4 else 0) ||| (if p.qr then 128 else 0) ||| ((p.opcode * 8) % 256)
def flag2Of (p : Pkt) : Nat :=
  (if p.cd then 32 else 0) ||| (if p.ad then 64 else 0) ||| (if p.ra then 128 else 0) ||| (p.rcode % 16)
/-- the additional section as written: the EDNS pseudo-record last -/
def additionalOf (p : Pkt) : List RR :=
  match p.edns with
  | some e => p.additional ++ [optRR p e]
  | none => p.additional
def hdrOf (p : Pkt) : Bytes :=
  u16 p.qid ++ [flag1Of p, flag2Of p] ++ u16 1 ++ u16 (p.answer.length % 65536) ++
    u16 (p.nameserver.length % 65536) ++ u16 ((additionalOf p).length % 65536)

/-- `DNSPkt::serialise_with_size` (`none` = panic) -/
def serialiseWithSize (p : Pkt) (size : Nat) : Option Bytes :=
  if size < 512 then none else
  if p.rcode ≥ 4096 then none else
  let additional := additionalOf p
  let hdr := hdrOf p
  match pushName p.qdomain root hdr.length with
  | none => none
  | some (qb, t0) =>
    let buf0 := hdr ++ qb ++ u16 p.qtype ++ u16 p.qclass
    match pushSection size p.answer buf0 t0 0 with
    | none => none
    | some (buf1, t1, an, tr1) =>
      match (if tr1 then some (buf1, t1, 0, true) else pushSection size p.nameserver buf1 t1 0) with
      | none => none
      | some (buf2, t2, nsn, tr2) =>
        match (if tr2 then some (buf2, t2, 0, true) else pushSection size additional buf2 t2 0) with
        | none => none
        | some (buf3, _, adn, tr3) =>
          if tr3 then
            let b := buf3.set 2 (buf3.getD 2 0 ||| 2)
            let rs := Generated.Dns.spliceRanges
            let b := splice b (rs.getD 0 (0, 0)) (u16 an)
            let b := splice b (rs.getD 1 (0, 0)) (u16 nsn)
            let b := splice b (rs.getD 2 (0, 0)) (u16 adn)
            some b
          else some buf3

/-! ## decoder -/

inductive DErr where
  | truncated | compression | labelType | questions | ednsTruncated | nameTooLong
deriving DecidableEq, Repr


def getU8 (buf : Bytes) (off : Nat) : Except DErr (Nat × Nat) :=
  match buf[off]? with
  | some b => .ok (b, off + 1)
  | none => .error .truncated

def getU16 (buf : Bytes) (off : Nat) : Except DErr (Nat × Nat) := do
  let (a, o) ← getU8 buf off
  let (b, o) ← getU8 buf o
  pure (a * 256 + b, o)

def getU32 (buf : Bytes) (off : Nat) : Except DErr (Nat × Nat) := do
  let (a, o) ← getU8 buf off
  let (b, o) ← getU8 buf o
  let (c, o) ← getU8 buf o
  let (d, o) ← getU8 buf o
  pure (a * 16777216 + b * 65536 + c * 256 + d, o)

def getBytes (buf : Bytes) (off n : Nat) : Except DErr (Bytes × Nat) :=
  if off + n ≤ buf.length then .ok ((buf.drop off).take n, off + n) else .error .truncated

def getString (buf : Bytes) (off : Nat) : Except DErr (Bytes × Nat) := do
  let (n, o) ← getU8 buf off
  getBytes buf o n

/-- `get_domain_into`: `depth` as the code counts it (first call 1; a jump is refused when
    `depth > limit`); `fuel` bounds the total number of steps (labels + jumps). Returns the labels
    and the offset after the name *in the stream that was being read at this depth*. -/
def getDomainInto (buf : Bytes) : Nat → Nat → Nat → Except DErr (Name × Nat)
  | 0, _, _ => .error .compression
  | fuel + 1, off, depth =>
    match buf[off]? with
    | none => .error .truncated
    | some p =>
      if p = 0 then .ok ([], off + 1)
      else if p < 64 then
        if off + 1 + p ≤ buf.length then
          match getDomainInto buf fuel (off + 1 + p) depth with
          | .ok (rest, o) => .ok (((buf.drop (off + 1)).take p) :: rest, o)
          | .error e => .error e
        else .error .truncated
      else if p ≥ 192 then
        if depth > Generated.Dns.pointerDepthLimit then .error .compression else
        match buf[off + 1]? with
        | none => .error .truncated
        | some lo =>
          match getDomainInto buf fuel ((p - 192) * 256 + lo) (depth + 1) with
          | .ok (rest, _) => .ok (rest, off + 2)
          | .error e => .error e
      else .error .labelType

def nameFuel (buf : Bytes) : Nat := (buf.length + 2) * (Generated.Dns.pointerDepthLimit + 2)

/-- the octets of a name on the wire when written in full: one length octet per label, and the root -/
def wireLen : Name → Nat
  | [] => 1
  | l :: rest => 1 + l.length + wireLen rest

/-- `get_domain`: names longer than `nameOctetLimit` octets are refused (the code counts while it reads and gives up
    at the first label that passes the limit; the outcome — a name or an error — is the same) -/
def getDomain (buf : Bytes) (off : Nat) : Except DErr (Name × Nat) :=
  match getDomainInto buf (nameFuel buf) off 1 with
  | .ok (d, o) => if wireLen d > Generated.Dns.nameOctetLimit then .error .nameTooLong else .ok (d, o)
  | .error e => .error e

def parseOpts : Nat → Bytes → Except DErr (List (Nat × Bytes))
  | 0, _ => .ok []
  | fuel + 1, b =>
    match b with
    | [] => .ok []
    | c1 :: c2 :: l1 :: l2 :: rest =>
      let len := l1 * 256 + l2
      if rest.length < len then .error .ednsTruncated else
      match parseOpts fuel (rest.drop len) with
      | .ok os => .ok ((c1 * 256 + c2, rest.take len) :: os)
      | .error e => .error e
    | _ => .error .ednsTruncated

def getRData (buf : Bytes) (off rtype : Nat) : Except DErr (RData × Nat) := do
  let (rdlen, o) ← getU16 buf off
  if rtype = T_CNAME then let (d, o) ← getDomain buf o; pure (.cname d, o)
  else if rtype = T_NS then let (d, o) ← getDomain buf o; pure (.ns d, o)
  else if rtype = T_PTR then let (d, o) ← getDomain buf o; pure (.ptr d, o)
  else if rtype = T_AFSDB then
    let (s, o) ← getU16 buf o; let (d, o) ← getDomain buf o; pure (.afsdb s d, o)
  else if rtype = T_RP then
    let (m, o) ← getDomain buf o; let (t, o) ← getDomain buf o; pure (.rp m t, o)
  else if rtype = T_RT then
    let (p, o) ← getU16 buf o; let (d, o) ← getDomain buf o; pure (.rt p d, o)
  else if rtype = T_MX then
    let (p, o) ← getU16 buf o; let (d, o) ← getDomain buf o; pure (.mx p d, o)
  else if rtype = T_NAPTR then
    let (order, o) ← getU16 buf o
    let (pref, o) ← getU16 buf o
    let (f, o) ← getString buf o
    let (s, o) ← getString buf o
    let (r, o) ← getString buf o
    let (d, o) ← getDomain buf o
    pure (.naptr order pref f s r d, o)
  else if rtype = T_OPT then
    let (b, o) ← getBytes buf o rdlen
    match parseOpts (b.length + 1) b with
    | .ok os => pure (.opt os, o)
    | .error e => .error e
  else if rtype = T_SOA then
    let (m, o) ← getDomain buf o
    let (r, o) ← getDomain buf o
    let (a, o) ← getU32 buf o
    let (b, o) ← getU32 buf o
    let (c, o) ← getU32 buf o
    let (d, o) ← getU32 buf o
    let (e, o) ← getU32 buf o
    pure (.soa m r a b c d e, o)
  else
    let (b, o) ← getBytes buf o rdlen
    pure (.other b, o)

def getRR (buf : Bytes) (off : Nat) : Except DErr (RR × Nat) := do
  let (domain, o) ← getDomain buf off
  let (rrtype, o) ← getU16 buf o
  let (cls, o) ← getU16 buf o
  let (ttl, o) ← getU32 buf o
  let (rdata, o) ← getRData buf o rrtype
  pure ({ domain, cls, rrtype, ttl, rdata }, o)

/-- `for _ in 0..count { if offset >= len && trunc { break }; push(get_rr()?) }` -/
def getRRs (buf : Bytes) (trunc : Bool) : Nat → Nat → Except DErr (List RR × Nat)
  | 0, off => .ok ([], off)
  | n + 1, off =>
    if off ≥ buf.length && trunc then .ok ([], off) else
    match getRR buf off with
    | .error e => .error e
    | .ok (rr, o) =>
      match getRRs buf trunc n o with
      | .error e => .error e
      | .ok (rs, o') => .ok (rr :: rs, o')

/-- the EDNS pseudo-record `get_dns` looks for: type OPT with version 0 -/
def isOpt0 (rr : RR) : Bool := rr.rrtype == T_OPT && rr.ttl / 65536 % 256 == 0

/-- `PktParser::get_dns` -/
def parse (buf : Bytes) : Except DErr Pkt := do
  let (qid, o) ← getU16 buf 0
  let (flag1, o) ← getU8 buf o
  let (flag2, o) ← getU8 buf o
  let (qcount, o) ← getU16 buf o
  let trunc := flag1 / 2 % 2 = 1
  if qcount ≠ 1 then .error .questions else
  let (arcount, o) ← getU16 buf o
  let (nscount, o) ← getU16 buf o
  let (adcount, o) ← getU16 buf o
  let (qdomain, o) ← getDomain buf o
  let (qtype, o) ← getU16 buf o
  let (qclass, o) ← getU16 buf o
  let (answer, o) ← getRRs buf trunc arcount o
  let (nameserver, o) ← getRRs buf trunc nscount o
  let (additional, _) ← getRRs buf trunc adcount o
  let opt := additional.find? isOpt0
  let ever := opt.map (fun o => o.ttl / 65536 % 256)
  let bufsize := max (match opt with | some o => o.cls | none => 512) 512
  let ercode := match opt with | some o => o.ttl / 16777216 | none => 0
  let edo := match opt with | some o => o.ttl / 32768 % 2 = 1 | none => false
  let edns := opt.map fun x => match x.rdata with | .opt o => o | _ => []
  pure { qid, rd := flag1 % 2 = 1, tc := trunc, aa := flag1 / 4 % 2 = 1, qr := flag1 / 128 % 2 = 1,
         opcode := flag1 / 8 % 16, cd := flag2 / 32 % 2 = 1, ad := flag2 / 64 % 2 = 1, ra := flag2 / 128 % 2 = 1,
         rcode := (flag2 % 16 + ercode * 16) % 65536, bufsize, ednsVer := ever, ednsDo := edo,
         qdomain, qclass, qtype, answer, nameserver,
         additional := additional.filter (fun rr => rr.rrtype != T_OPT), edns }

end Erbium.DnsWire
