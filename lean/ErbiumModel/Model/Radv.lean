import ErbiumModel.Generated.Ra
/-! Executable model of the router-advertisement path: `RaAdvService::build_announcement_pure`
    (`radv/mod.rs`) and `icmppkt::serialise` (`radv/icmppkt.rs`). Durations are whole seconds (the
    configuration grammar has no finer unit). -/
namespace Erbium.Radv

abbrev Bytes := List Nat

inductive Tri (α : Type) where
  | notSpecified | dontSet | value (v : α)
deriving Repr

/-- `ConfigValue::unwrap_or` -/
def Tri.unwrapOr {α} (t : Tri α) (d : α) : Option α :=
  match t with | .notSpecified => some d | .dontSet => none | .value v => some v
/-- `ConfigValue::always_unwrap_or` -/
def Tri.alwaysUnwrapOr {α} (t : Tri α) (d : α) : α :=
  match t with | .value v => v | _ => d
/-- `intf.captive_portal.as_ref().or(top)` -/
def Tri.orOpt {α} (t : Tri α) (d : Option α) : Option α :=
  match t with | .notSpecified => d | .dontSet => none | .value v => some v

structure Prefix where
  addr : Nat            -- 128 bit, as written (host bits may be set)
  len : Nat
  onlink : Bool
  autonomous : Bool
  valid : Nat
  preferred : Nat
deriving Repr

structure Intf where
  hoplimit : Nat
  managed : Bool
  other : Bool
  lifetime : Tri Nat
  reachable : Nat
  retrans : Nat
  prefixes : List Prefix
  rdnssLifetime : Tri Nat
  rdnss : Tri (List Nat)
  dnsslLifetime : Tri Nat
  dnssl : Tri (List Bytes)            -- domains as text octets (labels separated by '.')
  captivePortal : Tri Bytes
  pref64 : Option (Nat × Nat × Nat)   -- lifetime, prefix, prefix length
deriving Repr

structure Top where
  /-- IPv6 entries of the top-level `dns-servers` (0 = `::` = `$self6`) -/
  dnsServers6 : List Nat
  dnsSearch : List Bytes
  captivePortal : Option Bytes
deriving Repr

inductive NdOpt where
  | sourceLL (mac : Bytes)
  | mtu (m : Nat)
  | prefixInfo (p : Prefix)
  | rdnss (lifetime : Nat) (servers : List Nat)
  | dnssl (lifetime : Nat) (domains : List Bytes)
  | pref64 (lifetime len pfx : Nat)
  | captivePortal (url : Bytes)
deriving Repr

structure Advert where
  hopLimit : Nat
  managed : Bool
  other : Bool
  lifetime : Nat
  reachable : Nat     -- seconds
  retrans : Nat
  options : List NdOpt
deriving Repr

def maxRtrAdvInterval : Nat := 600

/-- `build_announcement_pure(config, intf, ll, mtu, self6, lifetime)` -/
def build (top : Top) (i : Intf) (ll : Option Bytes) (mtu : Option Nat) (self6 defaultLifetime : Nat) : Advert :=
  let o1 := match ll with | some m => [NdOpt.sourceLL m] | none => []
  let o2 := match mtu with | some m => [NdOpt.mtu m] | none => []
  let o3 := i.prefixes.map NdOpt.prefixInfo
  let defaultServers := top.dnsServers6.map fun ip => if ip = 0 then self6 else ip
  let o4 := match i.rdnss.unwrapOr defaultServers with
    | some v => [NdOpt.rdnss (i.rdnssLifetime.alwaysUnwrapOr (3 * maxRtrAdvInterval)) v]
    | none => []
  let o5 := match i.dnssl.unwrapOr top.dnsSearch with
    | some v => [NdOpt.dnssl (i.dnsslLifetime.alwaysUnwrapOr (3 * maxRtrAdvInterval)) v]
    | none => []
  let o6 := match i.pref64 with | some (lt, p, l) => [NdOpt.pref64 lt l p] | none => []
  let o7 := match i.captivePortal.orOpt top.captivePortal with | some u => [NdOpt.captivePortal u] | none => []
  { hopLimit := i.hoplimit, managed := i.managed, other := i.other,
    lifetime := i.lifetime.alwaysUnwrapOr defaultLifetime, reachable := i.reachable, retrans := i.retrans,
    options := o1 ++ o2 ++ o3 ++ o4 ++ o5 ++ o6 ++ o7 }

def u16 (x : Nat) : Bytes := [x / 256 % 256, x % 256]
def u32 (x : Nat) : Bytes := [x / 16777216 % 256, x / 65536 % 256, x / 256 % 256, x % 256]
def u128 (x : Nat) : Bytes := (List.range 16).map fun i => x / 256 ^ (15 - i) % 256

/-- a value the field cannot hold is sent as the field's maximum, never wrapped -/
def clamp (x max : Nat) : Nat := min x max

def padTo8 (b : Bytes) (hdr : Nat) : Bytes := b ++ List.replicate ((8 - (b.length + hdr) % 8) % 8) 0

/-- split a domain's text at '.' (46) into labels -/
def splitDots (d : Bytes) : List Bytes :=
  let (cur, acc) := d.foldl (fun (st : Bytes × List Bytes) b => if b = 46 then ([], st.2 ++ [st.1]) else (st.1 ++ [b], st.2)) ([], [])
  acc ++ [cur]

def encodeDomain (d : Bytes) : Bytes := ((splitDots d).flatMap fun l => (l.length % 256) :: l) ++ [0]

/-- RFC 8781 §4: prefix length code -/
def plc (len : Nat) : Option Nat :=
  if len = 96 then some 0 else if len = 64 then some 1 else if len = 56 then some 2
  else if len = 48 then some 3 else if len = 40 then some 4 else if len = 32 then some 5 else none

/-- prefix bits beyond the length zeroed -/
def maskPrefix (addr len : Nat) : Nat := addr / 2 ^ (128 - min len 128) * 2 ^ (128 - min len 128)

/-- `slice::chunks(n)` (`fuel` ≥ the length) -/
def chunks {α : Type} (n : Nat) : Nat → List α → List (List α)
  | 0, _ => []
  | fuel + 1, l => if l.isEmpty then [] else l.take n :: chunks n fuel (l.drop n)

/-- one RDNSS option -/
def rdnssOpt (lt : Nat) (servers : List Nat) : Bytes :=
  [25, (1 + servers.length * 2) % 256, 0, 0] ++ u32 (clamp lt 0xffffffff) ++ servers.flatMap u128

/-- the zero octet (`url.contains('\\0')`) -/
def hasNul (url : Bytes) : Bool := url.any (· == 0)

def serOpt : NdOpt → Bytes
  | .sourceLL mac => [1, (mac.length + 7) / 8 % 256] ++ mac
  | .mtu m => [5, 1, 0, 0] ++ u32 m
  | .prefixInfo p =>
    [3, 4, p.len % 256, (if p.onlink then 128 else 0) + (if p.autonomous then 64 else 0)] ++
    u32 (clamp p.valid 0xffffffff) ++ u32 (clamp p.preferred 0xffffffff) ++ [0, 0, 0, 0] ++ u128 (maskPrefix p.addr p.len)
  | .rdnss lt servers =>
    if servers.isEmpty then [] else
    -- one option per `chunks(N)` of the addresses (N = 0: the source writes a single option)
    if Generated.Ra.rdnssChunk = 0 then rdnssOpt lt servers
    else (chunks Generated.Ra.rdnssChunk servers.length servers).flatMap (rdnssOpt lt)
  | .dnssl lt domains =>
    if domains.isEmpty then [] else
    let body := padTo8 (domains.flatMap encodeDomain) 0
    -- left out when the length does not fit its octet (`u8::try_from … continue`), when the source checks
    if Generated.Ra.dnsslLengthChecked && decide (1 + body.length / 8 ≥ 256) then [] else
    [31, (1 + body.length / 8) % 256, 0, 0] ++ u32 (clamp lt 0xffffffff) ++ body
  | .pref64 lt len pfx =>
    match plc len with
    | some c => [38, 2] ++ u16 (clamp (lt / 8) 8191 * 8 + c) ++ (u128 (maskPrefix pfx len)).take 12
    | none => []
  | .captivePortal url =>
    let b := padTo8 url 2
    if Generated.Ra.captiveLengthChecked && (decide (1 + b.length / 8 ≥ 256) || hasNul url) then [] else
    [37, (1 + b.length / 8) % 256] ++ b

/-- `icmppkt::serialise(Icmp6::RtrAdvert(a))` -/
def serialise (a : Advert) : Bytes :=
  [134, 0, 0, 0, a.hopLimit % 256, (if a.managed then 128 else 0) + (if a.other then 64 else 0)] ++
  u16 (clamp a.lifetime 65535) ++ u32 (clamp (a.reachable * 1000) 0xffffffff) ++ u32 (clamp (a.retrans * 1000) 0xffffffff) ++
  a.options.flatMap serOpt

end Erbium.Radv
