/-! Executable model of `crates/erbium-core/src/dhcp/dhcppkt.rs`: `parse`, `parse_options`,
    `Dhcp::serialise`, `serialise_option`, `get_broadcast_flag`.
    Bytes are `Nat`s (< 256 whenever they come off the wire). The option table (a Rust `HashMap`)
    is an association list with unique keys; the list order is the iteration order of the map,
    so "for every iteration order" is "for every list representing the map". -/
namespace Erbium.DhcpWire

inductive PErr where
  | truncated      -- ParseError::UnexpectedEndOfInput
  | wrongMagic     -- ParseError::WrongMagic
  | invalid        -- ParseError::InvalidPacket
deriving DecidableEq, Repr

abbrev Opts := List (Nat × List Nat)

structure Dhcp where
  op : Nat
  htype : Nat
  hlen : Nat
  hops : Nat
  xid : Nat
  secs : Nat
  flags : Nat
  ciaddr : Nat
  yiaddr : Nat
  siaddr : Nat
  giaddr : Nat
  chaddr : List Nat
  sname : List Nat
  file : List Nat
  options : Opts
deriving DecidableEq, Repr

/-- `raw_options.entry(code).or_default().extend(value)` -/
def optAppend : Opts → Nat → List Nat → Opts
  | [], k, v => [(k, v)]
  | (k', v') :: rest, k, v =>
    if k' = k then (k', v' ++ v) :: rest else (k', v') :: optAppend rest k v

/-- `parse_options`: pad bytes skipped, 255 ends, repeated options concatenated. -/
def parseOptions (buf : List Nat) (m : Opts) : Except PErr Opts :=
  match buf with
  | [] => .error .truncated
  | c :: t =>
    if c = 0 then parseOptions t m
    else if c = 255 then .ok m
    else match t with
      | [] => .error .truncated
      | l :: t' =>
        if l ≤ t'.length then parseOptions (t'.drop l) (optAppend m c (t'.take l))
        else .error .truncated
termination_by buf.length
decreasing_by all_goals simp_wf <;> (try simp only [List.length_drop]) <;> omega

/-- `null_terminated` -/
def nullTerminated (v : List Nat) : List Nat := v.takeWhile (· != 0)

def be16 (a b : Nat) : Nat := a * 256 + b
def be32 (a b c d : Nat) : Nat := ((a * 256 + b) * 256 + c) * 256 + d

def magic : List Nat := [0x63, 0x82, 0x53, 0x63]

/-- `dhcppkt::parse` -/
def parse (pkt : List Nat) : Except PErr Dhcp :=
  match pkt with
  | op :: htype :: hlen :: hops :: x0 :: x1 :: x2 :: x3 :: s0 :: s1 :: f0 :: f1 ::
    c0 :: c1 :: c2 :: c3 :: y0 :: y1 :: y2 :: y3 :: i0 :: i1 :: i2 :: i3 ::
    g0 :: g1 :: g2 :: g3 :: rest =>
    if rest.length < 16 then .error .truncated else
    let chaddr := rest.take 16
    let rest := rest.drop 16
    if hlen > 16 then .error .invalid else
    if rest.length < 64 then .error .truncated else
    let sname := nullTerminated (rest.take 64)
    let rest := rest.drop 64
    if rest.length < 128 then .error .truncated else
    let file := nullTerminated (rest.take 128)
    let rest := rest.drop 128
    match rest with
    | m0 :: m1 :: m2 :: m3 :: rest =>
      if [m0, m1, m2, m3] ≠ magic then .error .wrongMagic else
      match parseOptions rest [] with
      | .error e => .error e
      | .ok options =>
        .ok { op, htype, hlen, hops, xid := be32 x0 x1 x2 x3, secs := be16 s0 s1,
              flags := be16 f0 f1, ciaddr := be32 c0 c1 c2 c3, yiaddr := be32 y0 y1 y2 y3,
              siaddr := be32 i0 i1 i2 i3, giaddr := be32 g0 g1 g2 g3,
              chaddr := chaddr.take hlen, sname, file, options }
    | _ => .error .truncated
  | _ => .error .truncated

def ser16 (x : Nat) : List Nat := [x / 256 % 256, x % 256]
def ser32 (x : Nat) : List Nat := [x / 16777216 % 256, x / 65536 % 256, x / 256 % 256, x % 256]

/-- `serialise_fixed(out, l, v)`: copy, then `resize` to exactly `l` (pads with 0 or truncates). -/
def serFixed (out : List Nat) (l : Nat) : List Nat :=
  (out ++ List.replicate l 0).take l

/-- `serialise_option`: one instance per 255-octet chunk (RFC 3396); an empty value is one
    zero-length instance. `maxChunk` is the chunk size extracted from the source. -/
def serChunks (c : Nat) (v : List Nat) : List Nat :=
  if v.length ≤ 255 then
    (if v.isEmpty then [] else c :: v.length :: v)
  else c :: 255 :: v.take 255 ++ serChunks c (v.drop 255)
termination_by v.length
decreasing_by simp only [List.length_drop]; omega

def serOption (c : Nat) (v : List Nat) : List Nat :=
  if v.isEmpty then [c, 0] else serChunks c v

def serOptions (o : Opts) : List Nat :=
  (o.flatMap fun (c, v) => serOption c v) ++ [255]

/-- `Dhcp::serialise` -/
def serialise (m : Dhcp) : List Nat :=
  [m.op % 256, m.htype % 256, m.hlen % 256, m.hops % 256] ++ ser32 m.xid ++ ser16 m.secs ++ ser16 m.flags ++
  ser32 m.ciaddr ++ ser32 m.yiaddr ++ ser32 m.siaddr ++ ser32 m.giaddr ++
  serFixed m.chaddr 16 ++ serFixed m.sname 64 ++ serFixed m.file 128 ++ magic ++ serOptions m.options

end Erbium.DhcpWire
