import ErbiumModel.Generated.Pool
/-! Executable model of `crates/erbium-core/src/dhcp/pool.rs`: the lease store (SQLite table
    `leases`, primary key `address`), `select_address` (RFC 2131 §4.3.1 steps 1–4),
    `allocate_address` (clamp + `INSERT OR REPLACE`), `get_pool_metrics`.

    Nondeterminism of the implementation (SQL tie-breaks under `ORDER BY … LIMIT 1`, the order of
    the consistent hash over the pool, the second clock read) is modelled as a *set of allowed
    outcomes*; the correspondence check verifies membership, the theorems hold for every element.
    Comparison operators of the SQL come from `Generated.Pool` (regenerated from the source). -/
namespace Erbium.Pool
open Erbium.Generated.Pool (Cmp)

abbrev Client := List Nat

structure Row where
  addr : Nat
  client : Client
  start : Nat
  expiry : Nat
  options : List Nat := []
deriving Repr, DecidableEq

abbrev Store := List Row

def rowOf (s : Store) (x : Nat) : Option Row := s.find? (fun r => r.addr == x)

/-- `INSERT OR REPLACE` on the primary key -/
def put (s : Store) (r : Row) : Store := r :: s.filter (fun q => q.addr != r.addr)

/-- `SELECT true FROM leases WHERE expiry <cmp> ?1 AND address = ?2` is non-empty -/
def inUse (cmp : Cmp) (s : Store) (now x : Nat) : Bool :=
  match rowOf s x with
  | some r => cmp.eval r.expiry now
  | none => false

/-- step 1 candidates: `WHERE clientid = ?1 AND expiry <cmp> ?2` -/
def ownCurrent (s : Store) (now : Nat) (c : Client) : List Row :=
  s.filter (fun r => r.client == c && Generated.Pool.ownCurrentCmp.eval r.expiry now)
/-- step 2 candidates: `WHERE clientid = ?1` -/
def ownAny (s : Store) (c : Client) : List Row :=
  s.filter (fun r => r.client == c)

/-- `ORDER BY address=?req DESC, expiry DESC` -/
def key (req : Option Nat) (r : Row) : Nat × Nat := ((if some r.addr = req then 1 else 0), r.expiry)
def le2 (a b : Nat × Nat) : Bool := a.1 < b.1 || (a.1 == b.1 && a.2 ≤ b.2)
/-- the rows that may come first under the ordering (ties are SQLite's choice) -/
def bests (req : Option Nat) (rs : List Row) : List Row :=
  rs.filter (fun r => rs.all (fun q => le2 (key req q) (key req r)))

inductive LType where
  | newAddress | reusing | requested | revived
deriving Repr, DecidableEq

inductive Outcome where
  | ok (addr : Nat) (ty : LType) (rawDur : Nat)
  | noAddress                         -- Error::NoAssignableAddress
deriving Repr, DecidableEq

/-- step 1 duration: `(ts as u32).saturating_sub(start).saturating_mul(3)` -/
def dur1 (now : Nat) (r : Row) : Nat := min (3 * (now - r.start)) 0xffffffff
/-- step 2 duration: `2 * (expiry - start)`; the `u32` subtraction is guarded by `start ≤ expiry`
    (an invariant of every store erbium itself wrote) -/
def dur2 (r : Row) : Nat := 2 * (r.expiry - r.start)

/-- step 1: own unexpired rows inside the pool, in order (first one wins) -/
def step1 (s : Store) (now : Nat) (c : Client) (req : Option Nat) (pool : List Nat) : List Outcome :=
  (bests req ((ownCurrent s now c).filter (fun r => pool.contains r.addr))).map
    (fun r => .ok r.addr .reusing (dur1 now r))

/-- step 2: best own row of any age (`LIMIT 1`), then the pool test on that one row -/
def step2hit (s : Store) (c : Client) (req : Option Nat) (pool : List Nat) : List Outcome :=
  ((bests req (ownAny s c)).filter (fun r => pool.contains r.addr)).map
    (fun r => Outcome.ok r.addr .revived (dur2 r))
/-- step 2 may fall through: no own row, or a first row outside the pool -/
def step2fall (s : Store) (c : Client) (req : Option Nat) (pool : List Nat) : Bool :=
  (bests req (ownAny s c)).isEmpty || (bests req (ownAny s c)).any (fun r => !pool.contains r.addr)

/-- step 3: the requested address if it is in the pool and not in use -/
def step3 (s : Store) (now : Nat) (req : Option Nat) (pool : List Nat) : List Outcome :=
  match req with
  | some x =>
    if pool.contains x && !inUse Generated.Pool.requestedInUseCmp s now x then [.ok x .requested 0] else []
  | none => []

/-- step 4: any address of the pool that is not in use (hash order is arbitrary); else refuse -/
def step4 (s : Store) (now : Nat) (pool : List Nat) : List Outcome :=
  let free := pool.filter (fun x => !inUse Generated.Pool.newInUseCmp s now x)
  if free.isEmpty then [.noAddress] else free.map (fun x => .ok x .newAddress 0)

/-- every outcome `select_address` may produce -/
def allowed (s : Store) (now : Nat) (c : Client) (req : Option Nat) (pool : List Nat) : List Outcome :=
  if !(step1 s now c req pool).isEmpty then step1 s now c req pool
  else if !step2fall s c req pool then step2hit s c req pool
  else if !(step3 s now req pool).isEmpty then step2hit s c req pool ++ step3 s now req pool
  else step2hit s c req pool ++ step4 s now pool

/-- `min(max(lease.expire, min_expire_time), max_expire_time)` -/
def clamp (d lo hi : Nat) : Nat := min (max d lo) hi

/-- what is left, at the second clock read, of the lease this client already has for this address (0 if none) -/
def remainingOf (s : Store) (c : Client) (x now' : Nat) : Nat :=
  match rowOf s x with
  | some r => if r.client == c then r.expiry - now' else 0
  | none => 0

/-- the duration `allocate_address` records and returns: the clamped duration, but never less than what is left of the
    lease this client already has for this address, and never more than the maximum in force -/
def leaseFor (d lo hi rem : Nat) : Nat := min (max (clamp d lo hi) rem) hi

/-- the row written by `allocate_address` (second clock read `now'`) -/
def grantRow (c : Client) (x now' L : Nat) (opts : List Nat) : Row :=
  { addr := x, client := c, start := now', expiry := now' + L, options := opts }

/-- SQL `SUM(CASE WHEN … THEN 1 ELSE 0 END)`: NULL over the empty table -/
def sqlSum (l : List Nat) : Option Nat := if l.isEmpty then none else some l.sum

/-- `get_pool_metrics`: (active, expired) or a conversion error when SQLite yields NULL -/
def metrics (s : Store) (now : Nat) : Option (Nat × Nat) :=
  let col (cmp : Cmp) := sqlSum (s.map fun r => if cmp.eval r.expiry now then 1 else 0)
  let fin (v : Option Nat) : Option Nat := if Generated.Pool.metricsCoalesce then some (v.getD 0) else v
  let first := fin (col Generated.Pool.metricsFirstCmp)
  let second := fin (col Generated.Pool.metricsSecondCmp)
  -- the tuple returned is (row.get(0), row.get(1)) and is documented/used as (active, expired)
  match first, second with
  | some a, some b => some (a, b)
  | _, _ => none

end Erbium.Pool

namespace Erbium.Pool

/-- The lease-store state machine with a ghost record of what each client was last told. -/
structure State where
  rows : Store
  now : Nat
  /-- ghost: `belief c x = some E` — the most recent reply to `c` with `yiaddr = x` recorded expiry `E` -/
  belief : Client → Nat → Option Nat

/-- a successful `allocate_address`: address `x` chosen by `select_address`, second clock read
    `now'`, clamped lease `L`; the reply tells the client `(x, L)` -/
def grant (st : State) (c : Client) (x now' L : Nat) (opts : List Nat) : State :=
  { rows := put st.rows (grantRow c x now' L opts)
    now := now'
    belief := fun a y => if a = c ∧ y = x then some (now' + L) else st.belief a y }

def tick (st : State) (n : Nat) : State := { st with now := st.now + n }

/-- Reachable states: any finite history of grants (any client, requested address, pool, lease
    bounds, option blob), clock advances and restarts, from an empty store. Refused requests and
    all other message types leave the state unchanged (C13) and need no constructor; a restart is
    the identity because `Pool` holds nothing but the database connection (C18). -/
inductive Reach : State → Prop
  | init (now : Nat) : Reach { rows := [], now := now, belief := fun _ _ => none }
  | tick {st} (n : Nat) : Reach st → Reach (tick st n)
  | grant {st} (c : Client) (req : Option Nat) (pool : List Nat) (x : Nat) (ty : LType) (d now' lo hi : Nat)
      (opts : List Nat) : Reach st → Outcome.ok x ty d ∈ allowed st.rows st.now c req pool →
      st.now ≤ now' → Reach (grant st c x now' (clamp d lo hi) opts)
  | restart {st} : Reach st → Reach st

end Erbium.Pool
