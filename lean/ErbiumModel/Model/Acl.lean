/-! Executable model of `crates/erbium-core/src/acl.rs` (`Acl::check`, `check_authenticated`,
    `require_permission`) and of prefix containment in `config.rs` (`Prefix4/Prefix6::contains`,
    the cross-family rules for IPv4-mapped addresses). -/
namespace Erbium.Acl

/-- a client address as `acl::Attributes.addr` carries it -/
inductive Addr where
  | v4 (ip : Nat)      -- < 2^32
  | v6 (ip : Nat)      -- < 2^128
  | unix
deriving DecidableEq, Repr

inductive Prefix where
  | p4 (addr len : Nat)   -- as written: host bits may be set
  | p6 (addr len : Nat)
deriving DecidableEq, Repr

/-- `!(ALL_ONES.checked_shr(len).unwrap_or(0))` for a `w`-bit address -/
def netmask (w len : Nat) : Nat := (2 ^ w - 1) - (if len < w then (2 ^ w - 1) / 2 ^ len else 0)

/-- `ip & netmask == network()` where `network() = addr & netmask` -/
def containsW (w addr len ip : Nat) : Bool := (ip &&& netmask w len) == (addr &&& netmask w len)

def mappedBase : Nat := 0xffff * 2 ^ 32     -- ::ffff:0.0.0.0

/-- `Match<IpAddr> for Prefix` including the v4-mapped rules -/
def Prefix.contains (p : Prefix) (a : Addr) : Bool :=
  match p, a with
  | .p4 addr len, .v4 ip => containsW 32 addr len ip
  | .p6 addr len, .v6 ip => containsW 128 addr len ip
  | .p4 addr len, .v6 ip =>
    -- `[0,…,0,0xff,0xff,a,b,c,d]`: compare the embedded IPv4 address
    if ip / 2 ^ 32 = 0xffff then containsW 32 addr len (ip % 2 ^ 32) else false
  | .p6 addr len, .v4 ip =>
    -- if the prefix's *network* is `::ffff:a.b.c.d`, compare as an IPv4 prefix of length len-96
    let net := addr &&& netmask 128 len
    if net / 2 ^ 32 = 0xffff then containsW 32 (net % 2 ^ 32) (len - 96) ip else false
  | _, .unix => false

structure Permission where
  dnsRecursion : Bool
  http : Bool
  httpMetrics : Bool
  httpLeases : Bool
deriving DecidableEq, Repr

structure Rule where
  subnet : Option (List Prefix)
  unix : Option Bool
  permission : Permission
deriving Repr

/-- `Acl::check` -/
def Rule.check (r : Rule) (a : Addr) : Option Permission :=
  let ok : Bool := (match r.subnet with
             | some ss => ss.any (fun s => s.contains a)
             | none => true)
  let ok : Bool := match r.unix with
    | some u => ok && ((a == .unix) == u)
    | none => ok
  if ok then some r.permission else none

inductive Perm where | dnsRecursion | http | httpLeases | httpMetrics
deriving DecidableEq, Repr

def Permission.has (p : Permission) : Perm → Bool
  | .dnsRecursion => p.dnsRecursion
  | .http => p.http
  | .httpLeases => p.httpLeases
  | .httpMetrics => p.httpMetrics

inductive Decision where | ok | notAuthenticated | notAuthorised
deriving DecidableEq, Repr

/-- `require_permission` (with `check_authenticated` = first rule that matches) -/
def requirePermission (acl : List Rule) (a : Addr) (perm : Perm) : Decision :=
  match acl.findSome? (fun r => r.check a) with
  | some p => if p.has perm then .ok else .notAuthorised
  | none => .notAuthenticated

end Erbium.Acl
