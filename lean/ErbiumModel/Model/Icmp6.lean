import ErbiumModel.Model.Cursor
/-! Panic-aware model of `radv/icmppkt.rs::parse` (ICMPv6 router solicitations / advertisements and
    their ND options). -/
namespace Erbium.Icmp6
open Erbium.Safe Erbium.Cursor Erbium.Generated.Pkt

inductive NdOpt where
  | sourceLL (v : List Nat)
  | mtu (n : Nat)
  | prefixInfo (len : Nat) (onlink auto : Bool) (valid preferred : Nat) (pfx : List Nat)
  | rdnss (lifetime : Nat) (servers : List (List Nat))
  | captive (url : List Nat)
  | pref64 (lifetime len : Nat) (pfx : List Nat)
deriving Repr, DecidableEq

structure Advert where
  hopLimit : Nat
  managed : Bool
  other : Bool
  lifetime : Nat
  reachable : Nat
  retrans : Nat
  options : List NdOpt
deriving Repr, DecidableEq

inductive Msg where
  | unknown
  | solicit (opts : List NdOpt)
  | advert (a : Advert)
deriving Repr, DecidableEq

/-- `value.iter().rposition(|b| *b != 0).map(|p| p + 1).unwrap_or(0)` -/
def trimLen (v : List Nat) : Nat := (v.reverse.dropWhile (· == 0)).length

/-- `chunks_exact(16)` -/
def chunks16 : Nat → List Nat → List (List Nat)
  | 0, _ => []
  | fuel + 1, l => if l.length < 16 then [] else l.take 16 :: chunks16 fuel (l.drop 16)

/-- UTF-8 validity is decided by `String::from_utf8`; the model takes it as a parameter of the run -/
def validUtf8 (bs : List Nat) : Bool := (ByteArray.mk (bs.map (·.toUInt8)).toArray).validateUTF8

def plcLen : Nat → Option Nat
  | 0 => some 96 | 1 => some 64 | 2 => some 56 | 3 => some 48 | 4 => some 40 | 5 => some 32 | _ => none

/-- one option body; `none` = ignored option type -/
def parseOption (ty : Nat) (value : List Nat) : Out (Option NdOpt) :=
  if ty == 1 then pure (some (.sourceLL value))
  else if ty == 37 then do
    let s ← slice "icmppkt value[..rposition+1]" value 0 (trimLen value)
    if validUtf8 s then pure (some (.captive s)) else .err "InvalidEncoding"
  else if ty == 38 then
    if value.length != icmpPref64Len then .err "InvalidPacket" else do
      let w ← slice "icmppkt pref64 value[0..=1]" value 0 2
      let w ← exactLen "icmppkt pref64 try_into" 2 w
      let slp := be w
      match plcLen (slp % 8) with
      | none => .err "InvalidPacket"
      | some len => do
        let rest ← slice "icmppkt pref64 value[2..]" value 2 value.length
        let ip ← exactLen "icmppkt pref64 <[u8;16]>::try_from" 16 (rest ++ [0, 0, 0, 0])
        pure (some (.pref64 (slp - slp % 8) len ip))
  else if ty == 5 then
    if value.length != icmpMtuLen then .err "InvalidPacket" else do
      let w ← slice "icmppkt mtu value[2..=5]" value 2 6
      let w ← exactLen "icmppkt mtu try_into" 4 w
      pure (some (.mtu (be w)))
  else if ty == 25 then do
    let w ← slice "icmppkt rdnss value[2..=5]" value 2 6
    let w ← exactLen "icmppkt rdnss try_into" 4 w
    let rest ← slice "icmppkt rdnss value[6..]" value 6 value.length
    pure (some (.rdnss (be w) (chunks16 rest.length rest)))
  else if ty == 3 then
    if value.length != icmpPrefixLen then .err "InvalidPacket" else do
      let plen ← idx "icmppkt prefix value[0]" value 0
      let fl ← idx "icmppkt prefix value[1]" value 1
      let v ← slice "icmppkt prefix value[2..6]" value 2 6
      let v ← exactLen "icmppkt prefix try_into" 4 v
      let p ← slice "icmppkt prefix value[6..10]" value 6 10
      let p ← exactLen "icmppkt prefix try_into" 4 p
      let a ← slice "icmppkt prefix value[14..30]" value 14 30
      let a ← exactLen "icmppkt prefix <[u8;16]>::try_from" 16 a
      pure (some (.prefixInfo plen (fl / 128 % 2 == 1) (fl / 64 % 2 == 1) (be v) (be p) a))
  else pure none

/-- `parse_nd_rtr_options`: `while buf.remaining() > 0` -/
def parseOptions (fuel : Nat) (b : Buf) (acc : List NdOpt) : Out (List NdOpt) :=
  match fuel with
  | 0 => .panic "fuel:parse_nd_rtr_options"
  | fuel + 1 => do
    let r ← b.remaining
    if r == 0 then pure acc.reverse else do
      let (ty, b1) ← b.getU8.orErr "Truncated"
      let (l, b2) ← b1.getU8.orErr "Truncated"
      if icmpZeroLenRejected && l == 0 then .err "Truncated" else do
        let n ← subU "icmppkt l * 8 - 2" (l * icmpOptUnit) icmpOptHeader
        let (value, b3) ← (b2.getBytes n).orErr "Truncated"
        match ← parseOption ty value with
        | some o => parseOptions fuel b3 (o :: acc)
        | none => parseOptions fuel b3 acc

def parse (pkt : List Nat) : Out Msg :=
  if pkt.length < icmpMinLen then .err "Truncated" else do
    let b := Buf.new pkt
    let (ty, b) ← b.getU8.orErr "Truncated"
    let (code, b) ← b.getU8.orErr "Truncated"
    let (_, b) ← b.getBe16.orErr "Truncated"
    if ty == 133 && code == 0 then do
      let (_, b) ← b.getBe32.orErr "Truncated"
      let o ← parseOptions (pkt.length + 1) b []
      pure (.solicit o)
    else if ty == 134 && code == 0 then do
      let (hl, b) ← b.getU8.orErr "Truncated"
      let (mo, b) ← b.getU8.orErr "Truncated"
      let (lt, b) ← b.getBe16.orErr "Truncated"
      let (re, b) ← b.getBe32.orErr "Truncated"
      let (rt, b) ← b.getBe32.orErr "Truncated"
      let o ← parseOptions (pkt.length + 1) b []
      pure (.advert { hopLimit := hl, managed := mo / 128 % 2 == 1, other := mo / 64 % 2 == 1, lifetime := lt,
                      reachable := re, retrans := rt, options := o })
    else pure .unknown

end Erbium.Icmp6
