import ErbiumModel.Model.Safe
import ErbiumModel.Generated.Dns
import ErbiumModel.Generated.Net
/-! The logic of "each query gets exactly one reply, its own" that is not the kernel's or tokio's:
    * the upstream TCP multiplexer of `dns/outquery.rs` (wire id → waiter table) as a state machine
      over arbitrary interleavings of submissions, replies (late, duplicated, unknown, reordered),
      garbage and tear-downs;
    * the UDP retransmission schedule of `send_udp` (growth by ×1.5..×2.5 with jitter, bounded number
      of transmissions);
    * the memory image of the reply's source address handed to `sendmsg` (`ipi_spec_dst`). -/
namespace Erbium.DnsMux
open Erbium.Safe

/-! ### upstream TCP multiplexer -/

/-- outcome handed to a waiting query -/
inductive Res where
  | answer (payloadOf : Nat) (qid : Nat)   -- the reply that carried wire id `payloadOf`, handed over with query id `qid`
  | failed
deriving Repr, DecidableEq

structure Entry where
  wire : Nat        -- id used on the connection
  orig : Nat        -- id the caller chose
  waiter : Nat
deriving Repr, DecidableEq

structure Mux where
  table : List Entry := []
deriving Repr

inductive Ev where
  | submit (waiter qid : Nat)
  | reply (wire : Nat)          -- a well-formed message with this id arrives (any time, any number of times)
  | garbage                     -- an unparsable message arrives
  | teardown                    -- read/write error or idle timeout
deriving Repr

def inFlight (m : Mux) (id : Nat) : Bool := m.table.any (·.wire == id)

/-- the next id not in flight, starting at the caller's, wrapping at 2^16; `none` when all are taken -/
def freshId (m : Mux) (start : Nat) : Nat → Option Nat
  | 0 => none
  | fuel + 1 => if inFlight m (start % 65536) then freshId m (start + 1) fuel else some (start % 65536)

/-- one event; deliveries are `(waiter, outcome)` -/
def step (m : Mux) : Ev → Out (Mux × List (Nat × Res))
  | .submit w qid =>
    if Generated.Net.muxFreshId then
      match freshId m qid 65536 with
      | some id => pure ({ table := { wire := id, orig := qid % 65536, waiter := w } :: m.table }, [])
      | none => pure (m, [(w, .failed)])
    else if inFlight m (qid % 65536) then .panic "assert!(qid2reply.insert(..).is_none())"
    else pure ({ table := { wire := qid % 65536, orig := qid % 65536, waiter := w } :: m.table }, [])
  | .reply id =>
    match m.table.find? (·.wire == id) with
    | some e => pure ({ table := m.table.filter (·.wire != id) }, [(e.waiter, .answer id e.orig)])
    | none => pure (m, [])
  | .garbage => pure (m, [])
  | .teardown => pure ({ table := [] }, m.table.map fun e => (e.waiter, .failed))

/-- a whole schedule -/
def run : Mux → List Ev → Out (Mux × List (Nat × Res))
  | m, [] => pure (m, [])
  | m, e :: es => do
    let (m1, d1) ← step m e
    let (m2, d2) ← run m1 es
    pure (m2, d1 ++ d2)

/-! ### UDP retransmission schedule -/

/-- the timeouts waited, given the jitter drawn at each step (`jitter < timeout`): `timeout += timeout / 2 + jitter` -/
def timeouts : Nat → Nat → List Nat → List Nat
  | 0, _, _ => []
  | n + 1, t, js => t :: timeouts n (t + t / 2 + js.headD 0) js.tail

/-- transmissions made before giving up when nothing is heard: the loop sends, waits, and gives up when
    `attempts.len() > limit` after a wait -/
def transmissions (limit : Nat) : Nat := limit + 1

/-- the longest the waits can add up to -/
def worst : Nat → Nat → Nat
  | 0, _ => 0
  | n + 1, t => t + worst n (t + t / 2 + (t - 1))

/-- `max(min(x, MAX), MIN)` -/
def clamp (x : Nat) : Nat := max (min x Generated.Dns.maxDnsTimeoutMs) Generated.Dns.minDnsTimeoutMs

/-- what a write of the adaptive `DNS_TIMEOUT` stores, given the value computed from the measured durations:
    clamped when the source clamps every write (regenerated), the raw value otherwise -/
def storedTimeout (computed : Nat) : Nat :=
  if Generated.Net.timeoutUpdatesClamped then clamp computed else computed

/-! ### idle timers of an upstream TCP connection -/

structure Timers where
  lastSend : Nat
  lastRecv : Nat
deriving Repr

/-- opening a connection at `now`; without the reset it would inherit the previous connection's timestamps -/
def connect (now : Nat) (old : Timers) : Timers :=
  if Generated.Net.muxConnectResetsTimers then { lastSend := now, lastRecv := now } else old

/-- either watchdog (`sleep_until(last_* + idle)`) has expired at `t` -/
def watchdogFires (c : Timers) (t : Nat) : Bool :=
  decide (c.lastSend + Generated.Net.muxIdleSeconds ≤ t) || decide (c.lastRecv + Generated.Net.muxIdleSeconds ≤ t)

/-! ### reply source address -/

/-- the octets of a `u32` in memory -/
def memImage (littleEndian : Bool) (x : Nat) : List Nat :=
  let be := [x / 16777216 % 256, x / 65536 % 256, x / 256 % 256, x % 256]
  if littleEndian then be.reverse else be

/-- `std_to_libc_in_addr`: the `s_addr` value built from the octets `a.b.c.d` -/
def inAddr (littleEndian : Bool) (a b c d : Nat) : Nat :=
  if Generated.Net.inAddrFromNeBytes then
    (if littleEndian then ((d * 256 + c) * 256 + b) * 256 + a else ((a * 256 + b) * 256 + c) * 256 + d)   -- u32::from_ne_bytes
  else ((a * 256 + b) * 256 + c) * 256 + d                                                                 -- big-endian fold

end Erbium.DnsMux
