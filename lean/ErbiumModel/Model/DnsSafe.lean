import ErbiumModel.Model.Safe
import ErbiumModel.Model.DnsWire
import ErbiumModel.Generated.Pkt
/-! Panic-aware model of `dns/parse.rs` (`PktParser`, `EdnsParser`, `get_dns`): the same decoder as
    `DnsWire.parse`, written over the raw operations of the source so that every slice, every
    arithmetic result and the `panic!` arm of `get_dns` is a proof obligation. -/
namespace Erbium.DnsSafe
open Erbium.Safe Erbium.DnsWire Erbium.Generated.Pkt

structure P where
  buf : Bytes
  off : Nat          -- a compression pointer may set this anywhere in 0..16383, beyond the buffer too
deriving Repr

def peekU8 (p : P) : Out Nat :=
  if dnsPeekU8Guard p.off p.buf.length then idx "PktParser::peek_u8" p.buf p.off else .err "truncated"

def getU8 (p : P) : Out (Nat × P) := do
  let r ← peekU8 p
  pure (r, { p with off := p.off + 1 })

/-- `(self.get_u8()? as u16) * 256 + (self.get_u8()? as u16)` -/
def getU16 (p : P) : Out (Nat × P) := do
  let (a, p) ← getU8 p
  let hi ← fitU "PktParser::get_u16 *256" 16 (a * 256)
  let (b, p) ← getU8 p
  let v ← fitU "PktParser::get_u16 +" 16 (hi + b)
  pure (v, p)

def getU32 (p : P) : Out (Nat × P) := do
  let (a, p) ← getU8 p
  let x3 ← fitU "PktParser::get_u32 *256^3" 32 (a * 16777216)
  let (b, p) ← getU8 p
  let x2 ← fitU "PktParser::get_u32 *256^2" 32 (b * 65536)
  let s2 ← fitU "PktParser::get_u32 +" 32 (x3 + x2)
  let (c, p) ← getU8 p
  let x1 ← fitU "PktParser::get_u32 *256" 32 (c * 256)
  let s1 ← fitU "PktParser::get_u32 +" 32 (s2 + x1)
  let (d, p) ← getU8 p
  let v ← fitU "PktParser::get_u32 +" 32 (s1 + d)
  pure (v, p)

/-- the error message of the failing branch computes `self.buffer.len() - self.offset` -/
def getBytes (p : P) (n : Nat) : Out (Bytes × P) :=
  if dnsGetBytesGuard p.off n p.buf.length then do
    let r ← slice "PktParser::get_bytes" p.buf p.off (p.off + n)
    pure (r, { p with off := p.off + n })
  else do
    let _ ← subU "PktParser::get_bytes error message: len - offset" p.buf.length p.off
    .err "truncated"

def getString (p : P) : Out (Bytes × P) := do
  let (n, p) ← getU8 p
  getBytes p n

def getDomainInto : Nat → P → Nat → Out (Name × P)
  | 0, _, _ => .panic "fuel:get_domain_into"
  | fuel + 1, p, depth => do
    let (pre, p1) ← getU8 p
    if pre == 0 then pure ([], p1)
    else if pre < 64 then do
      let (l, p2) ← getBytes p1 pre
      let (rest, p3) ← getDomainInto fuel p2 depth
      pure (l :: rest, p3)
    else if pre ≥ 192 then
      if depth > Generated.Dns.pointerDepthLimit then .err "compression" else do
        let (lo, p2) ← getU8 p1
        let (rest, _) ← getDomainInto fuel { p2 with off := (pre - 192) * 256 + lo } (depth + 1)
        pure (rest, p2)
    else .err "labeltype"

def getDomain (p : P) : Out (Name × P) := do
  let (d, p') ← getDomainInto (nameFuel p.buf) p 1
  if DnsWire.wireLen d > Generated.Dns.nameOctetLimit then .err "nametoolong" else pure (d, p')

/-- `EdnsParser::get_options` over the rdata of an OPT record -/
def ednsOptions : Nat → Bytes → Out (List (Nat × Bytes))
  | 0, _ => .panic "fuel:EdnsParser::get_options"
  | fuel + 1, b =>
    match b with
    | [] => pure []
    | c1 :: c2 :: l1 :: l2 :: rest => do
      let chi ← fitU "EdnsParser::get_u16 *256" 16 (c1 * 256)
      let code ← fitU "EdnsParser::get_u16 +" 16 (chi + c2)
      let lhi ← fitU "EdnsParser::get_u16 *256" 16 (l1 * 256)
      let len ← fitU "EdnsParser::get_u16 +" 16 (lhi + l2)
      if ednsOptShort rest.length len then .err "edns" else do
        let data ← slice "EdnsParser buffer[0..len]" rest 0 len
        let tail ← slice "EdnsParser buffer[len..]" rest len rest.length
        let os ← ednsOptions fuel tail
        pure ((code, data) :: os)
    | _ => .err "edns"

def rdName (mk : Name → RData) (p : P) : Out (RData × P) := do
  let (d, p) ← getDomain p
  pure (mk d, p)

def rdU16Name (mk : Nat → Name → RData) (p : P) : Out (RData × P) := do
  let (x, p) ← getU16 p
  let (d, p) ← getDomain p
  pure (mk x d, p)

def rdRp (p : P) : Out (RData × P) := do
  let (m, p) ← getDomain p
  let (t, p) ← getDomain p
  pure (.rp m t, p)

def rdNaptr (p : P) : Out (RData × P) := do
  let (order, p) ← getU16 p
  let (pref, p) ← getU16 p
  let (f, p) ← getString p
  let (s, p) ← getString p
  let (r, p) ← getString p
  let (d, p) ← getDomain p
  pure (.naptr order pref f s r d, p)

def rdOpt (rdlen : Nat) (p : P) : Out (RData × P) := do
  let (b, p) ← getBytes p rdlen
  let os ← ednsOptions (b.length + 1) b
  pure (.opt os, p)

def rdSoa (p : P) : Out (RData × P) := do
  let (m, p) ← getDomain p
  let (r, p) ← getDomain p
  let (a, p) ← getU32 p
  let (b, p) ← getU32 p
  let (c, p) ← getU32 p
  let (d, p) ← getU32 p
  let (e, p) ← getU32 p
  pure (.soa m r a b c d e, p)

def rdOther (rdlen : Nat) (p : P) : Out (RData × P) := do
  let (b, p) ← getBytes p rdlen
  pure (.other b, p)

/-- the dispatch of `get_rdata` after the RDLENGTH was read -/
def rdDispatch (rtype rdlen : Nat) (p : P) : Out (RData × P) :=
  if rtype = T_CNAME then rdName .cname p
  else if rtype = T_NS then rdName .ns p
  else if rtype = T_PTR then rdName .ptr p
  else if rtype = T_AFSDB then rdU16Name .afsdb p
  else if rtype = T_RP then rdRp p
  else if rtype = T_RT then rdU16Name .rt p
  else if rtype = T_MX then rdU16Name .mx p
  else if rtype = T_NAPTR then rdNaptr p
  else if rtype = T_OPT then rdOpt rdlen p
  else if rtype = T_SOA then rdSoa p
  else rdOther rdlen p

def getRData (p : P) (rtype : Nat) : Out (RData × P) := do
  let (rdlen, p) ← getU16 p
  rdDispatch rtype rdlen p

def getRR (p : P) : Out (RR × P) := do
  let (domain, p) ← getDomain p
  let (rrtype, p) ← getU16 p
  let (cls, p) ← getU16 p
  let (ttl, p) ← getU32 p
  let (rdata, p) ← getRData p rrtype
  pure ({ domain, cls, rrtype, ttl, rdata }, p)

def getRRs (trunc : Bool) : Nat → P → Out (List RR × P)
  | 0, p => pure ([], p)
  | n + 1, p =>
    if p.off ≥ p.buf.length && trunc then pure ([], p) else do
      let (rr, p) ← getRR p
      let (rs, p) ← getRRs trunc n p
      pure (rr :: rs, p)

/-- `PktParser::get_dns` -/
def parse (buf : Bytes) : Out Pkt := do
  let p : P := { buf, off := 0 }
  let (qid, p) ← getU16 p
  let (flag1, p) ← getU8 p
  let (flag2, p) ← getU8 p
  let (qcount, p) ← getU16 p
  let trunc := flag1 / 2 % 2 = 1
  if qcount ≠ 1 then .err "questions" else do
    let (arcount, p) ← getU16 p
    let (nscount, p) ← getU16 p
    let (adcount, p) ← getU16 p
    let (qdomain, p) ← getDomain p
    let (qtype, p) ← getU16 p
    let (qclass, p) ← getU16 p
    let (answer, p) ← getRRs trunc arcount p
    let (nameserver, p) ← getRRs trunc nscount p
    let (additional, _) ← getRRs trunc adcount p
    let opt := additional.find? (fun rr => rr.rrtype == T_OPT && rr.ttl / 65536 % 256 == 0)
    let ever := opt.map (fun o => o.ttl / 65536 % 256)
    let bufsize := max (match opt with | some o => o.cls | none => 512) 512
    let ercode := match opt with | some o => o.ttl / 16777216 | none => 0
    let edo := match opt with | some o => o.ttl / 32768 % 2 = 1 | none => false
    let edns ← (match opt with
      | none => pure none
      | some x => match x.rdata with
        | .opt o => pure (some o)
        | _ => .panic "get_dns: opt record does not contain opt data")
    pure { qid, rd := flag1 % 2 = 1, tc := trunc, aa := flag1 / 4 % 2 = 1, qr := flag1 / 128 % 2 = 1,
           opcode := flag1 / 8 % 16, cd := flag2 / 32 % 2 = 1, ad := flag2 / 64 % 2 = 1, ra := flag2 / 128 % 2 = 1,
           rcode := (flag2 % 16 + ercode * 16) % 65536, bufsize, ednsVer := ever, ednsDo := edo,
           qdomain, qclass, qtype, answer, nameserver,
           additional := additional.filter (fun rr => rr.rrtype != T_OPT), edns }

end Erbium.DnsSafe

namespace Erbium.DnsSafe
open Erbium.Safe Erbium.DnsWire Erbium.Generated.Pkt

/-- `EdnsData::get_cookie` on the payload of a COOKIE option: `(client, server?)` -/
def getCookie (data : Bytes) : Out (Option (Bytes × Option Bytes)) :=
  if data.length ≥ cookieMinLen then do
    let c ← slice "get_cookie data[..8]" data 0 8
    pure (some (c, if 8 ≤ data.length then some (data.drop 8) else none))     -- `data.get(8..)`
  else pure none

/-- `EdnsData::get_extended_dns_error` on the payload of an EDE option -/
def getEde (data : Bytes) : Out (Option (Nat × Bytes)) :=
  if data.length ≥ edeMinLen then do
    let a ← idx "get_extended_dns_error data[0]" data 0
    let b ← idx "get_extended_dns_error data[1]" data 1
    let info ← slice "get_extended_dns_error data[2..]" data 2 data.length
    pure (some (a * 256 + b, info))
  else pure none

end Erbium.DnsSafe
