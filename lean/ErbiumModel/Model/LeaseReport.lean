import ErbiumModel.Model.DhcpWire
/-! Executable model of `http::leases_json` (the body of `GET /api/v1/leases.json`). -/
namespace Erbium.LeaseReport

structure LRow where
  ip : Nat
  client : List Nat
  start : Nat
  expire : Nat
  /-- the host-name option of the stored option block, lossily decoded to Unicode scalar values
      (`String::from_utf8_lossy`, Rust std — trusted); `none` when the block has no option 12 -/
  host : Option (List Char)

/-- decimal digits, most significant first (what `{}` prints for an unsigned integer) -/
def decDigits : Nat → Nat → List Char
  | 0, _ => []
  | fuel + 1, n => if n < 10 then [Char.ofNat (48 + n)] else decDigits fuel (n / 10) ++ [Char.ofNat (48 + n % 10)]
def dec (n : Nat) : List Char := decDigits (n + 1) n

def hexDigit (n : Nat) : Char := if n < 10 then Char.ofNat (48 + n) else Char.ofNat (87 + n)
/-- `format!("{:0>2x}", b)` -/
def hex2 (b : Nat) : List Char := [hexDigit (b / 16 % 16), hexDigit (b % 16)]
/-- `format!("\\u{:04x}", c)` for c < 0x20 -/
def hex4 (n : Nat) : List Char := [hexDigit (n / 4096 % 16), hexDigit (n / 256 % 16), hexDigit (n / 16 % 16), hexDigit (n % 16)]

def ipStr (ip : Nat) : List Char :=
  dec (ip / 16777216 % 256) ++ ['.'] ++ dec (ip / 65536 % 256) ++ ['.'] ++ dec (ip / 256 % 256) ++ ['.'] ++ dec (ip % 256)

def clientStr : List Nat → List Char
  | [] => []
  | [b] => hex2 b
  | b :: rest => hex2 b ++ [':'] ++ clientStr rest

/-- `json_string`: RFC 8259 §7 — quote, backslash and control characters escaped -/
def escChar (c : Char) : List Char :=
  if c = '"' then ['\\', '"']
  else if c = '\\' then ['\\', '\\']
  else if c.toNat < 0x20 then ['\\', 'u'] ++ hex4 c.toNat
  else [c]
def jsonStringBody (s : List Char) : List Char := s.flatMap escChar
def jsonString (s : List Char) : List Char := ['"'] ++ jsonStringBody s ++ ['"']

def entry (r : LRow) : List Char :=
  " { \"ip\": \"".toList ++ ipStr r.ip ++ "\", \"client_id\": \"".toList ++ clientStr r.client ++
  "\", \"start\": ".toList ++ dec r.start ++ ", \"expire\": ".toList ++ dec r.expire ++
  (match r.host with
   | some h => ", \"host-name\": ".toList ++ jsonString h
   | none => []) ++ " }".toList

def joinEntries : List (List Char) → List Char
  | [] => []
  | [e] => e
  | e :: rest => e ++ ",\n".toList ++ joinEntries rest

def render (rows : List LRow) : List Char :=
  "{ \"leases\" : [\n".toList ++ joinEntries (rows.map entry) ++ "\n]}\n".toList

/-- the option-12 bytes `parse_options(blob).ok().and_then(get_hostname)` looks at -/
def hostBytes (blob : List Nat) : Option (List Nat) :=
  match DhcpWire.parseOptions blob [] with
  | .ok o => (o.find? (·.1 == 12)).map (·.2)
  | .error _ => none

end Erbium.LeaseReport
