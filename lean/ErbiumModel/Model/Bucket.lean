import ErbiumModel.Generated.Dns
/-! Executable model of `crates/erbium-core/src/dns/bucket.rs` (`GenericTokenBucket`), of the
    two-bucket `IpRateLimiter::check` and of the cost / exemption logic of `should_ratelimit`
    in `dns/mod.rs`. Time in whole seconds as the `Clock` trait delivers it. -/
namespace Erbium.Bucket
open Erbium.Generated.Dns (maxTokens tokensPerSecond costFloor)

/-- seconds needed to refill an empty bucket -/
def window : Nat := maxTokens / tokensPerSecond

/-- `get_tokens_with_time`: the time the bucket counts as "last empty", capped so that it never
    holds more than `MAX_TOKENS` (`now - window` is a `u32` subtraction; `now ≥ window` always
    holds for wall-clock seconds) -/
def cap (e now : Nat) : Nat := max e (now - window)

/-- `check`: `tokens ≤ (now - cur) * RATE` computed in `i64` (negative when the bucket is in debt) -/
def check (e now tokens : Nat) : Bool :=
  decide (cap e now ≤ now ∧ tokens ≤ (now - cap e now) * tokensPerSecond)

/-- `deplete` -/
def deplete (e now tokens : Nat) : Nat := cap e now + (tokens + tokensPerSecond - 1) / tokensPerSecond

/-- one query against one bucket: (granted cost, new state) -/
def step (e now cost : Nat) : Nat × Nat :=
  if check e now cost then (cost, deplete e now cost) else (0, e)

/-- a run of (time, cost) arrivals; returns total granted cost and final state -/
def run (e : Nat) : List (Nat × Nat) → Nat × Nat
  | [] => (0, e)
  | (now, cost) :: ops =>
    let r := step e now cost
    let r' := run r.2 ops
    (r.1 + r'.1, r'.2)

/-- the limiter for one source: its two buckets; the first that can pay is charged -/
def limiterStep (s : Nat × Nat) (now cost : Nat) : Bool × (Nat × Nat) :=
  if check s.1 now cost then (true, (deplete s.1 now cost, s.2))
  else if check s.2 now cost then (true, (s.1, deplete s.2 now cost))
  else (false, s)

/-- `should_ratelimit`'s charge: `max((reply*2).saturating_sub(query), FLOOR)` -/
def cost (replyLen queryLen : Nat) : Nat := max (2 * replyLen - queryLen) costFloor

end Erbium.Bucket
