/-! Executable model of `crates/erbium-core/src/dns/router.rs` (`DnsRouteHandler::handle_query`)
    with `Domain::ends_with` and `compare_longest_suffix` of `dnspkt.rs`. -/
namespace Erbium.DnsRoute

abbrev Label := List Nat
abbrev Name := List Label     -- leftmost label first, as on the wire

def lowerByte (b : Nat) : Nat := if 65 ≤ b ∧ b ≤ 90 then b + 32 else b
def lowerLabel (l : Label) : Label := l.map lowerByte
def lowerName (n : Name) : Name := n.map lowerLabel

/-- `Label` equality ignoring ASCII case (`eq_ignore_ascii_case`) -/
def labelEq (a b : Label) : Bool := lowerLabel a == lowerLabel b

/-- `Domain::ends_with`: label-wise suffix, ASCII case-insensitive -/
def endsWith (q s : Name) : Bool :=
  decide (s.length ≤ q.length) && ((q.drop (q.length - s.length)).zip s).all (fun (a, b) => labelEq a b)

/-- derived `Ord` of `Vec<u8>` / `Vec<Label>`: lexicographic, a proper prefix is smaller -/
def lexLt {α : Type} (lt : α → α → Bool) (eq : α → α → Bool) : List α → List α → Bool
  | [], [] => false
  | [], _ :: _ => true
  | _ :: _, [] => false
  | a :: as, b :: bs => lt a b || (eq a b && lexLt lt eq as bs)

def labelLt (a b : Label) : Bool := lexLt (fun x y => decide (x < y)) (fun x y => x == y) a b
def nameLt (a b : Name) : Bool := lexLt labelLt (fun x y => x == y) a b

/-- `compare_longest_suffix(best, s) == Greater`: `s` has more labels, or as many and sorts before `best` -/
def better (best s : Name) : Bool :=
  decide (best.length < s.length) || (best.length == s.length && nameLt s best)

inductive Action where
  | forward (servers : List Nat)    -- `Handler::Forward(dest)`; the query goes to `dest[0]`
  | forgeNxDomain
deriving DecidableEq, Repr

structure Route where
  suffixes : List Name
  action : Action
deriving Repr

/-- the (route index, suffix) pairs in the order the double loop of `handle_query` visits them -/
def pairs : Nat → List Route → List (Nat × Name)
  | _, [] => []
  | i, r :: rs => r.suffixes.map (fun s => (i, s)) ++ pairs (i + 1) rs

/-- one iteration of the inner loop: `(best_route, best_suffix)` after looking at suffix `p.2` of route `p.1` -/
def stepBest (q : Name) (best : Option (Nat × Name)) (p : Nat × Name) : Option (Nat × Name) :=
  if endsWith q p.2 then
    match best with
    | some (_, b) => if better b p.2 then some p else best
    | none => some p
  else best

def select (table : List Route) (q : Name) : Option (Nat × Name) :=
  (pairs 0 table).foldl (stepBest q) none

inductive Outcome where
  | upstream (server : Nat)   -- forwarded to this server
  | refused                   -- Error::NotAuthoritative (no RD)
  | nxdomain                  -- Error::Blocked
  | servfail                  -- Error::NoRouteConfigured
  | panic                     -- `dest[0]` on an empty server list
deriving DecidableEq, Repr

def outcomeOf (a : Action) (rd : Bool) : Outcome :=
  match a with
  | .forward servers => if !rd then .refused else match servers with
    | s :: _ => .upstream s
    | [] => .panic
  | .forgeNxDomain => .nxdomain

def route (table : List Route) (q : Name) (rd : Bool) : Outcome :=
  match select table q with
  | some (i, _) =>
    match table[i]? with
    | some r => outcomeOf r.action rd
    | none => .servfail   -- unreachable (`select_index_valid`)
  | none => .servfail

end Erbium.DnsRoute
