import ErbiumModel.Model.DhcpServer
/-! Executable model of how DHCP address sets are built from the configuration:
    `apply-address` / `apply-range` / `apply-subnet` expansion and the subtraction of
    sub-policies' addresses in `dhcp/config.rs::parse_policy`, and the default pools of
    `dhcp/mod.rs::build_default_config` (already part of `Dhcp.buildDefault`). -/
namespace Erbium.AddrSets
open Erbium.Dhcp (netmask)

inductive Item where
  | address (a : Nat)
  | range (s e : Nat)
  | subnet (net len : Nat)       -- as `Ipv4Subnet::new` accepted it: host bits clear
deriving Repr

/-- `for i in 1..((1 << (32 - len)) - k) { base + i }` with `k` from the source -/
def subnetHosts (net len : Nat) : List Nat :=
  ((List.range ((2 ^ (32 - len)) - Generated.Dhcp.applySubnetUpperMinus)).filter (· ≥ 1)).map (net + ·)

/-- `for i in start..=end` -/
def rangeAddrs (s e : Nat) : List Nat := (List.range (e + 1 - s)).map (s + ·)

def Item.expand : Item → List Nat
  | .address a => [a]
  | .range s e => rangeAddrs s e
  | .subnet net len => subnetHosts net len

/-- a policy as written: its address items (`none` = no apply-address, apply-range or apply-subnet key) and sub-policies -/
inductive PolicyDesc where
  | mk (items : Option (List Item)) (subs : List PolicyDesc)

mutual
/-- `apply_address` of the loaded policy: the union of the items minus every address used by a sub-policy -/
def PolicyDesc.addrs : PolicyDesc → Option (List Nat)
  | .mk items subs =>
    match items with
    | none => none
    | some is => some ((is.flatMap Item.expand).filter fun x => !(usedL subs).contains x)
/-- `get_all_used_addresses` -/
def PolicyDesc.used : PolicyDesc → List Nat
  | .mk items subs =>
    (match items with
     | none => []
     | some is => (is.flatMap Item.expand).filter fun x => !(usedL subs).contains x) ++ usedL subs
def usedL : List PolicyDesc → List Nat
  | [] => []
  | p :: ps => p.used ++ usedL ps
end

-- pre-order list of the loaded address sets
mutual
def PolicyDesc.preorder : PolicyDesc → List (Option (List Nat))
  | .mk items subs => (PolicyDesc.mk items subs).addrs :: preorderL subs
def preorderL : List PolicyDesc → List (Option (List Nat))
  | [] => []
  | p :: ps => p.preorder ++ preorderL ps
end

/-- the default pool `build_default_config` builds for an `addresses` prefix -/
def defaultPool (addr len server : Nat) (used : List Nat) : List Nat :=
  let net := addr &&& netmask len
  ((Dhcp.defaultHostOffsets len).map (net + ·)).filter (fun ip => ip != server && !used.contains ip)

end Erbium.AddrSets
