import ErbiumModel.Model.DnsWire
import ErbiumModel.Model.DnsCache
/-! Executable model of the reply assembly of `crates/erbium-core/src/dns/mod.rs`
    (`create_in_reply`, `add_edns`), of `outquery::create_outquery` and of the size limits the
    transports apply (`prepare_to_send`, `run_udp`, `run_tcp`). -/
namespace Erbium.DnsRelay
open Erbium.DnsWire

/-- `add_edns`: NSID echo (the receiving address as text) and the cookie (client part echoed,
    server part an HMAC — an uninterpreted 32-octet value `serverCookie`) -/
def addEdns (q : Pkt) (localIpText serverCookie : Bytes) : List (Nat × Bytes) :=
  let opts := q.edns.getD []
  let nsid := if (opts.find? (·.1 == 3)).isSome then [(3, localIpText)] else []
  let cookie := match opts.find? (·.1 == 10) with
    | some (_, d) => if d.length ≥ 8 then [(10, d.take 8 ++ serverCookie)] else []
    | none => []
  nsid ++ cookie

/-- `create_in_reply(msg, outr)`; which upstream section feeds which reply section comes from
    the struct literal in the source (`Generated.Dns.reply…`) -/
def createInReply (q outr : Pkt) (localIpText serverCookie : Bytes) : Pkt :=
  { qid := q.qid, rd := false, tc := outr.tc, aa := outr.aa, qr := true, opcode := 0,
    cd := outr.cd, ad := outr.ad, ra := outr.ra, rcode := outr.rcode, bufsize := 4096,
    ednsVer := q.ednsVer.map (fun _ => 0), ednsDo := false,
    qdomain := q.qdomain, qclass := q.qclass, qtype := q.qtype,
    answer := outr.answer,
    nameserver := if Generated.Dns.replyAuthorityFromUpstreamAuthority then outr.nameserver else outr.answer,
    additional := outr.additional,
    edns := some (addEdns q localIpText serverCookie) }

/-- `create_outquery(id, in_query)` -/
def createOutQuery (id : Nat) (q : Pkt) : Pkt :=
  { qid := id, rd := true, tc := false, aa := false, qr := false, opcode := 0, cd := false, ad := false, ra := false,
    rcode := 0, bufsize := 4096, ednsVer := some 0, ednsDo := q.ednsDo,
    qdomain := q.qdomain, qclass := q.qclass, qtype := q.qtype,
    answer := [], nameserver := [], additional := [], edns := some [] }

/-- `clone_with_ttl_decrement` on a whole message (what a cache hit returns; no underflow there by C06) -/
def decTtls (p : Pkt) (d : Nat) : Pkt :=
  { p with answer := p.answer.map (fun r => { r with ttl := r.ttl - d }),
           nameserver := p.nameserver.map (fun r => { r with ttl := r.ttl - d }),
           additional := p.additional.map (fun r => { r with ttl := r.ttl - d }) }

/-- the size limit a transport hands to the serialiser -/
def udpLimit (q : Pkt) : Nat := max q.bufsize Generated.Dns.prepareFloor
def tcpLimit : Nat := 65535

end Erbium.DnsRelay
