import ErbiumModel.Model.Pool
/-! Executable model of `Pool::setup_db` (`crates/erbium-core/src/dhcp/pool.rs`): the durable
    state of the lease database, the migration loop as a sequence of atomic steps (SQLite
    statements, or transactions where the code uses them), and crashes between atomic steps. -/
namespace Erbium.LeaseDb
open Erbium.Pool (Row)

/-- durable state of the SQLite file -/
structure Db where
  /-- `schema_version` table exists -/
  versionTable : Bool
  /-- row `key = 'pool'` of `schema_version` -/
  version : Option Nat
  /-- `leases` table: `none` = absent, `some (hasOptionsColumn, rows)` -/
  leases : Option (Bool × List Row)
deriving Repr

inductive OpenResult where
  | ok (db : Db)
  | refusedNewer (v : Nat)       -- "version … is newer than 1": refused, nothing modified
  | error (why : String)         -- an SQL statement failed
deriving Repr

/-- `ALTER TABLE leases ADD COLUMN options BLOB` -/
def alterAddOptions (db : Db) : Option Db :=
  match db.leases with
  | some (false, rows) => some { db with leases := some (true, rows) }
  | _ => none     -- no such table / duplicate column name

/-- `upgrade_schema_from_no_version`: existing table ⇒ version 0, else create the latest schema -/
def upgradeFromNoVersion (db : Db) : Db × Nat :=
  match db.leases with
  | some _ => (db, 0)
  | none => ({ db with leases := some (true, []) }, 1)

def bump (db : Db) (v : Nat) : Db := { db with version := some v }

/-- One iteration of the migration loop as the list of durable states it passes through
    (a crash can leave any of them) and its outcome. With `transactional` the upgrade statement
    and the version bump commit together. -/
def iteration (transactional : Bool) (db : Db) : List Db × Option (Except String Db) :=
  match db.version with
  | none =>
    let (db1, v) := upgradeFromNoVersion db
    (if transactional then [] else [db1], some (.ok (bump db1 v)))
  | some 0 =>
    match alterAddOptions db with
    | some db1 => (if transactional then [] else [db1], some (.ok (bump db1 1)))
    | none => ([], some (.error "Upgrading to schema version 1"))
  | some 1 => ([], none)                         -- up to date: leave the loop
  | some v => ([], some (.error s!"newer:{v}"))

/-- `setup_db`: returns every durable state a crash may leave behind, and the result -/
def openDb (transactional : Bool) (db0 : Db) : List Db × OpenResult :=
  let db := { db0 with versionTable := true }   -- CREATE TABLE IF NOT EXISTS schema_version
  let rec loop (fuel : Nat) (db : Db) (seen : List Db) : List Db × OpenResult :=
    match fuel with
    | 0 => (seen, .error "migration does not terminate")
    | fuel + 1 =>
      match iteration transactional db with
      | (mid, none) => (seen ++ mid, .ok db)
      | (mid, some (.ok db')) => loop fuel db' (seen ++ mid ++ [db'])
      | (mid, some (.error w)) =>
        (seen ++ mid, match db.version with
          | some v => if v ≥ 2 then .refusedNewer v else .error w
          | none => .error w)
  loop 3 db [db0, db]

def rowsOf (db : Db) : List Row := match db.leases with | some (_, r) => r | none => []

/-- the databases erbium itself (any version) can have left behind cleanly -/
def CleanStart (db : Db) : Prop :=
  (db.versionTable = false ∧ db.version = none ∧ db.leases = none) ∨                      -- brand new file
  (db.version = none ∧ ∃ rows, db.leases = some (false, rows)) ∨                          -- unversioned original schema
  (db.versionTable = true ∧ db.version = some 0 ∧ ∃ rows, db.leases = some (false, rows)) ∨ -- version 0
  (db.versionTable = true ∧ db.version = some 1 ∧ ∃ rows, db.leases = some (true, rows))    -- version 1

end Erbium.LeaseDb
