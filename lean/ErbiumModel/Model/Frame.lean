/-! Executable model of `crates/erbium-net/src/packet.rs`: `partial_netsum`, `finish_netsum`,
    `Fragment::new_ethernet / new_ipv4 / new_udp4` followed by `flatten()`. -/
namespace Erbium.Frame

/-- `partial_netsum(current, buffer)`: big-endian 16-bit words, an odd trailing byte is the high
    byte of a final word. (`u32` additions; the overflow-free range is a hypothesis of the theorems.) -/
def sumWords : List Nat → Nat
  | [] => 0
  | [a] => a * 256
  | a :: b :: rest => a * 256 + b + sumWords rest

def partialNetsum (cur : Nat) (buf : List Nat) : Nat := cur + sumWords buf

def fold1 (s : Nat) : Nat := s / 65536 + s % 65536

/-- `while sum > 0xffff { sum = (sum >> 16) + (sum & 0xFFFF) }` — for a `u32` the loop body runs at
    most twice (`fold_le` proves the result of two steps is ≤ 0xffff). -/
def fold (s : Nat) : Nat :=
  if s > 0xffff then (let s1 := fold1 s; if s1 > 0xffff then fold1 s1 else s1) else s

/-- `!(sum as u16)` after folding -/
def finishNetsum (s : Nat) : Nat := 0xffff - fold s

def be16 (x : Nat) : List Nat := [x / 256 % 256, x % 256]

structure Udp4 where
  src : List Nat      -- 4 octets
  sport : Nat
  smac : List Nat     -- 6 octets
  dst : List Nat
  dport : Nat
  dmac : List Nat
  payload : List Nat

def udpLen (u : Udp4) : Nat := (8 + u.payload.length) % 65536
def udpHeader0 (u : Udp4) : List Nat := be16 u.sport ++ be16 u.dport ++ be16 (udpLen u) ++ [0, 0]
def pseudo (u : Udp4) : List Nat := u.src ++ u.dst ++ [0, 17] ++ be16 (udpLen u)
def udpCsum (u : Udp4) : Nat :=
  finishNetsum (partialNetsum (partialNetsum (partialNetsum 0 (pseudo u)) (udpHeader0 u)) u.payload)
def udpHeader (u : Udp4) : List Nat :=
  be16 u.sport ++ be16 u.dport ++ be16 (udpLen u) ++ be16 (udpCsum u)

def ipTotalLen (u : Udp4) : Nat := (20 + (8 + u.payload.length)) % 65536
def ipHeader0 (u : Udp4) : List Nat :=
  [0x45, 0] ++ be16 (ipTotalLen u) ++ [0, 0, 0, 0, 1, 17] ++ [0, 0] ++ u.src ++ u.dst
def ipCsum (u : Udp4) : Nat := finishNetsum (partialNetsum 0 (ipHeader0 u))
def ipHeader (u : Udp4) : List Nat :=
  [0x45, 0] ++ be16 (ipTotalLen u) ++ [0, 0, 0, 0, 1, 17] ++ be16 (ipCsum u) ++ u.src ++ u.dst

def ethHeader (u : Udp4) : List Nat := u.dmac ++ u.smac ++ [0x08, 0x00]

/-- `Fragment::new_udp4(src, srcmac, dst, dstmac, Tail::Payload(p)).flatten()` -/
def frame (u : Udp4) : List Nat := ethHeader u ++ ipHeader u ++ udpHeader u ++ u.payload

end Erbium.Frame
