/-! Executable model of `crates/erbium-core/src/dns/cache/mod.rs` (`get_entry`,
    `insert_cache_entry`, `calculate_expiry` for replies, `expire`) together with
    `DNSPkt::get_expiry` and `DNSPkt::clone_with_ttl_decrement` of `dnspkt.rs`.
    Time is `tokio::time::Instant` in nanoseconds. -/
namespace Erbium.DnsCache

/-- the part of a reply the cache looks at: the TTLs of the three sections (records keep their
    position; everything else is copied verbatim by `clone`) -/
structure Reply where
  answer : List Nat
  authority : List Nat
  additional : List Nat
deriving DecidableEq, Repr

structure Key where
  qname : List (List Nat)    -- labels, compared byte for byte
  qtype : Nat
  edo : Bool
  cd : Bool
deriving DecidableEq, Repr

structure Entry where
  key : Key
  reply : Reply
  birth : Nat       -- ns
  lifetime : Nat    -- ns
deriving Repr

abbrev Cache := List Entry      -- at most one entry per key (HashMap)

def ns : Nat := 1000000000

def allTtls (r : Reply) : List Nat := r.answer ++ r.authority ++ r.additional

/-- `get_expiry`: the smallest TTL of any record, 0 when there is none (seconds) -/
def getExpiry (r : Reply) : Nat :=
  match allTtls r with
  | [] => 0
  | t :: ts => ts.foldl min t

/-- `u32` subtraction `ttl - decrement`: `none` models the overflow panic -/
def decTtl (d : Nat) (ttl : Nat) : Option Nat := if d ≤ ttl then some (ttl - d) else none

def decAll (d : Nat) (l : List Nat) : Option (List Nat) := l.mapM (decTtl d)

/-- `clone_with_ttl_decrement` -/
def cloneWithTtlDecrement (r : Reply) (d : Nat) : Option Reply := do
  pure { answer := ← decAll d r.answer, authority := ← decAll d r.authority, additional := ← decAll d r.additional }

def find (c : Cache) (k : Key) : Option Entry := c.find? (fun e => e.key == k)

/-- what `handle_query` does with an upstream reply: insert only when the lifetime is positive -/
def resolve (c : Cache) (k : Key) (r : Reply) (now : Nat) : Cache :=
  if getExpiry r > 0 then
    { key := k, reply := r, birth := now, lifetime := getExpiry r * ns } :: c.filter (fun e => e.key != k)
  else c

inductive Lookup where
  | miss
  | hit (r : Reply)
  | panic          -- TTL subtraction would overflow
deriving DecidableEq, Repr

/-- `get_entry` -/
def lookup (c : Cache) (k : Key) (now : Nat) : Lookup :=
  match find c k with
  | some e =>
    if e.birth + e.lifetime ≥ now then
      match cloneWithTtlDecrement e.reply ((now - e.birth) / ns) with
      | some r => .hit r
      | none => .panic
    else .miss
  | none => .miss

/-- `expire` -/
def expire (c : Cache) (now : Nat) : Cache := c.filter (fun e => e.birth + e.lifetime ≥ now)

inductive Op where
  | resolve (k : Key) (r : Reply)
  | expire
  | tick (n : Nat)
deriving Repr

structure State where
  cache : Cache
  now : Nat

def step (s : State) : Op → State
  | .resolve k r => { s with cache := resolve s.cache k r s.now }
  | .expire => { s with cache := expire s.cache s.now }
  | .tick n => { s with now := s.now + n }

def runOps (s : State) (ops : List Op) : State := ops.foldl step s

end Erbium.DnsCache
