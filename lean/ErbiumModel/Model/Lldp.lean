import ErbiumModel.Model.Cursor
import ErbiumModel.Model.Icmp6
/-! Panic-aware model of the LLDP decoder (`lldp/lldppkt.rs::from_wire`) and of the frame-header skip
    in `lldp/mod.rs`. -/
namespace Erbium.Lldp
open Erbium.Safe Erbium.Cursor Erbium.Generated.Pkt

inductive Tlv where
  | endOfPdu
  | chassis (subtype : Nat) (id : List Nat)
  | port (subtype : Nat) (id : List Nat)
  | ttl (n : Nat)
  | portDesc (s : List Nat)
  | sysName (s : List Nat)
  | sysDesc (s : List Nat)
  | caps (sys enabled : Nat)
  | mgmt (af : Nat) (addr : List Nat) (numSub ifNum : Nat) (oid : List Nat)
  | org (oui : List Nat) (subtype : Nat) (value : List Nat)
  | unknown (ty : Nat) (payload : List Nat)
deriving Repr, DecidableEq

/-- `buf.get_vec(buf.remaining())` -/
def getRest (b : Buf) : Out (List Nat × Buf) := do
  let r ← b.remaining
  (b.getBytes r).orErr "eoi"

def getText (b : Buf) : Out (List Nat) := do
  let (v, _) ← getRest b
  if Icmp6.validUtf8 v then pure v else .err "inval"

def parseId (mk : Nat → List Nat → Tlv) (p : Buf) : Out Tlv := do
  let (st, p) ← p.getU8.orErr "eoi"
  if 1 ≤ st && st ≤ 7 then do let (id, _) ← getRest p; pure (mk st id) else .err "inval"

def parseTtl (p : Buf) : Out Tlv := do
  let r ← p.remaining
  if r != 2 then .err "inval" else do
    let (n, _) ← p.getBe16.orErr "eoi"
    pure (.ttl n)

def parseCaps (p : Buf) : Out Tlv := do
  let r ← p.remaining
  if r != 4 then .err "inval" else do
    let (a, p) ← p.getBe16.orErr "eoi"
    let (b, _) ← p.getBe16.orErr "eoi"
    pure (.caps a b)

/-- `mgmt_addr_len`: the length octet minus one (for the address-family octet) -/
def mgmtLen (l0 : Nat) : Out Nat :=
  if lldpMgmtLenChecked then (if l0 == 0 then .err "inval" else pure (l0 - 1))
  else subU "lldppkt mgmt_addr_len - 1" l0 1

def parseMgmt (p : Buf) : Out Tlv := do
  let (l0, p) ← p.getU8.orErr "eoi"
  let alen ← mgmtLen l0
  let (af, p) ← p.getU8.orErr "eoi"
  if !(1 ≤ alen && alen ≤ 32) then .err "inval" else do
    let (addr, p) ← (p.getBytes alen).orErr "eoi"
    let (ns, p) ← p.getU8.orErr "eoi"
    let (ifn, p) ← p.getBe32.orErr "eoi"
    let (ol, p) ← p.getU8.orErr "eoi"
    let (oid, _) ← (p.getBytes ol).orErr "eoi"
    pure (.mgmt af addr ns ifn oid)

def parseOrg (p : Buf) : Out Tlv := do
  let (oui, p) ← (p.getBytes 3).orErr "eoi"
  let (st, p) ← p.getU8.orErr "eoi"
  let (v, _) ← getRest p
  let oui ← exactLen "lldppkt oui try_into().expect" 3 oui
  pure (.org oui st v)

def parseUnknown (ty : Nat) (p : Buf) : Out Tlv := do
  let (v, _) ← getRest p
  pure (.unknown ty v)

def parseBody (ty : Nat) (p : Buf) : Out Tlv :=
  if ty == 0 then pure .endOfPdu
  else if ty == 1 then parseId .chassis p
  else if ty == 2 then parseId .port p
  else if ty == 3 then parseTtl p
  else if ty == 4 then (getText p).bind (fun s => pure (.portDesc s))
  else if ty == 5 then (getText p).bind (fun s => pure (.sysName s))
  else if ty == 6 then (getText p).bind (fun s => pure (.sysDesc s))
  else if ty == 7 then parseCaps p
  else if ty == 8 then parseMgmt p
  else if ty == 127 then parseOrg p
  else parseUnknown ty p

def parseTlv (b : Buf) : Out (Tlv × Buf) := do
  let (t0, b) ← b.getU8.orErr "eoi"
  let (len, b) ← b.getU8.orErr "eoi"
  let (p, b) ← (b.getBuffer len).orErr "eoi"
  let t ← parseBody (t0 / 2) p
  pure (t, b)

/-- `LldpPacket::from_wire`: `while buf.remaining() > 0` -/
def parsePdu (fuel : Nat) (b : Buf) (acc : List Tlv) : Out (List Tlv) :=
  match fuel with
  | 0 => .panic "fuel:LldpPacket::from_wire"
  | fuel + 1 => do
    let r ← b.remaining
    if r == 0 then .err "inval" else do
      let (t, b1) ← parseTlv b
      let _ ← subU "lldppkt tlvs.len() - 1" (acc.length + 1) 1
      if t == .endOfPdu then pure (t :: acc).reverse else parsePdu fuel b1 (t :: acc)

/-- the receive path: skip the 14-octet Ethernet header, decode the rest -/
def decodeFrame (frame : List Nat) : Out (List Tlv) := do
  let pdu ← (if lldpFrameChecked then (if frame.length < lldpHeaderLen then .err "eoi" else pure (frame.drop lldpHeaderLen))
             else slice "lldp msg.buffer[14..]" frame lldpHeaderLen frame.length)
  parsePdu (pdu.length + 1) (Buf.new pdu) []

end Erbium.Lldp
