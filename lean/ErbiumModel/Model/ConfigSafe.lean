import ErbiumModel.Model.Safe
import ErbiumModel.Generated.Pkt
import ErbiumModel.Generated.Dhcp
/-! Panic-aware model of the configuration loader's scalar parsers (`config.rs`) and of the
    arithmetic that an accepted configuration feeds into the handlers (host ranges of `addresses`
    and `apply-subnet`).  `yaml_rust` turns the text into a `Yaml` tree; the model starts there. -/
namespace Erbium.ConfigSafe
open Erbium.Safe Erbium.Generated.Pkt

inductive Yaml where
  | real (s : String)
  | int (i : Int)
  | str (s : String)
  | bool (b : Bool)
  | arr (l : List Yaml)
  | hash
  | alias
  | null
  | bad
deriving Repr

/-- `type_to_name`; for an array it describes the first element -/
def typeToName : Yaml → Out String
  | .real _ => pure "Real"
  | .int _ => pure "Integer"
  | .str _ => pure "String"
  | .bool _ => pure "Boolean"
  | .arr [] => if cfgTypeNameChecked then pure "empty Array" else .panic "type_to_name a[0]"
  | .arr (x :: _) => do let n ← typeToName x; pure ("Array of " ++ n)
  | .hash => pure "Hash"
  | .alias => pure "Alias"
  | .null => pure "Null"
  | .bad => pure "Bad Value"

/-- the error branch of every typed parser formats the offending value's type name -/
def typeError {α : Type} (y : Yaml) : Out α := do
  let _ ← typeToName y
  .err "type"

def parseI64 : Yaml → Out (Option Int)
  | .null => pure none
  | .int i => pure (some i)
  | e => typeError e

/-- `parse_num::<N>` for an `N` holding `lo..=hi` -/
def parseNum (lo hi : Int) (y : Yaml) : Out (Option Int) := do
  match ← parseI64 y with
  | none => pure none
  | some v => if lo ≤ v ∧ v ≤ hi then pure (some v) else .err "range"

def parseString : Yaml → Out (Option String)
  | .null => pure none
  | .str s => pure (some s)
  | e => typeError e

def parseBoolean : Yaml → Out (Option Bool)
  | .null => pure none
  | .bool b => pure (some b)
  | e => typeError e

/-- `parse_array(name, fragment, parser)`: every element parsed, then a null element is an error -/
def parseArray {α : Type} (parser : Yaml → Out (Option α)) : Yaml → Out (Option (List α))
  | .null => pure none
  | .arr l => do
    let vs ← l.mapM parser
    if vs.all Option.isSome then pure (some (vs.filterMap id)) else .err "null-in-array"
  | e => typeError e

/-- `parse_search_domain` -/
def parseSearchDomain (y : Yaml) : Out (Option String) := do
  match ← parseString y with
  | some d => if (d.splitOn ".").any (fun l => l.isEmpty || l.utf8ByteSize > 63) then .err "label" else pure (some d)
  | none => pure none

/-! ### durations -/

def isWhitespace (c : Char) : Bool :=
  let n := c.toNat
  (9 ≤ n && n ≤ 13) || n == 32 || n == 0x85 || n == 0xA0 || n == 0x1680 || (0x2000 ≤ n && n ≤ 0x200A) ||
  n == 0x2028 || n == 0x2029 || n == 0x202F || n == 0x205F || n == 0x3000

def U64 : Nat := 2 ^ 64

/-- a digit joins the pending number: `checked_mul(10)`, `checked_add(digit)` -/
def digitStep (num : Option Nat) (d : Nat) : Out (Option Nat) :=
  if cfgDurationChecked then
    (let v := num.getD 0 * 10 + d; if v < U64 then pure (some v) else .err "too-large")
  else do
    let a ← fitU "str_duration n * 10" 64 (num.getD 0 * 10)
    let b ← fitU "str_duration + c as u64" 64 (a + d + 48)
    pure (some (b - 48))

/-- a unit letter: the pending number (an error when there is none), scaled, joins the total -/
def addUnit (ret : Nat) (num : Option Nat) (scale : Nat) : Out Nat :=
  if cfgDurationChecked then
    match num with
    | none => .err "no-number"
    | some n => if n * scale < U64 ∧ ret + n * scale < U64 then pure (ret + n * scale) else .err "too-large"
  else do
    let n ← unwrap "str_duration num.take().unwrap()" num
    let secs ← fitU "str_duration * scale" 64 (n * scale)
    fitU "str_duration ret += Duration" 64 (ret + secs)

def unitScale (c : Char) : Option Nat :=
  if c == 's' then some 1 else if c == 'm' then some 60 else if c == 'h' then some 3600
  else if c == 'd' then some 86400 else if c == 'w' then some 604800 else none

def strDurationLoop : List Char → Nat → Option Nat → Out Nat
  | [], ret, none => pure ret
  | [], ret, some n => addUnit ret (some n) 1
  | c :: cs, ret, num =>
    if c.isDigit then do
      let num' ← digitStep num (c.toNat - 48)
      strDurationLoop cs ret num'
    else match unitScale c with
      | some k => do
        let ret' ← addUnit ret num k
        strDurationLoop cs ret' none
      | none => if isWhitespace c || c == '_' then strDurationLoop cs ret num else .err "unexpected"

/-- `parse_duration`: an integer is taken as seconds (`*i as u64`), a string is parsed -/
def parseDuration : Yaml → Out (Option Nat)
  | .int i => pure (some (i % (2 ^ 64 : Nat)).toNat)
  | y => do
    match ← parseString y with
    | none => pure none
    | some s => do let d ← strDurationLoop s.toList 0 none; pure (some d)

/-! ### hardware addresses -/

def hexdigit (c : Nat) : Out Nat :=
  if cfgHexdigitArms then
    if 65 ≤ c ∧ c ≤ 70 then do let x ← subU "hexdigit c - b'A'" c 65; fitU "hexdigit + 10" 8 (x + 10)
    else if 97 ≤ c ∧ c ≤ 102 then do let x ← subU "hexdigit c - b'a'" c 97; fitU "hexdigit + 10" 8 (x + 10)
    else if 48 ≤ c ∧ c ≤ 57 then subU "hexdigit c - b'0'" c 48
    else .err "digit"
  else .panic "hexdigit arms changed"

def hexbyte (s : List Nat) : Out Nat :=
  match s with
  | [a, b] => do
    let x ← hexdigit a
    let y ← hexdigit b
    pure ((x * 16) % 256 ||| y)
  | _ => .err "length"

def strHwaddr (s : String) : Out (List Nat) :=
  (s.splitOn ":").mapM fun part => hexbyte (part.toUTF8.toList.map (·.toNat))

def parseHwaddr (y : Yaml) : Out (Option (List Nat)) := do
  match ← parseString y with
  | none => pure none
  | some s => do let h ← strHwaddr s; pure (some h)

/-! ### prefixes -/

/-- Rust's `str::parse::<u8>`: optional `+`, at least one ASCII digit, value below 256 -/
def parseU8 (s : String) : Option Nat :=
  let cs := s.toList
  let ds := match cs with | '+' :: r => r | r => r
  if ds.isEmpty || !ds.all Char.isDigit then none else
  let v := ds.foldl (fun a c => a * 10 + (c.toNat - 48)) 0
  if v < 256 then some v else none

/-- what `std` makes of the address part; supplied with the input (trusted: `Ipv4Addr`/`Ipv6Addr::from_str`) -/
inductive IpKind where
  | v4 (a : Nat) | v6 (a : Nat) | invalid
deriving Repr, DecidableEq

inductive PrefixWant where
  | any | only4 | only6
deriving Repr, DecidableEq

/-- `str_prefix` / `str_prefix4` / `str_prefix6`; result `(family, address, length)` -/
def strPrefix (want : PrefixWant) (s : String) (ip : IpKind) : Out (Nat × Nat × Nat) :=
  let sections := s.splitOn "/"
  if cfgSectionsChecked && sections.length != 2 then .err "sections" else do
    let lenS ← unwrap "str_prefix sections[1]" sections[1]?
    let _ ← unwrap "str_prefix sections[0]" sections[0]?
    match parseU8 lenS with
    | none => .err "prefixlen"
    | some len =>
      match ip, want with
      | .invalid, _ => .err "ip"
      | .v4 _, .only6 => .err "family"
      | .v6 _, .only4 => .err "family"
      | .v4 a, _ => if cfgPrefixLenChecked && len > 32 then .err "too-long" else pure (4, a, len)
      | .v6 a, _ => if cfgPrefixLenChecked && len > 128 then .err "too-long" else pure (6, a, len)

/-! ### what an accepted prefix feeds into the handlers -/

/-- `1_u32 << n` -/
def shlOne32 (site : String) (n : Nat) : Out Nat := if n < 32 then pure (2 ^ n) else .panic site

/-- host offsets of an IPv4 pool: `1..((1_u32 << (32 - prefixlen)) - 1)`; `none` = no pool (prefix shorter than `minLen`) -/
def hostOffsets (minLen len : Nat) : Out (Option (List Nat)) :=
  if len < minLen then pure none else do
    let sh ← subU "32 - prefixlen" 32 len
    let size ← shlOne32 "1_u32 << (32 - prefixlen)" sh
    let hi ← subU "(1 << ..) - 1" size 1
    pure (some ((List.range hi).filter (· ≥ 1)))

/-- `u32::from(network) + offset` for every offset of the pool -/
def hostAddrs (minLen net len : Nat) : Out (Option (List Nat)) := do
  match ← hostOffsets minLen len with
  | none => pure none
  | some offs => do
    let l ← offs.mapM fun o => fitU "u32::from(network) + offset" 32 (net + o)
    pure (some l)

end Erbium.ConfigSafe
