/-! Panic-aware evaluation: every Rust operation that can panic (slice indexing, `unwrap`, integer
    overflow/underflow in a debug build, over-wide shifts) is a primitive here that yields `.panic site`
    exactly when the Rust operation would panic.  Models written on top of these primitives carry the
    guards of the source; `NoPanic` theorems then say the guards suffice. Loops take fuel and
    *panic* when it runs out, so a `NoPanic` theorem is also the loop's termination bound. -/
namespace Erbium.Safe

inductive Out (α : Type) where
  | ok (a : α)
  | err (e : String)       -- `None` / `Err(e)`: the reported-error outcome
  | panic (site : String)
deriving Repr

def Out.bind {α β : Type} (x : Out α) (f : α → Out β) : Out β :=
  match x with
  | .ok a => f a
  | .err e => .err e
  | .panic s => .panic s

instance : Monad Out where
  pure := .ok
  bind := Out.bind

instance : LawfulMonad Out := LawfulMonad.mk'
  (id_map := by intro α x; cases x <;> rfl)
  (pure_bind := by intros; rfl)
  (bind_assoc := by intro α β γ x f g; cases x <;> rfl)

/-- `.ok_or(e)?` / `.map_err(|_| e)?` -/
def Out.orErr {α : Type} (x : Out α) (e : String) : Out α :=
  match x with
  | .err _ => .err e
  | o => o

/-- `x.ok()` / `.and_then`: an error becomes `None`, which the caller handles (never a panic) -/
def Out.toOpt {α : Type} (x : Out α) : Out (Option α) :=
  match x with
  | .ok a => .ok (some a)
  | .err _ => .ok none
  | .panic s => .panic s

def NoPanic {α : Type} (x : Out α) : Prop := ∀ s, x ≠ .panic s

/-- `l[i]` -/
def idx (site : String) (l : List Nat) (i : Nat) : Out Nat :=
  if h : i < l.length then .ok l[i] else .panic site

/-- `l[a..b]` -/
def slice (site : String) (l : List Nat) (a b : Nat) : Out (List Nat) :=
  if a ≤ b ∧ b ≤ l.length then .ok ((l.take b).drop a) else .panic site

/-- `a - b` on an unsigned type -/
def subU (site : String) (a b : Nat) : Out Nat :=
  if b ≤ a then .ok (a - b) else .panic site

/-- the result of an arithmetic operation on a `bits`-wide unsigned type -/
def fitU (site : String) (bits v : Nat) : Out Nat :=
  if v < 2 ^ bits then .ok v else .panic site

/-- `x >> n` on a `bits`-wide type -/
def shrU (site : String) (bits x n : Nat) : Out Nat :=
  if n < bits then .ok (x >>> n) else .panic site

/-- `<[u8; n]>::try_from(v).unwrap()` / `try_into().unwrap()` -/
def exactLen (site : String) (n : Nat) (v : List Nat) : Out (List Nat) :=
  if v.length = n then .ok v else .panic site

def unwrap {α : Type} (site : String) : Option α → Out α
  | some a => .ok a
  | none => .panic site

def ofOpt {α : Type} (e : String) : Option α → Out α
  | some a => .ok a
  | none => .err e

/-! ### reasoning rules -/

@[simp] theorem pure_eq {α : Type} (a : α) : (pure a : Out α) = Out.ok a := rfl
@[simp] theorem noPanic_ok {α : Type} (a : α) : NoPanic (Out.ok a) := by intro s h; cases h
@[simp] theorem noPanic_err {α : Type} (e : String) : NoPanic (Out.err e : Out α) := by intro s h; cases h
@[simp] theorem not_noPanic_panic {α : Type} (s : String) : ¬ NoPanic (Out.panic s : Out α) := fun h => h s rfl

theorem noPanic_bind {α β : Type} {x : Out α} {f : α → Out β}
    (hx : NoPanic x) (hf : ∀ a, x = .ok a → NoPanic (f a)) : NoPanic (x >>= f) := by
  cases x with
  | ok a => exact hf a rfl
  | err e => intro s h; cases h
  | panic s => exact absurd hx (not_noPanic_panic s)

theorem noPanic_orErr {α : Type} {x : Out α} (e : String) (h : NoPanic x) : NoPanic (x.orErr e) := by
  cases x <;> simp_all [Out.orErr]

theorem orErr_ok {α : Type} {x : Out α} {e : String} {a : α} (h : x.orErr e = .ok a) : x = .ok a := by
  cases x <;> simp_all [Out.orErr]

theorem noPanic_toOpt {α : Type} {x : Out α} (h : NoPanic x) : NoPanic x.toOpt := by
  cases x <;> simp_all [Out.toOpt]

@[simp] theorem bind_ok {α β : Type} (a : α) (f : α → Out β) : (Out.ok a >>= f) = f a := rfl
@[simp] theorem bind_err {α β : Type} (e : String) (f : α → Out β) : (Out.err e >>= f) = .err e := rfl
@[simp] theorem bind_panic {α β : Type} (s : String) (f : α → Out β) : (Out.panic s >>= f) = .panic s := rfl

theorem bind_eq_ok {α β : Type} {x : Out α} {f : α → Out β} {b : β} (h : (x >>= f) = .ok b) :
    ∃ a, x = .ok a ∧ f a = .ok b := by
  cases x with
  | ok a => exact ⟨a, rfl, h⟩
  | err e => cases h
  | panic s => cases h

theorem idx_noPanic {site : String} {l : List Nat} {i : Nat} (h : i < l.length) : NoPanic (idx site l i) := by
  simp [idx, h]

theorem idx_ok {site : String} {l : List Nat} {i : Nat} (h : i < l.length) : idx site l i = .ok l[i] := by
  simp [idx, h]

theorem slice_ok {site : String} {l : List Nat} {a b : Nat} (h : a ≤ b) (h2 : b ≤ l.length) :
    slice site l a b = .ok ((l.take b).drop a) := by
  simp [slice, h, h2]

theorem slice_len {l : List Nat} {a b : Nat} (h : a ≤ b) (h2 : b ≤ l.length) : ((l.take b).drop a).length = b - a := by
  simp [List.length_drop, List.length_take]; omega

theorem subU_ok {site : String} {a b : Nat} (h : b ≤ a) : subU site a b = .ok (a - b) := by simp [subU, h]

end Erbium.Safe
