/-! RFC 8259 as a relation between texts and values — the *specification* the lease listing is proved against
    (C20). Relational on purpose: no parser, no fuel; each rule is a production of the RFC's grammar. Only what a
    reader of the RFC would call JSON is derivable (soundness of the rules is what matters here); surrogate-pair
    escapes, fractions, exponents, negative numbers and the literals are omitted (the listing never writes them). -/
namespace Erbium.Spec.Json

/-- values: strings, non-negative integers, arrays, objects (§3) -/
inductive JV where
  | str (s : List Char)
  | num (n : Nat)
  | arr (l : List JV)
  | obj (l : List (List Char × JV))

/-- §2: insignificant whitespace -/
def IsWs (c : Char) : Prop := c = ' ' ∨ c = '\n' ∨ c = '\r' ∨ c = '\t'
def Ws (l : List Char) : Prop := ∀ c ∈ l, IsWs c

def hexVal (c : Char) : Option Nat :=
  if '0' ≤ c ∧ c ≤ '9' then some (c.toNat - 48) else if 'a' ≤ c ∧ c ≤ 'f' then some (c.toNat - 87)
  else if 'A' ≤ c ∧ c ≤ 'F' then some (c.toNat - 55) else none

/-- §7: the two-character escapes -/
def escapeOf (e : Char) : Option Char :=
  if e = '"' then some '"' else if e = '\\' then some '\\' else if e = '/' then some '/'
  else if e = 'b' then some (Char.ofNat 8) else if e = 'f' then some (Char.ofNat 12)
  else if e = 'n' then some '\n' else if e = 'r' then some '\r' else if e = 't' then some '\t' else none

/-- §7: `StrBody text chars` — the text between the quotation marks denotes the characters. Unescaped characters
    are anything from U+0020 up except the quotation mark and the reverse solidus. -/
inductive StrBody : List Char → List Char → Prop
  | nil : StrBody [] []
  | plain (c : Char) (t s : List Char) : 0x20 ≤ c.toNat → c ≠ '"' → c ≠ '\\' → StrBody t s → StrBody (c :: t) (c :: s)
  | esc (e c : Char) (t s : List Char) : escapeOf e = some c → StrBody t s → StrBody ('\\' :: e :: t) (c :: s)
  | uni (a b c d : Char) (x y z w : Nat) (t s : List Char) :
      hexVal a = some x → hexVal b = some y → hexVal c = some z → hexVal d = some w →
      ((x * 16 + y) * 16 + z) * 16 + w < 0xD800 →        -- a code unit that is a scalar value by itself
      StrBody t s → StrBody ('\\' :: 'u' :: a :: b :: c :: d :: t) (Char.ofNat (((x * 16 + y) * 16 + z) * 16 + w) :: s)

def IsDigit (c : Char) : Prop := 48 ≤ c.toNat ∧ c.toNat ≤ 57
def decValue (t : List Char) : Nat := t.foldl (fun acc c => acc * 10 + (c.toNat - 48)) 0

/-- §6: `int = zero / ( digit1-9 *DIGIT )` -/
def DecNum (t : List Char) (n : Nat) : Prop :=
  t ≠ [] ∧ (∀ c ∈ t, IsDigit c) ∧ (t.length > 1 → t.head? ≠ some '0') ∧ decValue t = n

mutual
/-- §2–§5: `Denotes text value` -/
inductive Denotes : List Char → JV → Prop
  | str (b s : List Char) : StrBody b s → Denotes ('"' :: b ++ ['"']) (.str s)
  | num (t : List Char) (n : Nat) : DecNum t n → Denotes t (.num n)
  | ws (w1 t w2 : List Char) (v : JV) : Ws w1 → Ws w2 → Denotes t v → Denotes (w1 ++ t ++ w2) v
  | arrNil (w : List Char) : Ws w → Denotes ('[' :: w ++ [']']) (.arr [])
  | arr (t : List Char) (vs : List JV) : Elems t vs → Denotes ('[' :: t ++ [']']) (.arr vs)
  | objNil (w : List Char) : Ws w → Denotes ('{' :: w ++ ['}']) (.obj [])
  | obj (t : List Char) (ms : List (List Char × JV)) : Members t ms → Denotes ('{' :: t ++ ['}']) (.obj ms)
/-- one or more values separated by commas -/
inductive Elems : List Char → List JV → Prop
  | one (t : List Char) (v : JV) : Denotes t v → Elems t [v]
  | cons (t ts : List Char) (v : JV) (vs : List JV) : Denotes t v → Elems ts vs → Elems (t ++ ',' :: ts) (v :: vs)
/-- one or more `string : value` members separated by commas -/
inductive Members : List Char → List (List Char × JV) → Prop
  | one (w1 kb k w2 vt : List Char) (v : JV) : Ws w1 → StrBody kb k → Ws w2 → Denotes vt v →
      Members (w1 ++ '"' :: kb ++ '"' :: w2 ++ ':' :: vt) [(k, v)]
  | cons (w1 kb k w2 vt ts : List Char) (v : JV) (ms : List (List Char × JV)) :
      Ws w1 → StrBody kb k → Ws w2 → Denotes vt v → Members ts ms →
      Members (w1 ++ '"' :: kb ++ '"' :: w2 ++ ':' :: vt ++ ',' :: ts) ((k, v) :: ms)
end

end Erbium.Spec.Json
