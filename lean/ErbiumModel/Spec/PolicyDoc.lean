import ErbiumModel.Model.DhcpServer
/-! erbium.conf(5), "DHCP Configuration", written down as a specification: which policies *apply* to
    a request, the *chain* of applied policies from the outermost to the innermost, and the option
    table that chain denotes.  Nothing here follows the control flow of `dhcp/mod.rs`: there is no
    response being mutated, only a chain and "the innermost policy that mentions the option wins". -/
namespace Erbium.PolicyDoc
open Erbium.Dhcp

/-- "All match conditions in a policy must match (the conditions are AND'd together)."
    `match-<option>: null` "will only match if the client does not provide that option". -/
def optionCondHolds (req : Req) (cond : Nat × Option Bytes) : Bool :=
  match cond.2, lookupOpt req.pkt.options cond.1 with
  | none, none => true                       -- `null`: the client does not provide the option
  | some w, some have_ => w == have_         -- a value: the client provides exactly it
  | _, _ => false

def condsHold (req : Req) : Policy → Bool
  | .mk _ matchChaddr matchSubnet matchOther _ _ _ =>
    (match matchChaddr with | some m => req.pkt.chaddr == m | none => true) &&
    (match matchSubnet with | some s => subnetContains s req.serverip | none => true) &&
    matchOther.all (optionCondHolds req)

/-- does the policy carry any condition? (the built-in base policy counts as "always") -/
def hasConds : Policy → Bool
  | .mk matchAll matchChaddr matchSubnet matchOther _ _ _ =>
    matchAll || matchChaddr.isSome || matchSubnet.isSome || !matchOther.isEmpty

mutual
/-- "A policy section that contains no matches only matches if one of its subpolicies matches." -/
def applies (req : Req) : Policy → Bool
  | .mk a b c d e f subs =>
    if hasConds (.mk a b c d e f subs) then condsHold req (.mk a b c d e f subs) else anyApplies req subs
def anyApplies (req : Req) : List Policy → Bool
  | [] => false
  | p :: ps => applies req p || anyApplies req ps
end

mutual
/-- the applied policy and, below it, the chain of its first applying sub-policy
    ("A subpolicy is only attempted to be matched if all the enclosing policies matched.") -/
def chainOf (req : Req) : Policy → List Policy
  | .mk a b c d e f subs => .mk a b c d e f subs :: chainIn req subs
/-- "Each policy is considered in turn, with the first policy that successfully matches being the
    policy that is applied." -/
def chainIn (req : Req) : List Policy → List Policy
  | [] => []
  | p :: ps => if applies req p then chainOf req p else chainIn req ps
end

/-- the first of two optional answers -/
def orr {β : Type} (a b : Option β) : Option β :=
  match a with
  | some v => some v
  | none => b

/-- what a policy says about option `k`: nothing, `null` (unset) or a value (a key listed twice: the later listing) -/
def mention (p : Policy) (k : Nat) : Option (Option Bytes) :=
  p.applyOther.foldl (fun acc e => if e.1 == k then some e.2 else acc) none

/-- "options are applied for the outer policies first, then the subpolicies can choose to override
    those values": the innermost policy of the chain that mentions `k` decides -/
def chainValue (chain : List Policy) (k : Nat) : Option (Option Bytes) :=
  chain.reverse.findSome? (mention · k)

/-- netmask (1) / broadcast (28) "of the matched subnet": of the innermost policy of the chain that has a `match-subnet` -/
def subnetValue (s : Nat × Nat) (k : Nat) : Bytes :=
  if k == 1 then ser32 (netmask s.2) else ser32 (subnetBroadcast s)
def subnetDefault (chain : List Policy) (k : Nat) : Option Bytes :=
  chain.reverse.findSome? fun p => p.matchSubnet.map (subnetValue · k)

/-- The option table after a chain was applied on top of `before`.
    * not in the parameter request list: untouched ("assuming the client requested the option");
    * mentioned in the chain: the innermost mention — a value, or `null` which unsets;
    * otherwise what was there before (inherited / default);
    * otherwise, for netmask and broadcast, the matched subnet's. -/
def tableAfter (pl : List Nat) (before : Nat → Option (Option Bytes)) (chain : List Policy) (k : Nat) : Option (Option Bytes) :=
  if !pl.contains k then before k else
  orr (chainValue chain k) (orr (before k) (if k == 1 || k == 28 then (subnetDefault chain k).map some else none))

/-- the address set in force: the innermost policy of the chain that sets one -/
def chainAddress (before : Option (List Nat)) (chain : List Policy) : Option (List Nat) :=
  (chain.reverse.findSome? (·.applyAddress)).orElse fun _ => before

/-- the whole of it: the built-in base policy (top-level defaults) first, the configured policies on top -/
def docTable (cfg : Cfg) (req : Req) (k : Nat) : Option (Option Bytes) :=
  let pl := paramList req
  let r0 : Nat → Option (Option Bytes) := fun k => if k == 54 then some (some (ser32 req.serverip)) else if k == 53 then some (some [2]) else none
  let t1 := tableAfter pl r0 (chainIn req [buildDefault cfg req])
  -- "This can also be the keyword $self4": address-typed values name the receiving interface's address
  tableAfter pl t1 (chainIn req (mapValuesL (resolveSelf req) cfg.policies)) k

/-- what is sent: values only (`null` removed the option) -/
def docSent (cfg : Cfg) (req : Req) (k : Nat) : Option Bytes := (docTable cfg req k).bind id

end Erbium.PolicyDoc
