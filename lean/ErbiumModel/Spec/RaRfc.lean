import ErbiumModel.Model.Radv
/-! A router-advertisement decoder written from the RFCs (4861 §4.2, §4.6; 8106 §5; 8781 §4;
    8910 §2.3) — the *specification* side of C17 — and the values an interface configuration is
    documented to produce. It shares only the configuration types with the model. -/
namespace Erbium.RaRfc
open Erbium.Radv (Bytes Tri Top Intf)

inductive Opt where
  | sourceLL (mac : Bytes)
  | mtu (m : Nat)
  | prefixInfo (len : Nat) (onlink autonomous : Bool) (valid preferred pfx : Nat)
  | rdnss (lifetime : Nat) (servers : List Nat)
  | dnssl (lifetime : Nat) (domains : List (List Bytes))
  | pref64 (lifetime len pfx : Nat)
  | captivePortal (url : Bytes)
deriving Repr, DecidableEq

structure Ra where
  hopLimit : Nat
  managed : Bool
  other : Bool
  lifetime : Nat
  reachableMs : Nat
  retransMs : Nat
  options : List Opt
deriving Repr, DecidableEq

def be (b : Bytes) : Nat := b.foldl (fun acc x => acc * 256 + x) 0

/-- domain names of a DNSSL option: labels 1..63 octets, each name ended by a zero octet, zero
    padding after the last name (`fuel` ≥ number of octets) -/
def dnsslNames : Nat → Bytes → List Bytes → List (List Bytes) → Option (List (List Bytes))
  | 0, _, _, _ => none
  | fuel + 1, b, cur, acc =>
    match b with
    | [] => if cur.isEmpty then some acc else none
    | 0 :: rest =>
      if cur.isEmpty then (if rest.all (· == 0) then some acc else none)   -- padding
      else dnsslNames fuel rest [] (acc ++ [cur])
    | l :: rest =>
      if l > 63 || rest.length < l then none else dnsslNames fuel (rest.drop l) (cur ++ [rest.take l]) acc

def plcLen : Nat → Option Nat
  | 0 => some 96 | 1 => some 64 | 2 => some 56 | 3 => some 48 | 4 => some 40 | 5 => some 32 | _ => none

/-- one option: `(type, length in units of 8, body)`; `none` = malformed for a sender -/
def decodeOpt (ty : Nat) (body : Bytes) : Option Opt :=
  if ty = 1 then some (.sourceLL body)
  else if ty = 5 then
    if body.length = 6 ∧ body.take 2 = [0, 0] then some (.mtu (be (body.drop 2))) else none
  else if ty = 3 then
    if body.length ≠ 30 then none else
    let len := body.getD 0 0
    let fl := body.getD 1 0
    let pfx := be ((body.drop 14).take 16)
    if len > 128 ∨ fl % 64 ≠ 0 ∨ (body.drop 10).take 4 ≠ [0, 0, 0, 0] ∨ pfx % 2 ^ (128 - len) ≠ 0 then none
    else some (.prefixInfo len (fl / 128 % 2 = 1) (fl / 64 % 2 = 1) (be ((body.drop 2).take 4)) (be ((body.drop 6).take 4)) pfx)
  else if ty = 25 then
    if body.length < 22 ∨ (body.length - 6) % 16 ≠ 0 ∨ body.take 2 ≠ [0, 0] then none else
    some (.rdnss (be ((body.drop 2).take 4)) ((List.range ((body.length - 6) / 16)).map fun i => be ((body.drop (6 + 16 * i)).take 16)))
  else if ty = 31 then
    if body.length < 14 ∨ body.take 2 ≠ [0, 0] then none else
    match dnsslNames (body.length + 1) (body.drop 6) [] [] with
    | some ds => if ds.isEmpty then none else some (.dnssl (be ((body.drop 2).take 4)) ds)
    | none => none
  else if ty = 38 then
    if body.length ≠ 14 then none else
    let v := be (body.take 2)
    match plcLen (v % 8) with
    | some len =>
      let pfx := be (body.drop 2) * 2 ^ 32
      if pfx % 2 ^ (128 - len) ≠ 0 then none else some (.pref64 (v / 8 * 8) len pfx)
    | none => none
  else if ty = 37 then
    -- URI followed by NUL padding; the URI itself contains no NUL
    let url := body.takeWhile (· != 0)
    if (body.drop url.length).all (· == 0) then some (.captivePortal url) else none
  else none

def decodeOpts : Nat → Bytes → List Opt → Option (List Opt)
  | 0, _, _ => none
  | fuel + 1, b, acc =>
    match b with
    | [] => some acc
    | ty :: l :: rest =>
      if l = 0 ∨ rest.length < l * 8 - 2 then none else
      match decodeOpt ty (rest.take (l * 8 - 2)) with
      | some o => decodeOpts fuel (rest.drop (l * 8 - 2)) (acc ++ [o])
      | none => none
    | _ => none

/-- RFC 4861 §4.2 -/
def decode (b : Bytes) : Option Ra :=
  if b.length < 16 ∨ b.length % 8 ≠ 0 then none else
  if b.getD 0 0 ≠ 134 ∨ b.getD 1 0 ≠ 0 then none else
  let fl := b.getD 5 0
  if fl % 64 ≠ 0 then none else     -- reserved flag bits
  match decodeOpts (b.length + 1) (b.drop 16) [] with
  | some os =>
    some { hopLimit := b.getD 4 0, managed := fl / 128 % 2 = 1, other := fl / 64 % 2 = 1,
           lifetime := be ((b.drop 6).take 2), reachableMs := be ((b.drop 8).take 4), retransMs := be ((b.drop 12).take 4),
           options := os }
  | none => none

/-! ### what a configuration is documented to advertise -/

def splitDots (d : Bytes) : List Bytes :=
  (d.foldr (fun b (st : List Bytes) => if b = 46 then [] :: st else match st with
    | cur :: rest => (b :: cur) :: rest
    | [] => [[b]]) [[]])

def expected (top : Top) (i : Intf) (ll : Option Bytes) (mtu : Option Nat) (self6 defaultLifetime : Nat) : Ra :=
  let lifetime := match i.lifetime with | .value v => v | _ => defaultLifetime
  let tri {α} (t : Tri α) (d : α) : Option α := match t with | .notSpecified => some d | .dontSet => none | .value v => some v
  let servers := tri i.rdnss (top.dnsServers6.map fun ip => if ip = 0 then self6 else ip)
  let domains := tri i.dnssl top.dnsSearch
  let url := match i.captivePortal with | .notSpecified => top.captivePortal | .dontSet => none | .value v => some v
  let ltOf (t : Tri Nat) : Nat := match t with | .value v => v | _ => 1800
  { hopLimit := i.hoplimit, managed := i.managed, other := i.other,
    lifetime := min lifetime 65535, reachableMs := min (i.reachable * 1000) 0xffffffff, retransMs := min (i.retrans * 1000) 0xffffffff,
    options :=
      (match ll with | some m => [Opt.sourceLL m] | none => []) ++
      (match mtu with | some m => [Opt.mtu m] | none => []) ++
      (i.prefixes.map fun p => Opt.prefixInfo p.len p.onlink p.autonomous (min p.valid 0xffffffff) (min p.preferred 0xffffffff)
        (p.addr / 2 ^ (128 - p.len) * 2 ^ (128 - p.len))) ++
      (match servers with | some (s :: ss) => [Opt.rdnss (min (ltOf i.rdnssLifetime) 0xffffffff) (s :: ss)] | _ => []) ++
      (match domains with | some (d :: ds) => [Opt.dnssl (min (ltOf i.dnsslLifetime) 0xffffffff) ((d :: ds).map splitDots)] | _ => []) ++
      (match i.pref64 with
       | some (lt, p, l) => if [32, 40, 48, 56, 64, 96].contains l then [Opt.pref64 (min (lt / 8 * 8) 65528) l (p / 2 ^ (128 - l) * 2 ^ (128 - l))] else []
       | none => []) ++
      (match url with | some u => [Opt.captivePortal u] | none => []) }

end Erbium.RaRfc
