import ErbiumModel.Model.Frame
/-! Independent reading of a frame (the specification side of C12): an Ethernet / IPv4 (RFC 791) /
    UDP (RFC 768) decoder and checksum verifier written from the RFCs. It shares nothing with
    `Frame.frame` except the one's-complement sum `sumWords`/`fold`. `none` = a receiver accepts the
    frame and reads exactly `u`; `some why` names the first field that is wrong. -/
namespace Erbium.Spec.FrameRfc
open Erbium

def g16 (l : List Nat) (i : Nat) : Nat := l.getD i 0 * 256 + l.getD (i + 1) 0

def validFrame (u : Frame.Udp4) (f : List Nat) : Option String :=
  let eth := f.take 14
  let ip := (f.drop 14).take 20
  let udp := (f.drop 34).take 8
  let pay := f.drop 42
  if f.length < 42 then some "short"
  else if eth.take 6 != u.dmac || (eth.drop 6).take 6 != u.smac then some "mac"
  else if g16 eth 12 != 0x0800 then some "ethertype"
  else if ip.getD 0 0 != 0x45 then some "ip-vhl"
  else if g16 ip 2 != 28 + u.payload.length then some "ip-totlen"
  else if ip.getD 9 0 != 17 then some "ip-proto"
  else if (ip.drop 12).take 4 != u.src || (ip.drop 16).take 4 != u.dst then some "ip-addr"
  else if Frame.fold (Frame.sumWords ip) != 0xffff then some "ip-checksum"
  else if g16 udp 0 != u.sport || g16 udp 2 != u.dport then some "udp-port"
  else if g16 udp 4 != 8 + u.payload.length then some "udp-len"
  else if pay != u.payload then some "payload"
  else if g16 udp 6 != 0 &&
      Frame.fold (Frame.sumWords (u.src ++ u.dst ++ [0, 17] ++ [udp.getD 4 0, udp.getD 5 0] ++ udp ++ pay)) != 0xffff then
    some "udp-checksum"
  else none

end Erbium.Spec.FrameRfc
