import ErbiumModel.Util
import ErbiumModel.Model.DhcpWire
