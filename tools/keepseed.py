#!/usr/bin/env python3
"""keepseed.py <property> <seed dir> <dest name> <check-to-run>[,<check>...]
Confirms a seeded change (tools/confirmseed.sh), runs the named checks against it and stores it under /verif/seeded/<dest name>/."""
import json, os, shutil, subprocess, sys
pid, src, name, checks = sys.argv[1], sys.argv[2], sys.argv[3], sys.argv[4].split(",")
orig = "/tmp/wt-" + pid
pre = os.environ.get("CONFIRM_OUT")   # output of a confirmseed.sh run done beforehand (parallel confirmations)
if pre:
    out = open(pre).read()
else:
    out = subprocess.run(["/verif/tools/confirmseed.sh", src, orig], capture_output=True, text=True).stdout
print(out[-600:])
if "CONFIRM ok" not in out:
    sys.exit("not confirmed")
res = {}
for c in checks:
    r = subprocess.run(["/verif/tools/tryseed.sh", c, src + "/patch.diff"], capture_output=True, text=True)
    lines = [l for l in r.stdout.splitlines() if l.startswith("VIOLATION") or " quick: " in l]
    viol = [l for l in lines if l.startswith("VIOLATION")]
    reps = []
    for l in viol[:3]:
        path = l.split("replay=")[1].split()[0]
        try:
            j = json.load(open(path))
            reps.append({"key": j.get("key"), "kind": j.get("kind"), "input": (j.get("input") or "")[:300]})
        except Exception as e:
            reps.append({"error": str(e)})
    res[c] = {"exit": r.returncode, "violations": len(viol), "no_failing_input": any("no-failing-input-found" in l for l in viol), "replays": reps}
    print(c, res[c]["exit"], len(viol), [x.get("key") for x in reps])
dst = "/verif/seeded/" + name
os.makedirs(dst, exist_ok=True)
for f in ("patch.diff", "demo.diff"):
    shutil.copy(os.path.join(src, f), dst)
meta = json.load(open(os.path.join(src, "meta.json")))
meta["confirmed"] = "patch applies to the pinned commit, cargo test --workspace --offline passes with it, the demo test fails with it and passes without it (tools/confirmseed.sh in a scratch worktree)"
meta["checks"] = res
json.dump(meta, open(os.path.join(dst, "meta.json"), "w"), indent=1)
subprocess.run("rm -rf /verif/replays/*", shell=True)
