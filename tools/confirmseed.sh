#!/bin/bash
# usage: confirmseed.sh <seed dir> <origin worktree path used in demo_cmd>
# Confirms in a scratch worktree (/tmp/wt-confirm) that a seeded change compiles, passes the repo's tests, and that its
# demonstration fails with the change and passes without it.
set -u
d=$1; orig=$2
wt=${CONFIRM_WT:-/tmp/wt-confirm}
lg=/tmp/confirm-$(basename $wt)
[ -d $wt ] || git -C /repo worktree add --detach $wt HEAD -q
cd $wt && git checkout -q -- . && git clean -fdq -e target
# the seed was made against the /repo head of its time: use the newest head it applies to (current head first)
git checkout -q --detach $(git -C /repo rev-parse HEAD)
git apply --check $d/patch.diff 2>/dev/null || git checkout -q --detach ${SEED_BASE:-2f6e929}
export CARGO_TARGET_DIR=$wt/target CARGO_NET_OFFLINE=true
git apply $d/patch.diff || { echo "CONFIRM patch-does-not-apply"; exit 1; }
cargo test --workspace --offline > $lg-tests.log 2>&1
if [ $? -ne 0 ]; then echo "CONFIRM tests-fail-with-change"; grep -E "^test .*FAILED|^error" $lg-tests.log | head; git checkout -q -- .; exit 1; fi
n=$(grep -E "^test result: ok" $lg-tests.log | sed -E 's/.*ok\. ([0-9]+) passed.*/\1/' | paste -sd+ | bc)
echo "passed=$n"
echo "tests pass with change"
git apply $d/demo.diff || { echo "CONFIRM demo-does-not-apply"; git checkout -q -- .; exit 1; }
names=$(grep -E '^\+\s*(pub )?(async )?fn [a-zA-Z0-9_]+' $d/demo.diff | sed -E 's/.*fn ([a-zA-Z0-9_]+).*/\1/' | sort -u)
echo "demo tests: "$names
rc1=0; rc2=0
: > $lg-with.log; : > $lg-without.log
for t in $names; do cargo test --workspace --offline $t >> $lg-with.log 2>&1 || rc1=1; done
git apply -R $d/patch.diff
for t in $names; do cargo test --workspace --offline $t >> $lg-without.log 2>&1 || rc2=1; done
git checkout -q -- . && git clean -fdq -e target
echo "demo rc with change=$rc1 without=$rc2"
if [ $rc1 -ne 0 ] && [ $rc2 -eq 0 ]; then echo "CONFIRM ok"; else echo "CONFIRM demo-unconvincing"; tail -n 5 $lg-with.log $lg-without.log; exit 1; fi
