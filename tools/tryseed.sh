#!/bin/bash
# usage: tryseed.sh <property> <patch.diff> [tier]   -- applies a seeded change to /repo, runs the check, undoes it
set -u
pid=$1; patch=$2; tier=${3:-quick}
cd /repo && git diff --quiet || { echo "repo dirty"; exit 3; }
git -C /repo apply "$patch" || exit 3
cd /verif && ./check $pid --tier $tier 2>&1 | tail -6
rc=${PIPESTATUS[0]}
git -C /repo checkout -- .
# evidence written while a seeded change was applied describes a broken tree: put the committed one back
git -C /verif checkout -- evidence lean/ErbiumModel/Generated 2>/dev/null
exit $rc
