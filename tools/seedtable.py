#!/usr/bin/env python3
"""prints the table of DESIGN.md §7 from seeded/*/meta.json"""
import glob, json, os
print("| id | change | caught by |\n|---|---|---|")
def key(p):
    b = os.path.basename(os.path.dirname(p)); a, n = b.split("-"); return (a, int(n))
for p in sorted(glob.glob("/verif/seeded/*/meta.json"), key=key):
    m = json.load(open(p)); sid = os.path.basename(os.path.dirname(p))
    summ = m["summary"].replace("\n", " ").replace("|", "/")
    summ = summ[:150] + ("..." if len(summ) > 150 else "")
    parts = []
    for c, r in m.get("checks", {}).items():
        if not r.get("violations"):
            parts.append("%s: **missed**" % c)
        elif r.get("no_failing_input") and not any(x.get("key") for x in r.get("replays", [])):
            parts.append("%s: `no-failing-input-found`" % c)
        else:
            k = next((x["key"] for x in r["replays"] if x.get("key")), "?")
            parts.append("%s: failing input `%s`" % (c, k.split("/")[0]))
    print("| %s | %s | %s |" % (sid, summ, "; ".join(parts)))
