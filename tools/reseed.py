#!/usr/bin/env python3
"""reseed.py [id ...] — re-runs the recorded checks against every kept seeded change (tools/tryseed.sh) and refreshes
seeded/<id>/meta.json["checks"]; used after the checks were strengthened, before DESIGN §7 is regenerated."""
import glob, json, os, subprocess, sys
ids = sys.argv[1:] or sorted(os.path.basename(os.path.dirname(p)) for p in glob.glob("/verif/seeded/*/meta.json"))
for sid in ids:
    d = "/verif/seeded/" + sid
    meta = json.load(open(d + "/meta.json"))
    checks = list(meta.get("checks", {}).keys()) or [sid.split("-")[0]]
    if sid.split("-")[0] not in checks:
        checks.insert(0, sid.split("-")[0])
    res = {}
    for c in checks:
        r = subprocess.run(["/verif/tools/tryseed.sh", c, d + "/patch.diff"], capture_output=True, text=True)
        viol = [l for l in r.stdout.splitlines() if l.startswith("VIOLATION")]
        reps = []
        for l in viol[:3]:
            path = l.split("replay=")[1].split()[0]
            try:
                j = json.load(open(path))
                reps.append({"key": j.get("key"), "kind": j.get("kind"), "input": (j.get("input") or "")[:300]})
            except Exception as e:
                reps.append({"error": str(e)})
        res[c] = {"exit": r.returncode, "violations": len(viol), "no_failing_input": any("no-failing-input-found" in l for l in viol), "replays": reps}
        print(sid, c, r.returncode, len(viol), [x.get("key") for x in reps], flush=True)
    meta["checks"] = res
    json.dump(meta, open(d + "/meta.json", "w"), indent=1)
    subprocess.run("rm -rf /verif/replays/*", shell=True)
print("RESEED-DONE")
