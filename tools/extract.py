#!/usr/bin/env python3
"""Translator (T): re-reads /repo's Rust sources and regenerates lean/ErbiumModel/Generated/*.lean.

Deliberately dumb: anchored regular expressions over a function body located by *name*; every
extraction has a shape assertion and fails closed (the extracted item is reported in
Generated/STATUS.json as missing and the Lean constant becomes a sentinel that makes the property
theorems about it unprovable), never keeps an old value.  Files are only rewritten when their
content changes so that lake does not rebuild for nothing.
"""
import json, os, re, sys

REPO = os.environ.get("VERIF_REPO", "/repo")
OUT = os.path.join(os.path.dirname(os.path.abspath(__file__)), "..", "lean", "ErbiumModel", "Generated")
CORE = os.path.join(REPO, "crates/erbium-core/src")
NET = os.path.join(REPO, "crates/erbium-net/src")

status = {}   # item -> {"ok": bool, "value": ..., "where": ...}


def read(path):
    with open(path, encoding="utf-8") as f:
        return f.read()


def strip_comments(src):
    src = re.sub(r"/\*.*?\*/", lambda m: " " * 0 + re.sub(r"[^\n]", " ", m.group(0)), src, flags=re.S)
    src = re.sub(r"//[^\n]*", "", src)
    return src


def fn_body(src, name, nth=0):
    """text of the body of `fn name` (brace matched); None if absent"""
    hits = [m for m in re.finditer(r"\bfn\s+" + re.escape(name) + r"\b", src)]
    if len(hits) <= nth:
        return None
    i = src.find("{", hits[nth].end())
    if i < 0:
        return None
    depth, j = 0, i
    while j < len(src):
        c = src[j]
        if c == "{":
            depth += 1
        elif c == "}":
            depth -= 1
            if depth == 0:
                return src[i:j + 1]
        j += 1
    return None


def rust_int(lit):
    lit = lit.replace("_", "")
    lit = re.sub(r"(u8|u16|u32|u64|usize|i32|i64)$", "", lit)
    if lit.startswith("0x") or lit.startswith("0X"):
        return int(lit[2:], 16)
    if lit.startswith("0b"):
        return int(lit[2:], 2)
    if lit.startswith("0o"):
        return int(lit[2:], 8)
    return int(lit)


def record(item, value, where, ok=True):
    status[item] = {"ok": ok, "value": value, "where": where}
    return value


def grab(item, text, pattern, where, conv=lambda m: m.group(1), flags=re.S):
    """regex-extract with shape assertion; returns None (recorded as missing) when absent"""
    if text is None:
        return record(item, None, where, ok=False)
    m = re.search(pattern, text, flags)
    if not m:
        return record(item, None, where, ok=False)
    try:
        return record(item, conv(m), where)
    except Exception:
        return record(item, None, where, ok=False)


def nat(v, sentinel="0"):
    """Lean numeral; a missing value becomes the sentinel and is flagged in STATUS"""
    return str(v) if v is not None else sentinel


def boolean(v):
    return "true" if v else "false"


def write_if_changed(path, content):
    old = None
    if os.path.exists(path):
        old = read(path)
    if old != content:
        tmp = path + ".tmp%d" % os.getpid()
        with open(tmp, "w", encoding="utf-8") as f:
            f.write(content)
        os.replace(tmp, path)


# ------------------------------------------------------------------------------------------------
def gen_dhcp():
    pkt = strip_comments(read(os.path.join(CORE, "dhcp/dhcppkt.rs")))
    mod = strip_comments(read(os.path.join(CORE, "dhcp/mod.rs")))
    pool = strip_comments(read(os.path.join(CORE, "dhcp/pool.rs")))
    bf = fn_body(pkt, "get_broadcast_flag")
    mask = grab("dhcp.broadcastMask", bf, r"\{\s*self\.flags\s*&\s*([0-9A-Za-z_]+)\s*!=\s*0\s*\}",
                "dhcppkt.rs get_broadcast_flag", lambda m: rust_int(m.group(1)))
    magic_p = grab("dhcp.magicParse", fn_body(pkt, "parse"), r"magic\s*!=\s*([0-9A-Za-z_]+)",
                   "dhcppkt.rs parse", lambda m: rust_int(m.group(1)))
    magic_s = grab("dhcp.magicSerialise", fn_body(pkt, "serialise", nth=-1) if False else pkt,
                   r"/?\s*([0-9A-Za-z_]+)\.serialise\(&mut v\);\s*self\.options\.serialise", "dhcppkt.rs Dhcp::serialise",
                   lambda m: rust_int(m.group(1)))
    # destination choice of the reply (recvdhcp)
    rd = fn_body(mod, "recvdhcp")
    dst = grab("dhcp.dstChoice", rd,
               r"let\s+dst\s*=\s*if\s+(.*?)\s*\{(.*?)\}\s*else\s*\{(.*?)\}\s*;", "dhcp/mod.rs recvdhcp",
               lambda m: (re.sub(r"\s+", "", m.group(1)), re.sub(r"\s+", "", m.group(2)), re.sub(r"\s+", "", m.group(3))))

    def classify(expr):
        if expr is None:
            return "other"
        if "Ipv4Addr::BROADCAST" in expr and "yiaddr" not in expr:
            return "broadcast"
        if re.search(r"\breply\.yiaddr\b", expr) and "BROADCAST" not in expr:
            return "yiaddr"
        return "other"
    cond_ok = dst is not None and dst[0] == "request.pkt.get_broadcast_flag()"
    minl = grab("dhcp.DEFAULT_MIN_LEASE", pool, r"DEFAULT_MIN_LEASE\s*:\s*std::time::Duration\s*=\s*std::time::Duration::from_secs\(([0-9_]+)\)",
                "pool.rs", lambda m: rust_int(m.group(1)))
    maxl = grab("dhcp.DEFAULT_MAX_LEASE", pool, r"DEFAULT_MAX_LEASE\s*:\s*std::time::Duration\s*=\s*std::time::Duration::from_secs\(([0-9_]+)\)",
                "pool.rs", lambda m: rust_int(m.group(1)))
    out = f"""/- GENERATED by tools/extract.py from {REPO} — do not edit. -/
namespace Erbium.Generated.Dhcp

/-- mask tested by `Dhcp::get_broadcast_flag` (dhcppkt.rs) -/
def broadcastMask : Nat := {nat(mask)}
/-- magic cookie compared in `parse` / written by `serialise` -/
def magicParse : Nat := {nat(magic_p)}
def magicSerialise : Nat := {nat(magic_s)}

inductive DstExpr where
  | broadcast | yiaddr | other
deriving DecidableEq, Repr

/-- `let dst = if <cond> {{ <then> }} else {{ <else> }}` in `recvdhcp` -/
def dstCondIsBroadcastFlag : Bool := {boolean(cond_ok)}
def dstThen : DstExpr := .{classify(dst[1] if dst else None)}
def dstElse : DstExpr := .{classify(dst[2] if dst else None)}

def defaultMinLease : Nat := {nat(minl)}
def defaultMaxLease : Nat := {nat(maxl)}

end Erbium.Generated.Dhcp
"""
    write_if_changed(os.path.join(OUT, "Dhcp.lean"), out)


def main():
    os.makedirs(OUT, exist_ok=True)
    gens = [gen_dhcp]
    for g in gens:
        try:
            g()
        except Exception as e:  # fail closed: record, keep going so that other properties still run
            status["generator." + g.__name__] = {"ok": False, "value": repr(e), "where": g.__name__}
    write_if_changed(os.path.join(OUT, "STATUS.json"), json.dumps(status, indent=1, sort_keys=True) + "\n")
    bad = [k for k, v in status.items() if not v["ok"]]
    if bad:
        print("extract: MISSING " + " ".join(bad))
    return 0


if __name__ == "__main__":
    sys.exit(main())
